package main

import (
	"fmt"
	"strings"
	"sync/atomic"

	"github.com/flosch/pongo2/v6"
)

func init() {
	props["C03"] = runC03
	// probes: a filter and a tag registered by the harness whose use is counted
	_ = pongo2.RegisterFilter("verifprobe", func(in *pongo2.Value, p *pongo2.Value) (*pongo2.Value, *pongo2.Error) {
		atomic.AddInt64(&probeFilterRuns, 1)
		return in, nil
	})
	_ = pongo2.RegisterTag("verifprobetag", func(doc *pongo2.Parser, start *pongo2.Token, args *pongo2.Parser) (pongo2.INodeTag, *pongo2.Error) {
		atomic.AddInt64(&probeTagParses, 1)
		return &probeNode{}, nil
	})
}

var probeFilterRuns, probeTagParses, probeTagRuns int64

type probeNode struct{}

func (n *probeNode) Execute(ctx *pongo2.ExecutionContext, w pongo2.TemplateWriter) *pongo2.Error {
	atomic.AddInt64(&probeTagRuns, 1)
	return nil
}

// a minimal valid use of every registered tag (FILE stands for a file the route provides)
var c03TagUse = map[string]string{
	"autoescape": "{% autoescape on %}x{% endautoescape %}", "block": "{% block zz %}x{% endblock %}", "comment": "{% comment %}x{% endcomment %}",
	"cycle": "{% cycle 1 2 %}", "extends": "{% extends \"FILE\" %}", "filter": "{% filter lower %}x{% endfilter %}", "firstof": "{% firstof 1 2 %}",
	"for": "{% for q in \"ab\" %}x{% endfor %}", "if": "{% if 1 %}x{% endif %}", "ifchanged": "{% ifchanged %}x{% endifchanged %}",
	"ifequal": "{% ifequal 1 1 %}x{% endifequal %}", "ifnotequal": "{% ifnotequal 1 2 %}x{% endifnotequal %}", "import": "{% import \"FILE\" mm %}",
	"include": "{% include \"FILE\" %}", "lorem": "{% lorem 1 w %}", "macro": "{% macro zm() %}x{% endmacro %}", "now": "{% now \"2006\" fake %}",
	"set": "{% set zs = 1 %}", "spaceless": "{% spaceless %}x{% endspaceless %}", "ssi": "{% ssi \"FILE\" %}", "templatetag": "{% templatetag openblock %}",
	"widthratio": "{% widthratio 1 2 3 %}", "with": "{% with zw=1 %}x{% endwith %}", "verifprobetag": "{% verifprobetag %}",
}

// where a piece of template code can be written
var c03Routes = []struct{ name, pre, post string }{
	{"top", "", ""}, {"if-body", "{% if 1 %}", "{% endif %}"}, {"else-body", "{% if 0 %}a{% else %}", "{% endif %}"},
	{"for-body", "{% for q in \"a\" %}", "{% endfor %}"}, {"empty-body", "{% for q in \"\" %}a{% empty %}", "{% endfor %}"},
	{"with-body", "{% with zq=1 %}", "{% endwith %}"}, {"macro-body", "{% macro zr() %}", "{% endmacro %}{{ zr() }}"},
	{"block-body", "{% block zb %}", "{% endblock %}"}, {"filter-body", "{% filter lower %}", "{% endfilter %}"},
	{"spaceless-body", "{% spaceless %}", "{% endspaceless %}"}, {"autoescape-body", "{% autoescape off %}", "{% endautoescape %}"},
	{"ifchanged-body", "{% ifchanged %}", "{% endifchanged %}"}, {"nested", "{% if 1 %}{% for q in \"a\" %}{% with zq=1 %}", "{% endwith %}{% endfor %}{% endif %}"},
}

// where a filter can be written (F is replaced by the filter name)
var c03FilterRoutes = []struct{ name, tpl string }{
	{"output", "{{ \"v\"|F }}"}, {"chain-first", "{{ \"v\"|F|lower }}"}, {"chain-last", "{{ \"v\"|lower|F }}"}, {"if-cond", "{% if \"v\"|F %}x{% endif %}"},
	{"for-iter", "{% for q in \"v\"|F %}x{% endfor %}"}, {"with-value", "{% with zq=\"v\"|F %}x{% endwith %}"}, {"set-value", "{% set zs = \"v\"|F %}"},
	{"macro-arg", "{% macro zm(p) %}x{% endmacro %}{{ zm(\"v\"|F) }}"}, {"macro-default", "{% macro zm(p=\"v\"|F) %}x{% endmacro %}"},
	{"subscript", "{{ zz[\"1\"|F] }}"}, {"operand", "{{ 1 + \"2\"|F }}"}, {"filter-tag", "{% filter F %}x{% endfilter %}"},
	{"filter-tag-second", "{% filter lower|F %}x{% endfilter %}"}, {"filter-tag-third", "{% filter lower|upper|F %}x{% endfilter %}"},
	{"cycle-arg", "{% cycle \"v\"|F 2 %}"}, {"firstof-arg", "{% firstof \"v\"|F %}"}, {"ifequal-arg", "{% ifequal \"v\"|F 1 %}x{% endifequal %}"},
	{"include-with", "{% include \"inc.tpl\" with zi=\"v\"|F %}"}, {"widthratio-arg", "{% widthratio 1|F 2 3 %}"}, {"array-item", "{% for q in [\"v\"|F] %}x{% endfor %}"},
	{"elif-cond", "{% if 0 %}a{% elif \"v\"|F %}x{% endif %}"}, {"ifchanged-arg", "{% ifchanged \"v\"|F %}x{% endifchanged %}"}, {"call-arg-nested", "{% macro zm(p) %}x{% endmacro %}{{ zm(zm(\"v\"|F)) }}"},
}

func runC03(r *run) {
	rg := newRng(r.seed)
	gen := func(emit func(caseT)) {
		tags := registeredTags()
		filters := pongo2.VerifRegisteredFilters()
		emitBan := func(kind, name, src string, files map[string]string, entryFile string, lazy bool) {
			w := &world{}
			if kind == "tag" {
				w.banT = []string{name}
			} else {
				w.banF = []string{name}
			}
			fs := map[string]string{"inc.tpl": "I", "lib.tpl": "{% macro mm() export %}m{% endmacro %}", "base.tpl": "<{% block zb %}b{% endblock %}>", "FILE": "F"}
			for k, v := range files {
				fs[k] = v
			}
			w.files = []map[string]string{fs}
			a := w.args(src, nil)
			a = append(a, hexList([]string{"verifprobe"}), hexList([]string{"verifprobetag"}), hx(kind), hx(name), hx(entryFile))
			if lazy {
				a = append(a, "lazy")
			}
			emit(caseT{"ban", a})
		}
		// every registered tag as ban target x every syntactic route
		for _, t := range tags {
			use, ok := c03TagUse[t]
			if !ok {
				use = "{% " + t + " %}"
			}
			use = strings.ReplaceAll(use, "FILE", "inc.tpl")
			if t == "import" {
				use = strings.ReplaceAll(use, "inc.tpl", "lib.tpl")
			}
			if t == "extends" {
				emitBan("tag", t, "{% extends \"base.tpl\" %}{% block zb %}c{% endblock %}", nil, "", false)
			} else {
				for _, rt := range c03Routes {
					if t == "block" && rt.name == "block-body" {
						continue
					}
					emitBan("tag", t, rt.pre+use+rt.post, nil, "", false)
				}
			}
			// file-composition routes: the banned tag sits in another file
			if t != "extends" {
				emitBan("tag", t, "{% include \"sub.tpl\" %}", map[string]string{"sub.tpl": use}, "", false)
				emitBan("tag", t, "{% extends \"par.tpl\" %}", map[string]string{"par.tpl": "<" + use + ">"}, "", false)
				emitBan("tag", t, "{% import \"ml.tpl\" zx %}{{ zx() }}", map[string]string{"ml.tpl": "{% macro zx() export %}" + use + "{% endmacro %}"}, "", false)
				emitBan("tag", t, "{% ssi \"sub.tpl\" parsed %}", map[string]string{"sub.tpl": use}, "", false)
				// the referring tag with each of its options: an optional file that exists is a file
				emitBan("tag", t, "{% include \"sub.tpl\" if_exists %}", map[string]string{"sub.tpl": use}, "", false)
				emitBan("tag", t, "{% include \"sub.tpl\" with za=1 only %}", map[string]string{"sub.tpl": use}, "", false)
				emitBan("tag", t, "{% include \"sub.tpl\" if_exists with za=1 %}", map[string]string{"sub.tpl": use}, "", false)
				emitBan("tag", t, "{% import \"ml.tpl\" zx as zy %}{{ zy() }}", map[string]string{"ml.tpl": "{% macro zx() export %}" + use + "{% endmacro %}"}, "", false)
				if t != "include" && t != "set" {
					emitBan("tag", t, "{% set nm = \"sub.tpl\" %}{% include nm if_exists %}", map[string]string{"sub.tpl": use}, "", true)
					emitBan("tag", t, "{% set nm = \"sub.tpl\" %}{% include nm if_exists with za=1 only %}", map[string]string{"sub.tpl": use}, "", true)
				}
				if t != "include" {
					lazySrc := "{% set nm = \"sub.tpl\" %}{% include nm %}"
					if t == "set" {
						lazySrc = "{% with nm=\"sub.tpl\" %}{% include nm %}{% endwith %}"
					}
					emitBan("tag", t, lazySrc, map[string]string{"sub.tpl": use}, "", true)
					emitBan("tag", t, "", map[string]string{"entry.tpl": "{% include \"d/sub.tpl\" %}", "d/sub.tpl": "{% include \"sub2.tpl\" %}", "d/sub2.tpl": use,
						"d/inc.tpl": "I", "d/lib.tpl": "{% macro mm() export %}m{% endmacro %}"}, "entry.tpl", false)
				}
			}
		}
		// every registered filter as ban target x every route a filter can be written in
		for _, f := range filters {
			for _, rt := range c03FilterRoutes {
				emitBan("filter", f, strings.ReplaceAll(rt.tpl, "F", f), nil, "", false)
			}
			use := "{{ \"v\"|" + f + " }}"
			emitBan("filter", f, "{% include \"sub.tpl\" %}", map[string]string{"sub.tpl": use}, "", false)
			emitBan("filter", f, "{% extends \"par.tpl\" %}", map[string]string{"par.tpl": "<" + use + ">"}, "", false)
			emitBan("filter", f, "{% import \"ml.tpl\" zx %}{{ zx() }}", map[string]string{"ml.tpl": "{% macro zx() export %}" + use + "{% endmacro %}"}, "", false)
			emitBan("filter", f, "{% set nm = \"sub.tpl\" %}{% include nm %}", map[string]string{"sub.tpl": use}, "", true)
			emitBan("filter", f, "{% include \"sub.tpl\" if_exists %}", map[string]string{"sub.tpl": use}, "", false)
			emitBan("filter", f, "{% include \"sub.tpl\" if_exists with za=1 only %}", map[string]string{"sub.tpl": use}, "", false)
			emitBan("filter", f, "{% set nm = \"sub.tpl\" %}{% include nm if_exists %}", map[string]string{"sub.tpl": use}, "", true)
			emitBan("filter", f, "{% ssi \"sub.tpl\" parsed %}", map[string]string{"sub.tpl": use}, "", false)
		}
		// the ban check belongs to the filter syntax, not to the places it is known to be written
		// in: spellings that are (today) syntax errors or unusual must not compile either
		for _, f := range append([]string{"verifprobe"}, filters[:8]...) {
			for _, tpl := range []string{"{{ (zz)|F }}", "{{ (1 + 2)|F }}", "{% if (zz)|F %}y{% endif %}", "{% for a in (zz)|F %}{% endfor %}", "{{ zz.y|F }}", "{{ zz.0|F }}",
				"{{ [1, 2]|F }}", "{{ -1|F }}", "{{ not zz|F }}", "{{ zz|lower:(\"a\"|F) }}", "{{ zz|lower:\"a\"|F }}", "{{ \"a\"|F|F }}", "{{ zz[1]|F }}", "{{ zz(1)|F }}", "{{ zz(1|F) }}",
				"{{ zz|F() }}", "{{ zz | F }}", "{{ zz|F:zz|F }}", "{{ 1 in zz|F }}", "{{ zz|F == 1 }}", "{{ (zz|F) }}", "{{ ((zz))|F }}", "{% macro zm(p=(1)|F) %}{% endmacro %}",
				"{% with a=(zz)|F %}{% endwith %}", "{% set a = (zz)|F %}", "{% filter lower|F:(1) %}x{% endfilter %}", "{{ zz|F:1|F:2 }}", "{{ true|F }}", "{{ 1.5|F }}"} {
				w := &world{banF: []string{f}}
				a := w.args(strings.ReplaceAll(tpl, "F", f), nil)
				a = append(a, hexList([]string{"verifprobe"}), hexList([]string{"verifprobetag"}), hx(f))
				emit(caseT{"banspec", a})
			}
		}
		// other spellings of a banned tag's name are either unknown or banned, never usable
		for _, t := range tags {
			use, ok := c03TagUse[t]
			if !ok {
				use = "{% " + t + " %}"
			}
			use = strings.ReplaceAll(use, "FILE", "inc.tpl")
			for _, sp := range []string{strings.ToUpper(t), strings.ToUpper(t[:1]) + t[1:], t[:len(t)-1] + strings.ToUpper(t[len(t)-1:]), " " + t, t + " "} {
				if sp == t {
					continue
				}
				src := strings.ReplaceAll(strings.ReplaceAll(use, "{% "+t, "{% "+sp), "{% end"+t, "{% end"+sp)
				if src == use {
					continue
				}
				w := &world{banT: []string{t}, files: []map[string]string{{"inc.tpl": "I", "lib.tpl": "{% macro mm() export %}m{% endmacro %}", "base.tpl": "<{% block zb %}b{% endblock %}>"}}}
				a := w.args(src, nil)
				a = append(a, hexList([]string{"verifprobe"}), hexList([]string{"verifprobetag"}), hx(t))
				emit(caseT{"banspec", a})
			}
		}
		// a sandboxed set and an unrestricted one over the SAME loader: what the unrestricted one
		// compiled (or cached) is of no use to the sandboxed one
		for fi, f := range []string{"verifprobe", "upper", "lower", "capfirst", "length", "title", "striptags"} {
			for variant := 0; variant < 6; variant++ {
				emit(caseT{"sharedloader", []string{hx(f), fmt.Sprint(variant), fmt.Sprint(fi)}})
			}
		}
		// histories
		nh := 500
		maxLen := 8
		if r.tier == "thorough" {
			nh = 15000
			maxLen = 14
		}
		for i := 0; i < nh; i++ {
			g := rg.fork(uint64(i))
			files := map[string]string{"a.tpl": "{{ \"x\"|upper }}", "b.tpl": "{% if 1 %}y{% endif %}{{ \"q\"|lower }}", "c.tpl": "{% include \"a.tpl\" %}", "bad.tpl": "{% if %}"}
			var ops []string
			for k := 0; k < 2+g.intn(maxLen-1); k++ {
				switch g.intn(11) {
				case 8: // flushing the cache does not un-create the templates already handed out
					ops = append(ops, g.pick([]string{"X:-", "X:-", "X:" + hxe("a.tpl")}))
				case 9:
					ops = append(ops, "D:"+g.pick([]string{"0", "1"}))
				case 10:
					ops = append(ops, "W:"+hxe("a.tpl")+":"+hxe("changed"))
				case 0, 1:
					ops = append(ops, "B:t:"+hxe(g.pick([]string{"if", "include", "for", "nosuch", "if"})))
				case 2, 3:
					ops = append(ops, "B:f:"+hxe(g.pick([]string{"upper", "lower", "nosuch", "upper"})))
				case 4:
					ops = append(ops, "S:"+hxe(g.pick([]string{"{{ \"x\"|upper }}", "{% if 1 %}z{% endif %}", "plain", "{% if %}", "{{ \"x\"|lower }}", "{% include \"a.tpl\" %}"})))
				case 5:
					ops = append(ops, "F:"+hxe(g.pick([]string{"a.tpl", "b.tpl", "c.tpl", "bad.tpl", "missing.tpl"})))
				case 6:
					ops = append(ops, "C:"+hxe(g.pick([]string{"a.tpl", "b.tpl", "c.tpl", "bad.tpl"})))
				case 7:
					ops = append(ops, g.pick([]string{"R:" + hxe("{{ \"x\"|upper }}"), "RF:" + hxe("b.tpl"), "R:" + hxe("{% for q in \"ab\" %}{{ q }}{% endfor %}"), "R:" + hxe("{% if %}")}))
				}
			}
			emit(caseT{"setops", []string{filesDescr([]map[string]string{files}), strings.Join(ops, ";")}})
		}
	}
	driveCases(r, gen, execC03)
	r.finish(nil)
}

func execBanSpec(r *run, c caseT) {
	w, src, ctx := worldFromArgs(c.args)
	name := unhx(c.args[9])

	o, _ := w.render(src, false, ctx)
	id := r.emit(c.op, c.args, "banspec:"+o.obs)
	r.nontrivial(c.args[0] + c.args[9])
	if o.panicked != nil {
		r.reject(id, "panic", map[string]any{"template": src, "panic": fmt.Sprint(o.panicked)})
		return
	}
	if o.obs != "cerr" && strings.TrimSpace(src) != "" && !(len(w.banT) > 0 && (strings.Contains(src, "{%  ") || strings.Contains(src, "  %}") || o.obs == "cerr")) {
		r.reject(id, "a template that uses the banned name compiled", map[string]any{"template": src, "banned": name, "observed": o.obs})
	} else if o.obs != "cerr" {
		// extra blanks around the name are the same name: then it is the banned tag and must be refused
		r.reject(id, "a template that uses the banned name compiled", map[string]any{"template": src, "banned": name, "observed": o.obs})
	}
}

func execSharedLoader(r *run, c caseT) {
	f := unhx(c.args[0])
	var variant int
	fmt.Sscanf(c.args[1], "%d", &variant)
	files := map[string]string{"part.tpl": "{{ \"v\"|" + f + " }}", "lazy.tpl": "{% set n = \"part.tpl\" %}{% include n %}", "static.tpl": "{% include \"part.tpl\" %}",
		"child.tpl": "{% extends \"part.tpl\" %}", "imp.tpl": "{% import \"lib.tpl\" zm %}{{ zm() }}", "lib.tpl": "{% macro zm() export %}{{ \"v\"|" + f + " }}{% endmacro %}", "ssi.tpl": "{% ssi \"part.tpl\" parsed %}"}
	l := newMemLoader(files)
	open, boxed := pongo2.NewSet("open", l), pongo2.NewSet("boxed", l)
	_ = boxed.BanFilter(f)
	entry := []string{"lazy.tpl", "static.tpl", "child.tpl", "imp.tpl", "ssi.tpl", "part.tpl"}[variant]
	run := func(s *pongo2.TemplateSet, cached bool) string {
		var t *pongo2.Template
		var err error
		if cached {
			t, err = s.FromCache(entry)
		} else {
			t, err = s.FromFile(entry)
		}
		if err != nil {
			return "cerr"
		}
		if _, err = t.Execute(nil); err != nil {
			return "xerr"
		}
		return "ok"
	}
	var obs []string
	for round := 0; round < 2; round++ {
		obs = append(obs, run(open, round == 1), run(boxed, round == 1))
	}
	id := r.emit(c.op, c.args, "sharedloader:"+strings.Join(obs, ","))
	r.nontrivial(c.args[0] + c.args[1])
	if obs[0] != "ok" || obs[2] != "ok" {
		r.reject(id, "the unrestricted set cannot render the control template", map[string]any{"entry": entry, "filter": f, "observed": obs})
		return
	}
	if obs[1] == "ok" || obs[3] == "ok" {
		r.reject(id, "a set that banned a filter rendered a template using it after another set over the same loader had compiled it", map[string]any{"entry": entry, "filter": f, "observed": obs})
	}
}

func execC03(r *run, c caseT) {
	if c.op == "sharedloader" {
		execSharedLoader(r, c)
		return
	}
	if c.op == "banspec" {
		execBanSpec(r, c)
		return
	}
	if c.op == "setops" {
		files := parseFiles(c.args[0])[0]
		ops := strings.Split(c.args[1], ";")
		obs, _, pan := runSetOps(files, ops)
		id := r.emit(c.op, c.args, obs)
		if id%307 == 0 {
			r.sample(map[string]any{"ops": ops, "observed": obs})
		}
		if pan != nil {
			r.reject(id, "panic", map[string]any{"ops": ops, "panic": fmt.Sprint(pan)})
			return
		}
		r.nontrivial(c.args[1])
		// ban-set / frozen-flag model, evaluated on the real observations
		created := false
		bt, bf := map[string]bool{}, map[string]bool{}
		known := func(kind, n string) bool {
			if kind == "t" {
				for _, x := range registeredTags() {
					if x == n {
						return true
					}
				}
				return false
			}
			return pongo2.FilterExists(n)
		}
		parts := strings.Split(obs, ";")
		for i, op := range ops {
			p := strings.Split(op, ":")
			res := strings.SplitN(parts[i], "~", 2)[0]
			snap := strings.Split(strings.SplitN(parts[i], "~", 2)[1], "|")
			switch p[0] {
			case "B":
				n := unhx(p[2])
				set := bt
				if p[1] == "f" {
					set = bf
				}
				wantOK := known(p[1], n) && !created && !set[n]
				if wantOK != (res == "k") {
					r.reject(id, "BanTag/BanFilter accepted or refused wrongly (bans only before the first template, known names, once)", map[string]any{"ops": ops, "step": i, "observed": obs})
					return
				}
				if wantOK {
					set[n] = true
				}
			case "S", "F", "C", "R", "RF":
				created = true
			}
			wantBT, wantBF := []string{}, []string{}
			for k := range bt {
				wantBT = append(wantBT, k)
			}
			for k := range bf {
				wantBF = append(wantBF, k)
			}
			sortStrings(wantBT)
			sortStrings(wantBF)
			c1 := "0"
			if created {
				c1 = "1"
			}
			if snap[0] != c1 || snap[1] != hexList(wantBT) || snap[2] != hexList(wantBF) {
				r.reject(id, "the set's ban lists / first-template flag differ from the ban-set model", map[string]any{"ops": ops, "step": i, "observed": obs})
				return
			}
			// a template that uses a banned tag or filter must not compile
			if p[0] == "S" || p[0] == "R" {
				src := unhx(p[1])
				uses := (bf["upper"] && strings.Contains(src, "|upper")) || (bf["lower"] && strings.Contains(src, "|lower")) ||
					(bt["if"] && strings.Contains(src, "{% if")) || (bt["for"] && strings.Contains(src, "{% for")) || (bt["include"] && strings.Contains(src, "{% include"))
				if uses && (strings.HasPrefix(res, "t") || strings.HasPrefix(res, "ook")) {
					r.reject(id, "a template using a banned tag or filter compiled", map[string]any{"ops": ops, "step": i, "observed": obs})
					return
				}
			}
		}
		return
	}
	// a ban-route case
	w, src, ctx := worldFromArgs(c.args)
	kind, name, entry := unhx(c.args[9]), unhx(c.args[10]), unhx(c.args[11])
	lazy := len(c.args) > 12 && c.args[12] == "lazy"
	f0, t0, t1 := atomic.LoadInt64(&probeFilterRuns), atomic.LoadInt64(&probeTagParses), atomic.LoadInt64(&probeTagRuns)
	var o *outcome
	var b *built
	if entry != "" {
		o, b = w.render(entry, true, ctx)
	} else {
		o, b = w.render(src, false, ctx)
	}
	margs := append([]string{}, c.args...)
	mop := "render"
	if entry != "" {
		// the model driver renders the entry file
		mop, margs[0] = "renderfile", hx(entry)
	}
	id := r.emit(mop, margs, o.obs)
	detail := map[string]any{"banned_" + kind: name, "template": src, "files": w.files, "observed": o.obs}
	if o.panicked != nil {
		r.reject(id, "panic", detail)
		return
	}
	r.nontrivial(c.args[0] + c.args[2] + c.args[4] + c.args[5])
	if lazy {
		if o.obs != "xerr" {
			r.reject(id, "a lazily included template that uses the banned name did not fail", detail)
		}
	} else if o.obs != "cerr" {
		r.reject(id, "a template that uses the banned name compiled", detail)
	}
	if atomic.LoadInt64(&probeFilterRuns) != f0 || atomic.LoadInt64(&probeTagParses) != t0 || atomic.LoadInt64(&probeTagRuns) != t1 {
		if name == "verifprobe" || name == "verifprobetag" {
			r.reject(id, "banned code ran", detail)
		}
	}
	// a banned composition tag must not even fetch its file
	if kind == "tag" && (name == "include" || name == "extends" || name == "import" || name == "ssi") && entry == "" && !strings.Contains(src, "sub.tpl") && !strings.Contains(src, "par.tpl") && !strings.Contains(src, "ml.tpl") {
		for _, l := range b.loaders {
			for f := range l.gets {
				r.reject(id, "a banned "+name+" tag fetched its file", map[string]any{"template": src, "fetched": f})
				return
			}
		}
	}
	// everything not banned keeps working: the same world without the ban compiles the template
	w2 := *w
	w2.banF, w2.banT = nil, nil
	var o2 *outcome
	if entry != "" {
		o2, _ = w2.render(entry, true, ctx)
	} else {
		o2, _ = w2.render(src, false, ctx)
	}
	if o2.obs == "cerr" || o2.panicked != nil {
		r.reject(id, "the control (same template, nothing banned) does not compile: the case proves nothing", detail)
	}
	// and another, unrelated template still compiles under the ban
	other := "{{ \"z\"|center:3 }}{% templatetag openbrace %}"
	if name == "center" || name == "templatetag" {
		other = "{{ \"z\"|ljust:3 }}{% firstof 1 %}"
	}
	o3, _ := w.render(other, false, ctx)
	if o3.obs == "cerr" || o3.panicked != nil {
		r.reject(id, "a template that does not use the banned name stopped compiling", map[string]any{"banned_" + kind: name, "template": other, "observed": o3.obs})
	}
}

func sortStrings(l []string) {
	for i := 1; i < len(l); i++ {
		for j := i; j > 0 && l[j] < l[j-1]; j-- {
			l[j], l[j-1] = l[j-1], l[j]
		}
	}
}
