package main

import (
	"fmt"
	"strings"
	"sync"

	"github.com/flosch/pongo2/v6"
)

func init() { props["C20"] = runC20 }

// C20: histories over {FromCache(n), CleanCache(), CleanCache(n), Debug on/off, change a
// file} on 1..3 names, compared with a map model; and the same cache hit by k goroutines at
// once, counting the loader's fetches.
func runC20(r *run) {
	rg := newRng(r.seed)
	gen := func(emit func(caseT)) {
		n := 1500
		maxLen := 12
		if r.tier == "thorough" {
			n = 40000
			maxLen = 30
		}
		names := []string{"a.tpl", "d/b.tpl", "c.tpl"}
		for i := 0; i < n; i++ {
			g := rg.fork(uint64(i))
			files := map[string]string{"a.tpl": "A0", "d/b.tpl": "B0{% include \"../a.tpl\" %}", "bad.tpl": "{% if %}"}
			var ops []string
			ver := 0
			for k := 0; k < 2+g.intn(maxLen-1); k++ {
				nm := names[g.intn(len(names))]
				switch g.intn(10) {
				case 0, 1, 2, 3:
					ops = append(ops, "C:"+hxe(g.pick([]string{nm, nm, "./" + nm, "bad.tpl", "missing.tpl"})))
				case 4:
					ops = append(ops, "X:-")
				case 5:
					// names are cached under the name the first loader resolves them to, however
					// they are spelled in the call
					ops = append(ops, "X:"+hxe(g.pick([]string{nm, "./" + nm, "x/../" + nm})))
				case 6:
					ops = append(ops, "X:"+hxe(g.pick([]string{nm, "./" + nm}))+","+hxe(names[g.intn(len(names))]))
				case 7:
					ops = append(ops, "D:"+g.pick([]string{"0", "1"}))
				case 8:
					ver++
					ops = append(ops, "W:"+hxe(nm)+":"+hxe(fmt.Sprintf("V%d", ver)))
				case 9:
					ops = append(ops, "RF:"+hxe(nm))
				}
			}
			emit(caseT{"setops", []string{filesDescr([]map[string]string{files}), strings.Join(ops, ";")}})
		}
		// concurrency: k goroutines ask for the same uncached names at once
		nc := 60
		if r.tier == "thorough" {
			nc = 600
		}
		for i := 0; i < nc; i++ {
			emit(caseT{"concurrent", []string{fmt.Sprint(2 + i%7), fmt.Sprint(1 + i%3)}})
		}
	}
	driveCases(r, gen, execC20)
	r.finish(nil)
}

func execC20(r *run, c caseT) {
	if c.op == "concurrent" {
		var k, nn int
		fmt.Sscanf(c.args[0], "%d", &k)
		fmt.Sscanf(c.args[1], "%d", &nn)
		files := map[string]string{}
		for j := 0; j < nn; j++ {
			files[fmt.Sprintf("n%d.tpl", j)] = fmt.Sprintf("T%d", j)
		}
		s := newSetRun(files)
		results := make([][]*pongo2.Template, k)
		var wg sync.WaitGroup
		start := make(chan struct{})
		for gi := 0; gi < k; gi++ {
			wg.Add(1)
			go func(gi int) {
				defer wg.Done()
				<-start
				for j := 0; j < nn; j++ {
					t, err := s.set.FromCache(fmt.Sprintf("n%d.tpl", (j+gi)%nn))
					if err == nil {
						results[gi] = append(results[gi], t)
					}
				}
			}(gi)
		}
		close(start)
		wg.Wait()
		obs := fmt.Sprintf("gets=%d", s.totalGets())
		id := r.emit(c.op, c.args, obs)
		r.nontrivial(c.args[0] + "/" + c.args[1])
		if s.totalGets() != nn {
			r.reject(id, "concurrent FromCache calls loaded a template more than once", map[string]any{"goroutines": k, "names": nn, "loader_gets": s.totalGets()})
		}
		seen := map[string]*pongo2.Template{}
		for gi := range results {
			if len(results[gi]) != nn {
				r.reject(id, "a concurrent FromCache call failed", map[string]any{"goroutines": k})
				return
			}
			for j, t := range results[gi] {
				name := fmt.Sprintf("n%d.tpl", (j+gi)%nn)
				if p, ok := seen[name]; ok && p != t {
					r.reject(id, "concurrent FromCache calls returned different templates for one name", map[string]any{"goroutines": k})
					return
				}
				seen[name] = t
			}
		}
		return
	}
	files := parseFiles(c.args[0])[0]
	ops := strings.Split(c.args[1], ";")
	obs, s, pan := runSetOps(files, ops)
	id := r.emit(c.op, c.args, obs)
	if id%301 == 0 {
		r.sample(map[string]any{"ops": ops, "observed": obs})
	}
	if pan != nil {
		r.reject(id, "panic", map[string]any{"ops": ops, "panic": fmt.Sprint(pan)})
		return
	}
	if len(ops) > 3 {
		r.nontrivial(c.args[1])
	}
	// the map model, evaluated directly on the real results
	cache := map[string]string{} // key -> stamp
	debug := false
	parts := strings.Split(obs, ";")
	prevGets := 0
	for i, op := range ops {
		res := strings.SplitN(parts[i], "~", 2)[0]
		p := strings.Split(op, ":")
		gets := s.fetches[i] - prevGets
		prevGets = s.fetches[i]
		switch p[0] {
		case "C":
			key := pongo2.NewFSLoader(nil).Abs("", unhx(p[1]))
			if debug {
				if st, ok := cache[key]; ok && res == st {
					r.reject(id, "with Debug on, FromCache returned a cached template", map[string]any{"ops": ops, "step": i})
					return
				}
				continue
			}
			if st, ok := cache[key]; ok {
				if res != st {
					r.reject(id, "FromCache returned a different template for a cached name", map[string]any{"ops": ops, "step": i, "observed": obs})
					return
				}
				if gets != 0 {
					r.reject(id, "a cache hit fetched from the loader", map[string]any{"ops": ops, "step": i})
					return
				}
			} else if strings.HasPrefix(res, "t") {
				for _, st := range cache {
					if st == res {
						r.reject(id, "a cache miss returned an already known template", map[string]any{"ops": ops, "step": i})
						return
					}
				}
				cache[key] = res
			}
		case "X":
			if p[1] == "-" {
				cache = map[string]string{}
			} else {
				for _, nme := range parseHexList(p[1]) {
					delete(cache, pongo2.NewFSLoader(nil).Abs("", nme))
				}
			}
		case "D":
			debug = p[1] == "1"
		}
		// the real cache keys must be those of the map model
		keys := parseHexList(strings.Split(parts[i], "|")[3])
		if len(keys) != len(cache) {
			r.reject(id, "the set of cached names differs from the map model", map[string]any{"ops": ops, "step": i, "observed": obs})
			return
		}
		for _, kk := range keys {
			if _, ok := cache[kk]; !ok {
				r.reject(id, "the set of cached names differs from the map model", map[string]any{"ops": ops, "step": i, "observed": obs})
				return
			}
		}
	}
}
