package main

import (
	"fmt"
	"os"
	"path/filepath"
	"strings"
	"sync"
	"time"

	"github.com/flosch/pongo2/v6"
)

func init() { props["C20"] = runC20 }

// C20: histories over {FromCache(n), CleanCache(), CleanCache(n), Debug on/off, change a
// file} on 1..3 names, compared with a map model; and the same cache hit by k goroutines at
// once, counting the loader's fetches.
func runC20(r *run) {
	rg := newRng(r.seed)
	gen := func(emit func(caseT)) {
		n := 1500
		maxLen := 12
		if r.tier == "thorough" {
			n = 40000
			maxLen = 30
		}
		names := []string{"a.tpl", "d/b.tpl", "c.tpl"}
		for i := 0; i < n; i++ {
			g := rg.fork(uint64(i))
			files := map[string]string{"a.tpl": "A0", "d/b.tpl": "B0{% include \"../a.tpl\" %}", "bad.tpl": "{% if %}", "e": "E0{% include \"a.tpl\" %}"}
			var ops []string
			ver := 0
			for k := 0; k < 2+g.intn(maxLen-1); k++ {
				nm := names[g.intn(len(names))]
				switch g.intn(10) {
				case 0, 1, 2, 3:
					// (a name is loaded as it is given and cached under what it resolves to: "e/x/.."
					// is the file e, whose relative references then start from e/x)
					ops = append(ops, "C:"+hxe(g.pick([]string{nm, nm, "./" + nm, "bad.tpl", "missing.tpl", "e", "e/x/..", "q/../e", "d/x/../b.tpl", "x/../" + nm})))
				case 4:
					ops = append(ops, "X:-")
				case 5:
					// names are cached under the name the first loader resolves them to, however
					// they are spelled in the call
					ops = append(ops, "X:"+hxe(g.pick([]string{nm, "./" + nm, "x/../" + nm})))
				case 6:
					ops = append(ops, "X:"+hxe(g.pick([]string{nm, "./" + nm}))+","+hxe(names[g.intn(len(names))]))
				case 7:
					ops = append(ops, "D:"+g.pick([]string{"0", "1"}))
				case 8:
					ver++
					switch g.intn(4) {
					case 0:
						// a file that stops compiling, and (next time round) compiles again
						ops = append(ops, "W:"+hxe(nm)+":"+hxe(g.pick([]string{"{% if %}", "{{ }", "{% nosuchtag %}", "{# open"})))
					case 1:
						// the broken file is repaired
						ops = append(ops, "W:"+hxe("bad.tpl")+":"+hxe(fmt.Sprintf("R%d", ver)))
					default:
						ops = append(ops, "W:"+hxe(nm)+":"+hxe(fmt.Sprintf("V%d", ver)))
					}
				case 9:
					ops = append(ops, "RF:"+hxe(nm))
				}
			}
			emit(caseT{"setops", []string{filesDescr([]map[string]string{files}), strings.Join(ops, ";")}})
		}
		// the same histories against pongo2's own loaders on a real directory, and a set with two
		// loaders in which a name appears in / disappears from the loader in front
		for i := 0; i < 60; i++ {
			emit(caseT{"realfs", []string{fmt.Sprint(i)}})
		}
		for i := 0; i < 24; i++ {
			emit(caseT{"priority", []string{fmt.Sprint(i)}})
		}
		for i := 0; i < 8; i++ {
			emit(caseT{"isolation", []string{fmt.Sprint(i)}})
		}
		// concurrency: k goroutines ask for the same uncached names at once
		nc := 60
		if r.tier == "thorough" {
			nc = 600
		}
		for i := 0; i < nc; i++ {
			emit(caseT{"concurrent", []string{fmt.Sprint(2 + i%7), fmt.Sprint(1 + i%3)}})
		}
		for i := 0; i < nc; i++ {
			emit(caseT{"concdebug", []string{fmt.Sprint(4 + i%9), fmt.Sprint(i)}})
		}
	}
	driveCases(r, gen, execC20)
	r.finish(nil)
}

// execRealFS: load / change the file (same length, same modification time, or not) / CleanCache or
// Debug / load again, through LocalFilesystemLoader (with and without base directory),
// SandboxedFilesystemLoader and FSLoader: a fresh load gives the file's current content.
func execRealFS(r *run, c caseT) {
	var i int
	fmt.Sscanf(c.args[0], "%d", &i)
	dir := filepath.Join(r.outdir, fmt.Sprintf("realfs%d", i))
	must(os.MkdirAll(filepath.Join(dir, "sub"), 0o755))
	name := []string{"page.tpl", "sub/page.tpl", "./page.tpl"}[i%3]
	path := filepath.Join(dir, name)
	write := func(content string, keepTime bool) {
		var mt time.Time
		if fi, err := os.Stat(path); err == nil {
			mt = fi.ModTime()
		}
		must(os.WriteFile(path, []byte(content), 0o644))
		if keepTime && !mt.IsZero() {
			must(os.Chtimes(path, mt, mt))
		}
	}
	write("V1:{{ 1 }}", false)
	var loader pongo2.TemplateLoader
	switch (i / 3) % 4 {
	case 0:
		loader = pongo2.MustNewLocalFileSystemLoader(dir)
	case 1:
		l, err := pongo2.NewSandboxedFilesystemLoader(dir)
		must(err)
		loader = l
	case 2:
		loader = pongo2.NewFSLoader(os.DirFS(dir))
		name = strings.TrimPrefix(name, "./")
	default:
		l := pongo2.MustNewLocalFileSystemLoader("")
		must(l.SetBaseDir(dir))
		loader = l
	}
	set := pongo2.NewSet("realfs", loader)
	how := (i / 12) % 5
	var steps []string
	render := func() string {
		t, err := set.FromCache(name)
		if err != nil {
			return "err:" + err.Error()
		}
		out, err := t.Execute(nil)
		if err != nil {
			return "xerr"
		}
		return out
	}
	steps = append(steps, render())
	write("V2:{{ 2 }}", i%2 == 0)   // same length; the modification time is kept on even cases
	steps = append(steps, render()) // still cached
	want := "V1:1"
	switch how {
	case 0:
		set.CleanCache(name)
		want = "V2:2"
	case 1:
		set.CleanCache()
		want = "V2:2"
	case 2:
		set.Debug = true
		want = "V2:2"
	case 3:
		set.CleanCache("other.tpl") // another name: ours stays cached
	case 4:
		set.CleanCache(filepath.Join(dir, name)) // the resolved spelling of the name
		if (i/3)%4 != 2 {
			want = "V2:2"
		}
	}
	steps = append(steps, render())
	obs := strings.Join(steps, "|")
	id := r.emit(c.op, c.args, "realfs:"+hx(obs))
	r.nontrivial("realfs" + c.args[0])
	detail := map[string]any{"loader": fmt.Sprintf("%T", loader), "name": name, "step": []string{"CleanCache(name)", "CleanCache()", "Debug", "CleanCache(other)", "CleanCache(resolved name)"}[how],
		"same_mtime": i%2 == 0, "observed": steps, "expected_last": want}
	if steps[0] != "V1:1" || steps[1] != "V1:1" {
		r.reject(id, "a cached template was not served from the cache (or could not be loaded)", detail)
		return
	}
	if steps[2] != want {
		r.reject(id, "a load that must be fresh did not give the file's current content (or a cached one was dropped)", detail)
	}
}

// execPriority: two loaders; a name served by the second one; then the first one gets the name
// too (or loses it): after CleanCache / with Debug the first loader that has the name wins.
func execPriority(r *run, c caseT) {
	var i int
	fmt.Sscanf(c.args[0], "%d", &i)
	l0 := newMemLoader(map[string]string{"other.tpl": "o"})
	l1 := newMemLoader(map[string]string{"page.tpl": "DEFAULT", "part.tpl": "dpart"})
	var set *pongo2.TemplateSet
	if i%2 == 0 {
		set = pongo2.NewSet("prio", l0, l1)
	} else {
		set = pongo2.NewSet("prio", l0)
		set.AddLoader(l1)
	}
	src := "page.tpl"
	entry := func() string {
		var t *pongo2.Template
		var err error
		switch (i / 2) % 3 {
		case 0:
			t, err = set.FromCache(src)
		case 1:
			t, err = set.FromFile(src)
		default:
			t, err = set.FromString("{% include \"page.tpl\" %}")
		}
		if err != nil {
			return "err"
		}
		out, err := t.Execute(nil)
		if err != nil {
			return "xerr"
		}
		return out
	}
	var steps []string
	steps = append(steps, entry())
	l0.mu.Lock()
	l0.files["page.tpl"] = "THEME"
	l0.mu.Unlock()
	switch (i / 6) % 4 {
	case 0:
		set.CleanCache("page.tpl")
	case 1:
		set.CleanCache()
	case 2:
		set.Debug = true
	case 3:
		set.CleanCache()
		set.Debug = true
	}
	steps = append(steps, entry())
	l0.mu.Lock()
	delete(l0.files, "page.tpl")
	l0.mu.Unlock()
	set.CleanCache()
	steps = append(steps, entry())
	obs := strings.Join(steps, "|")
	id := r.emit(c.op, c.args, "priority:"+hx(obs))
	r.nontrivial("priority" + c.args[0])
	if obs != "DEFAULT|THEME|DEFAULT" {
		r.reject(id, "after the cache was cleaned (or with Debug) a name is not served by the first loader that has it", map[string]any{"case": i, "observed": steps, "expected": []string{"DEFAULT", "THEME", "DEFAULT"}})
	}
}

// execIsolation: globals, bans, options, debug flag and cache of one set (the package's default set
// included) are invisible to every other set
func execIsolation(r *run, c caseT) {
	var i int
	fmt.Sscanf(c.args[0], "%d", &i)
	files := map[string]string{"p.tpl": "[{{ site }}|{{ shared }}|{{ \"x\"|upper }}]{% if 1 %}\n{% endif %}"}
	other := pongo2.DefaultSet
	if i%2 == 1 {
		other = pongo2.NewSet("other", newMemLoader(files))
	}
	mine := pongo2.NewSet("mine", newMemLoader(files))
	mine.Globals["site"] = "web"
	before, e0 := mine.RenderTemplateFile("p.tpl", nil)
	// things done to the other set
	if other.Globals == nil {
		other.Globals = pongo2.Context{}
	}
	other.Globals["shared"] = "LEAK"
	other.Globals["site"] = "OTHER"
	if i%2 == 0 {
		pongo2.Globals["shared"] = "LEAK" // the package-level alias of the default set's globals
	}
	other.Debug = true
	other.Options.TrimBlocks = true
	if i%2 == 1 {
		_ = other.BanFilter("upper")
	}
	var after string
	var e1 error
	switch (i / 2) % 4 {
	case 0:
		after, e1 = mine.RenderTemplateFile("p.tpl", nil)
	case 1:
		after, e1 = mine.RenderTemplateString(files["p.tpl"], nil)
	case 2:
		t, err := mine.FromCache("p.tpl")
		e1 = err
		if err == nil {
			after, e1 = t.Execute(nil)
		}
	default:
		t, err := mine.FromString("{% include \"p.tpl\" %}")
		e1 = err
		if err == nil {
			after, e1 = t.Execute(nil)
		}
	}
	// undo what was done to the shared default set
	delete(other.Globals, "shared")
	delete(other.Globals, "site")
	delete(pongo2.Globals, "shared")
	other.Debug = false
	other.Options.TrimBlocks = false
	obs := fmt.Sprint(before, e0 != nil, after, e1 != nil)
	id := r.emit(c.op, c.args, "isolation:"+hx(obs))
	r.nontrivial("isolation" + c.args[0])
	want := "[web||X]\n"
	if before != want || after != want || e0 != nil || e1 != nil {
		r.reject(id, "what was done to another template set shows in this one", map[string]any{"other_is_default_set": i%2 == 0, "before": before, "after": after, "expected": want})
	}
}

func execC20(r *run, c caseT) {
	if c.op == "isolation" {
		execIsolation(r, c)
		return
	}
	if c.op == "realfs" {
		execRealFS(r, c)
		return
	}
	if c.op == "priority" {
		execPriority(r, c)
		return
	}
	if c.op == "concdebug" {
		// a set that has created nothing yet, in debug mode: the first requests all at once, by
		// every creating entry point (each of them also marks the set as in use)
		var k int
		fmt.Sscanf(c.args[0], "%d", &k)
		files := map[string]string{"a.tpl": "A{% include \"b.tpl\" %}", "b.tpl": "B"}
		set := pongo2.NewSet("concdebug", newMemLoader(files))
		set.Debug = true
		outs := make([]string, k)
		var wg sync.WaitGroup
		start := make(chan struct{})
		for gi := 0; gi < k; gi++ {
			wg.Add(1)
			go func(gi int) {
				defer wg.Done()
				<-start
				var out string
				var err error
				switch gi % 6 {
				case 0:
					var t *pongo2.Template
					if t, err = set.FromCache("a.tpl"); err == nil {
						out, err = t.Execute(nil)
					}
				case 1:
					var t *pongo2.Template
					if t, err = set.FromFile("a.tpl"); err == nil {
						out, err = t.Execute(nil)
					}
				case 2:
					out, err = set.RenderTemplateFile("a.tpl", nil)
				case 3:
					out, err = set.RenderTemplateString("A{% include \"b.tpl\" %}", nil)
				case 4:
					out, err = set.RenderTemplateBytes([]byte("A{% include \"b.tpl\" %}"), nil)
				default:
					// (configuration calls such as BanTag are not part of this: the set is to be
					// configured before it is used)
					var t *pongo2.Template
					if t, err = set.FromBytes([]byte("A{% include \"b.tpl\" %}")); err == nil {
						out, err = t.Execute(nil)
					}
				}
				if err != nil {
					out = "err:" + err.Error()
				}
				outs[gi] = out
			}(gi)
		}
		close(start)
		wg.Wait()
		id := r.emit(c.op, c.args, "concdebug")
		r.nontrivial("concdebug" + c.args[0] + c.args[1])
		for gi, o := range outs {
			if o != "AB" {
				r.reject(id, "one of the first, simultaneous requests to a fresh set in debug mode failed", map[string]any{"goroutine": gi, "observed": o})
				return
			}
		}
		return
	}
	if c.op == "concurrent" {
		var k, nn int
		fmt.Sscanf(c.args[0], "%d", &k)
		fmt.Sscanf(c.args[1], "%d", &nn)
		files := map[string]string{}
		for j := 0; j < nn; j++ {
			files[fmt.Sprintf("n%d.tpl", j)] = fmt.Sprintf("T%d", j)
		}
		s := newSetRun(files)
		results := make([][]*pongo2.Template, k)
		var wg sync.WaitGroup
		start := make(chan struct{})
		for gi := 0; gi < k; gi++ {
			wg.Add(1)
			go func(gi int) {
				defer wg.Done()
				<-start
				for j := 0; j < nn; j++ {
					t, err := s.set.FromCache(fmt.Sprintf("n%d.tpl", (j+gi)%nn))
					if err == nil {
						results[gi] = append(results[gi], t)
					}
				}
			}(gi)
		}
		close(start)
		wg.Wait()
		obs := fmt.Sprintf("gets=%d", s.totalGets())
		id := r.emit(c.op, c.args, obs)
		r.nontrivial(c.args[0] + "/" + c.args[1])
		if s.totalGets() != nn {
			r.reject(id, "concurrent FromCache calls loaded a template more than once", map[string]any{"goroutines": k, "names": nn, "loader_gets": s.totalGets()})
		}
		seen := map[string]*pongo2.Template{}
		for gi := range results {
			if len(results[gi]) != nn {
				r.reject(id, "a concurrent FromCache call failed", map[string]any{"goroutines": k})
				return
			}
			for j, t := range results[gi] {
				name := fmt.Sprintf("n%d.tpl", (j+gi)%nn)
				if p, ok := seen[name]; ok && p != t {
					r.reject(id, "concurrent FromCache calls returned different templates for one name", map[string]any{"goroutines": k})
					return
				}
				seen[name] = t
			}
		}
		return
	}
	files := parseFiles(c.args[0])[0]
	ops := strings.Split(c.args[1], ";")
	obs, s, pan := runSetOps(files, ops)
	id := r.emit(c.op, c.args, obs)
	if id%301 == 0 {
		r.sample(map[string]any{"ops": ops, "observed": obs})
	}
	if pan != nil {
		r.reject(id, "panic", map[string]any{"ops": ops, "panic": fmt.Sprint(pan)})
		return
	}
	if len(ops) > 3 {
		r.nontrivial(c.args[1])
	}
	// the map model, evaluated directly on the real results
	cache := map[string]string{} // key -> stamp
	debug := false
	parts := strings.Split(obs, ";")
	prevGets := 0
	for i, op := range ops {
		res := strings.SplitN(parts[i], "~", 2)[0]
		p := strings.Split(op, ":")
		gets := s.fetches[i] - prevGets
		prevGets = s.fetches[i]
		switch p[0] {
		case "C":
			key := pongo2.NewFSLoader(nil).Abs("", unhx(p[1]))
			if debug {
				if st, ok := cache[key]; ok && res == st {
					r.reject(id, "with Debug on, FromCache returned a cached template", map[string]any{"ops": ops, "step": i})
					return
				}
				continue
			}
			if st, ok := cache[key]; ok {
				if res != st {
					r.reject(id, "FromCache returned a different template for a cached name", map[string]any{"ops": ops, "step": i, "observed": obs})
					return
				}
				if gets != 0 {
					r.reject(id, "a cache hit fetched from the loader", map[string]any{"ops": ops, "step": i})
					return
				}
			} else if strings.HasPrefix(res, "t") {
				for _, st := range cache {
					if st == res {
						r.reject(id, "a cache miss returned an already known template", map[string]any{"ops": ops, "step": i})
						return
					}
				}
				cache[key] = res
			}
		case "X":
			if p[1] == "-" {
				cache = map[string]string{}
			} else {
				for _, nme := range parseHexList(p[1]) {
					delete(cache, pongo2.NewFSLoader(nil).Abs("", nme))
				}
			}
		case "D":
			debug = p[1] == "1"
		}
		// the real cache keys must be those of the map model
		keys := parseHexList(strings.Split(parts[i], "|")[3])
		if len(keys) != len(cache) {
			r.reject(id, "the set of cached names differs from the map model", map[string]any{"ops": ops, "step": i, "observed": obs})
			return
		}
		for _, kk := range keys {
			if _, ok := cache[kk]; !ok {
				r.reject(id, "the set of cached names differs from the map model", map[string]any{"ops": ops, "step": i, "observed": obs})
				return
			}
		}
	}
}
