package main

import (
	"encoding/json"
	"errors"
	"fmt"
	"regexp"
	"sort"
	"strings"

	"github.com/flosch/pongo2/v6"
)

func init() { props["C02"] = runC02 }

// Every string leaf of the context carries this marker; literal text and string literals of
// the generated templates are free of < > ' " &, so any of < > ' " in the output can only
// come from the context, unescaped.
const c02Marker = "<&'\">"

// Go's placeholder for values that have no text form ("<[]interface {} Value>") is not
// context data.
var rePlaceholder = regexp.MustCompile(`<[\[\]\w\s{}.*]+ Value>`)

func hasRaw(out string) bool {
	return strings.ContainsAny(rePlaceholder.ReplaceAllString(out, ""), "<>'\"")
}

type stringerT struct{ s string }

func (s stringerT) String() string { return s.s }

type ptrStringerT struct{ s string }

func (s *ptrStringerT) String() string { return s.s }

func runC02(r *run) {
	rg := newRng(r.seed)
	gen := func(emit func(caseT)) {
		n := 4000
		if r.tier == "thorough" {
			n = 120000
		}
		for i := 0; i < n; i++ {
			g := newProgGen(rg.fork(uint64(i)))
			g.noOptOut = true
			g.taint = c02Marker
			g.allowInc = i%3 == 0
			src := g.program(3)
			w := &world{}
			if len(g.files) > 0 {
				w.files = []map[string]string{g.files}
			}
			emit(caseT{"render", w.args(src, g.context(i%2))})
		}
		// every registered filter applied once to a tainted value and printed
		for _, f := range pongo2.VerifRegisteredFilters() {
			if f == "safe" || f == "truncatechars_html" || f == "truncatewords_html" {
				continue
			}
			g := newProgGen(rg.fork(7))
			g.taint = c02Marker
			w := &world{}
			for _, p := range []string{"", ":2", ":\"x\"", ":s2", ":n1"} {
				emit(caseT{"render", append(w.args("{{ s1|"+f+p+" }}/{{ lst|"+f+p+" }}", g.context(0)),
					hexList([]string{"verifprobe"}), hexList([]string{"verifprobetag"}))})
			}
		}
		// `safe` on one operand of a printed expression is not an opt-out for the other operands
		for _, src := range []string{
			`{{ "Hello "|safe + s1 }}`, `{{ s1 + " x"|safe }}`, `{{ "a"|safe + s1 + "b"|safe }}`, `{{ s1|safe + s2 }}`, `{{ s2 + s1|safe }}`,
			`{{ lst.0 + s2|safe }}`, `{{ "p"|safe + m.k }}`, `{% firstof ""|safe + s1 %}`, `{% firstof e|safe + s2 "z" %}`, `{% firstof e s1 + "q"|safe %}`,
			`{% with q="z"|safe + s1 %}{{ q }}{% endwith %}`, `{% for x in lst %}{{ "i"|safe + x }}{% endfor %}`, `{% cycle "a"|safe + s1 s2 %}`,
			`{{ "a"|safe + (s1) }}`, `{{ ("a"|safe) + s1 }}`, `{{ "n"|safe + n1 + s1 }}`, `{% if b1 or not b1 %}{{ s1 + s2|safe + s1 }}{% endif %}`,
			`{{ "x"|safe * 2 + s1 }}`, `{{ s1 + 1|safe }}`, `{{ 1|safe + s1 }}`,
		} {
			g := newProgGen(rg.fork(11))
			g.taint = c02Marker
			for v := 0; v < 2; v++ {
				emit(caseT{"render", (&world{}).args(src, g.context(v))})
			}
		}
		// every Go kind of leaf that can carry text, reached in every way a template reaches data
		for _, leaf := range c02LeafNames {
			for _, tpl := range []string{"{{ L }}", "{{ L|default:\"d\" }}", "{% cycle L \"x\" %}", "{% firstof L %}", "{% for x in L_list %}{{ x }}{% endfor %}", "{% with y=L %}{{ y }}{% endwith %}",
				"{{ L|upper }}", "{{ L|lower|capfirst }}", "{{ L_map.k }}", "{% for k, v in L_map %}{{ v }}{% endfor %}", "{{ \"a\"|add:L }}", "{% set y = L %}{{ y }}", "{{ L_fn() }}", "{{ L_struct.F }}",
				"{% macro m(p) %}{{ p }}{% endmacro %}{{ m(L) }}", "{{ L|default_if_none:\"d\" }}", "{{ L_list|first }}", "{{ L_list|join:\",\" }}", "{% ifchanged L %}{{ L }}{% endifchanged %}", "{{ L|truncatechars:99 }}",
				"{% if L %}{{ L }}{% endif %}", "{{ L_list.0 }}", "{% cycle L \"x\" as cyc %}{% cycle cyc %}{% cycle cyc %}", "{% for q in L_list %}{% cycle q L as cyc %}{% cycle cyc %}{% endfor %}",
				"{{ L_list|join:L }}", "{{ L_list|join:\", \" }}", "{{ \"a,b\"|split:\",\"|join:L }}", "{% firstof nothing L %}", "{% with sep=L %}{{ L_list|join:sep }}{% endwith %}", "{{ L|stringformat:\"%v\" }}", "{{ L|stringformat:\"%s\" }}"} {
				emit(caseT{"goleaf", []string{hx(strings.ReplaceAll(tpl, "L", leaf)), leaf}})
			}
		}
		// macro parameters whose DEFAULT is a context expression, printed in the body, the argument omitted
		for _, src := range []string{"{% macro badge(label, title=s1) %}[{{ title }}|{{ label }}]{% endmacro %}{{ badge(\"a\") }}{{ badge(\"a\", s2) }}{{ badge() }}",
			"{% macro m(a=m.k, b=lst.0, c=s1|lower) %}{{ a }}{{ b }}{{ c }}{% endmacro %}{{ m() }}{{ m(1) }}{{ m(1, 2) }}", "{% macro o(x=s1) %}{% macro i(y=x) %}{{ y }}{% endmacro %}{{ i() }}{% endmacro %}{{ o() }}",
			"{% for q in lst %}{% macro r(v=q) %}[{{ v }}]{% endmacro %}{{ r() }}{% endfor %}", "{% macro w(t=s1) %}{% with u=t %}{{ u }}{% endwith %}{% for z in lst %}{{ t }}{% endfor %}{% endmacro %}{{ w() }}",
			"{% macro f(t=s1 + s2) %}{% firstof t %}{% cycle t \"x\" %}{% endmacro %}{{ f() }}"} {
			g := newProgGen(rg.fork(14))
			g.taint = c02Marker
			for v := 0; v < 2; v++ {
				emit(caseT{"render", (&world{}).args(src, g.context(v))})
			}
		}
		// every argument position of every tag given a tainted context value: whatever the tag does
		// with it (most refuse at compile time), it does not write it raw
		{
			var uses []string
			for _, u := range c03TagUse {
				uses = append(uses, strings.ReplaceAll(u, "FILE", "inc.tpl"))
			}
			uses = append(uses, "{% now \"2006\" %}", "{% lorem 2 w %}", "{% widthratio 1 2 3 as wr %}{{ wr }}", "{% cycle \"a\" \"b\" as cc %}{{ cc }}", "{% templatetag openblock %}", "{% ssi \"inc.tpl\" parsed %}",
				"{% include \"inc.tpl\" with a=1 %}", "{% firstof 1 \"x\" %}", "{% ifequal 1 1 %}{{ 1 }}{% endifequal %}", "{% with a=1 %}{{ a }}{% endwith %}", "{% set a = 1 %}{{ a }}", "{% for q in \"ab\" %}{{ q }}{% endfor %}")
			sort.Strings(uses)
			g := newProgGen(rg.fork(13))
			g.taint = c02Marker
			w := &world{files: []map[string]string{{"inc.tpl": "I{{ a }}", "lib.tpl": "{% macro mm(a) export %}{{ a }}{% endmacro %}"}}}
			for _, u := range uses {
				end := strings.Index(u, "%}")
				if !strings.HasPrefix(u, "{%") || end < 0 {
					continue
				}
				toks := strings.Fields(u[2:end])
				for i := 1; i < len(toks); i++ {
					for _, repl := range []string{"s1", "s1|upper", "m.k", "lst.0"} {
						nt := append(append(append([]string{}, toks[:i]...), repl), toks[i+1:]...)
						src := "{% " + strings.Join(nt, " ") + " " + u[end:]
						emit(caseT{"render", append(w.args(src, g.context(0)), hexList([]string{"verifprobe"}), hexList([]string{"verifprobetag"}))})
					}
				}
			}
		}
		// every way an application configures a set or a template through the public API before it
		// renders: none of them is an opt-out of escaping
		for variant := 0; variant < 10; variant++ {
			for _, src := range []string{"{{ s1 }}", "{% for x in sgl %}\n{{ x }}\n{% endfor %}", "  {% if s1 %}\n{{ s1|upper }}{% endif %}", "{% include \"inc.tpl\" %}", "{% set n = \"inc.tpl\" %}{% include n %}"} {
				emit(caseT{"goapi", []string{hx(src), fmt.Sprint(variant)}})
			}
		}
		// values Go code passes with a String method, a cycle value, map keys, nested data
		for _, src := range []string{"{{ sg }}", "{{ psg }}", "{% for x in sgl %}{{ x }}{% endfor %}", "{% with y=sg %}{{ y }}{% endwith %}",
			"{% cycle s1 s2 as row silent %}{{ row }}", "{% for k, v in tm sorted %}{{ k }}{{ v }}{% endfor %}", "{{ sg|upper }}", "{% firstof sg %}"} {
			emit(caseT{"gostringer", []string{hx(src)}})
		}
	}
	driveCases(r, gen, execC02)
	r.finish(map[string]any{"marker": c02Marker})
}

type c02Named string
type c02Struct struct{ F any }

var c02LeafNames = []string{"Lnamed", "Lbytes", "Lraw", "Larr", "Lrunes", "Lpstr", "Lppstr", "Lerr", "Lsg", "Lpsg", "Lval", "Liface"}

func c02Leaf(name string) any {
	m := c02Marker
	switch name {
	case "Lnamed":
		return c02Named(m)
	case "Lbytes":
		return []byte(m)
	case "Lraw":
		return json.RawMessage(m)
	case "Larr":
		var a [8]byte
		copy(a[:], m)
		return a
	case "Lrunes":
		return []rune(m)
	case "Lpstr":
		return &m
	case "Lppstr":
		p := &m
		return &p
	case "Lerr":
		return errors.New(m)
	case "Lsg":
		return stringerT{m}
	case "Lpsg":
		return &ptrStringerT{m}
	case "Lval":
		return pongo2.AsValue(m)
	}
	var i any = m
	return &i
}

func execGoLeaf(r *run, c caseT) {
	src, leaf := unhx(c.args[0]), c.args[1]
	v := c02Leaf(leaf)
	ctx := pongo2.Context{leaf: v, leaf + "_list": []any{v, v}, leaf + "_map": map[string]any{"k": v}, leaf + "_fn": func() any { return v }, leaf + "_struct": c02Struct{v}}
	obs, out := "", ""
	func() {
		defer func() {
			if p := recover(); p != nil {
				obs = "panic:" + fmt.Sprint(p)
			}
		}()
		tpl, err := pongo2.FromString(src)
		if err != nil {
			obs = "cerr"
			return
		}
		var xerr error
		out, xerr = tpl.Execute(ctx)
		if xerr != nil {
			obs = "xerr"
		} else {
			obs = obsOK(out)
		}
	}()
	id := r.emit(c.op, c.args, "goleaf:"+obs)
	r.nontrivial(c.args[0])
	if strings.HasPrefix(obs, "panic") {
		r.reject(id, "panic", map[string]any{"template": src, "leaf": leaf, "observed": obs})
		return
	}
	if strings.HasPrefix(obs, "ok:") && hasRaw(out) {
		r.reject(id, "a context value reached the output unescaped", map[string]any{"template": src, "leaf_kind": fmt.Sprintf("%T", v), "output": out})
	}
}

func execGoAPI(r *run, c caseT) {
	src := unhx(c.args[0])
	var variant int
	fmt.Sscanf(c.args[1], "%d", &variant)
	ctx := pongo2.Context{"s1": c02Marker, "sgl": []any{stringerT{c02Marker}, c02Marker}}
	loader := newMemLoader(map[string]string{"inc.tpl": "[{{ s1 }}]\n"})
	set := pongo2.NewSet("goapi", loader)
	obs, out := "", ""
	func() {
		defer func() {
			if p := recover(); p != nil {
				obs = "panic:" + fmt.Sprint(p)
			}
		}()
		switch variant {
		case 1:
			set.Options = &pongo2.Options{TrimBlocks: true}
		case 2:
			set.Options = &pongo2.Options{LStripBlocks: true}
		case 3:
			set.Options = &pongo2.Options{}
		case 4:
			set.Options.Update(&pongo2.Options{TrimBlocks: true, LStripBlocks: true})
		case 5:
			set.Debug = true
			set.Globals["g"] = c02Marker
		}
		tpl, err := set.FromString(src)
		if err != nil {
			obs = "cerr"
			return
		}
		switch variant {
		case 6:
			tpl.Options = &pongo2.Options{TrimBlocks: true}
		case 7:
			tpl.Options = &pongo2.Options{}
		case 8:
			tpl.Options.Update(&pongo2.Options{LStripBlocks: true})
		case 9:
			o := *tpl.Options
			o.TrimBlocks = true
			tpl.Options = &o
		}
		var xerr error
		out, xerr = tpl.Execute(ctx)
		if xerr != nil {
			obs = "xerr"
		} else {
			obs = obsOK(out)
		}
	}()
	id := r.emit(c.op, c.args, "goapi:"+obs)
	r.nontrivial(c.args[0] + c.args[1])
	switch {
	case strings.HasPrefix(obs, "panic"):
		r.reject(id, "panic", map[string]any{"template": src, "variant": variant, "observed": obs})
	case !strings.HasPrefix(obs, "ok:"):
		r.reject(id, "a configured set or template does not render", map[string]any{"template": src, "variant": variant, "observed": obs})
	case hasRaw(out):
		r.reject(id, "a context value reached the output unescaped after the set or template was configured through the public API", map[string]any{"template": src, "variant": variant, "output": out})
	}
}

func execC02(r *run, c caseT) {
	if c.op == "goapi" {
		execGoAPI(r, c)
		return
	}
	if c.op == "goleaf" {
		execGoLeaf(r, c)
		return
	}
	if c.op == "gostringer" {
		src := unhx(c.args[0])
		tpl, err := pongo2.FromString(src)
		must(err)
		ctx := pongo2.Context{"sg": stringerT{c02Marker}, "psg": &ptrStringerT{c02Marker}, "sgl": []any{stringerT{c02Marker}, &ptrStringerT{c02Marker}},
			"s1": c02Marker, "s2": c02Marker + "2", "tm": map[string]string{c02Marker + "k": c02Marker + "v"}}
		out, xerr := tpl.Execute(ctx)
		obs := "xerr"
		if xerr == nil {
			obs = obsOK(out)
		}
		id := r.emit(c.op, c.args, obs)
		r.nontrivial(src)
		if xerr == nil && hasRaw(out) {
			r.reject(id, "a context value reached the output unescaped", map[string]any{"template": src, "output": out})
		}
		return
	}
	w, src, ctx := worldFromArgs(c.args)
	o, _ := w.render(src, false, ctx)
	id := r.emit(c.op, c.args, o.obs)
	if id%997 == 0 {
		r.sample(map[string]any{"template": src, "observed": o.obs})
	}
	if o.panicked != nil {
		r.reject(id, "panic", map[string]any{"template": src, "panic": fmt.Sprint(o.panicked)})
		return
	}
	if o.err != nil {
		r.stats["error"]++
		return
	}
	if strings.Contains(o.out, "&lt;") || strings.Contains(o.out, "&#39;") {
		r.nontrivial(c.args[0])
	}
	if !hasRaw(o.out) {
		return
	}
	detail := map[string]any{"template": src, "output": o.out}
	// Known finding: the filter tag writes the result of its chain raw, so a tainted filter
	// *parameter* is emitted unescaped. Attribute a rejection to it only if the same template
	// with the filter tag's variable parameters replaced by a clean literal is clean.
	{
		clean, changed := cleanFilterTagParams(src)
		w2 := *w
		w2.files = nil
		for _, m := range w.files {
			m2 := map[string]string{}
			for k, v := range m {
				cv, ch := cleanFilterTagParams(v)
				m2[k] = cv
				changed = changed || ch
			}
			w2.files = append(w2.files, m2)
		}
		detail["files"] = w.files
		if changed {
			o2, _ := w2.render(clean, false, ctx)
			if o2.err == nil && o2.panicked == nil && !hasRaw(o2.out) {
				r.reject(id, "KF:C02-filter-tag-parameter a tainted parameter of the filter tag reaches the output unescaped", detail)
				return
			}
		}
	}
	r.reject(id, "a context string reached the output unescaped", detail)
}

// cleanFilterTagParams replaces variable parameters inside {% filter ... %} tags by "p".
func cleanFilterTagParams(src string) (string, bool) {
	changed := false
	var sb strings.Builder
	for {
		i := strings.Index(src, "{% filter ")
		if i < 0 {
			sb.WriteString(src)
			break
		}
		j := strings.Index(src[i:], "%}")
		if j < 0 {
			sb.WriteString(src)
			break
		}
		tag := src[i : i+j]
		parts := strings.Split(tag, ":")
		for k := 1; k < len(parts); k++ {
			p := parts[k]
			if len(p) > 0 && p[0] != '"' && !(p[0] >= '0' && p[0] <= '9') {
				// a variable parameter: cut it at the next | or space
				e := strings.IndexAny(p, "| ")
				if e < 0 {
					e = len(p)
				}
				parts[k] = "\"p\"" + p[e:]
				changed = true
			}
		}
		sb.WriteString(src[:i])
		sb.WriteString(strings.Join(parts, ":"))
		src = src[i+j:]
	}
	return sb.String(), changed
}
