package main

import (
	"fmt"
	"net/url"
	"regexp"
	"strconv"
	"strings"
	"unicode/utf8"

	"github.com/flosch/pongo2/v6"
)

func init() { props["C17"] = runC17 }

var c17Filters = []string{"escape", "e", "escapejs", "urlencode", "iriencode", "addslashes", "striptags", "removetags", "safe"}

var c17Specials = []string{"&", "<", ">", "\"", "'", "\\", "/", " ", "%", "+", "#", ";", "a", "Z", "0", "\n", "\r", "\t", "\\n", "\\r",
	"&amp;", "&lt;", "&#39;", "<b>", "</b>", "<b/>", "</b/>", "<i>", "é", "ß", "日", "\U0001F600", "�", "\xff", "\xc3", "\xe2\x82", "\x00", "\x01", " ", " ", "~", "-", "_", ".", "=", "?", "@", "(", ")", "[", "]", "$", ",", "!", "*", ":"}

func runC17(r *run) {
	rg := newRng(r.seed)
	gen := func(emit func(caseT)) {
		// (1) exhaustive: every rune of the BMP (and, thorough, all planes' sample), every filter
		step := 1
		for cp := 0; cp <= 0xFFFF; cp += step {
			s := string(rune(cp))
			if cp >= 0xD800 && cp <= 0xDFFF {
				// a surrogate code point has no UTF-8 form; feed the raw 3-byte pattern
				s = string([]byte{0xED, byte(0x80 | (cp>>6)&0x3F), byte(0x80 | cp&0x3F)})
			}
			for _, f := range c17Filters {
				if f == "removetags" {
					emit(caseT{f, []string{hx(s), hx("b")}})
				} else {
					emit(caseT{f, []string{hx(s)}})
				}
			}
		}
		// all single bytes as raw (possibly invalid) input
		for b := 0; b < 256; b++ {
			for _, f := range c17Filters {
				if f == "removetags" {
					emit(caseT{f, []string{hx(string([]byte{byte(b)})), hx("b,i")}})
				} else {
					emit(caseT{f, []string{hx(string([]byte{byte(b)}))}})
				}
			}
		}
		// (2) all pairs and triples over the special fragments
		sp := c17Specials
		nsp := len(sp)
		if r.tier == "quick" {
			nsp = 24
		}
		for i := 0; i < len(sp); i++ {
			for j := 0; j < len(sp); j++ {
				for _, f := range c17Filters {
					if f == "removetags" {
						emit(caseT{f, []string{hx(sp[i] + sp[j]), hx("b")}})
					} else {
						emit(caseT{f, []string{hx(sp[i] + sp[j])}})
					}
				}
			}
		}
		for i := 0; i < nsp; i++ {
			for j := 0; j < nsp; j++ {
				for k := 0; k < nsp; k++ {
					s := sp[i] + sp[j] + sp[k]
					f := c17Filters[(i+j+k)%len(c17Filters)]
					if f == "removetags" {
						emit(caseT{f, []string{hx(s), hx("b")}})
					} else {
						emit(caseT{f, []string{hx(s)}})
					}
				}
			}
		}
		// (3) random mixes
		nrand := 20000
		if r.tier == "thorough" {
			nrand = 400000
		}
		tagParams := []string{"b", "i", "b,i", "i,b", "a,b,i", "", "bb", "b,", "1", "B", "b, i", "é"}
		for n := 0; n < nrand; n++ {
			var sb strings.Builder
			l := 1 + rg.intn(12)
			for k := 0; k < l; k++ {
				switch rg.intn(10) {
				case 0:
					sb.WriteByte(byte(rg.intn(256)))
				case 1:
					sb.WriteRune(rune(rg.intn(0x3000)))
				case 2:
					sb.WriteString(fmt.Sprintf("<%s>", rg.pick([]string{"b", "/b", "i", "b/", "/i/", "a href=x", "", " ", "B"})))
				default:
					sb.WriteString(rg.pick(sp))
				}
			}
			f := c17Filters[rg.intn(len(c17Filters))]
			if f == "removetags" {
				emit(caseT{f, []string{hx(sb.String()), hx(rg.pick(tagParams))}})
			} else {
				emit(caseT{f, []string{hx(sb.String())}})
			}
		}
	}
	tplCache := map[string]*pongo2.Template{}
	gen2 := func(emit func(caseT)) {
		gen(emit)
		// two filters in a row: written as v|F|G the template computes G(F(v)), for every pair
		// of the escaping filters with each other and with the text filters they are combined with
		others := []string{"striptags", "linebreaksbr", "linebreaks", "upper", "lower", "addslashes", "capfirst", "title", "urlize", "truncatechars:3", "cut:\"a\"", "length", "default:\"d\"", "wordcount", "first", "last", "join:\"-\""}
		ins := []string{"<b>a & 'q' \"d\"</b>\nline two", "a<b", "x\ny", "&amp; &lt;", "it's \\ back", "", "<script>alert(1)</script>", "www.a.bc <i>", "é<ü>"}
		for _, f1 := range c17Filters {
			if f1 == "removetags" {
				f1 = "removetags:\"b,i\""
			}
			for _, f2 := range append(append([]string{}, others...), c17Filters...) {
				if f2 == "removetags" {
					f2 = "removetags:\"b\""
				}
				for _, in := range ins {
					emit(caseT{"chain2", []string{hx(in), hx(f1), hx(f2)}})
					emit(caseT{"chain2", []string{hx(in), hx(f2), hx(f1)}})
				}
			}
		}
	}
	driveCases(r, gen2, func(r *run, c caseT) { execC17(r, c, tplCache) })
	r.finish(map[string]any{"filters": c17Filters})
}

func execChain2(r *run, c caseT, tplCache map[string]*pongo2.Template) {
	in, f1, f2 := unhx(c.args[0]), unhx(c.args[1]), unhx(c.args[2])
	apply := func(f string, v *pongo2.Value) (*pongo2.Value, error) {
		name, p := f, (*pongo2.Value)(nil)
		if i := strings.Index(f, ":"); i >= 0 {
			name = f[:i]
			p = pongo2.AsValue(strings.Trim(f[i+1:], "\""))
			if n, err := strconv.Atoi(f[i+1:]); err == nil {
				p = pongo2.AsValue(n)
			}
		}
		out, err := pongo2.ApplyFilter(name, v, p)
		if err != nil {
			return nil, err
		}
		return out, nil
	}
	want := "err"
	if v1, e1 := apply(f1, pongo2.AsValue(in)); e1 == nil {
		if v2, e2 := apply(f2, v1); e2 == nil {
			want = obsOK(v2.String())
		}
	}
	src := "{% autoescape off %}{{ v|" + f1 + "|" + f2 + " }}{% endautoescape %}"
	tpl := tplCache[src]
	if tpl == nil {
		var e error
		tpl, e = pongo2.FromString(src)
		must(e)
		tplCache[src] = tpl
	}
	got := "err"
	if out, err := tpl.Execute(pongo2.Context{"v": in}); err == nil {
		got = obsOK(out)
	}
	id := r.emit(c.op, c.args, got)
	r.nontrivial(strings.Join(c.args, "|"))
	if got != want {
		r.reject(id, "v|F|G in a template is not G applied to the result of F", map[string]any{"input": in, "first": f1, "second": f2, "template": got, "composition": want})
	}
}

func execC17(r *run, c caseT, tplCache map[string]*pongo2.Template) {
	if c.op == "chain2" {
		execChain2(r, c, tplCache)
		return
	}
	in := unhx(c.args[0])
	var param *pongo2.Value
	pstr := ""
	if len(c.args) > 1 {
		pstr = unhx(c.args[1])
		param = pongo2.AsValue(pstr)
	}
	out, err := pongo2.ApplyFilter(c.op, pongo2.AsValue(in), param)
	var obs string
	if err != nil {
		obs = obsErr()
	} else {
		obs = obsOK(out.String())
	}
	id := r.emit(c.op, c.args, obs)
	if len(in) > 1 || in == "<" || in == "&" || in == "\\" {
		r.nontrivial(c.op + ":" + c.args[0])
	}
	if id%50021 == 0 {
		r.sample(map[string]any{"filter": c.op, "input_hex": c.args[0], "observed": obs})
	}

	// route 2: the template syntax under autoescape off must give the same bytes
	if id%7 == 0 || len(in) > 4 {
		key := c.op
		src := "{% autoescape off %}{{ v|" + c.op + " }}{% endautoescape %}"
		if len(c.args) > 1 {
			key += ":p"
			src = "{% autoescape off %}{{ v|" + c.op + ":p }}{% endautoescape %}"
		}
		tpl := tplCache[key]
		if tpl == nil {
			var e error
			tpl, e = pongo2.FromString(src)
			must(e)
			tplCache[key] = tpl
		}
		tout, terr := tpl.Execute(pongo2.Context{"v": in, "p": pstr})
		r.stats["template_route"]++
		if (terr != nil) != (err != nil) || (err == nil && tout != out.String()) {
			r.reject(id, "template route and ApplyFilter disagree", map[string]any{"filter": c.op, "input_hex": c.args[0]})
		}
	}
	// route 4: the filter tag applies the same function to its rendered body, autoescaping on or off
	if (id%11 == 0 || len(in) > 4) && c.op != "safe" {
		key := "tag:" + c.op
		src := "{% filter " + c.op + " %}{{ v|safe }}{% endfilter %}|{% autoescape off %}{% filter " + c.op + " %}{{ v }}{% endfilter %}{% endautoescape %}"
		if len(c.args) > 1 {
			key += ":p"
			src = strings.ReplaceAll(src, "{% filter "+c.op+" %}", "{% filter "+c.op+":\""+strings.NewReplacer("\\", "\\\\", "\"", "\\\"").Replace(pstr)+"\" %}")
			key += pstr
		}
		tpl := tplCache[key]
		if tpl == nil {
			var e error
			tpl, e = pongo2.FromString(src)
			must(e)
			tplCache[key] = tpl
		}
		tout, terr := tpl.Execute(pongo2.Context{"v": in})
		r.stats["filter_tag_route"]++
		if (terr != nil) != (err != nil) || (err == nil && tout != out.String()+"|"+out.String()) {
			r.reject(id, "the filter tag and ApplyFilter disagree", map[string]any{"filter": c.op, "input_hex": c.args[0], "tag_output": tout})
		}
	}
	// route 3: what the escaping filters produce does not depend on whether the value was marked safe
	if id%5 == 0 || len(in) > 4 {
		out2, err2 := pongo2.ApplyFilter(c.op, pongo2.AsSafeValue(in), param)
		r.stats["safe_input_route"]++
		if (err2 != nil) != (err != nil) || (err == nil && out2.String() != out.String()) {
			r.reject(id, "the filter gives another result for a value that is marked safe", map[string]any{"filter": c.op, "input_hex": c.args[0]})
		}
	}
	if err != nil {
		if c.op != "removetags" {
			r.reject(id, "filter returned an error", map[string]any{"filter": c.op, "input_hex": c.args[0]})
		}
		return
	}
	if why := oracleC17(c.op, in, pstr, out.String()); why != "" {
		r.reject(id, why, map[string]any{"filter": c.op, "input_hex": c.args[0], "param_hex": hx(pstr), "output_hex": hx(out.String())})
	}
}

var reCompleteTag = regexp.MustCompile(`<[^>]*>`)

// oracleC17 evaluates the property's text on one (input, output) pair of the real code.
func oracleC17(f, in, param, out string) string {
	switch f {
	case "escape", "e":
		for i := 0; i < len(out); i++ {
			switch out[i] {
			case '<', '>', '"', '\'':
				return "escape output contains a dangerous character"
			case '&':
				okEnt := false
				for _, e := range []string{"&amp;", "&lt;", "&gt;", "&quot;", "&#39;"} {
					if strings.HasPrefix(out[i:], e) {
						okEnt = true
					}
				}
				if !okEnt {
					return "escape output has an & that starts none of the five entities"
				}
			}
		}
		if unescape5(out) != in {
			return "unescaping the escape output does not give back the input"
		}
	case "safe":
		if out != in {
			return "safe changed its input"
		}
	case "escapejs":
		dec, ok := decodeJS(out)
		if !ok {
			return "escapejs output leaves the alphabet [A-Za-z /] + \\uXXXX"
		}
		if dec != validRunes(in) {
			if dec == escapejsExpected(in) {
				return "KF:C17-escapejs-backslash-rn escapejs rewrites backslash+r / backslash+n to CR / LF"
			}
			return "escapejs output does not decode to the input's characters"
		}
	case "urlencode":
		for i := 0; i < len(out); i++ {
			ch := out[i]
			if !(isUnreserved(ch) || ch == '%' || ch == '+') {
				return "urlencode output is not query-safe"
			}
		}
		if d, err := url.QueryUnescape(out); err != nil || d != in {
			return "urlencode output does not decode to the input"
		}
	case "iriencode":
		i := 0
		for i < len(out) {
			ch := out[i]
			if ch == '%' && i+2 < len(out) && isHex(out[i+1]) && isHex(out[i+2]) {
				i += 3
				continue
			}
			if isUnreserved(ch) || ch == '+' || strings.IndexByte("/#%[]=:;$&()+,!?*@'~", ch) >= 0 {
				i++
				continue
			}
			return "iriencode left a character unencoded that is neither reserved nor unreserved"
		}
	case "addslashes":
		var sb strings.Builder
		i := 0
		for i < len(out) {
			ch := out[i]
			if ch == '\\' {
				if i+1 >= len(out) || !(out[i+1] == '\\' || out[i+1] == '"' || out[i+1] == '\'') {
					return "addslashes put a backslash before something else than a quote or backslash"
				}
				sb.WriteByte(out[i+1])
				i += 2
				continue
			}
			if ch == '"' || ch == '\'' {
				return "addslashes left a quote without a backslash"
			}
			sb.WriteByte(ch)
			i++
		}
		if sb.String() != in {
			return "addslashes changed something else than adding backslashes"
		}
	case "striptags":
		if reCompleteTag.MatchString(out) {
			return "striptags left a complete tag"
		}
		if !deletionOf(in, out, func(s string) int {
			if s[0] == '<' {
				if j := strings.IndexByte(s, '>'); j > 0 {
					return j + 1
				}
			}
			return 0
		}) {
			return "striptags removed something that is not a tag or outer whitespace"
		}
	case "removetags":
		tags := strings.Split(param, ",")
		if !removetagsReachable(in, out, tags) {
			return "removetags removed something that is not one of the named tags or outer whitespace"
		}
	}
	return ""
}

func isHex(b byte) bool { return (b >= '0' && b <= '9') || (b >= 'A' && b <= 'F') }
func isUnreserved(ch byte) bool {
	return (ch >= 'a' && ch <= 'z') || (ch >= 'A' && ch <= 'Z') || (ch >= '0' && ch <= '9') || ch == '-' || ch == '_' || ch == '.' || ch == '~'
}

func unescape5(s string) string {
	var sb strings.Builder
	for i := 0; i < len(s); {
		matched := false
		for _, e := range [][2]string{{"&amp;", "&"}, {"&lt;", "<"}, {"&gt;", ">"}, {"&quot;", "\""}, {"&#39;", "'"}} {
			if strings.HasPrefix(s[i:], e[0]) {
				sb.WriteString(e[1])
				i += len(e[0])
				matched = true
				break
			}
		}
		if !matched {
			sb.WriteByte(s[i])
			i++
		}
	}
	return sb.String()
}

// decodeJS decodes the escapejs alphabet as a JavaScript string literal would:
// \uXXXX is one UTF-16 code unit; surrogate pairs combine.
func decodeJS(s string) (string, bool) {
	var units []uint16
	for i := 0; i < len(s); {
		ch := s[i]
		if (ch >= 'a' && ch <= 'z') || (ch >= 'A' && ch <= 'Z') || ch == ' ' || ch == '/' {
			units = append(units, uint16(ch))
			i++
			continue
		}
		if ch == '\\' && i+5 < len(s)+0 && s[i+1] == 'u' && isHex(s[i+2]) && isHex(s[i+3]) && isHex(s[i+4]) && isHex(s[i+5]) {
			var v uint16
			fmt.Sscanf(s[i+2:i+6], "%04X", &v)
			units = append(units, v)
			i += 6
			continue
		}
		return "", false
	}
	var sb strings.Builder
	for i := 0; i < len(units); i++ {
		u := rune(units[i])
		if u >= 0xD800 && u < 0xDC00 && i+1 < len(units) && units[i+1] >= 0xDC00 && units[i+1] < 0xE000 {
			sb.WriteRune(0x10000 + (u-0xD800)<<10 + (rune(units[i+1]) - 0xDC00))
			i++
			continue
		}
		sb.WriteRune(u)
	}
	return sb.String(), true
}

// validRunes: the input's characters - its validly encoded runes.
func validRunes(in string) string {
	var sb strings.Builder
	for i := 0; i < len(in); {
		r, w := utf8.DecodeRuneInString(in[i:])
		if r == utf8.RuneError && w == 1 {
			i++
			continue
		}
		sb.WriteRune(r)
		i += w
	}
	return sb.String()
}

// escapejsExpected: the input's characters - its valid runes; bytes that are not valid
// UTF-8 carry no character.  The two rewrites the fixtures pin (backslash followed by
// r or n becomes CR / LF) are applied, see known_findings.json.
func escapejsExpected(in string) string {
	var sb strings.Builder
	for i := 0; i < len(in); {
		r, w := utf8.DecodeRuneInString(in[i:])
		if r == utf8.RuneError && w == 1 {
			i++
			continue
		}
		if r == '\\' && i+1 < len(in) && (in[i+1] == 'r' || in[i+1] == 'n') {
			if in[i+1] == 'r' {
				sb.WriteByte('\r')
			} else {
				sb.WriteByte('\n')
			}
			i += 2
			continue
		}
		sb.WriteRune(r)
		i += w
	}
	return sb.String()
}

// deletionOf reports whether out can be obtained from in by deleting only substrings
// accepted by tagLen (which returns the length of a deletable form at the start of its
// argument, 0 if none) and white space at both ends.
func deletionOf(in, out string, tagLen func(string) int) bool {
	type key struct{ i, j int }
	memo := map[key]bool{}
	var rec func(i, j int, lead bool) bool
	isWS := func(s string) (int, bool) {
		r, w := utf8.DecodeRuneInString(s)
		switch r {
		case '\t', '\n', '\v', '\f', '\r', ' ', 0x85, 0xA0, 0x1680, 0x2028, 0x2029, 0x202f, 0x205f, 0x3000:
			return w, true
		}
		if r >= 0x2000 && r <= 0x200a {
			return w, true
		}
		return w, false
	}
	allWSOrTags := func(s string) bool {
		for len(s) > 0 {
			if w, ok := isWS(s); ok {
				s = s[w:]
				continue
			}
			if n := tagLen(s); n > 0 {
				s = s[n:]
				continue
			}
			return false
		}
		return true
	}
	rec = func(i, j int, lead bool) bool {
		if j == len(out) {
			return allWSOrTags(in[i:])
		}
		if i == len(in) {
			return false
		}
		k := key{i, j}
		if !lead {
			if v, ok := memo[k]; ok {
				return v
			}
		}
		res := false
		if in[i] == out[j] && rec(i+1, j+1, false) {
			res = true
		}
		if !res {
			if n := tagLen(in[i:]); n > 0 && rec(i+n, j, lead) {
				res = true
			}
		}
		if !res && (lead || j == 0) {
			if w, ok := isWS(in[i:]); ok && rec(i+w, j, true) {
				res = true
			}
		}
		if !lead {
			memo[k] = res
		}
		return res
	}
	return rec(0, 0, true)
}

// removetagsReachable: out is reachable from in by one deletion pass per named tag (in
// order; each pass deletes any set of non-overlapping occurrences of that tag's four
// forms) followed by trimming white space.  Exponential in the number of occurrences,
// which the generators keep small; beyond the cap it degrades to a sound weaker check
// (out is a subsequence of in and only tag characters / white space were dropped).
func removetagsReachable(in, out string, tags []string) bool {
	cur := map[string]struct{}{in: {}}
	for _, t := range tags {
		forms := []string{"</" + t + "/>", "</" + t + ">", "<" + t + "/>", "<" + t + ">"}
		next := map[string]struct{}{}
		for s := range cur {
			var rec func(i int, acc string)
			count := 0
			rec = func(i int, acc string) {
				count++
				if count > 1<<14 {
					return
				}
				if i >= len(s) {
					next[acc] = struct{}{}
					return
				}
				for _, f := range forms {
					if strings.HasPrefix(s[i:], f) {
						rec(i+len(f), acc)
					}
				}
				rec(i+1, acc+s[i:i+1])
			}
			rec(0, "")
			if count > 1<<14 {
				return weakDeletion(in, out, tags)
			}
		}
		if len(next) > 1<<14 {
			return weakDeletion(in, out, tags)
		}
		cur = next
	}
	for s := range cur {
		if strings.TrimSpace(s) == out {
			return true
		}
	}
	return false
}

func weakDeletion(in, out string, tags []string) bool {
	j := 0
	for i := 0; i < len(in); i++ {
		if j < len(out) && in[i] == out[j] {
			j++
			continue
		}
		ch := in[i]
		if ch == '<' || ch == '>' || ch == '/' || ch >= 0x80 || ch == ' ' || (ch >= 9 && ch <= 13) {
			continue
		}
		isTagCh := false
		for _, t := range tags {
			if len(t) == 1 && t[0] == ch {
				isTagCh = true
			}
		}
		if !isTagCh {
			return false
		}
	}
	return j == len(out)
}
