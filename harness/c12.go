package main

import (
	"fmt"
	"reflect"
	"strings"

	"github.com/flosch/pongo2/v6"
)

func init() { props["C12"] = runC12 }

// C12: nestings of with / for / macro / set / if / include with colliding names, probed with
// {{ name }} before, inside and after each construct, against a reference environment model;
// and a deep comparison of the caller's Context and Globals before/after every execution.

type snode struct {
	kind string // probe with for set macrodef call if include
	name string
	val  string
	kids []*snode
	only bool
	file string
}

var c12Names = []string{"a", "b", "c"}

type c12Gen struct {
	rg      *rng
	nlit    int
	macros  []string
	noparam map[string]bool
	files   map[string]string
	nfile   int
	depth   int
	nmac    int
}

func (g *c12Gen) lit() string {
	g.nlit++
	return fmt.Sprintf("L%d", g.nlit)
}

func (g *c12Gen) body(d int) []*snode {
	var out []*snode
	n := 2 + g.rg.intn(3)
	for i := 0; i < n; i++ {
		out = append(out, g.node(d))
	}
	return out
}

func (g *c12Gen) node(d int) *snode {
	k := g.rg.intn(12)
	if d <= 0 && k >= 3 {
		k = g.rg.intn(3)
	}
	if k == 9 && g.rg.chance(1, 2) {
		// two pairs: the second reads the name the first rebinds - it sees the OUTER binding
		name := g.rg.pick(c12Names)
		n2 := g.rg.pick(c12Names)
		if n2 != name {
			return &snode{kind: "with2", name: name, val: g.lit(), file: n2, kids: g.body(d - 1)}
		}
	}
	if k == 10 {
		// nothing to iterate: the empty branch runs, in the loop's own scope
		return &snode{kind: "forempty", kids: g.body(d - 1)}
	}
	if k == 11 {
		// iterating the caller's data in another order must not reorder the caller's data
		return &snode{kind: "sortloop"}
	}
	name := g.rg.pick(c12Names)
	switch k {
	case 0, 1:
		return &snode{kind: "probe", name: name}
	case 2:
		if g.rg.chance(1, 4) {
			// bound to nothing is bound all the same
			return &snode{kind: "setnil", name: name, val: g.rg.pick([]string{"nothing_defined", "nil", "nothing.at.all"})}
		}
		return &snode{kind: "set", name: name, val: g.lit()}
	case 3, 4:
		return &snode{kind: "with", name: name, val: g.lit(), kids: g.body(d - 1)}
	case 5:
		return &snode{kind: "for", name: name, val: g.lit(), kids: g.body(d - 1)}
	case 6:
		return &snode{kind: "if", kids: g.body(d - 1)}
	case 7:
		g.nmac++
		mname := fmt.Sprintf("m%d", g.nmac)
		body := g.body(d - 1) // may call earlier macros only: no recursion
		g.macros = append(g.macros, mname)
		if g.rg.chance(1, 3) {
			// a macro without parameters: its body is a scope of its own all the same
			if g.noparam == nil {
				g.noparam = map[string]bool{}
			}
			g.noparam[mname] = true
			return &snode{kind: "macrodef", name: mname, val: "", kids: body}
		}
		if g.rg.chance(1, 3) {
			// a second parameter whose default is a NAME - maybe the first parameter's name: the
			// default means what the name means where the macro is defined, not the argument
			q := g.rg.pick(c12Names)
			if q != name {
				return &snode{kind: "macrodef", name: mname, val: name, file: q + "=" + g.rg.pick(c12Names), kids: body}
			}
		}
		return &snode{kind: "macrodef", name: mname, val: name, kids: body}
	case 8:
		if len(g.macros) > 0 {
			mn := g.rg.pick(g.macros)
			if g.noparam[mn] || g.rg.chance(1, 3) {
				// the argument is omitted: the parameter (if there is one) is still bound (to nothing)
				return &snode{kind: "call0", name: mn}
			}
			return &snode{kind: "call", name: mn, val: g.lit()}
		}
		return &snode{kind: "probe", name: name}
	}
	// include: the included file probes all names
	fname := fmt.Sprintf("f%d.tpl", g.nfile)
	g.nfile++
	g.files[fname] = "<" + "{{ a }},{{ b }},{{ c }},{{ g }}" + ">"
	if g.rg.chance(1, 3) {
		// a plain include: no pairs, the includer's bindings as they are
		return &snode{kind: "include", file: fname, name: ""}
	}
	return &snode{kind: "include", file: fname, name: name, val: g.lit(), only: g.rg.chance(1, 3)}
}

func c12Print(ns []*snode) string {
	var sb strings.Builder
	for _, n := range ns {
		switch n.kind {
		case "probe":
			sb.WriteString("[{{ " + n.name + " }}]")
		case "set":
			sb.WriteString("{% set " + n.name + " = \"" + n.val + "\" %}")
		case "setnil":
			sb.WriteString("{% set " + n.name + " = " + n.val + " %}")
		case "with":
			sb.WriteString("{% with " + n.name + "=\"" + n.val + "\" %}" + c12Print(n.kids) + "{% endwith %}")
		case "for":
			sb.WriteString("{% for " + n.name + " in [\"" + n.val + "x\", \"" + n.val + "y\"] %}" + c12Print(n.kids) + "{% endfor %}")
		case "if":
			sb.WriteString("{% if true %}" + c12Print(n.kids) + "{% endif %}")
		case "with2":
			sb.WriteString("{% with " + n.name + "=\"" + n.val + "\" " + n.file + "=" + n.name + " %}" + c12Print(n.kids) + "{% endwith %}")
		case "forempty":
			sb.WriteString("{% for zq in el %}never{% empty %}" + c12Print(n.kids) + "{% endfor %}")
		case "sortloop":
			sb.WriteString("{% for zq in tnums sorted %}{% endfor %}{% for zq in gnums reversed sorted %}{% endfor %}{% for zq in tstrs sorted %}{% endfor %}{% for zq in tstrs reversed %}{% endfor %}")
		case "macrodef":
			params := n.val
			if n.file != "" {
				params += ", " + n.file
			}
			sb.WriteString("{% macro " + n.name + "(" + params + ") %}" + c12Print(n.kids) + "{% endmacro %}")
		case "call":
			sb.WriteString("{{ " + n.name + "(\"" + n.val + "\") }}")
		case "call0":
			sb.WriteString("{{ " + n.name + "() }}")
		case "include":
			if n.name == "" {
				sb.WriteString("{% include \"" + n.file + "\" %}")
				continue
			}
			s := "{% include \"" + n.file + "\" with " + n.name + "=\"" + n.val + "\""
			if n.only {
				s += " only"
			}
			sb.WriteString(s + " %}")
		}
	}
	return sb.String()
}

// reference environment: a stack of flat scopes (a child scope starts as a copy), the
// public context below them; macros close over the scope they were defined in
type c12Scope map[string]string
type c12Macro struct {
	q, d  string // second parameter and the name its default refers to
	param string
	body  []*snode
	scope c12Scope
}
type c12Env struct {
	scopes []c12Scope
	public map[string]string
	macros map[string]*c12Macro // visible macro bindings live in scopes too: name -> macro
	mscope []map[string]*c12Macro
}

func (e *c12Env) top() c12Scope { return e.scopes[len(e.scopes)-1] }
func (e *c12Env) push(from c12Scope, mfrom map[string]*c12Macro) {
	s := c12Scope{}
	for k, v := range from {
		s[k] = v
	}
	m := map[string]*c12Macro{}
	for k, v := range mfrom {
		m[k] = v
	}
	e.scopes = append(e.scopes, s)
	e.mscope = append(e.mscope, m)
}
func (e *c12Env) pop() {
	e.scopes = e.scopes[:len(e.scopes)-1]
	e.mscope = e.mscope[:len(e.mscope)-1]
}
func (e *c12Env) lookup(n string) string {
	if v, ok := e.top()[n]; ok {
		return v
	}
	return e.public[n]
}

type c12MacroRef struct {
	m      *c12Macro
	scope  c12Scope
	mscope map[string]*c12Macro
}

func c12Run(ns []*snode, e *c12Env, refs map[*c12Macro]*c12MacroRef, out *strings.Builder) {
	for _, n := range ns {
		switch n.kind {
		case "probe":
			out.WriteString("[" + e.lookup(n.name) + "]")
		case "set":
			e.top()[n.name] = n.val
		case "setnil":
			e.top()[n.name] = ""
		case "with":
			e.push(e.top(), e.mscope[len(e.mscope)-1])
			e.top()[n.name] = n.val
			c12Run(n.kids, e, refs, out)
			e.pop()
		case "for":
			e.push(e.top(), e.mscope[len(e.mscope)-1])
			for _, suffix := range []string{"x", "y"} {
				e.top()[n.name] = n.val + suffix
				c12Run(n.kids, e, refs, out)
			}
			e.pop()
		case "if":
			c12Run(n.kids, e, refs, out)
		case "with2":
			outer := e.lookup(n.name)
			e.push(e.top(), e.mscope[len(e.mscope)-1])
			e.top()[n.name] = n.val
			e.top()[n.file] = outer
			c12Run(n.kids, e, refs, out)
			e.pop()
		case "forempty":
			e.push(e.top(), e.mscope[len(e.mscope)-1])
			c12Run(n.kids, e, refs, out)
			e.pop()
		case "sortloop":
		case "macrodef":
			m := &c12Macro{param: n.val, body: n.kids}
			if n.file != "" {
				qd := strings.SplitN(n.file, "=", 2)
				m.q, m.d = qd[0], qd[1]
			}
			refs[m] = &c12MacroRef{m: m, scope: e.top(), mscope: e.mscope[len(e.mscope)-1]}
			e.mscope[len(e.mscope)-1][n.name] = m
		case "call", "call0":
			m := e.mscope[len(e.mscope)-1][n.name]
			if m == nil {
				// not bound in this scope: the name resolves to nothing
				continue
			}
			ref := refs[m]
			e.push(ref.scope, ref.mscope)
			if m.q != "" {
				// the default: what the name means in the defining scope, before any parameter is bound
				e.top()[m.q] = e.lookup(m.d)
			}
			if m.param != "" {
				e.top()[m.param] = n.val // "" for an omitted argument: bound, and empty
			}
			var sb strings.Builder
			c12Run(m.body, e, refs, &sb)
			e.pop()
			out.WriteString(sb.String())
		case "include":
			inc := map[string]string{}
			if !n.only {
				for k, v := range e.public {
					inc[k] = v
				}
				for k, v := range e.top() {
					inc[k] = v
				}
			} else {
				inc["g"] = e.public["g"] // globals are visible in every template of the set
				if _, ok := map[string]bool{"a": true}["a"]; ok {
					inc["a"] = "GA" // the global a (the includer's context a is not passed)
				}
			}
			if n.name != "" {
				inc[n.name] = n.val
			}
			out.WriteString("<" + inc["a"] + "," + inc["b"] + "," + inc["c"] + "," + inc["g"] + ">")
		}
	}
}

func runC12(r *run) {
	rg := newRng(r.seed)
	gen := func(emit func(caseT)) {
		n := 5000
		if r.tier == "thorough" {
			n = 120000
		}
		for i := 0; i < n; i++ {
			g := &c12Gen{rg: rg.fork(uint64(i)), files: map[string]string{}}
			prog := g.body(3)
			src := c12Print(prog)
			w := &world{globals: gctx{{"g", gStr("G0")}, {"a", gStr("GA")}}}
			if len(g.files) > 0 {
				w.files = []map[string]string{g.files}
			}
			ctx := gctx{{"a", gStr("A0")}, {"b", gStr("B0")}, {"el", gList()}}
			e := &c12Env{public: map[string]string{"g": "G0", "a": "A0", "b": "B0"}}
			e.scopes = []c12Scope{{}}
			e.mscope = []map[string]*c12Macro{{}}
			var out strings.Builder
			c12Run(prog, e, map[*c12Macro]*c12MacroRef{}, &out)
			a := w.args(src, ctx)
			a = append(a, "-", "-", hx(out.String()))
			emit(caseT{"render", a})
		}
		// context key validation, macro clash, globals overriding
		w := &world{globals: gctx{{"g", gStr("G0")}, {"a", gStr("GA")}}}
		for _, c := range []struct {
			src  string
			ctx  gctx
			want string
		}{
			{"{{ a }}{{ g }}", gctx{{"a", gStr("A0")}}, obsOK("A0G0")},
			{"{{ a }}{{ g }}", gctx{}, obsOK("GAG0")},
			{"{{ a }}", gctx{{"not an identifier", gInt(1)}}, "xerr"},
			{"{{ a }}", gctx{{"k-ey", gInt(1)}}, "xerr"},
			{"{{ a }}", gctx{{"", gInt(1)}}, "xerr"},
			{"{{ a }}", gctx{{"ok_1", gInt(1)}}, obsOK("GA")},
			{"{{ a }}", gctx{{"größe", gInt(1)}}, "xerr"},
			{"{{ a }}", gctx{{"名前", gInt(1)}}, "xerr"},
			{"{{ a }}", gctx{{"n٣", gInt(1)}}, "xerr"},
			{"{{ a }}", gctx{{"ａ", gInt(1)}}, "xerr"},
			{"{{ a }}", gctx{{"a.b", gInt(1)}}, "xerr"},
			{"{{ a }}", gctx{{"a\n", gInt(1)}}, "xerr"},
			{"{{ a }}", gctx{{"_A9", gInt(1)}}, obsOK("GA")},
			{"{% macro mm() export %}x{% endmacro %}{{ mm() }}", gctx{{"mm", gInt(1)}}, "xerr"},
			{"{% macro mm() export %}x{% endmacro %}{{ mm() }}", gctx{{"zz", gInt(1)}}, obsOK("x")},
			{"{% macro mm() %}x{% endmacro %}{{ mm() }}", gctx{{"mm", gInt(1)}}, obsOK("x")},
		} {
			a := w.args(c.src, c.ctx)
			a = append(a, "-", "-", hx(c.want))
			emit(caseT{"validate", a})
		}
	}
	driveCases(r, gen, execC12)
	r.finish(nil)
}

func deepCopyAny(v any) any {
	switch x := v.(type) {
	case map[string]any:
		m := map[string]any{}
		for k, e := range x {
			m[k] = deepCopyAny(e)
		}
		return m
	case []any:
		l := make([]any, len(x))
		for i, e := range x {
			l[i] = deepCopyAny(e)
		}
		return l
	case []int:
		return append([]int{}, x...)
	case []string:
		return append([]string{}, x...)
	case []float64:
		return append([]float64{}, x...)
	}
	return v
}

func execC12(r *run, c caseT) {
	w, src, ctx := worldFromArgs(c.args)
	b := w.build()
	goCtx := ctx.goContext()
	// typed slices the model does not know (it sees nothing to iterate: same output)
	goCtx["tnums"] = []int{3, 1, 2}
	goCtx["tstrs"] = []string{"b", "c", "a"}
	b.set.Globals["gnums"] = []int{9, 7, 8}
	ctxBefore := deepCopyAny(map[string]any(goCtx))
	globBefore := deepCopyAny(map[string]any(b.set.Globals))
	obs := ""
	tpl, err, p := compileIn(b, src, false)
	var out string
	if p != nil {
		obs = "panic"
	} else if err != nil {
		obs = "cerr"
	} else {
		var xerr error
		out, xerr, p = executeIn(tpl, goCtx)
		switch {
		case p != nil:
			obs = "panic"
		case xerr != nil:
			obs = "xerr"
		default:
			obs = obsOK(out)
		}
	}
	id := r.emit(c.op, c.args, obs)
	if id%701 == 0 {
		r.sample(map[string]any{"template": src, "observed": obs})
	}
	if p != nil {
		r.reject(id, "panic", map[string]any{"template": src, "panic": fmt.Sprint(p)})
		return
	}
	if !reflect.DeepEqual(ctxBefore, map[string]any(goCtx)) {
		r.reject(id, "executing the template modified the caller's Context", map[string]any{"template": src})
	}
	if !reflect.DeepEqual(globBefore, map[string]any(b.set.Globals)) {
		r.reject(id, "executing the template modified the set's Globals", map[string]any{"template": src})
	}
	if strings.Count(src, "{% ") > 2 {
		r.nontrivial(c.args[0])
	}
	if len(c.args) > 9 {
		want := unhx(c.args[9])
		if c.op == "render" {
			want = obsOK(want)
		}
		if obs != want {
			what := "bindings are not visible exactly inside their construct"
			if c.op == "validate" {
				what = "context key validation / globals layering is wrong"
			}
			r.reject(id, what, map[string]any{"template": src, "files": c.args[2], "observed": obs, "expected": want})
		}
	}
	_ = pongo2.Context{}
}
