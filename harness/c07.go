package main

import (
	"fmt"
	"math"
	"strconv"
	"strings"

	"github.com/flosch/pongo2/v6"
)

func init() { props["C07"] = runC07 }

// ---- expression trees of the uncontroversial fragment, their minimal-parentheses
// printer and an independent evaluator ----

type ex struct {
	op   string // int float str bool var | neg not | ^ * / % + - | < <= > >= == != in | and or
	kids []*ex
	i    int
	f    string // float literal text
	s    string
	b    bool
	name string
}

type evalue struct {
	kind byte // i f s b l
	i    int
	f    float64
	s    string
	b    bool
	l    []evalue
}

var errDivZero = fmt.Errorf("divide by zero")

func prec(e *ex) int {
	switch e.op {
	case "and", "or":
		return 0
	case "<", "<=", ">", ">=", "==", "!=", "in":
		return 1
	case "+", "-", "neg", "not":
		return 2
	case "*", "/", "%":
		return 3
	case "^":
		return 4
	}
	return 5
}

type printer struct {
	rg *rng
}

func (p *printer) sp() string {
	if p.rg == nil {
		return " "
	}
	switch p.rg.intn(5) {
	case 0:
		return ""
	case 1:
		return "  "
	case 2:
		return "\t"
	}
	return " "
}
func (p *printer) sp1() string {
	s := p.sp()
	if s == "" {
		return " "
	}
	return s
}

func (p *printer) opSpelling(op string) string {
	if p.rg == nil {
		return op
	}
	switch op {
	case "and":
		return p.rg.pick([]string{"and", "&&"})
	case "or":
		return p.rg.pick([]string{"or", "||"})
	case "!=":
		return p.rg.pick([]string{"!=", "<>"})
	case "not":
		return p.rg.pick([]string{"not ", "!"})
	}
	return op
}

func isWordOp(op string) bool { return op == "and" || op == "or" || op == "in" || op == "not " }

func (p *printer) pr(e *ex, level int) string {
	s := p.pr0(e)
	if prec(e) < level {
		return "(" + p.sp() + s + p.sp() + ")"
	}
	return s
}

func (p *printer) pr0(e *ex) string {
	switch e.op {
	case "int":
		if p.rg != nil && e.i >= 0 && p.rg.chance(1, 8) {
			// a decimal literal may be written with leading zeros: still decimal
			return strings.Repeat("0", 1+p.rg.intn(2)) + strconv.Itoa(e.i)
		}
		return strconv.Itoa(e.i)
	case "float":
		return e.f
	case "str":
		return "\"" + e.s + "\""
	case "bool":
		if e.b {
			return "true"
		}
		return "false"
	case "var":
		return e.name
	case "neg":
		return "-" + p.pr(e.kids[0], 3)
	case "not":
		return p.opSpelling("not") + p.pr(e.kids[0], 5)
	case "^":
		return p.pr(e.kids[0], 5) + p.sp() + "^" + p.sp() + p.pr(e.kids[1], 4)
	case "*", "/", "%":
		return p.pr(e.kids[0], 3) + p.sp() + e.op + p.sp() + p.pr(e.kids[1], 4)
	case "+", "-":
		return p.pr(e.kids[0], 2) + p.sp() + e.op + p.sp() + p.pr(e.kids[1], 3)
	case "<", "<=", ">", ">=", "==", "!=":
		return p.pr(e.kids[0], 2) + p.sp() + p.opSpelling(e.op) + p.sp() + p.pr(e.kids[1], 2)
	case "in":
		return p.pr(e.kids[0], 2) + p.sp1() + "in" + p.sp1() + p.pr(e.kids[1], 2)
	case "and", "or":
		// no unparenthesised mix of and/or; a same-operator chain nests to the right
		l := p.pr(e.kids[0], 1)
		var r string
		if e.kids[1].op == e.op {
			r = p.pr0(e.kids[1])
		} else {
			r = p.pr(e.kids[1], 1)
		}
		op := p.opSpelling(e.op)
		if isWordOp(op) {
			return l + p.sp1() + op + p.sp1() + r
		}
		return l + p.sp() + op + p.sp() + r
	}
	panic("bad op " + e.op)
}

func canon(v evalue) string {
	switch v.kind {
	case 'i':
		return strconv.Itoa(v.i)
	case 'f':
		return fmt.Sprintf("%f", v.f)
	case 's':
		return v.s
	case 'b':
		if v.b {
			return "True"
		}
		return "False"
	}
	return "?"
}

func truthy(v evalue) bool {
	switch v.kind {
	case 'i':
		return v.i != 0
	case 'f':
		return v.f != 0
	case 's':
		return len(v.s) > 0
	case 'b':
		return v.b
	case 'l':
		return len(v.l) > 0
	}
	return false
}

func toF(v evalue) float64 {
	if v.kind == 'f' {
		return v.f
	}
	return float64(v.i)
}

// seval: the fully parenthesised reading of the tree. ok=false: outside the fragment
// (the generator should not have produced it).
func seval(e *ex, env map[string]evalue) (evalue, error, bool) {
	bin := func() (evalue, evalue, error, bool) {
		a, err, ok := seval(e.kids[0], env)
		if err != nil || !ok {
			return a, a, err, ok
		}
		b, err, ok := seval(e.kids[1], env)
		return a, b, err, ok
	}
	num := func(v evalue) bool { return v.kind == 'i' || v.kind == 'f' }
	switch e.op {
	case "int":
		return evalue{kind: 'i', i: e.i}, nil, true
	case "float":
		f, _ := strconv.ParseFloat(e.f, 64)
		return evalue{kind: 'f', f: f}, nil, true
	case "str":
		return evalue{kind: 's', s: e.s}, nil, true
	case "bool":
		return evalue{kind: 'b', b: e.b}, nil, true
	case "var":
		v, ok := env[e.name]
		return v, nil, ok
	case "neg":
		a, err, ok := seval(e.kids[0], env)
		if err != nil || !ok {
			return a, err, ok
		}
		if a.kind == 'i' {
			return evalue{kind: 'i', i: -a.i}, nil, true
		}
		if a.kind == 'f' {
			return evalue{kind: 'f', f: -1 * a.f}, nil, true
		}
		return a, nil, false
	case "not":
		a, err, ok := seval(e.kids[0], env)
		if err != nil || !ok {
			return a, err, ok
		}
		if a.kind != 'b' {
			return a, nil, false
		}
		return evalue{kind: 'b', b: !a.b}, nil, true
	case "^":
		a, b, err, ok := bin()
		if err != nil || !ok || !num(a) || !num(b) {
			return a, err, false
		}
		return evalue{kind: 'f', f: math.Pow(toF(a), toF(b))}, nil, true
	case "*", "/", "-":
		a, b, err, ok := bin()
		if err != nil || !ok {
			return a, err, ok
		}
		if !num(a) || !num(b) {
			return a, nil, false
		}
		if a.kind == 'f' || b.kind == 'f' {
			x, y := toF(a), toF(b)
			switch e.op {
			case "*":
				return evalue{kind: 'f', f: x * y}, nil, true
			case "-":
				return evalue{kind: 'f', f: x - y}, nil, true
			}
			if y == 0 {
				return a, errDivZero, true
			}
			return evalue{kind: 'f', f: x / y}, nil, true
		}
		switch e.op {
		case "*":
			return evalue{kind: 'i', i: a.i * b.i}, nil, true
		case "-":
			return evalue{kind: 'i', i: a.i - b.i}, nil, true
		}
		if b.i == 0 {
			return a, errDivZero, true
		}
		return evalue{kind: 'i', i: a.i / b.i}, nil, true
	case "%":
		a, b, err, ok := bin()
		if err != nil || !ok {
			return a, err, ok
		}
		if a.kind != 'i' || b.kind != 'i' {
			return a, nil, false
		}
		if b.i == 0 {
			return a, errDivZero, true
		}
		return evalue{kind: 'i', i: a.i % b.i}, nil, true
	case "+":
		a, b, err, ok := bin()
		if err != nil || !ok {
			return a, err, ok
		}
		if a.kind == 's' || b.kind == 's' {
			return evalue{kind: 's', s: canon(a) + canon(b)}, nil, true
		}
		if !num(a) || !num(b) {
			return a, nil, false
		}
		if a.kind == 'f' || b.kind == 'f' {
			return evalue{kind: 'f', f: toF(a) + toF(b)}, nil, true
		}
		return evalue{kind: 'i', i: a.i + b.i}, nil, true
	case "<", "<=", ">", ">=":
		a, b, err, ok := bin()
		if err != nil || !ok {
			return a, err, ok
		}
		if !num(a) || !num(b) {
			return a, nil, false
		}
		var r bool
		if a.kind == 'f' || b.kind == 'f' {
			x, y := toF(a), toF(b)
			switch e.op {
			case "<":
				r = x < y
			case "<=":
				r = x <= y
			case ">":
				r = x > y
			default:
				r = x >= y
			}
		} else {
			switch e.op {
			case "<":
				r = a.i < b.i
			case "<=":
				r = a.i <= b.i
			case ">":
				r = a.i > b.i
			default:
				r = a.i >= b.i
			}
		}
		return evalue{kind: 'b', b: r}, nil, true
	case "==", "!=":
		a, b, err, ok := bin()
		if err != nil || !ok {
			return a, err, ok
		}
		if a.kind != b.kind || a.kind == 'l' {
			return a, nil, false // cross-type equality is outside the fragment
		}
		var eq bool
		switch a.kind {
		case 'i':
			eq = a.i == b.i
		case 'f':
			eq = a.f == b.f
		case 's':
			eq = a.s == b.s
		case 'b':
			eq = a.b == b.b
		}
		if e.op == "!=" {
			eq = !eq
		}
		return evalue{kind: 'b', b: eq}, nil, true
	case "in":
		a, b, err, ok := bin()
		if err != nil || !ok {
			return a, err, ok
		}
		if b.kind == 's' && a.kind == 's' {
			return evalue{kind: 'b', b: strings.Contains(b.s, a.s)}, nil, true
		}
		if b.kind == 'l' {
			for _, it := range b.l {
				if it.kind != a.kind {
					return a, nil, false
				}
				if (a.kind == 'i' && it.i == a.i) || (a.kind == 's' && it.s == a.s) {
					return evalue{kind: 'b', b: true}, nil, true
				}
			}
			return evalue{kind: 'b', b: false}, nil, true
		}
		return a, nil, false
	case "and", "or":
		a, err, ok := seval(e.kids[0], env)
		if err != nil || !ok {
			return a, err, ok
		}
		if e.op == "and" && !truthy(a) {
			return evalue{kind: 'b', b: false}, nil, true
		}
		if e.op == "or" && truthy(a) {
			return evalue{kind: 'b', b: true}, nil, true
		}
		b, err, ok := seval(e.kids[1], env)
		if err != nil || !ok {
			return b, err, ok
		}
		return evalue{kind: 'b', b: truthy(b)}, nil, true
	}
	return evalue{}, nil, false
}

// ---- the environment shared by all C07 cases ----

var c07Env = map[string]evalue{
	"a": {kind: 'i', i: 3}, "n": {kind: 'i', i: -2}, "z": {kind: 'i', i: 0}, "big": {kind: 'i', i: math.MaxInt64},
	"x": {kind: 'f', f: 2.5}, "h": {kind: 'f', f: 0.5},
	"s": {kind: 's', s: "ab"}, "e": {kind: 's', s: ""},
	"t": {kind: 'b', b: true}, "u": {kind: 'b', b: false},
	"l": {kind: 'l', l: []evalue{{kind: 'i', i: 1}, {kind: 'i', i: 3}}},
	"w": {kind: 'l', l: []evalue{{kind: 's', s: "ab"}, {kind: 's', s: "c"}}},
}

func c07Ctx() gctx {
	return gctx{
		{"a", gInt(3)}, {"n", gInt(-2)}, {"z", gInt(0)}, {"big", gInt(math.MaxInt64)},
		{"x", gFloat("2.5")}, {"h", gFloat("0.5")},
		{"s", gStr("ab")}, {"e", gStr("")},
		{"t", gBool(true)}, {"u", gBool(false)},
		{"l", gList(gInt(1), gInt(3))}, {"w", gList(gStr("ab"), gStr("c"))},
	}
}

// typed generation keeps the trees inside the fragment
type exGen struct {
	rg    *rng
	small bool // small alphabet (exhaustive-style enumeration by random sampling is not used then)
}

func lit(op string) *ex { return &ex{op: op} }

func (g *exGen) numAtom() *ex {
	switch g.rg.intn(9) {
	case 0:
		return &ex{op: "int", i: g.rg.intn(5)}
	case 1:
		return &ex{op: "int", i: 7 + g.rg.intn(30)}
	case 2:
		return &ex{op: "float", f: g.rg.pick([]string{"1.5", "0.25", "2.0", "10.75", "0.1"})}
	case 3:
		return &ex{op: "var", name: "a"}
	case 4:
		return &ex{op: "var", name: "n"}
	case 5:
		return &ex{op: "var", name: "x"}
	case 6:
		return &ex{op: "var", name: "z"}
	case 7:
		return &ex{op: "var", name: "h"}
	}
	return &ex{op: "int", i: 2}
}
func (g *exGen) intAtom() *ex {
	switch g.rg.intn(5) {
	case 0:
		return &ex{op: "var", name: "a"}
	case 1:
		return &ex{op: "var", name: "n"}
	case 2:
		return &ex{op: "var", name: "z"}
	}
	return &ex{op: "int", i: g.rg.intn(6)}
}
func (g *exGen) strAtom() *ex {
	switch g.rg.intn(4) {
	case 0:
		return &ex{op: "var", name: "s"}
	case 1:
		return &ex{op: "var", name: "e"}
	}
	return &ex{op: "str", s: g.rg.pick([]string{"a", "b", "ab", "", "x y", "+", "-", "*", "and", "not", "in", "==", "(", "|", "1", "-1"})}
}

func (g *exGen) num(d int) *ex {
	if d <= 0 || g.rg.chance(1, 4) {
		return g.numAtom()
	}
	switch g.rg.intn(9) {
	case 0:
		return &ex{op: "neg", kids: []*ex{g.num(d - 1)}}
	case 1:
		// small integral bases/exponents keep math.Pow exact
		return &ex{op: "^", kids: []*ex{{op: "int", i: 1 + g.rg.intn(4)}, {op: "int", i: g.rg.intn(4)}}}
	case 2:
		return &ex{op: "%", kids: []*ex{g.intExpr(d - 1), g.intExpr(d - 1)}}
	}
	op := g.rg.pick([]string{"+", "-", "*", "/"})
	return &ex{op: op, kids: []*ex{g.num(d - 1), g.num(d - 1)}}
}
func (g *exGen) intExpr(d int) *ex {
	if d <= 0 || g.rg.chance(1, 3) {
		return g.intAtom()
	}
	op := g.rg.pick([]string{"+", "-", "*", "/", "%"})
	return &ex{op: op, kids: []*ex{g.intExpr(d - 1), g.intExpr(d - 1)}}
}
func (g *exGen) str(d int) *ex {
	if d <= 0 || g.rg.chance(1, 3) {
		return g.strAtom()
	}
	if g.rg.chance(1, 2) {
		return &ex{op: "+", kids: []*ex{g.str(d - 1), g.num(d - 1)}}
	}
	return &ex{op: "+", kids: []*ex{g.anyVal(d - 1), g.str(d - 1)}}
}
func (g *exGen) anyVal(d int) *ex {
	switch g.rg.intn(3) {
	case 0:
		return g.num(d)
	case 1:
		return g.str(d)
	}
	return g.boolE(d)
}
func (g *exGen) boolE(d int) *ex {
	if d <= 0 || g.rg.chance(1, 5) {
		switch g.rg.intn(4) {
		case 0:
			return &ex{op: "bool", b: true}
		case 1:
			return &ex{op: "bool", b: false}
		case 2:
			return &ex{op: "var", name: "t"}
		}
		return &ex{op: "var", name: "u"}
	}
	switch g.rg.intn(8) {
	case 0:
		return &ex{op: "not", kids: []*ex{g.boolE(d - 1)}}
	case 1:
		return &ex{op: g.rg.pick([]string{"and", "or"}), kids: []*ex{g.anyVal(d - 1), g.anyVal(d - 1)}}
	case 2:
		return &ex{op: "in", kids: []*ex{g.strAtom(), g.str(d - 1)}}
	case 3:
		if g.rg.chance(1, 2) {
			return &ex{op: "in", kids: []*ex{g.intAtom(), {op: "var", name: "l"}}}
		}
		return &ex{op: "in", kids: []*ex{g.strAtom(), {op: "var", name: "w"}}}
	case 4:
		op := g.rg.pick([]string{"==", "!="})
		switch g.rg.intn(3) {
		case 0:
			return &ex{op: op, kids: []*ex{g.intExpr(d - 1), g.intExpr(d - 1)}}
		case 1:
			return &ex{op: op, kids: []*ex{g.str(d - 1), g.str(d - 1)}}
		}
		return &ex{op: op, kids: []*ex{g.boolE(d - 1), g.boolE(d - 1)}}
	}
	op := g.rg.pick([]string{"<", "<=", ">", ">="})
	return &ex{op: op, kids: []*ex{g.num(d - 1), g.num(d - 1)}}
}

// exhaustive enumeration of small trees
func enumTrees(depth int) []*ex {
	atoms := []*ex{{op: "int", i: 0}, {op: "int", i: 2}, {op: "var", name: "a"}, {op: "var", name: "n"}, {op: "float", f: "1.5"},
		{op: "str", s: "a"}, {op: "var", name: "s"}, {op: "bool", b: true}, {op: "var", name: "u"}}
	if depth == 0 {
		return atoms
	}
	sub := enumTrees(depth - 1)
	out := append([]*ex{}, atoms...)
	for _, k := range sub {
		out = append(out, &ex{op: "neg", kids: []*ex{k}}, &ex{op: "not", kids: []*ex{k}})
	}
	for _, op := range []string{"^", "*", "/", "%", "+", "-", "<", "<=", ">", ">=", "==", "!=", "in", "and", "or"} {
		for _, a := range sub {
			for _, b := range sub {
				out = append(out, &ex{op: op, kids: []*ex{a, b}})
			}
		}
	}
	return out
}

func runC07(r *run) {
	rg := newRng(r.seed)
	w := &world{}
	ctx := c07Ctx()
	gen := func(emit func(caseT)) {
		depth := 2
		nrand := 20000
		if r.tier == "thorough" {
			nrand = 300000
		}
		plain := &printer{}
		emitTree := func(e *ex) {
			if _, _, ok := seval(e, c07Env); !ok {
				return // outside the fragment
			}
			src := plain.pr(e, 0)
			emit(caseT{"render", w.args("{% autoescape off %}{{ "+src+" }}{% endautoescape %}|{% if "+src+" %}T{% else %}F{% endif %}", ctx)})
		}
		_ = depth
		// every pair of adjacent operators in both nestings, over all atom triples
		atoms := enumTrees(0)
		binops := []string{"^", "*", "/", "%", "+", "-", "<", "<=", ">", ">=", "==", "!=", "in", "and", "or"}
		for _, e := range enumTrees(1) {
			emitTree(e)
		}
		small := []*ex{atoms[1], atoms[2], atoms[3], atoms[4], atoms[5], atoms[7]}
		if r.tier == "thorough" {
			small = atoms
		}
		for _, op1 := range binops {
			for _, op2 := range binops {
				for _, a := range small {
					for _, b := range small {
						for _, c := range small {
							emitTree(&ex{op: op2, kids: []*ex{{op: op1, kids: []*ex{a, b}}, c}})
							emitTree(&ex{op: op1, kids: []*ex{a, {op: op2, kids: []*ex{b, c}}}})
						}
					}
				}
			}
			for _, a := range small {
				for _, b := range small {
					emitTree(&ex{op: "neg", kids: []*ex{{op: op1, kids: []*ex{a, b}}}})
					emitTree(&ex{op: op1, kids: []*ex{{op: "neg", kids: []*ex{a}}, b}})
					emitTree(&ex{op: op1, kids: []*ex{a, {op: "neg", kids: []*ex{b}}}})
					emitTree(&ex{op: "not", kids: []*ex{{op: op1, kids: []*ex{a, b}}}})
					emitTree(&ex{op: op1, kids: []*ex{{op: "not", kids: []*ex{a}}, b}})
					emitTree(&ex{op: op1, kids: []*ex{a, {op: "not", kids: []*ex{b}}}})
				}
			}
		}
		if r.tier == "thorough" {
			// full depth 2, sampled deterministically
			for i, e := range enumTrees(2) {
				if i%5 == 0 {
					emitTree(e)
				}
			}
		}
		// equality of floats is equality of the doubles (no tolerance); list literals are built from
		// their elements' current values every time they are evaluated
		for _, src := range []string{"0.1 + 0.2 == 0.3", "0.1 + 0.2 > 0.3", "1.1 * 1.1 == 1.21", "1.0000000001 == 1.0", "0.5 + 0.25 == 0.75", "0.1 + 0.2 != 0.3", "0.3 in [0.1 + 0.2]", "0.75 in [0.5 + 0.25]",
			"1.5 * 3 == 4.5", "2.0 / 3 * 3 == 2.0", "10.75 - 0.75 == 10", "0.1 * 3 == 0.3", "100.0 * 1.1 == 110.0"} {
			emit(caseT{"render", w.args("{% autoescape off %}{{ "+src+" }}{% endautoescape %}|{% if "+src+" %}T{% else %}F{% endif %}", ctx)})
		}
		for _, src := range []string{"{% for i in l %}{{ 3 in [i, 0] }},{{ i in [1, i] }},{{ [i, 2]|length }};{% endfor %}", "{% for i in l %}{% for j in l %}{{ j in [i, 2] }}{% endfor %}|{% endfor %}",
			"{% for i in l %}{{ [i, 2]|join:\"-\" }} {{ [a, i, \"x\"]|join:\"\" }};{% endfor %}", "{% with q=1 %}{{ 1 in [q, 5] }}{% endwith %}{% with q=7 %}{{ 1 in [q, 5] }}{% endwith %}"} {
			emit(caseT{"render", w.args("{% autoescape off %}"+src+"{% endautoescape %}", ctx)})
		}
		// the property puts the unary operators above * / %: `not a * b` read as (not a) * b.
		// (recorded finding: pongo2 reads it as not (a * b); attributed below)
		for _, a := range []string{"0", "1", "2", "z", "a", "n"} {
			for _, b := range []string{"0", "1", "5", "z", "a"} {
				for _, op := range []string{"*", "/", "%"} {
					for _, neg := range []string{"not ", "!", "-", "+"} {
						emit(caseT{"unaryterm", []string{hx(neg + a + " " + op + " " + b), hx("(" + neg + a + ") " + op + " " + b)}})
					}
				}
			}
		}
		// integer literals written with leading zeros are decimal
		for _, l := range []string{"010", "0100", "017", "008", "009", "00", "007", "0010", "01", "0777"} {
			for _, tpl := range []string{"L", "L + 1", "L * 2", "L == 10", "L - a", "L % 3", "L / 2", "-L", "L ^ 2", "L < 9", "1 + L * L", "L in l", "L|add:1"} {
				src := strings.ReplaceAll(tpl, "L", l)
				emit(caseT{"render", w.args("{% autoescape off %}{{ "+src+" }}{% endautoescape %}|{% if "+src+" %}T{% else %}F{% endif %}", ctx)})
			}
		}
		for i := 0; i < nrand; i++ {
			g := &exGen{rg: rg.fork(uint64(i))}
			var e *ex
			d := 2 + g.rg.intn(5)
			switch g.rg.intn(3) {
			case 0:
				e = g.num(d)
			case 1:
				e = g.str(d)
			default:
				e = g.boolE(d)
			}
			if _, _, ok := seval(e, c07Env); !ok {
				continue
			}
			p := &printer{rg: g.rg}
			src := p.pr(e, 0)
			emit(caseT{"render", w.args("{% autoescape off %}{{ "+src+p.sp()+"}}{% endautoescape %}|{% if "+src+" %}T{% else %}F{% endif %}", ctx)})
			if i%8 == 0 {
				// the same expression over context numbers of other Go kinds: what an expression
				// means does not depend on whether 3 arrives as int, int64, uint8 or int32
				emit(caseT{"gokinds", []string{hx("{% autoescape off %}{{ " + src + " }}{% endautoescape %}|{% if " + src + " %}T{% else %}F{% endif %}")}})
			}
		}
	}
	driveCases(r, gen, func(r *run, c caseT) { execC07(r, c) })
	r.finish(nil)
}

// reparse: the oracle needs the tree; cases carry only the source. The generator and the
// executor run in the same process, so the tree of the case being executed is kept here.
var c07Trees = map[string]*ex{}

func execGoKinds(r *run, c caseT) {
	src := unhx(c.args[0])
	tpl, err := pongo2.FromString(src)
	if err != nil {
		r.emit(c.op, c.args, "cerr")
		return
	}
	base := c07Ctx().goContext()
	run := func(cx pongo2.Context) string {
		out, xerr, p := executeIn(tpl, cx)
		switch {
		case p != nil:
			return "panic:" + fmt.Sprint(p)
		case xerr != nil:
			return "xerr"
		}
		return obsOK(out)
	}
	want := run(base)
	id := r.emit(c.op, c.args, "gokinds:"+want)
	r.nontrivial(c.args[0])
	conv := []func(int) any{func(i int) any { return int64(i) }, func(i int) any { return int32(i) }, func(i int) any { return int8(i) }, func(i int) any {
		if i >= 0 {
			return uint8(i)
		}
		return int16(i)
	}, func(i int) any {
		if i >= 0 {
			return uint64(i)
		}
		return int64(i)
	}}
	for vi, cv := range conv {
		cx := pongo2.Context{}
		for k, v := range base {
			cx[k] = v
			if iv, ok := v.(int); ok && iv > -100 && iv < 100 {
				cx[k] = cv(iv)
			}
			if lv, ok := v.([]any); ok {
				nl := make([]any, len(lv))
				for j, it := range lv {
					nl[j] = it
					if iv, ok := it.(int); ok {
						nl[j] = cv(iv)
					}
				}
				cx[k] = nl
			}
		}
		if got := run(cx); got != want {
			r.reject(id, "an expression gives another result when the context's numbers have another Go integer kind", map[string]any{"template": src, "variant": vi, "with_int": want, "observed": got})
			return
		}
	}
}

func execC07(r *run, c caseT) {
	if c.op == "unaryterm" {
		w := &world{}
		plain, tight := unhx(c.args[0]), unhx(c.args[1])
		o1, _ := w.render("{{ "+plain+" }}", false, c07Ctx())
		o2, _ := w.render("{{ "+tight+" }}", false, c07Ctx())
		id := r.emit(c.op, c.args, o1.obs+"/"+o2.obs)
		r.nontrivial(c.args[0])
		if o1.obs != o2.obs {
			what := "a unary operator does not bind tighter than * / %"
			if strings.HasPrefix(plain, "not ") || strings.HasPrefix(plain, "!") {
				what = "KF:C07-not-scopes-over-term `not` / `!` negates the whole following term (not a * b is not (a * b)), where the property puts the unary operators above * / %"
			}
			r.reject(id, what, map[string]any{"expression": plain, "observed": o1.obs, "property_reading": tight, "gives": o2.obs})
		}
		return
	}
	if c.op == "gokinds" {
		execGoKinds(r, c)
		return
	}
	w, src, ctx := worldFromArgs(c.args)
	o, _ := w.render(src, false, ctx)
	id := r.emit(c.op, c.args, o.obs)
	if id%4001 == 0 {
		r.sample(map[string]any{"template": src, "observed": o.obs})
	}
	if o.panicked != nil {
		r.reject(id, "panic", map[string]any{"template": src, "panic": fmt.Sprint(o.panicked)})
		return
	}
	// oracle: re-derive the tree from the source text by the independent parser below
	inner := src
	if i := strings.Index(inner, "{{"); i >= 0 {
		inner = inner[i+2:]
		inner = inner[:strings.Index(inner, "}}")]
	}
	e, ok := parseRef(strings.TrimSpace(inner))
	if !ok {
		r.stats["oracle_unparsed"]++
		return
	}
	v, err, inFrag := seval(e, c07Env)
	if !inFrag {
		r.stats["outside_fragment"]++
		return
	}
	r.nontrivial(inner)
	if err != nil {
		if o.obs != "xerr" {
			r.reject(id, "division or modulo by zero must be an execution error", map[string]any{"template": src, "observed": o.obs})
		}
		return
	}
	want := canon(v) + "|"
	if truthy(v) {
		want += "T"
	} else {
		want += "F"
	}
	if o.obs != obsOK(want) {
		r.reject(id, "expression does not evaluate as its fully parenthesised reading", map[string]any{"template": src, "observed": o.obs, "expected": want})
	}
}

// ---- an independent reference parser for the printed form (precedence climbing over
// the documented grammar), so that replayed cases can be judged from their source ----

type refLexer struct {
	s   string
	pos int
}

func (l *refLexer) ws() {
	for l.pos < len(l.s) && (l.s[l.pos] == ' ' || l.s[l.pos] == '\t' || l.s[l.pos] == '\r') {
		l.pos++
	}
}
func (l *refLexer) peekWord() string {
	l.ws()
	j := l.pos
	for j < len(l.s) && (l.s[j] == '_' || (l.s[j] >= 'a' && l.s[j] <= 'z') || (l.s[j] >= 'A' && l.s[j] <= 'Z') || (l.s[j] >= '0' && l.s[j] <= '9')) {
		j++
	}
	return l.s[l.pos:j]
}
func (l *refLexer) eat(tok string) bool {
	l.ws()
	if strings.HasPrefix(l.s[l.pos:], tok) {
		// word operators must not be prefixes of identifiers
		if tok[0] >= 'a' && tok[0] <= 'z' {
			if l.peekWord() != tok {
				return false
			}
		}
		l.pos += len(tok)
		return true
	}
	return false
}

func parseRef(s string) (*ex, bool) {
	l := &refLexer{s: s}
	e, ok := l.logic()
	l.ws()
	if !ok || l.pos != len(l.s) {
		return nil, false
	}
	return e, true
}

func (l *refLexer) logic() (*ex, bool) {
	a, ok := l.rel()
	if !ok {
		return nil, false
	}
	for _, op := range [][2]string{{"and", "and"}, {"&&", "and"}, {"or", "or"}, {"||", "or"}} {
		if l.eat(op[0]) {
			b, ok := l.logic()
			if !ok {
				return nil, false
			}
			return &ex{op: op[1], kids: []*ex{a, b}}, true
		}
	}
	return a, true
}
func (l *refLexer) rel() (*ex, bool) {
	a, ok := l.add()
	if !ok {
		return nil, false
	}
	for _, op := range [][2]string{{"==", "=="}, {"<=", "<="}, {">=", ">="}, {"!=", "!="}, {"<>", "!="}, {"<", "<"}, {">", ">"}, {"in", "in"}} {
		if l.eat(op[0]) {
			b, ok := l.add()
			if !ok {
				return nil, false
			}
			return &ex{op: op[1], kids: []*ex{a, b}}, true
		}
	}
	return a, true
}
func (l *refLexer) add() (*ex, bool) {
	var a *ex
	var ok bool
	l.ws()
	if l.pos < len(l.s) && l.s[l.pos] == '-' {
		l.pos++
		a, ok = l.mul()
		if !ok {
			return nil, false
		}
		a = &ex{op: "neg", kids: []*ex{a}}
	} else if l.eat("not") || l.eat("!") {
		if strings.HasPrefix(l.s[l.pos:], "=") { // "!=" is not a negation
			return nil, false
		}
		a, ok = l.atom()
		if !ok {
			return nil, false
		}
		a = &ex{op: "not", kids: []*ex{a}}
	} else {
		a, ok = l.mul()
		if !ok {
			return nil, false
		}
	}
	for {
		l.ws()
		if l.pos < len(l.s) && (l.s[l.pos] == '+' || (l.s[l.pos] == '-' && !strings.HasPrefix(l.s[l.pos:], "-}}"))) {
			op := string(l.s[l.pos])
			l.pos++
			b, ok := l.mul()
			if !ok {
				return nil, false
			}
			a = &ex{op: op, kids: []*ex{a, b}}
			continue
		}
		return a, true
	}
}
func (l *refLexer) mul() (*ex, bool) {
	a, ok := l.pow()
	if !ok {
		return nil, false
	}
	for {
		l.ws()
		if l.pos < len(l.s) && (l.s[l.pos] == '*' || l.s[l.pos] == '/' || l.s[l.pos] == '%') {
			op := string(l.s[l.pos])
			l.pos++
			b, ok := l.pow()
			if !ok {
				return nil, false
			}
			a = &ex{op: op, kids: []*ex{a, b}}
			continue
		}
		return a, true
	}
}
func (l *refLexer) pow() (*ex, bool) {
	a, ok := l.atom()
	if !ok {
		return nil, false
	}
	l.ws()
	if l.pos < len(l.s) && l.s[l.pos] == '^' {
		l.pos++
		b, ok := l.pow()
		if !ok {
			return nil, false
		}
		return &ex{op: "^", kids: []*ex{a, b}}, true
	}
	return a, true
}
func (l *refLexer) atom() (*ex, bool) {
	l.ws()
	if l.pos >= len(l.s) {
		return nil, false
	}
	c := l.s[l.pos]
	if c == '(' {
		l.pos++
		e, ok := l.logic()
		if !ok || !l.eat(")") {
			return nil, false
		}
		return e, true
	}
	if c == '"' {
		j := strings.IndexByte(l.s[l.pos+1:], '"')
		if j < 0 {
			return nil, false
		}
		s := l.s[l.pos+1 : l.pos+1+j]
		l.pos += j + 2
		return &ex{op: "str", s: s}, true
	}
	if c >= '0' && c <= '9' {
		j := l.pos
		for j < len(l.s) && l.s[j] >= '0' && l.s[j] <= '9' {
			j++
		}
		if j < len(l.s) && l.s[j] == '.' {
			k := j + 1
			for k < len(l.s) && l.s[k] >= '0' && l.s[k] <= '9' {
				k++
			}
			f := l.s[l.pos:k]
			l.pos = k
			return &ex{op: "float", f: f}, true
		}
		n, err := strconv.Atoi(l.s[l.pos:j])
		if err != nil {
			return nil, false
		}
		l.pos = j
		return &ex{op: "int", i: n}, true
	}
	w := l.peekWord()
	if w == "" {
		return nil, false
	}
	l.ws()
	l.pos += len(w)
	switch w {
	case "true":
		return &ex{op: "bool", b: true}, true
	case "false":
		return &ex{op: "bool", b: false}, true
	case "and", "or", "in", "not":
		return nil, false
	}
	return &ex{op: "var", name: w}, true
}
