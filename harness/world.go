package main

import (
	"bytes"
	"errors"
	"fmt"
	"io"
	"path/filepath"
	"reflect"
	"sort"
	"strconv"
	"strings"
	"sync"

	"github.com/flosch/pongo2/v6"
)

// ---- value descriptors: what the harness turns into real Go values and the model
// driver into model values.  Grammar (no spaces):
//   v ::= n | t | f | i<int> | d<hex of decimal text> | s<hex> | L(v,...) | M(hexkey:v,...) | T(hexname:v,...)
//   ctx ::= hexkey:[!]v;hexkey:[!]v...      ('!' = passed as pongo2.AsSafeValue)

type gval struct {
	kind  byte // n t f i d s L M T
	i     int
	txt   string // float text / string bytes
	items []*gval
	keys  []string
	safe  bool
}

func gNil() *gval { return &gval{kind: 'n'} }
func gBool(b bool) *gval {
	if b {
		return &gval{kind: 't'}
	}
	return &gval{kind: 'f'}
}
func gInt(i int) *gval           { return &gval{kind: 'i', i: i} }
func gFloat(txt string) *gval    { return &gval{kind: 'd', txt: txt} }
func gStr(s string) *gval        { return &gval{kind: 's', txt: s} }
func gList(items ...*gval) *gval { return &gval{kind: 'L', items: items} }
func gMap(keys []string, items []*gval) *gval {
	// keys sorted (the model keeps map entries sorted by key)
	idx := make([]int, len(keys))
	for i := range idx {
		idx[i] = i
	}
	sort.Slice(idx, func(a, b int) bool { return keys[idx[a]] < keys[idx[b]] })
	g := &gval{kind: 'M'}
	for _, j := range idx {
		g.keys = append(g.keys, keys[j])
		g.items = append(g.items, items[j])
	}
	return g
}
func gStruct(keys []string, items []*gval) *gval { return &gval{kind: 'T', keys: keys, items: items} }

func hxe(s string) string { // hex, empty string = ""
	return fmt.Sprintf("%x", s)
}

func (g *gval) descr() string {
	switch g.kind {
	case 'n', 't', 'f':
		return string(g.kind)
	case 'i':
		return "i" + strconv.Itoa(g.i)
	case 'd':
		return "d" + hxe(g.txt)
	case 's':
		return "s" + hxe(g.txt)
	case 'L':
		p := make([]string, len(g.items))
		for i, it := range g.items {
			p[i] = it.descr()
		}
		return "L(" + strings.Join(p, ",") + ")"
	case 'M', 'T':
		p := make([]string, len(g.items))
		for i, it := range g.items {
			p[i] = hxe(g.keys[i]) + ":" + it.descr()
		}
		return string(g.kind) + "(" + strings.Join(p, ",") + ")"
	}
	panic("bad gval")
}

var structTypeCache sync.Map

func (g *gval) goValue() any {
	switch g.kind {
	case 'n':
		return nil
	case 't':
		return true
	case 'f':
		return false
	case 'i':
		return g.i
	case 'd':
		f, err := strconv.ParseFloat(g.txt, 64)
		must(err)
		return f
	case 's':
		return g.txt
	case 'L':
		out := make([]any, len(g.items))
		for i, it := range g.items {
			out[i] = it.goValue()
		}
		return out
	case 'M':
		out := make(map[string]any, len(g.items))
		for i, it := range g.items {
			out[g.keys[i]] = it.goValue()
		}
		return out
	case 'T':
		fields := make([]reflect.StructField, len(g.items))
		for i := range g.items {
			fields[i] = reflect.StructField{Name: g.keys[i], Type: reflect.TypeOf((*any)(nil)).Elem()}
		}
		t := reflect.StructOf(fields)
		v := reflect.New(t).Elem()
		for i, it := range g.items {
			gv := it.goValue()
			if gv != nil {
				v.Field(i).Set(reflect.ValueOf(gv))
			}
		}
		return v.Interface()
	}
	panic("bad gval")
}

type ctxEntry struct {
	key string
	val *gval
}
type gctx []ctxEntry

func (c gctx) descr() string {
	if len(c) == 0 {
		return "-"
	}
	p := make([]string, len(c))
	for i, e := range c {
		s := ""
		if e.val.safe {
			s = "!"
		}
		p[i] = hxe(e.key) + ":" + s + e.val.descr()
	}
	return strings.Join(p, ";")
}
func (c gctx) goContext() pongo2.Context {
	out := pongo2.Context{}
	for _, e := range c {
		if e.val.safe {
			out[e.key] = pongo2.AsSafeValue(e.val.goValue())
		} else {
			out[e.key] = e.val.goValue()
		}
	}
	return out
}

// ---- parsing descriptors back (replay) ----

func parseGval(s string, pos *int) *gval {
	isHex := func(c byte) bool { return (c >= '0' && c <= '9') || (c >= 'a' && c <= 'f') }
	take := func(p func(byte) bool) string {
		st := *pos
		for *pos < len(s) && p(s[*pos]) {
			*pos++
		}
		return s[st:*pos]
	}
	c := s[*pos]
	*pos++
	switch c {
	case 'n', 't', 'f':
		return &gval{kind: c}
	case 'i':
		n, err := strconv.Atoi(take(func(c byte) bool { return c == '-' || (c >= '0' && c <= '9') }))
		must(err)
		return gInt(n)
	case 'd':
		return gFloat(unhx(take(isHex)))
	case 's':
		return gStr(unhx(take(isHex)))
	case 'L', 'M', 'T':
		g := &gval{kind: c}
		if s[*pos] != '(' {
			must(errors.New("descriptor: expected ("))
		}
		*pos++
		if s[*pos] == ')' {
			*pos++
			return g
		}
		for {
			if c != 'L' {
				g.keys = append(g.keys, unhx(take(isHex)))
				*pos++ // ':'
			}
			g.items = append(g.items, parseGval(s, pos))
			if s[*pos] == ',' {
				*pos++
				continue
			}
			*pos++ // ')'
			return g
		}
	}
	must(fmt.Errorf("descriptor: unexpected %q", c))
	return nil
}

func parseGctx(s string) gctx {
	if s == "-" || s == "" {
		return nil
	}
	var out gctx
	pos := 0
	for pos < len(s) {
		st := pos
		for s[pos] != ':' {
			pos++
		}
		k := unhx(s[st:pos])
		pos++
		safe := false
		if s[pos] == '!' {
			safe = true
			pos++
		}
		v := parseGval(s, &pos)
		v.safe = safe
		out = append(out, ctxEntry{k, v})
		if pos < len(s) && s[pos] == ';' {
			pos++
		}
	}
	return out
}

// ---- in-memory loaders that record every access ----

type memLoader struct {
	files map[string]string
	mu    sync.Mutex
	log   []string // "get <name> hit|miss"
	gets  map[string]int
	idx   int
	seq   *[]string // the set-wide access log, in order: "<loader index>:<name hex>:<1|0>"
	seqMu *sync.Mutex
}

func newMemLoader(files map[string]string) *memLoader {
	return &memLoader{files: files, gets: map[string]int{}}
}

// the path arithmetic of pongo2's FSLoader
func (l *memLoader) Abs(base, name string) string {
	return filepath.Join(filepath.Dir(base), name)
}

func (l *memLoader) Get(path string) (io.Reader, error) {
	l.mu.Lock()
	defer l.mu.Unlock()
	l.gets[path]++
	c, ok := l.files[path]
	if l.seq != nil {
		l.seqMu.Lock()
		h := "0"
		if ok {
			h = "1"
		}
		*l.seq = append(*l.seq, fmt.Sprintf("%d:%s:%s", l.idx, hxe(path), h))
		l.seqMu.Unlock()
	}
	if !ok {
		l.log = append(l.log, "get "+path+" miss")
		return nil, errors.New("not found: " + path)
	}
	l.log = append(l.log, "get "+path+" hit")
	return bytes.NewReader([]byte(c)), nil
}

// ---- worlds ----

type world struct {
	files   []map[string]string // one map per loader
	trim    bool
	lstrip  bool
	banF    []string
	banT    []string
	globals gctx
}

func filesDescr(files []map[string]string) string {
	if len(files) == 0 {
		return "-"
	}
	ls := make([]string, len(files))
	for i, m := range files {
		names := make([]string, 0, len(m))
		for n := range m {
			names = append(names, n)
		}
		sort.Strings(names)
		p := make([]string, len(names))
		for j, n := range names {
			p[j] = hxe(n) + ":" + hxe(m[n])
		}
		ls[i] = strings.Join(p, ",")
	}
	return strings.Join(ls, "|")
}

func hexList(l []string) string {
	if len(l) == 0 {
		return "-"
	}
	p := make([]string, len(l))
	for i, s := range l {
		p[i] = hxe(s)
	}
	return strings.Join(p, ",")
}

func parseHexList(s string) []string {
	if s == "-" || s == "" {
		return nil
	}
	var out []string
	for _, h := range strings.Split(s, ",") {
		out = append(out, unhx(h))
	}
	return out
}

func parseFiles(s string) []map[string]string {
	if s == "-" || s == "" {
		return nil
	}
	var out []map[string]string
	for _, l := range strings.Split(s, "|") {
		m := map[string]string{}
		if l != "" {
			for _, kv := range strings.Split(l, ",") {
				p := strings.SplitN(kv, ":", 2)
				v := ""
				if len(p) > 1 {
					v = unhx(p[1])
				}
				m[unhx(p[0])] = v
			}
		}
		out = append(out, m)
	}
	return out
}

func (w *world) opts() string {
	o := ""
	if w.trim {
		o += "T"
	}
	if w.lstrip {
		o += "L"
	}
	if o == "" {
		return "-"
	}
	return o
}

// args of the "render"/"renderfile" ops: src|name, ctx, files, opts, banF, banT, globals
func (w *world) args(srcOrName string, ctx gctx) []string {
	return []string{hx(srcOrName), ctx.descr(), filesDescr(w.files), w.opts(), hexList(w.banF), hexList(w.banT), w.globals.descr()}
}

func worldFromArgs(args []string) (*world, string, gctx) {
	get := func(i int) string {
		if i < len(args) {
			return args[i]
		}
		return "-"
	}
	w := &world{files: parseFiles(get(2)), banF: parseHexList(get(4)), banT: parseHexList(get(5)), globals: parseGctx(get(6))}
	w.trim = strings.Contains(get(3), "T")
	w.lstrip = strings.Contains(get(3), "L")
	return w, unhx(get(0)), parseGctx(get(1))
}

type built struct {
	set     *pongo2.TemplateSet
	loaders []*memLoader
	seq     []string
	seqMu   sync.Mutex
}

func (w *world) build() *built {
	b := &built{}
	var ls []pongo2.TemplateLoader
	for i, m := range w.files {
		l := newMemLoader(m)
		l.idx, l.seq, l.seqMu = i, &b.seq, &b.seqMu
		b.loaders = append(b.loaders, l)
		ls = append(ls, l)
	}
	if len(ls) == 0 {
		l := newMemLoader(map[string]string{})
		l.seq, l.seqMu = &b.seq, &b.seqMu
		b.loaders = append(b.loaders, l)
		ls = append(ls, l)
	}
	b.set = pongo2.NewSet("verif", ls...)
	b.set.Options.TrimBlocks = w.trim
	b.set.Options.LStripBlocks = w.lstrip
	for _, f := range w.banF {
		_ = b.set.BanFilter(f)
	}
	for _, t := range w.banT {
		_ = b.set.BanTag(t)
	}
	for k, v := range w.globals.goContext() {
		b.set.Globals[k] = v
	}
	return b
}

type outcome struct {
	obs      string
	out      string
	compiled bool
	err      error
	panicked any
	tpl      *pongo2.Template
}

// compileIn compiles a string or a file in a built world, recovering panics.
func compileIn(b *built, srcOrName string, isFile bool) (tpl *pongo2.Template, err error, panicked any) {
	defer func() {
		if r := recover(); r != nil {
			panicked = r
		}
	}()
	if isFile {
		tpl, err = b.set.FromFile(srcOrName)
	} else {
		tpl, err = b.set.FromString(srcOrName)
	}
	return
}

func executeIn(tpl *pongo2.Template, ctx pongo2.Context) (out string, err error, panicked any) {
	defer func() {
		if r := recover(); r != nil {
			panicked = r
		}
	}()
	out, err = tpl.Execute(ctx)
	return
}

// render compiles and executes once in a fresh world.
func (w *world) render(srcOrName string, isFile bool, ctx gctx) (*outcome, *built) {
	b := w.build()
	o := &outcome{}
	tpl, err, p := compileIn(b, srcOrName, isFile)
	if p != nil {
		o.obs, o.panicked = "panic", p
		return o, b
	}
	if err != nil {
		o.obs, o.err = "cerr", err
		return o, b
	}
	o.compiled, o.tpl = true, tpl
	out, err, p := executeIn(tpl, ctx.goContext())
	if p != nil {
		o.obs, o.panicked = "panic", p
		return o, b
	}
	if err != nil {
		o.obs, o.err = "xerr", err
		return o, b
	}
	o.obs, o.out = obsOK(out), out
	return o, b
}
