package main

import (
	"fmt"
	"strings"
)

// progGen generates mostly valid programs over a known context (typed generation), for the
// execution-level properties.
type progGen struct {
	rg        *rng
	noOptOut  bool // no |safe, no autoescape off, no *_html filters (C02)
	noState   bool // no cycle / ifchanged
	macros    []string
	scopeVars []string // names bound by enclosing constructs
	files     map[string]string
	nfile     int
	allowInc  bool
	used      map[string]int
	taint     string // non-empty: string leaves of the context carry this marker
}

func newProgGen(rg *rng) *progGen {
	return &progGen{rg: rg, used: map[string]int{}, files: map[string]string{}}
}

// the context every generated program runs in
func (g *progGen) context(variant int) gctx {
	mk := func(s string) *gval {
		if g.taint != "" {
			return gStr(g.taint + s)
		}
		return gStr(s)
	}
	n1 := 3 + variant
	return gctx{
		{"s1", mk("alpha")}, {"s2", mk("be ta")}, {"e", gStr("")},
		{"n1", gInt(n1)}, {"n2", gInt(-2)}, {"z", gInt(0)}, {"f1", gFloat("2.5")},
		{"b1", gBool(variant%2 == 0)}, {"b0", gBool(false)}, {"nil1", gNil()},
		{"lst", gList(mk("x"), mk("y"), mk("x"))}, {"nums", gList(gInt(3), gInt(1), gInt(2))}, {"el", gList()},
		{"m", gMap([]string{"k"}, []*gval{mk("v")})},
		{"mm", gMap([]string{"b", "a", "c"}, []*gval{gInt(2), gInt(1), mk("w")})},
		{"st", gStruct([]string{"Name", "Items", "N"}, []*gval{mk("nm"), gList(mk("i1"), mk("i2")), gInt(7)})},
		{"nest", gList(gList(gInt(1), gInt(2)), gList(gInt(3)))},
	}
}

var progText = []string{"hello", " ", "\n", "x", ", ", "a b", "-", ".", "1", ":", "(", ")", "\t", "end", "\n\n", "  "}

func (g *progGen) text() string {
	g.used["text"]++
	var sb strings.Builder
	for i := 0; i < 1+g.rg.intn(3); i++ {
		sb.WriteString(g.rg.pick(progText))
	}
	return sb.String()
}

func (g *progGen) strVar() string {
	c := []string{"s1", "s2", "e", "m.k", "st.Name", "lst.0", "lst.1", "st.Items.1", "mm.c", "nil1", "lst.9", "m.zz"}
	if len(g.scopeVars) > 0 && g.rg.chance(1, 2) {
		return g.rg.pick(g.scopeVars)
	}
	return g.rg.pick(c)
}
func (g *progGen) numVar() string {
	return g.rg.pick([]string{"n1", "n2", "z", "f1", "st.N", "nums.0", "mm.a", "nums|length", "lst|length"})
}
func (g *progGen) listVar() string {
	return g.rg.pick([]string{"lst", "nums", "el", "st.Items", "s1", "nest.0", "e", "nil1"})
}

var plainFilters = []string{"upper", "lower", "capfirst", "title", "length", "first", "last", "cut:\"a\"", "default:\"dflt\"",
	"addslashes", "striptags", "truncatechars:4", "truncatewords:1", "center:9", "ljust:7", "rjust:7", "wordcount",
	"linebreaksbr", "escape", "urlencode", "iriencode", "escapejs", "join:\"-\"", "slice:\"1:\"", "slice:\":2\"",
	"yesno:\"y,n,m\"", "default_if_none:\"none\"", "add:\"s\"", "add:1", "floatformat:1", "integer", "float",
	"pluralize", "divisibleby:2", "get_digit:1", "length_is:3", "make_list", "split:\" \"", "linenumbers", "phone2numeric",
	"wordwrap:1", "removetags:\"b\"", "linebreaks"}

func (g *progGen) filt(e string) string {
	n := g.rg.intn(3)
	for i := 0; i < n; i++ {
		f := g.rg.pick(plainFilters)
		if f == "make_list" || strings.HasPrefix(f, "split") {
			f += "|join:\"/\"" // keep the result printable
		}
		if !g.noOptOut && g.rg.chance(1, 12) {
			f = "safe"
		}
		e += "|" + f
	}
	return e
}

func (g *progGen) valueExpr(d int) string {
	switch g.rg.intn(11) {
	case 9:
		// the result of a macro, handed on through a filter with a parameter from the context
		if len(g.macros) > 0 {
			return g.rg.pick(g.macros) + "(\"ma\")|" + g.rg.pick([]string{"add:" + g.strVar(), "default:" + g.strVar(), "join:" + g.strVar(), "cut:\"a\"|add:" + g.strVar(), "center:9", "upper"})
		}
	case 10:
		return g.rg.pick([]string{"nil", "true", "false", "1.5", "0.5", "-3", "\"q\" in m", "\"Name\" in st", "\"k\" in m", "n1 in nums", "not nil1", "s1 == s1", "lst == lst", "nil1 == nil", "2 == 2.0", "f1 > 2"})
	case 0:
		return g.filt(g.strVar())
	case 1:
		return g.filt(g.numVar())
	case 2:
		return "\"" + g.rg.pick([]string{"lit", "a b", "", "Z"}) + "\""
	case 3:
		return fmt.Sprintf("%d", g.rg.intn(20))
	case 4:
		if d > 0 {
			return g.valueExpr(d-1) + " + " + g.valueExpr(d-1)
		}
	case 5:
		if len(g.macros) > 0 {
			g.used["macrocall"]++
			m := g.rg.pick(g.macros)
			args := []string{}
			for i := 0; i < g.rg.intn(3); i++ {
				args = append(args, g.filt(g.strVar()))
			}
			return m + "(" + strings.Join(args, ", ") + ")"
		}
	case 6:
		return g.numVar() + " " + g.rg.pick([]string{"*", "-", "+"}) + " " + g.numVar()
	case 8:
		// a filter whose parameter is a list literal with names in it, evaluated in the current scope
		return g.rg.pick([]string{"nil1", "e", "s1"}) + "|default:[" + g.strVar() + ", " + g.numVar() + "]|join:\",\""
	case 7:
		// lists are printed through a sequence filter (a bare list prints Go's type placeholder)
		return g.filt(g.listVar() + g.rg.pick([]string{"|join:\", \"", "|first", "|last", "|length", "|slice:\"1:\"|join:\"+\""}))
	}
	return g.filt(g.strVar())
}

func (g *progGen) cond() string {
	switch g.rg.intn(8) {
	case 0:
		return g.rg.pick([]string{"b1", "b0", "nil1", "e", "el", "lst", "s1", "z", "n1", "st", "m"})
	case 1:
		return g.numVar() + " " + g.rg.pick([]string{"<", ">", "<=", ">=", "==", "!="}) + " " + g.numVar()
	case 2:
		return "not " + g.rg.pick([]string{"b1", "b0", "e", "lst"})
	case 3:
		return g.rg.pick([]string{"b1", "b0"}) + " " + g.rg.pick([]string{"and", "or"}) + " " + g.rg.pick([]string{"b1", "n1", "e"})
	case 4:
		return "\"x\" in lst"
	case 5:
		return g.strVar() + " == \"" + g.rg.pick([]string{"alpha", "x", ""}) + "\""
	case 6:
		if len(g.scopeVars) > 0 {
			return g.rg.pick(g.scopeVars)
		}
	}
	return g.rg.pick([]string{"true", "false", "1 in nums", "n1 > 3"})
}

func (g *progGen) withScope(name string, f func() string) string {
	g.scopeVars = append(g.scopeVars, name)
	s := f()
	g.scopeVars = g.scopeVars[:len(g.scopeVars)-1]
	return s
}

func (g *progGen) node(d int) string {
	k := g.rg.intn(27)
	if d <= 0 && k > 4 {
		k = g.rg.intn(5)
	}
	switch k {
	case 22:
		// several pairs in one with: every pair is evaluated in the enclosing scope
		g.used["with"]++
		return g.rg.pick([]string{
			"{% with s1=s2 s2=s1 %}{{ s1 }}/{{ s2 }}{% endwith %}",
			"{% with w=s1 s1=\"in\" %}{{ w }}/{{ s1 }}{% endwith %}{{ s1 }}",
			"{% with s1=\"in\" w=s1 x=s1|upper y=s1 %}{{ w }}/{{ x }}/{{ y }}/{{ s1 }}{% endwith %}",
			"{% with sep=\"-\" j=lst|join:sep %}{{ j }}{% endwith %}",
			"{% with m=st st=m %}{{ m.Name }}/{{ st.k }}{% endwith %}",
			"{% with n1=n2 n2=n1 z=n1 + n2 %}{{ n1 }}/{{ n2 }}/{{ z }}{% endwith %}",
			"{% with s1 as w %}{{ w }}{% endwith %}", "{% with s1|upper as w %}{{ w }}{% endwith %}",
		}) + g.body(d-1)
	case 23:
		if g.noState {
			return g.text()
		}
		g.used["cycle"]++
		return g.rg.pick([]string{
			"{% for c in nums %}{% cycle \"a\" \"b\" as cyc %}{{ cyc }}{% endfor %}",
			"{% cycle \"x\" \"y\" \"z\" as cy2 silent %}{% for c in nums %}{% cycle cy2 %}[{{ cy2 }}]{% endfor %}",
			"{% for c in nums %}{% cycle s1 s2 as cy3 silent %}{% endfor %}{{ cy3 }}",
			"{% cycle s1 s2 as cy4 %}{% for c in nums %}{% cycle cy4 %}|{% endfor %}{{ cy4 }}",
			"{% for c in lst %}{% cycle c s2 lst.0 as cy5 %}{% cycle cy5 %}{% endfor %}",
			"{% cycle m.k st.Name as cy6 %}{% cycle cy6 %}{% cycle cy6 %}",
			"{% for c in lst %}{% for d in nums %}{% cycle \"1\" \"2\" %}{% endfor %}{% cycle c \"-\" %}{% endfor %}",
		})
	case 24:
		if g.noState {
			return g.text()
		}
		g.used["ifchanged"]++
		return g.rg.pick([]string{
			"{% for p in nest %}{% ifchanged %}{{ p|length }}{% ifchanged %}{{ p.0 }}{% endifchanged %}{% endifchanged %}{% endfor %}",
			"{% for c in lst %}{% ifchanged %}{{ c }}{% ifchanged %}{{ forloop.Counter0|divisibleby:2 }}{% endifchanged %}|{% endifchanged %}{% endfor %}",
			"{% for c in lst %}{% for d in nums %}{% ifchanged c %}{{ c }}{{ d }}{% endifchanged %}{% endfor %}{% endfor %}",
			"{% for c in lst %}{% ifchanged c d %}x{% else %}{{ c }}{% endifchanged %}{% endfor %}",
		})
	case 25:
		g.used["block"]++
		name := fmt.Sprintf("blk%d", g.rg.intn(1000000))
		return "{% block " + name + " %}" + g.body(d-1) + g.rg.pick([]string{"{% endblock %}", "{% endblock " + name + " %}"})
	case 26:
		g.used["misc"]++
		if g.taint != "" {
			// (C02: literal text and library output must be free of < > ' " &)
			return g.rg.pick([]string{"{% lorem 3 w %}", "{% widthratio n2 3 100 %}", "{% widthratio n1 nums|length 10 as wr %}{{ wr }}",
				"{% spaceless %} {{ s1 }} \n x {% endspaceless %}", "{% firstof nil1 e z \"\" %}", "{% firstof nosuch b0 n1 %}"})
		}
		return g.rg.pick([]string{"{% lorem %}", "{% lorem 3 w %}", "{% lorem 2 p %}", "{% lorem 2 b %}", "{% lorem 12 w %}", "{% widthratio n2 3 100 %}", "{% widthratio n1 nums|length 10 as wr %}{{ wr }}",
			"{% spaceless %}<p> {{ s1 }} </p>\n<b> x </b>{% endspaceless %}", "{% templatetag opencomment %}", "{% firstof nil1 e z \"\" %}", "{% firstof nosuch b0 n1 %}"})
	case 0, 1:
		return g.text()
	case 2, 3, 4:
		g.used["var"]++
		return "{{ " + g.valueExpr(1) + " }}"
	case 5, 6:
		g.used["if"]++
		s := "{% if " + g.cond() + " %}" + g.body(d-1)
		for g.rg.chance(1, 4) {
			s += "{% elif " + g.cond() + " %}" + g.body(d-1)
		}
		if g.rg.chance(1, 2) {
			s += "{% else %}" + g.body(d-1)
		}
		return s + "{% endif %}"
	case 7, 8, 9:
		g.used["for"]++
		v := g.rg.pick([]string{"i", "j", "it"})
		src := g.listVar()
		mods := ""
		switch g.rg.intn(6) {
		case 0:
			mods = " reversed"
		case 1:
			mods = " sorted"
		case 2:
			mods = " reversed sorted"
		}
		if g.rg.chance(1, 6) {
			src = "mm"
			if !strings.Contains(mods, "sorted") {
				mods += " sorted"
			}
			kv := v + ", val"
			return g.withScope(v, func() string {
				return "{% for " + kv + " in " + src + mods + " %}" + "{{ " + v + " }}={{ val }};" + g.body(d-1) + "{% endfor %}"
			})
		}
		if g.rg.chance(1, 6) {
			src = "[" + g.filt(g.strVar()) + ", " + g.numVar() + ", \"q\"]"
		}
		fl := g.rg.pick([]string{"", "{{ forloop.Counter }}", "{{ forloop.Counter0 }}/{{ forloop.Revcounter }}/{{ forloop.Revcounter0 }}",
			"{% if forloop.First %}F{% endif %}{% if forloop.Last %}L{% endif %}", "{{ forloop.Parentloop.Counter }}"})
		return g.withScope(v, func() string {
			s := "{% for " + v + " in " + src + mods + " %}" + fl + "{{ " + v + " }}" + g.body(d-1)
			if g.rg.chance(1, 3) {
				s += "{% empty %}" + g.body(d-1)
			}
			return s + "{% endfor %}"
		})
	case 10, 11:
		g.used["with"]++
		v := g.rg.pick([]string{"w", "s1", "i"})
		return g.withScope(v, func() string {
			return "{% with " + v + "=" + g.valueExpr(0) + " %}{{ " + v + " }}" + g.body(d-1) + "{% endwith %}{{ " + v + " }}"
		})
	case 12:
		g.used["set"]++
		v := g.rg.pick([]string{"sv", "s2", "i"})
		g.scopeVars = append(g.scopeVars, v)
		return "{% set " + v + " = " + g.valueExpr(1) + " %}{{ " + v + " }}"
	case 13:
		g.used["macro"]++
		name := fmt.Sprintf("mac%d", len(g.macros))
		params := []string{"p", "q=\"dq\"", "r=s2"}[:g.rg.intn(4)]
		body := g.withScope("p", func() string { return "[{{ p }}|{{ q }}]" + g.body(d-1) })
		s := "{% macro " + name + "(" + strings.Join(params, ", ") + ") %}" + body + "{% endmacro %}"
		g.macros = append(g.macros, name)
		return s
	case 14:
		if g.noState {
			return g.text()
		}
		g.used["cycle"]++
		return "{% for c in nums %}{% cycle " + g.filt(g.strVar()) + " \"b\" " + g.numVar() + " %}{% endfor %}"
	case 15:
		if g.noState {
			return g.text()
		}
		g.used["ifchanged"]++
		if g.rg.chance(1, 2) {
			return "{% for c in lst %}{% ifchanged %}{{ c }}{% endifchanged %}{% endfor %}"
		}
		return "{% for c in lst %}{% ifchanged c %}new:{{ c }}{% else %}same{% endifchanged %}{% endfor %}"
	case 16:
		g.used["filtertag"]++
		return "{% filter " + g.rg.pick([]string{"upper", "lower|capfirst", "striptags", "cut:\"a\"", "truncatechars:6", "escape", "add:s1", "default:s2|upper", "cut:n1", "add:n2"}) + " %}" + g.body(d-1) + "{% endfilter %}"
	case 17:
		g.used["firstof"]++
		return "{% firstof " + g.strVar() + " " + g.numVar() + " \"fb\" %}"
	case 18:
		g.used["ifequal"]++
		tn := g.rg.pick([]string{"ifequal", "ifnotequal"})
		ops := []string{g.numVar(), g.numVar(), "nil1", "nosuch", "2", "2.0", "f1", "2.5", "s1", "\"alpha\"", "b1", "true", "lst", "e", "\"\""}
		return "{% " + tn + " " + ops[g.rg.intn(len(ops))] + " " + ops[g.rg.intn(len(ops))] + " %}" + g.body(d-1) + "{% else %}" + g.body(d-1) + "{% end" + tn + " %}"
	case 19:
		if g.noOptOut {
			return g.text()
		}
		g.used["autoescape"]++
		return "{% autoescape " + g.rg.pick([]string{"on", "off"}) + " %}" + g.body(d-1) + "{% endautoescape %}"
	case 20:
		g.used["misc"]++
		return g.rg.pick([]string{"{% templatetag openblock %}", "{% templatetag closevariable %}", "{# note #}", "{% comment %}{{ s1 }}{% endcomment %}",
			"{% widthratio n1 10 100 %}", "{% verbatim %}{{ s1 }}{% endverbatim %}", "{% spaceless %} a  b {% endspaceless %}"})
	case 21:
		if g.allowInc {
			g.used["include"]++
			name := fmt.Sprintf("inc%d.tpl", g.nfile)
			g.nfile++
			sub := newProgGen(g.rg)
			sub.noOptOut, sub.noState, sub.taint = g.noOptOut, g.noState, g.taint
			g.files[name] = "<" + sub.body(d-1) + "{{ s1 }}{{ iv }}>"
			if g.taint != "" {
				g.files[name] = "(" + sub.body(d-1) + "{{ s1 }}{{ iv }})"
			}
			switch g.rg.intn(3) {
			case 0:
				return "{% include \"" + name + "\" %}"
			case 1:
				return "{% include \"" + name + "\" with iv=" + g.filt(g.strVar()) + " %}"
			}
			return "{% include \"" + name + "\" with iv=" + g.strVar() + " only %}"
		}
	}
	return g.text()
}

func (g *progGen) body(d int) string {
	var sb strings.Builder
	n := 1 + g.rg.intn(3)
	for i := 0; i < n; i++ {
		sb.WriteString(g.node(d))
	}
	return sb.String()
}

func (g *progGen) program(d int) string {
	return g.body(d)
}
