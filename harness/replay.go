package main

import (
	"bufio"
	"encoding/hex"
	"os"
	"strings"
)

// A property is a generator of (op, args) cases and an executor that runs one case on
// the real code, records the observation and applies the implementation-level oracle.
// Replaying is running the executor on the case lines of a replay file.
type caseT struct {
	op   string
	args []string // hex-encoded ("-" = empty)
}

func unhx(s string) string {
	if s == "-" || s == "" {
		return ""
	}
	b, err := hex.DecodeString(s)
	must(err)
	return string(b)
}

func driveCases(r *run, gen func(emit func(c caseT)), exec func(r *run, c caseT)) {
	if replayFile != "" {
		f, err := os.Open(replayFile)
		must(err)
		defer f.Close()
		sc := bufio.NewScanner(f)
		sc.Buffer(make([]byte, 1<<20), 1<<26)
		for sc.Scan() {
			line := sc.Text()
			if line == "" || strings.HasPrefix(line, "#") {
				continue
			}
			parts := strings.Split(line, "\t")
			if len(parts) < 2 {
				continue
			}
			// replay lines are cases.tsv lines: id, op, args...
			wd := caseWatchdog()
			exec(r, caseT{op: parts[1], args: parts[2:]})
			if wd != nil {
				wd.Stop()
			}
		}
		return
	}
	gen(func(c caseT) { exec(r, c) })
}
