package main

import (
	"fmt"
	"math"
	"reflect"
	"strconv"
	"strings"
	"time"
	"unicode/utf8"

	"github.com/flosch/pongo2/v6"
)

func init() { props["C18"] = runC18 }

// canonical descriptor of a filter result (same grammar as value descriptors; floats as %f text)
func valueDescr(v *pongo2.Value) string {
	if v == nil || v.IsNil() {
		return "n"
	}
	return ifaceDescr(reflect.ValueOf(v.Interface()))
}

func ifaceDescr(rv reflect.Value) string {
	if !rv.IsValid() {
		return "n"
	}
	switch rv.Kind() {
	case reflect.Interface, reflect.Ptr:
		if rv.IsNil() {
			return "n"
		}
		return ifaceDescr(rv.Elem())
	case reflect.String:
		return "s" + hxe(rv.String())
	case reflect.Bool:
		if rv.Bool() {
			return "t"
		}
		return "f"
	case reflect.Int, reflect.Int8, reflect.Int16, reflect.Int32, reflect.Int64:
		return fmt.Sprintf("i%d", rv.Int())
	case reflect.Uint, reflect.Uint8, reflect.Uint16, reflect.Uint32, reflect.Uint64:
		return fmt.Sprintf("i%d", rv.Uint())
	case reflect.Float32, reflect.Float64:
		return "d" + hxe(fmt.Sprintf("%f", rv.Float()))
	case reflect.Slice, reflect.Array:
		p := make([]string, rv.Len())
		for i := range p {
			p[i] = ifaceDescr(rv.Index(i))
		}
		return "L(" + strings.Join(p, ",") + ")"
	}
	return "?" + rv.Kind().String()
}

func pySlice(n, from, to int, hasFrom, hasTo bool) (int, int) {
	norm := func(x int) int {
		if x < 0 {
			x += n
			if x < 0 {
				x = 0
			}
		}
		if x > n {
			x = n
		}
		return x
	}
	a, b := 0, n
	if hasFrom {
		a = norm(from)
	}
	if hasTo {
		b = norm(to)
	}
	if b < a {
		b = a
	}
	return a, b
}

var c18Strings = []string{"", "a", "ab", "hello world", "héllo", "日本語テキスト", "a b  c", "x\ny", "  pad  ", "12345", "-7", "3.75", "Ünï", "one two three four five", "\xffbad", "a,b,c", "AbC dEf"}

func c18Lists() []*gval {
	return []*gval{gList(), gList(gInt(1)), gList(gInt(1), gInt(2), gInt(3)), gList(gStr("a"), gStr("b"), gStr("c"), gStr("d")),
		gList(gInt(1), gInt(2), gInt(3), gInt(4), gInt(5), gInt(6)), gList(gStr("é"), gStr("日"))}
}

func runC18(r *run) {
	rg := newRng(r.seed)
	gen := func(emit func(caseT)) {
		f := func(name string, v, p *gval) { emit(caseT{"filter", []string{hx(name), v.descr(), p.descr()}}) }
		// slice: all bounds -8..8 (and omitted) over sequences of length 0..6 and strings
		bounds := []string{""}
		for i := -8; i <= 8; i++ {
			bounds = append(bounds, fmt.Sprint(i))
		}
		seqs := append(c18Lists(), gStr(""), gStr("abcdef"), gStr("héllo"), gStr("日本語"), gStr("ab"))
		for _, s := range seqs {
			for _, a := range bounds {
				for _, b := range bounds {
					f("slice", s, gStr(a+":"+b))
				}
			}
			f("slice", s, gStr("1")) // malformed
			f("slice", s, gStr("1:2:3"))
		}
		// padding / truncation: widths -2..20 over strings of length 0..12
		pads := []string{"", "a", "ab", "abc", "héllo", "日本", "abcdefghijkl", "a b", "x\ty"}
		for _, s := range pads {
			for w := -2; w <= 20; w++ {
				for _, n := range []string{"center", "ljust", "rjust", "truncatechars", "truncatewords", "wordwrap", "get_digit", "floatformat"} {
					f(n, gStr(s), gInt(w))
				}
			}
		}
		for _, w := range []int{10000, 10001, 10005, 100000, math.MaxInt64, math.MinInt64, math.MaxInt64 - 1} {
			for _, n := range []string{"center", "ljust", "rjust", "truncatechars", "truncatewords", "wordwrap", "get_digit", "divisibleby", "add", "slice", "floatformat"} {
				f(n, gStr("one two three"), gInt(w))
				f(n, gInt(12345), gInt(w))
			}
		}
		// numbers at and beyond the limits of int64, and tiny ones, through every numeric filter
		bigs := []*gval{gFloat("0.5"), gFloat("-0.5"), gFloat("0.000001"), gFloat("999999999999999.9"), gFloat("9223372036854775807.0"), gFloat("9223372036854775808.0"),
			gFloat("-9223372036854775808.0"), gFloat("18446744073709551616.0"), gFloat("100000000000000000000.0"), gFloat("1000000000000000019884624838656.0"),
			gFloat("-1000000000000000019884624838656.0"), gInt(9223372036854775807), gInt(-9223372036854775807), gStr("1e30"), gStr("9223372036854775808"), gStr("-1e19"), gStr("1.5e3"),
			gStr("010"), gStr("-0123"), gStr("0017"), gStr("08"), gStr("007"), gStr("0x10"), gStr("0X1f"), gStr("0b11"), gStr("0o17"), gStr("1_000"), gStr("+5"), gStr("00"), gStr("-0"), gStr("0_1")}
		for _, n := range []string{"floatformat", "integer", "float", "add", "divisibleby", "get_digit", "pluralize", "filesizeformat", "yesno", "stringformat", "length", "default", "center", "widthratio"} {
			for _, v := range bigs {
				for _, pr := range []*gval{gNil(), gInt(0), gInt(-2), gInt(3), gInt(1), gStr("x"), gStr("-2"), gFloat("1.5")} {
					f(n, v, pr)
				}
			}
		}
		// numbers given as text - zero-padded, with base prefixes, with separators - as the argument
		// of every filter that takes a width, a position or a divisor
		for _, n := range []string{"center", "ljust", "rjust", "get_digit", "divisibleby", "length_is", "truncatechars", "truncatewords", "wordwrap", "add", "floatformat", "slice"} {
			for _, v := range []*gval{gStr("abcdefghijklmnop qrs tuv wx yz ab cd ef gh ij"), gInt(1234567890), gInt(16), gInt(8)} {
				for _, pr := range []string{"010", "-0123", "0017", "08", "007", "0x10", "0b11", "0o17", "1_0", "+5", "00", "012:014", "0x2:0x4"} {
					f(n, v, gStr(pr))
				}
			}
		}
		// parameterless / simple filters over strings, numbers, sequences
		simple := []string{"first", "last", "length", "make_list", "wordcount", "linenumbers", "linebreaksbr", "capfirst", "upper", "lower", "integer", "float", "pluralize", "title", "phone2numeric", "linebreaks"}
		vals := []*gval{gNil(), gBool(true), gBool(false), gInt(0), gInt(1), gInt(-3), gInt(42), gFloat("2.5"), gFloat("0.0"), gFloat("3.0"), gFloat("1234.5678")}
		for _, s := range c18Strings {
			vals = append(vals, gStr(s))
		}
		vals = append(vals, c18Lists()...)
		for _, n := range simple {
			for _, v := range vals {
				f(n, v, gNil())
			}
		}
		params := []*gval{gNil(), gStr(""), gStr(","), gStr("a"), gStr(" "), gStr("yes,no"), gStr("y,n,m"), gStr("a,b,c,d"), gStr("es"), gStr("y,ies"), gInt(0), gInt(1), gInt(2), gInt(3), gInt(-1), gFloat("1.5"), gStr("3"), gStr("x")}
		for _, n := range []string{"join", "split", "cut", "add", "divisibleby", "length_is", "default", "default_if_none", "yesno", "pluralize", "floatformat", "get_digit"} {
			for _, v := range vals {
				for _, p := range params {
					f(n, v, p)
				}
			}
		}
		// random
		nrand := 20000
		if r.tier == "thorough" {
			nrand = 400000
		}
		names := []string{"slice", "center", "ljust", "rjust", "truncatechars", "truncatewords", "wordwrap", "join", "split", "cut", "add", "first", "last", "length", "make_list", "wordcount", "linenumbers", "capfirst", "upper", "lower", "divisibleby", "get_digit", "floatformat", "yesno", "default", "integer", "float", "title", "linebreaks", "linebreaksbr", "pluralize", "length_is"}
		for i := 0; i < nrand; i++ {
			var sb strings.Builder
			for k := 0; k < rg.intn(10); k++ {
				sb.WriteString(rg.pick([]string{"a", "b", " ", "é", "日", "1", "9", ".", "-", ",", "\n", "Z", ":", "  ", "wörd"}))
			}
			var v *gval
			switch rg.intn(6) {
			case 0:
				v = gInt(rg.intn(2000) - 1000)
			case 1:
				v = gFloat(fmt.Sprintf("%d.%d", rg.intn(100), rg.intn(1000)))
			case 2:
				items := []*gval{}
				for k := 0; k < rg.intn(6); k++ {
					items = append(items, gStr(rg.pick([]string{"x", "yy", "é", ""})))
				}
				v = gList(items...)
			default:
				v = gStr(sb.String())
			}
			var p *gval
			switch rg.intn(5) {
			case 0:
				p = gInt(rg.intn(30) - 8)
			case 1:
				p = gStr(fmt.Sprintf("%d:%d", rg.intn(12)-4, rg.intn(12)-4))
			case 2:
				p = gStr(rg.pick([]string{",", " ", "a", "", "y,n", "1", "-2"}))
			case 3:
				p = gNil()
			default:
				p = gInt(rg.intn(5))
			}
			f(rg.pick(names), v, p)
		}
		// integers of every Go kind at the limits of their range: the text filters work on the
		// decimal text of the number
		for i := 0; i < 13; i++ {
			emit(caseT{"gokinds18", []string{fmt.Sprint(i)}})
		}
		// the widthratio tag
		for cur := -3; cur <= 12; cur++ {
			for _, mx := range []int{0, 1, 2, 3, 7, 10, 200} {
				for _, w := range []int{1, 10, 100, 33} {
					emit(caseT{"render", (&world{}).args(fmt.Sprintf("{%% widthratio %d %d %d %%}", cur, mx, w), nil)})
				}
			}
		}
		emit(caseT{"render", (&world{}).args("{% widthratio 175 200 100 as wr %}[{{ wr }}]", nil)})
		// date / time format a time value with the layout given (Go layouts)
		for ti := 0; ti < 6; ti++ {
			for _, layout := range []string{"2006-01-02", "15:04:05", "Mon Jan _2 15:04:05 2006", "02/01/06 03:04PM", "", "2006", "Z07:00 MST", "January 2, 2006 at 3pm", "x", ".000000", "Jan", "%Y"} {
				emit(caseT{"timefmt", []string{fmt.Sprint(ti), hx(layout)}})
			}
		}
	}
	driveCases(r, gen, execC18)
	r.finish(nil)
}

var c18Times = []time.Time{
	time.Date(2020, 1, 2, 3, 4, 5, 6000, time.UTC), time.Date(1999, 12, 31, 23, 59, 59, 999999999, time.FixedZone("X", 3600)), {},
	time.Date(2038, 1, 19, 3, 14, 8, 0, time.UTC), time.Date(1, 1, 1, 0, 0, 0, 0, time.UTC), time.Date(2024, 2, 29, 12, 0, 0, 0, time.FixedZone("", -5*3600-1800)),
}

func execTimeFmt(r *run, c caseT) {
	var ti int
	fmt.Sscanf(c.args[0], "%d", &ti)
	layout := unhx(c.args[1])
	t := c18Times[ti]
	ctx := pongo2.Context{"t": t, "pt": &t, "layout": layout, "lst": []time.Time{t, t.Add(time.Hour)}}
	var parts []string
	for _, src := range []string{"{{ t|date:layout }}", "{{ t|time:layout }}", "{{ pt|date:layout }}", "{% for x in lst %}{{ x|date:layout }};{% endfor %}", "{{ lst.1|time:layout }}",
		"{% if t < lst.1 %}lt{% endif %}{% if lst.1 > t %}gt{% endif %}{% if t <= t %}le{% endif %}{% if t >= lst.1 %}GE{% endif %}{% if t == t %}eq{% endif %}{% if t != lst.1 %}ne{% endif %}{% if lst.1 < t %}LT{% endif %}",
		"{% ifequal t t %}E{% endifequal %}{% ifnotequal t lst.1 %}N{% endifnotequal %}{% if t in lst %}in{% endif %}"} {
		tpl, err := pongo2.FromString("{% autoescape off %}" + src + "{% endautoescape %}")
		if err != nil {
			parts = append(parts, "cerr")
			continue
		}
		out, xerr, p := executeIn(tpl, ctx)
		switch {
		case p != nil:
			parts = append(parts, "panic:"+fmt.Sprint(p))
		case xerr != nil:
			parts = append(parts, "xerr")
		default:
			parts = append(parts, out)
		}
	}
	id := r.emit(c.op, c.args, "timefmt:"+hx(strings.Join(parts, "|")))
	r.nontrivial(c.args[0] + c.args[1])
	t1 := t.Add(time.Hour)
	want := []string{t.Format(layout), t.Format(layout), "", t.Format(layout) + ";" + t1.Format(layout) + ";", t1.Format(layout), "ltgtleeqne", "ENin"}
	for k := range want {
		if k == 2 {
			// a pointer to a time: formatted like the time, or refused - never something else
			if parts[k] != t.Format(layout) && parts[k] != "xerr" {
				r.reject(id, "date on a *time.Time gave neither the formatted time nor an error", map[string]any{"layout": layout, "observed": parts[k]})
			}
			continue
		}
		if parts[k] != want[k] {
			r.reject(id, "time values are not formatted / compared like Go's time package does", map[string]any{"time": t.String(), "layout": layout, "part": k, "observed": parts[k], "expected": want[k]})
			return
		}
	}
}

func execC18(r *run, c caseT) {
	if c.op == "timefmt" {
		execTimeFmt(r, c)
		return
	}
	if c.op == "gokinds18" {
		execGoKinds18(r, c)
		return
	}
	if c.op == "render" {
		w, src, ctx := worldFromArgs(c.args)
		o, _ := w.render(src, false, ctx)
		id := r.emit(c.op, c.args, o.obs)
		var cur, mx, wd int
		if n, _ := fmt.Sscanf(src, "{%% widthratio %d %d %d %%}", &cur, &mx, &wd); n == 3 && src == fmt.Sprintf("{%% widthratio %d %d %d %%}", cur, mx, wd) {
			want := "0" // a maximum of zero: 0, as in Django
			if mx != 0 {
				want = fmt.Sprint(int(math.Round(float64(cur) / float64(mx) * float64(wd))))
			}
			if o.obs != obsOK(want) {
				r.reject(id, "widthratio does not compute round(value/max*width)", map[string]any{"template": src, "observed": o.obs, "expected": want})
			}
			r.nontrivial(c.args[0])
		}
		return
	}
	name := unhx(c.args[0])
	pos := 0
	v := parseGval(c.args[1], &pos)
	pos = 0
	p := parseGval(c.args[2], &pos)
	var out *pongo2.Value
	var ferr *pongo2.Error
	var panicked any
	func() {
		defer func() {
			if rr := recover(); rr != nil {
				panicked = rr
			}
		}()
		var pv *pongo2.Value
		if p.kind != 'n' {
			pv = pongo2.AsValue(p.goValue())
		}
		out, ferr = pongo2.ApplyFilter(name, pongo2.AsValue(v.goValue()), pv)
	}()
	obs := ""
	switch {
	case panicked != nil:
		obs = "panic"
	case ferr != nil:
		obs = "err"
	default:
		obs = "v:" + valueDescr(out)
	}
	id := r.emit(c.op, c.args, obs)
	r.nontrivial(c.args[0] + c.args[1] + c.args[2])
	if id%9001 == 0 {
		r.sample(map[string]any{"filter": name, "value": c.args[1], "param": c.args[2], "observed": obs})
	}
	if panicked != nil {
		r.reject(id, "filter panicked", map[string]any{"filter": name, "value": c.args[1], "param": c.args[2], "panic": fmt.Sprint(panicked)})
		return
	}
	if ferr != nil {
		return
	}
	if why := oracleC18(name, v, p, out); why != "" {
		r.reject(id, why, map[string]any{"filter": name, "value": c.args[1], "param": c.args[2], "observed": obs})
	}
}

func execGoKinds18(r *run, c caseT) {
	var i int
	fmt.Sscanf(c.args[0], "%d", &i)
	vals := []any{uint64(math.MaxUint64), uint64(math.MaxInt64) + 1, uint(math.MaxUint64), uint32(math.MaxUint32), uint16(65535), uint8(255), int8(-128), int16(-32768), int32(math.MinInt32), int64(math.MinInt64),
		int64(math.MaxInt64), uint64(10), int8(7)}
	n := vals[i%len(vals)]
	text := fmt.Sprint(n)
	last := text[len(text)-1:]
	want := text + "|" + last + "|" + fmt.Sprint(len(text)) + "|" + text + "|" + text + "|" + text
	tpl, err := pongo2.FromString("{{ n }}|{{ n|get_digit:1 }}|{{ n|make_list|length }}|{{ n|cut:\"x\" }}|{{ n|stringformat:\"%v\" }}|{{ n|default:\"d\" }}")
	must(err)
	out, xerr, p := executeIn(tpl, pongo2.Context{"n": n})
	obs := out
	if p != nil {
		obs = "panic:" + fmt.Sprint(p)
	} else if xerr != nil {
		obs = "xerr"
	}
	id := r.emit(c.op, c.args, "gokinds18")
	r.nontrivial("gokinds18" + c.args[0])
	if obs != want {
		r.reject(id, "a text filter does not work on the decimal text of an integer of this Go kind", map[string]any{"value": fmt.Sprintf("%T(%v)", n, n), "observed": obs, "expected": want})
	}
}

func runesOf(s string) []rune { return []rune(s) }

// oracleC18: small independent reference definitions (Python slicing, padding shapes, ...).
func oracleC18(name string, v, p *gval, out *pongo2.Value) string {
	isSeq := v.kind == 'L' || v.kind == 's'
	seqLen := func() int {
		if v.kind == 'L' {
			return len(v.items)
		}
		return len(runesOf(v.txt))
	}
	switch name {
	case "slice":
		if !isSeq || p.kind != 's' || strings.Count(p.txt, ":") != 1 {
			return ""
		}
		parts := strings.Split(p.txt, ":")
		parse := func(s string) (int, bool, bool) {
			if strings.TrimSpace(s) == "" {
				return 0, false, true
			}
			var n int
			if _, err := fmt.Sscanf(s, "%d", &n); err != nil || fmt.Sprint(n) != s {
				return 0, false, false
			}
			return n, true, true
		}
		a, hasA, ok1 := parse(parts[0])
		b, hasB, ok2 := parse(parts[1])
		if !ok1 || !ok2 {
			return ""
		}
		i, j := pySlice(seqLen(), a, b, hasA, hasB)
		var want string
		if v.kind == 'L' {
			want = gList(v.items[i:j]...).descr()
		} else {
			want = gStr(string(runesOf(v.txt)[i:j])).descr()
		}
		if valueDescr(out) != want {
			return "slice is not Python slicing"
		}
	case "first", "last":
		if !isSeq {
			return ""
		}
		want := gStr("").descr()
		if n := seqLen(); n > 0 {
			k := 0
			if name == "last" {
				k = n - 1
			}
			if v.kind == 'L' {
				want = v.items[k].descr()
			} else {
				want = gStr(string(runesOf(v.txt)[k])).descr()
			}
		}
		if valueDescr(out) != want {
			return name + " is not the " + name + " element (counted in characters)"
		}
	case "length":
		if isSeq && valueDescr(out) != gInt(seqLen()).descr() {
			return "length does not count elements / characters"
		}
	case "length_is":
		if isSeq && p.kind == 'i' && out.Bool() != (seqLen() == p.i) {
			return "length_is does not compare the character count"
		}
	case "make_list":
		if v.kind == 's' {
			var items []*gval
			for _, rn := range runesOf(v.txt) {
				items = append(items, gStr(string(rn)))
			}
			if valueDescr(out) != gList(items...).descr() {
				return "make_list is not the list of characters"
			}
		}
	case "join":
		if v.kind == 'L' && p.kind == 's' && p.txt != "" {
			strs := []string{}
			for _, it := range v.items {
				if it.kind != 's' && it.kind != 'i' {
					return ""
				}
				if it.kind == 's' {
					strs = append(strs, it.txt)
				} else {
					strs = append(strs, fmt.Sprint(it.i))
				}
			}
			if out.String() != strings.Join(strs, p.txt) {
				return "join does not join the elements with the separator"
			}
		}
	case "split":
		if v.kind == 's' && p.kind == 's' && p.txt != "" {
			var items []*gval
			for _, s := range strings.Split(v.txt, p.txt) {
				items = append(items, gStr(s))
			}
			if valueDescr(out) != gList(items...).descr() {
				return "split does not split at the separator"
			}
		}
	case "cut":
		if v.kind == 's' && p.kind == 's' && p.txt != "" {
			if out.String() != strings.ReplaceAll(v.txt, p.txt, "") {
				return "cut does not remove all occurrences"
			}
		}
	case "center", "ljust", "rjust":
		if v.kind != 's' || p.kind != 'i' || !utf8.ValidString(v.txt) || (v.txt != "" && strings.Trim(v.txt, " ") == "") {
			return ""
		}
		n := len(runesOf(v.txt))
		w := p.i
		if w-n > 10000 || w > 10000 {
			return ""
		}
		o := out.String()
		wantLen := n
		if w > n {
			wantLen = w
		}
		if len(runesOf(o)) != wantLen {
			return name + " does not produce the requested width (in characters)"
		}
		i := strings.Index(o, v.txt)
		if v.txt == "" {
			i = 0
		}
		if i < 0 {
			return name + " altered the text"
		}
		left, right := o[:i], o[i+len(v.txt):]
		if v.txt == "" {
			left, right = o, ""
		}
		if strings.Trim(left, " ") != "" || strings.Trim(right, " ") != "" {
			return name + " padded with something else than spaces"
		}
		switch name {
		case "ljust":
			if left != "" && v.txt != "" {
				return "ljust padded on the left"
			}
		case "rjust":
			if right != "" && v.txt != "" {
				return "rjust padded on the right"
			}
		case "center":
			if v.txt != "" && !(len(left) == len(right) || len(left) == len(right)+1) {
				return "center did not centre the text"
			}
		}
	case "truncatechars":
		if v.kind != 's' || p.kind != 'i' || !utf8.ValidString(v.txt) {
			return ""
		}
		rs := runesOf(v.txt)
		o := runesOf(out.String())
		n := p.i
		if n <= 0 || n >= len(rs) {
			if out.String() != v.txt {
				return "truncatechars altered a text that fits"
			}
			return ""
		}
		if len(o) > n {
			return "truncatechars result is longer than requested"
		}
		keep := n
		if n >= 3 {
			keep = n - 3
			if string(o[keep:]) != "..." {
				return "truncatechars does not end in an ellipsis"
			}
		}
		if string(o[:keep]) != string(rs[:keep]) {
			return "truncatechars altered the kept text"
		}
	case "wordcount":
		if v.kind == 's' && valueDescr(out) != gInt(len(strings.Fields(v.txt))).descr() {
			return "wordcount does not count the words"
		}
	case "upper", "lower":
		if v.kind == 's' {
			want := strings.ToUpper(v.txt)
			if name == "lower" {
				want = strings.ToLower(v.txt)
			}
			if out.String() != want {
				return name + " is not the case mapping of the text"
			}
		}
	case "linebreaksbr":
		if v.kind == 's' && out.String() != strings.ReplaceAll(v.txt, "\n", "<br />") {
			return "linebreaksbr does not replace exactly the newlines"
		}
	case "linenumbers":
		if v.kind == 's' {
			lines := strings.Split(v.txt, "\n")
			for i := range lines {
				lines[i] = fmt.Sprintf("%d. %s", i+1, lines[i])
			}
			if out.String() != strings.Join(lines, "\n") {
				return "linenumbers does not number the lines"
			}
		}
	case "wordwrap":
		if v.kind == 's' && p.kind == 'i' && p.i > 0 {
			words := strings.Fields(v.txt)
			var lines []string
			for i := 0; i < len(words); i += min(p.i, len(words)+1) {
				j := i + p.i
				if j > len(words) || j < 0 {
					j = len(words)
				}
				lines = append(lines, strings.Join(words[i:j], " "))
			}
			if out.String() != strings.Join(lines, "\n") {
				return "wordwrap does not wrap after the given number of words"
			}
		}
	case "divisibleby":
		if v.kind == 'i' && p.kind == 'i' && p.i != 0 {
			if out.Bool() != (v.i%p.i == 0) {
				return "divisibleby is wrong"
			}
		}
	case "get_digit":
		// the digit at position p counted from the right of the text of the input; a position
		// that holds no digit (none at all, a sign, a letter) gives the input itself
		if (v.kind == 'i' || v.kind == 's') && p.kind == 'i' {
			text := v.txt
			if v.kind == 'i' {
				text = fmt.Sprint(v.i)
			}
			digit := -1
			if p.i >= 1 && p.i <= len(text) {
				if ch := text[len(text)-p.i]; ch >= '0' && ch <= '9' {
					digit = int(ch - '0')
				}
			}
			if digit >= 0 && !(out.IsInteger() && out.Integer() == digit) {
				return "get_digit does not give the digit at that position"
			}
			if digit < 0 && valueDescr(out) != v.descr() {
				return "get_digit does not hand back the input where the position holds no digit"
			}
		}
	case "add":
		if v.kind == 'i' && p.kind == 'i' && valueDescr(out) != gInt(v.i+p.i).descr() {
			return "add does not add integers"
		}
		if v.kind == 's' && p.kind == 's' && out.String() != v.txt+p.txt {
			return "add does not concatenate strings"
		}
	case "default":
		truthyV := !(v.kind == 'n' || v.kind == 'f' || (v.kind == 'i' && v.i == 0) || (v.kind == 's' && v.txt == "") || (v.kind == 'L' && len(v.items) == 0) || (v.kind == 'd' && (v.txt == "0.0")))
		want := v
		if !truthyV {
			want = p
		}
		if valueDescr(out) != strings.Replace(want.descr(), "d"+hxe(want.txt), "d"+hxe(fmt.Sprintf("%f", mustFloat(want))), 1) {
			return "default does not return the value if true, the argument otherwise"
		}
	case "default_if_none":
		want := v
		if v.kind == 'n' {
			want = p
		}
		if valueDescr(out) != strings.Replace(want.descr(), "d"+hxe(want.txt), "d"+hxe(fmt.Sprintf("%f", mustFloat(want))), 1) {
			return "default_if_none does not return the value unless it is nil"
		}
	case "yesno":
		if p.kind == 's' && strings.Count(p.txt, ",") == 2 {
			ch := strings.Split(p.txt, ",")
			truthyV := !(v.kind == 'n' || v.kind == 'f' || (v.kind == 'i' && v.i == 0) || (v.kind == 's' && v.txt == "") || (v.kind == 'L' && len(v.items) == 0) || (v.kind == 'd' && v.txt == "0.0"))
			want := ch[1]
			if v.kind == 'n' {
				want = ch[2]
			} else if truthyV {
				want = ch[0]
			}
			if out.String() != want {
				return "yesno does not map true/false/nil to its three choices"
			}
		}
	case "integer":
		if v.kind == 'i' && valueDescr(out) != v.descr() {
			return "integer changed an integer"
		}
		if v.kind == 's' {
			// decimal text (optional sign, digits, leading zeros allowed) reads as that decimal number;
			// text that is not a number at all (letters, base prefixes) reads as 0; digit separators as in 1_000 are accepted like Python does
			t := strings.TrimPrefix(strings.TrimPrefix(v.txt, "-"), "+")
			allDigits := t != "" && len(t) <= 18 && strings.Trim(t, "0123456789") == ""
			if allDigits {
				want, _ := strconv.ParseInt(strings.TrimLeft(t, "0")+"", 10, 64)
				if strings.TrimLeft(t, "0") == "" {
					want = 0
				}
				if strings.HasPrefix(v.txt, "-") {
					want = -want
				}
				if !out.IsInteger() || int64(out.Integer()) != want {
					return "integer does not read decimal text as the decimal number it spells"
				}
			} else if strings.ContainsAny(t, "xXoObB") && strings.Trim(t, "0123456789xXoObB") == "" && !(out.IsInteger() && out.Integer() == 0) {
				return "integer read text that is not a decimal number as a number"
			}
		}
	case "capfirst":
		if v.kind == 's' && utf8.ValidString(v.txt) && v.txt != "" {
			rs := runesOf(v.txt)
			if string(runesOf(out.String())[1:]) != string(rs[1:]) {
				return "capfirst altered the rest of the text"
			}
			if out.String()[:len(strings.ToUpper(string(rs[0])))] != strings.ToUpper(string(rs[0])) {
				return "capfirst did not capitalise the first character"
			}
		}
	}
	return ""
}

func mustFloat(g *gval) float64 {
	if g.kind != 'd' {
		return 0
	}
	var f float64
	fmt.Sscanf(g.txt, "%g", &f)
	return f
}
