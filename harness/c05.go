package main

import (
	"fmt"
	"path/filepath"
	"runtime"
	"strings"
	"sync"
	"time"

	"github.com/flosch/pongo2/v6"
)

func init() { props["C05"] = runC05 }

// C05: k goroutines execute the same compiled templates (Execute, ExecuteWriter, FromCache,
// lazy include) at the same time in a -race build: every output must equal the sequential
// one and the race detector must stay silent. The concurrent part runs in child processes
// (GORACE=halt_on_error) so that a detected race is attributed to its case.
func runC05(r *run) {
	rg := newRng(r.seed)
	var cases []caseT
	gen := func(emit func(caseT)) {
		n := 150
		if r.tier == "thorough" {
			n = 3000
		}
		// executions that fail (at several places of one template) while others succeed
		for i, f := range []string{`s1|date:"2006"`, `s1|pluralize:"a,b,c"`, `s1|slice:"1"`, `s1|floatformat:"x"`, `1 / z`, `nosuchfn()`, `lst|time:"15"`} {
			src := "a{% if n1 > 3 %}{{ " + f + " }}{% endif %}\nb{{ s2 }}\n{% if n1 <= 3 %}  {{ " + f + " }}{% endif %}c"
			g := newProgGen(rg.fork(uint64(50003 + i)))
			a := append((&world{}).args(src, g.context(i%2)), "-", "-", "8", "4")
			cases = append(cases, caseT{"conc", append(a, "concfirst")})
		}
		for i := 0; i < n; i++ {
			g := newProgGen(rg.fork(uint64(i)))
			g.allowInc = true
			src := g.program(3)
			if i%3 == 0 {
				src = "{% if b1 %}\n\n\nA \t{% endif %}\n\n  {% for i in nums %}\n{{ i }}  \t{% endfor %}\n{% set nm = \"lazy.tpl\" %}{% include nm %}" + src
			}
			files := map[string]string{"lazy.tpl": "{% for c in lst %}{% cycle \"p\" \"q\" %}{% ifchanged c %}{{ c }}{% endifchanged %}{% endfor %}"}
			for k, v := range g.files {
				files[k] = v
			}
			w := &world{trim: i%2 == 0, lstrip: i%4 < 2, files: []map[string]string{files}}
			a := w.args(src, g.context(i%2))
			a = append(a, "-", "-", fmt.Sprint([]int{2, 4, 8}[i%3]), fmt.Sprint([]int{1, 4, 16}[(i/3)%3]))
			cases = append(cases, caseT{"conc", a})
		}
		// every registered filter and tag at least once under concurrent execution; those that
		// are random or read the clock cannot be compared with a sequential run: race-only
		for _, f := range pongo2.VerifRegisteredFilters() {
			src := "{{ s1|" + f + " }}{{ lst|" + f + " }}{{ n1|" + f + ":2 }}{% for q in nums %}{{ q|" + f + " }}{% endfor %}"
			w := &world{}
			g := newProgGen(rg.fork(uint64(50000)))
			a := append(w.args(src, g.context(0)), hexList([]string{"verifprobe"}), hexList([]string{"verifprobetag"}), "4", "4", "nocompare")
			cases = append(cases, caseT{"conc", a})
		}
		for _, t := range pongo2.VerifRegisteredTags() {
			use, ok := c03TagUse[t]
			if !ok || t == "extends" {
				continue
			}
			use = strings.ReplaceAll(use, "FILE", "lazy.tpl")
			if t == "import" {
				continue
			}
			w := &world{files: []map[string]string{{"lazy.tpl": "L{{ s1 }}"}}}
			g := newProgGen(rg.fork(uint64(50001)))
			a := append(w.args("{% for q in nums %}"+use+"{% endfor %}"+use, g.context(0)), hexList([]string{"verifprobe"}), hexList([]string{"verifprobetag"}), "4", "4", "nocompare")
			cases = append(cases, caseT{"conc", a})
		}
		for _, src := range []string{"{% lorem 3 w random %}{% lorem 2 p random %}", "{{ lst|random }}{{ nums|random }}{{ s1|random }}", "{% now \"2006\" %}"} {
			g := newProgGen(rg.fork(uint64(50002)))
			a := append((&world{}).args(src, g.context(0)), "-", "-", "8", "4", "nocompare")
			cases = append(cases, caseT{"conc", a})
		}
		if childMode || replayFile != "" {
			return
		}
		// hand the whole batch to children
		res := runIsolated("C05", cases, 5*time.Second, filepath.Join(r.outdir, "iso"))
		for i, c := range cases {
			id := r.emit("render", c.args, res[i].obs)
			r.nontrivial(c.args[0])
			if i%29 == 0 {
				r.sample(map[string]any{"template": unhx(c.args[0]), "goroutines": c.args[9], "gomaxprocs": c.args[10], "observed": res[i].obs})
			}
			if res[i].obs == "race" || res[i].obs == "crash" || res[i].obs == "timeout" || res[i].reject != "" {
				what := res[i].reject
				if what == "" {
					what = "concurrent execution: " + res[i].obs
				}
				r.reject(id, what, map[string]any{"template": unhx(c.args[0]), "goroutines": c.args[9], "gomaxprocs": c.args[10], "observed": res[i].obs})
			}
		}
	}
	driveCases(r, gen, execC05)
	r.finish(map[string]any{"race_build": raceEnabled})
}

func execC05(r *run, c caseT) {
	// (child, or replay) one case: sequential result first, then k goroutines
	w, src, ctx := worldFromArgs(c.args)
	var k, procs int
	fmt.Sscanf(c.args[9], "%d", &k)
	fmt.Sscanf(c.args[10], "%d", &procs)
	old := runtime.GOMAXPROCS(procs)
	defer runtime.GOMAXPROCS(old)
	// (for "concfirst" cases the concurrent executions are the first ones of the process to take
	// the path: the sequential baseline is computed afterwards)
	concFirst := len(c.args) > 11 && c.args[11] == "concfirst"
	var seq *outcome
	if !concFirst {
		seq, _ = w.render(src, false, ctx)
	}
	b := w.build()
	tpl, err, _ := compileIn(b, src, false)
	if err != nil || tpl == nil {
		if seq == nil {
			seq, _ = w.render(src, false, ctx)
		}
		r.emit("render", c.args, seq.obs)
		return
	}
	var wg sync.WaitGroup
	start := make(chan struct{})
	outs := make([]string, k*3)
	for gi := 0; gi < k; gi++ {
		wg.Add(1)
		go func(gi int) {
			defer wg.Done()
			defer func() { _ = recover() }()
			<-start
			for rep := 0; rep < 3; rep++ {
				gc := ctx.goContext()
				var out string
				var xerr error
				if (gi+rep)%2 == 0 {
					out, xerr = tpl.Execute(gc)
				} else {
					var sb strings.Builder
					xerr = tpl.ExecuteWriter(gc, &sb)
					out = sb.String()
				}
				if xerr != nil {
					out = "xerr"
				} else {
					out = obsOK(out)
				}
				outs[gi*3+rep] = out
				// the same set is used concurrently as well
				if t2, e2 := b.set.FromCache("lazy.tpl"); e2 == nil {
					_, _ = t2.Execute(pongo2.Context{"lst": []any{"a", "a", "b"}})
				}
			}
		}(gi)
	}
	close(start)
	wg.Wait()
	if concFirst {
		seq, _ = w.render(src, false, ctx)
	}
	id := r.emit("render", c.args, seq.obs)
	if len(c.args) > 11 && c.args[11] == "nocompare" {
		return
	}
	for _, o := range outs {
		if o != seq.obs {
			r.reject(id, "a concurrent execution returned something else than the sequential one", map[string]any{"template": src, "sequential": seq.obs, "concurrent": o})
			return
		}
	}
}
