package main

import (
	"fmt"
	"path/filepath"
	"runtime"
	"strings"
	"sync"
	"time"

	"github.com/flosch/pongo2/v6"
)

func init() { props["C05"] = runC05 }

// C05: k goroutines execute the same compiled templates (Execute, ExecuteWriter, FromCache,
// lazy include) at the same time in a -race build: every output must equal the sequential
// one and the race detector must stay silent. The concurrent part runs in child processes
// (GORACE=halt_on_error) so that a detected race is attributed to its case.
func runC05(r *run) {
	rg := newRng(r.seed)
	var cases []caseT
	gen := func(emit func(caseT)) {
		n := 150
		if r.tier == "thorough" {
			n = 3000
		}
		// executions that fail (at several places of one template) while others succeed
		for i, f := range []string{`s1|date:"2006"`, `s1|pluralize:"a,b,c"`, `s1|slice:"1"`, `s1|floatformat:"x"`, `1 / z`, `nosuchfn()`, `lst|time:"15"`} {
			src := "a{% if n1 > 3 %}{{ " + f + " }}{% endif %}\nb{{ s2 }}\n{% if n1 <= 3 %}  {{ " + f + " }}{% endif %}c"
			g := newProgGen(rg.fork(uint64(50003 + i)))
			a := append((&world{}).args(src, g.context(i%2)), "-", "-", "8", "4")
			cases = append(cases, caseT{"conc", append(a, "concfirst")})
		}
		for i := 0; i < n; i++ {
			g := newProgGen(rg.fork(uint64(i)))
			g.allowInc = true
			src := g.program(3)
			if i%3 == 0 {
				src = "{% if b1 %}\n\n\nA \t{% endif %}\n\n  {% for i in nums %}\n{{ i }}  \t{% endfor %}\n{% set nm = \"lazy.tpl\" %}{% include nm %}" + src
			}
			files := map[string]string{"lazy.tpl": "{% for c in lst %}{% cycle \"p\" \"q\" %}{% ifchanged c %}{{ c }}{% endifchanged %}{% endfor %}",
				"conclib.tpl": "{% macro cm(x) export %}[{{ x }}]{% endmacro %}", "concpage.tpl": "{% import \"conclib.tpl\" cm %}{{ cm(1) }}{% include \"lazy.tpl\" %}"}
			for k, v := range g.files {
				files[k] = v
			}
			w := &world{trim: i%2 == 0, lstrip: i%4 < 2, files: []map[string]string{files}}
			a := w.args(src, g.context(i%2))
			a = append(a, "-", "-", fmt.Sprint([]int{2, 4, 8}[i%3]), fmt.Sprint([]int{1, 4, 16}[(i/3)%3]))
			cases = append(cases, caseT{"conc", a})
		}
		// every registered filter and tag at least once under concurrent execution; those that
		// are random or read the clock cannot be compared with a sequential run: race-only
		for _, f := range pongo2.VerifRegisteredFilters() {
			src := "{{ s1|" + f + " }}{{ lst|" + f + " }}{{ n1|" + f + ":2 }}{% for q in nums %}{{ q|" + f + " }}{% endfor %}"
			w := &world{}
			g := newProgGen(rg.fork(uint64(50000)))
			a := append(w.args(src, g.context(0)), hexList([]string{"verifprobe"}), hexList([]string{"verifprobetag"}), "4", "4", "nocompare")
			cases = append(cases, caseT{"conc", a})
		}
		for _, t := range registeredTags() {
			use, ok := c03TagUse[t]
			if !ok || t == "extends" {
				continue
			}
			use = strings.ReplaceAll(use, "FILE", "lazy.tpl")
			if t == "import" {
				continue
			}
			w := &world{files: []map[string]string{{"lazy.tpl": "L{{ s1 }}"}}}
			g := newProgGen(rg.fork(uint64(50001)))
			a := append(w.args("{% for q in nums %}"+use+"{% endfor %}"+use, g.context(0)), hexList([]string{"verifprobe"}), hexList([]string{"verifprobetag"}), "4", "4", "nocompare")
			cases = append(cases, caseT{"conc", a})
		}
		for _, src := range []string{"{% lorem 3 w random %}{% lorem 2 p random %}", "{{ lst|random }}{{ nums|random }}{{ s1|random }}", "{% now \"2006\" %}"} {
			g := newProgGen(rg.fork(uint64(50002)))
			a := append((&world{}).args(src, g.context(0)), "-", "-", "8", "4", "nocompare")
			cases = append(cases, caseT{"conc", a})
		}
		// values shared by the contexts of all executions (slices with spare capacity, maps, a
		// struct behind a pointer) under every operator, filter and loop form that reads them: the
		// executions only read them
		for i := range c05SharedTemplates {
			cases = append(cases, caseT{"sharedvals", []string{fmt.Sprint(i), "-", "-", "-", "-", "-", "-", "-", "-", "8", "4"}})
		}
		if childMode || replayFile != "" {
			return
		}
		// hand the whole batch to children
		res := runIsolated("C05", cases, 5*time.Second, filepath.Join(r.outdir, "iso"))
		for i, c := range cases {
			op := "render"
			if c.op == "sharedvals" {
				op = c.op // no model counterpart: Go values
			}
			id := r.emit(op, c.args, res[i].obs)
			r.nontrivial(c.args[0] + c.op)
			if i%29 == 0 {
				r.sample(map[string]any{"template": unhxOr(c.args[0]), "goroutines": c.args[9], "gomaxprocs": c.args[10], "observed": res[i].obs})
			}
			if res[i].obs == "race" || res[i].obs == "crash" || res[i].obs == "timeout" || res[i].reject != "" {
				what := res[i].reject
				if what == "" {
					what = "concurrent execution: " + res[i].obs
				}
				r.reject(id, what, map[string]any{"template": unhxOr(c.args[0]), "goroutines": c.args[9], "gomaxprocs": c.args[10], "observed": res[i].obs})
			}
		}
	}
	driveCases(r, gen, execC05)
	r.finish(map[string]any{"race_build": raceEnabled})
}

var c05SharedTemplates = []string{"{{ ss + own }}", "{{ ss|add:own }}", "{{ own + ss }}", "{{ ss|join:\",\" }}{{ own|join:\",\" }}", "{% for x in ss sorted %}{{ x }}{% endfor %}", "{% for x in ss reversed %}{{ x }}{% endfor %}",
	"{% for x in si sorted %}{{ x }}{% endfor %}{% for x in si reversed sorted %}{{ x }}{% endfor %}", "{{ ss|slice:\"1:\"|join:\",\" }}", "{{ ss|first }}{{ ss|last }}{{ ss|length }}", "{{ sa|join:\"-\" }}{{ sa + own }}",
	"{% for k, v in sm sorted %}{{ k }}{{ v }}{% endfor %}", "{{ sp.Items|join:\",\" }}{{ sp.Name }}", "{{ si|add:si }}{{ si + si }}", "{{ ss|random|length }}", "{% for x in ss %}{% cycle ss.0 own.0 %}{% endfor %}",
	"{{ ss|slice:\":2\" + own }}", "{% with q=ss %}{{ q + own }}{% endwith %}", "{% set q = ss %}{{ q|add:own }}", "{% for x in sa sorted %}{{ x }}{% endfor %}", "{{ own.0 in ss }}{{ ss.1 in own }}",
	"{% macro m(l) %}{{ l + own }}{% endmacro %}{{ m(ss) }}", "{{ ss|default:own }}{{ nothing|default:ss|join:\"\" }}", "{% ifchanged ss %}{{ ss|join:\"\" }}{% endifchanged %}", "{% firstof ss own %}", "{{ ss.0|add:own.0 }}"}

type c05Shared struct {
	Name  string
	Items []string
}

func c05SharedValues() (pongo2.Context, func() string) {
	ss := append(make([]string, 0, 16), "c", "a", "b")
	si := append(make([]int, 0, 16), 3, 1, 2)
	sa := append(make([]any, 0, 16), "z", "y", "x")
	sm := map[string]int{"b": 2, "a": 1}
	sp := &c05Shared{Name: "n", Items: append(make([]string, 0, 8), "i1", "i2")}
	snap := func() string {
		return fmt.Sprintf("%q|%v|%v|%v|%q|%s", ss[:cap(ss)], si[:cap(si)], sa[:cap(sa)], sm, sp.Items[:cap(sp.Items)], sp.Name)
	}
	return pongo2.Context{"ss": ss, "si": si, "sa": sa, "sm": sm, "sp": sp}, snap
}

func execC05Shared(r *run, c caseT) {
	var ti int
	fmt.Sscanf(c.args[0], "%d", &ti)
	src := c05SharedTemplates[ti]
	tpl, err := pongo2.FromString(src)
	if err != nil {
		r.emit(c.op, c.args, "cerr")
		return
	}
	own := func(gi int) []string { return []string{fmt.Sprintf("o%d", gi), fmt.Sprintf("p%d", gi)} }
	const k = 8
	// what each execution gives alone, on values of its own
	want := make([]string, k)
	for gi := 0; gi < k; gi++ {
		cx, _ := c05SharedValues()
		cx["own"] = own(gi)
		out, xerr := tpl.Execute(cx)
		if xerr != nil {
			out = "xerr"
		}
		want[gi] = out
	}
	shared, snap := c05SharedValues()
	before := snap()
	var wg sync.WaitGroup
	start := make(chan struct{})
	outs := make([]string, k)
	for gi := 0; gi < k; gi++ {
		wg.Add(1)
		go func(gi int) {
			defer wg.Done()
			defer func() { _ = recover() }()
			<-start
			for rep := 0; rep < 20; rep++ {
				cx := pongo2.Context{"own": own(gi)}
				for kk, v := range shared {
					cx[kk] = v
				}
				out, xerr := tpl.Execute(cx)
				if xerr != nil {
					out = "xerr"
				}
				if rep == 0 || out != want[gi] {
					outs[gi] = out
				}
			}
		}(gi)
	}
	close(start)
	wg.Wait()
	id := r.emit(c.op, c.args, "sharedvals")
	if strings.Contains(src, "random") {
		return
	}
	if after := snap(); after != before {
		r.reject(id, "executing a template changed a value its contexts share (also beyond the slice's length)", map[string]any{"template": src, "before": before, "after": after})
		return
	}
	for gi := range outs {
		if outs[gi] != want[gi] {
			r.reject(id, "an execution on shared context values returned something else than alone", map[string]any{"template": src, "alone": want[gi], "concurrent": outs[gi]})
			return
		}
	}
}

func execC05(r *run, c caseT) {
	if c.op == "sharedvals" {
		execC05Shared(r, c)
		return
	}
	// (child, or replay) one case: sequential result first, then k goroutines
	w, src, ctx := worldFromArgs(c.args)
	var k, procs int
	fmt.Sscanf(c.args[9], "%d", &k)
	fmt.Sscanf(c.args[10], "%d", &procs)
	old := runtime.GOMAXPROCS(procs)
	defer runtime.GOMAXPROCS(old)
	// (for "concfirst" cases the concurrent executions are the first ones of the process to take
	// the path: the sequential baseline is computed afterwards)
	concFirst := len(c.args) > 11 && c.args[11] == "concfirst"
	var seq *outcome
	if !concFirst {
		seq, _ = w.render(src, false, ctx)
	}
	b := w.build()
	tpl, err, _ := compileIn(b, src, false)
	if err != nil || tpl == nil {
		if seq == nil {
			seq, _ = w.render(src, false, ctx)
		}
		r.emit("render", c.args, seq.obs)
		return
	}
	var wg sync.WaitGroup
	start := make(chan struct{})
	outs := make([]string, k*3)
	for gi := 0; gi < k; gi++ {
		wg.Add(1)
		go func(gi int) {
			defer wg.Done()
			defer func() { _ = recover() }()
			<-start
			for rep := 0; rep < 3; rep++ {
				gc := ctx.goContext()
				var out string
				var xerr error
				if (gi+rep)%2 == 0 {
					out, xerr = tpl.Execute(gc)
				} else {
					var sb strings.Builder
					xerr = tpl.ExecuteWriter(gc, &sb)
					out = sb.String()
				}
				if xerr != nil {
					out = "xerr"
				} else {
					out = obsOK(out)
				}
				outs[gi*3+rep] = out
				// the same set is used concurrently as well: cached and uncached loads, compiles of
				// templates that import a library, the cache cleaned in between
				if t2, e2 := b.set.FromCache("lazy.tpl"); e2 == nil {
					_, _ = t2.Execute(pongo2.Context{"lst": []any{"a", "a", "b"}})
				}
				if len(w.files) > 0 && w.files[0]["conclib.tpl"] != "" {
					if t3, e3 := b.set.FromString("{% import \"conclib.tpl\" cm %}{{ cm(2) }}"); e3 == nil {
						_, _ = t3.Execute(nil)
					}
					if t4, e4 := b.set.FromFile("concpage.tpl"); e4 == nil {
						_, _ = t4.Execute(pongo2.Context{"lst": []any{"a"}})
					}
					_, _ = b.set.RenderTemplateFile("concpage.tpl", pongo2.Context{"lst": []any{"b"}})
					if (gi+rep)%3 == 0 {
						b.set.CleanCache("concpage.tpl")
					}
					_, _ = b.set.FromCache("concpage.tpl")
				}
			}
		}(gi)
	}
	close(start)
	wg.Wait()
	if concFirst {
		seq, _ = w.render(src, false, ctx)
	}
	id := r.emit("render", c.args, seq.obs)
	if len(c.args) > 11 && c.args[11] == "nocompare" {
		return
	}
	for _, o := range outs {
		if o != seq.obs {
			r.reject(id, "a concurrent execution returned something else than the sequential one", map[string]any{"template": src, "sequential": seq.obs, "concurrent": o})
			return
		}
	}
}

func unhxOr(a string) string {
	var ti int
	if _, err := fmt.Sscanf(a, "%d", &ti); err == nil && len(a) < 3 && ti < len(c05SharedTemplates) {
		return c05SharedTemplates[ti]
	}
	return unhx(a)
}
