package main

import (
	"fmt"
	"strings"

	"github.com/flosch/pongo2/v6"
)

func init() { props["C10"] = runC10 }

// C10: inheritance chains of depth 1..5 served from an in-memory loader; every template of
// the chain is rendered and compared with a reference resolution of the blocks.

type bitem struct {
	kind  string // text block super if loop
	text  string
	name  string
	items []*bitem
}

type btpl struct {
	name   string
	parent string
	doc    []*bitem
	blocks map[string][]*bitem
	order  []string
}

func (t *btpl) collect(items []*bitem) {
	for _, it := range items {
		if it.kind == "block" {
			t.blocks[it.name] = it.items
			t.order = append(t.order, it.name)
		}
		t.collect(it.items)
	}
}

func printItems(items []*bitem) string {
	var sb strings.Builder
	for _, it := range items {
		switch it.kind {
		case "text", "code":
			sb.WriteString(it.text)
		case "qvar":
			sb.WriteString("{{ q }}")
		case "super":
			sb.WriteString("{{ block.Super }}")
		case "block":
			sb.WriteString("{% block " + it.name + " %}" + printItems(it.items) + "{% endblock %}")
		case "if":
			sb.WriteString("{% if true %}" + printItems(it.items) + "{% endif %}")
		case "loop":
			sb.WriteString("{% for q in \"ab\" %}" + printItems(it.items) + "{% endfor %}")
		case "with":
			sb.WriteString("{% with zq=1 %}" + printItems(it.items) + "{% endwith %}")
		}
	}
	return sb.String()
}

// reference: render items; defs are the definitions of the enclosing block that are less
// derived than the one being rendered (most derived last)
func refRender(chain []*btpl, items []*bitem, supers [][]*bitem, out *strings.Builder) {
	for _, it := range items {
		switch it.kind {
		case "code":
			// template code that renders nothing in the reference
		case "text":
			out.WriteString(it.text)
		case "qvar":
			out.WriteString(refQ) // the variable of the loop the block is rendered in (nothing outside a loop)
		case "super":
			if len(supers) > 0 {
				// the parent's definition is rendered in the context the block was entered with: a
				// loop variable bound inside the overriding definition is not visible in it
				old := refQ
				refQ = blockQ
				refRender(chain, supers[len(supers)-1], supers[:len(supers)-1], out)
				refQ = old
			}
		case "block":
			var defs [][]*bitem
			for _, t := range chain {
				if b, ok := t.blocks[it.name]; ok {
					defs = append(defs, b)
				}
			}
			savedBlockQ := blockQ
			blockQ = refQ
			refRender(chain, defs[len(defs)-1], defs[:len(defs)-1], out)
			blockQ = savedBlockQ
		case "if", "with":
			refRender(chain, it.items, supers, out)
		case "loop":
			outer := refQ
			for _, q := range []string{"a", "b"} {
				refQ = q
				refRender(chain, it.items, supers, out)
			}
			refQ = outer
		}
	}
}

var refQ, blockQ string

type c10Gen struct {
	rg     *rng
	names  []string // block names known so far in the chain
	used   map[string]bool
	n      int
	nested map[string][]string // block name -> names of the blocks first declared inside it
}

func (g *c10Gen) blockBody(level int, name string, d int, allowSuper bool) []*bitem {
	var items []*bitem
	if allowSuper && g.rg.chance(1, 2) {
		items = append(items, &bitem{kind: "super"})
	}
	items = append(items, &bitem{kind: "text", text: fmt.Sprintf("(%d%s)", level, name)})
	if g.rg.chance(1, 3) {
		// a definition whose text depends on where the block is rendered (the loop around it)
		items = append(items, &bitem{kind: "qvar"})
	}
	if d > 0 && g.rg.chance(1, 3) {
		// a nested block, always under a fresh name (re-declaring, inside a definition of
		// block X, a block that some template nests X in makes the blocks contain each
		// other: unbounded recursion, recorded under C01-cyclic-template-reference)
		// ... or re-declaring a block that an ancestor already nests in this very block (the
		// same nesting order, so nothing contains itself)
		nn := ""
		if inner := g.nested[name]; len(inner) > 0 && g.rg.chance(1, 2) {
			nn = inner[g.rg.intn(len(inner))]
		} else {
			g.n++
			nn = fmt.Sprintf("b%d", g.n)
			g.names = append(g.names, nn)
			if g.nested == nil {
				g.nested = map[string][]string{}
			}
			g.nested[name] = append(g.nested[name], nn)
		}
		if !g.used[nn] {
			g.used[nn] = true
			items = append(items, &bitem{kind: "block", name: nn, items: g.blockBody(level, nn, d-1, true)})
		}
	}
	if allowSuper && g.rg.chance(1, 3) {
		items = append(items, &bitem{kind: "super"})
	}
	if allowSuper && g.rg.chance(1, 4) {
		// the parent's definition asked for from inside a construct with a scope of its own
		items = append(items, &bitem{kind: g.rg.pick([]string{"loop", "with", "if"}), items: []*bitem{{kind: "text", text: "["}, {kind: "super"}, {kind: "text", text: "]"}}})
	}
	return items
}

func (g *c10Gen) pickName(allowNew bool) string {
	if len(g.names) > 0 && (!allowNew || g.rg.chance(2, 3)) {
		return g.names[g.rg.intn(len(g.names))]
	}
	g.n++
	nn := fmt.Sprintf("b%d", g.n)
	g.names = append(g.names, nn)
	return nn
}

func (g *c10Gen) baseDoc() []*bitem {
	var doc []*bitem
	n := 2 + g.rg.intn(3)
	for i := 0; i < n; i++ {
		doc = append(doc, &bitem{kind: "text", text: g.rg.pick([]string{"<", "|", ".", "\n", "x"})})
		nn := g.pickName(true)
		if g.used[nn] {
			continue
		}
		g.used[nn] = true
		blk := &bitem{kind: "block", name: nn, items: g.blockBody(0, nn, 2, true)}
		switch g.rg.intn(4) {
		case 0:
			doc = append(doc, &bitem{kind: "if", items: []*bitem{blk}})
		case 1:
			doc = append(doc, &bitem{kind: "loop", items: []*bitem{blk}})
		default:
			doc = append(doc, blk)
		}
	}
	// names a child may try to bind outside its blocks: the base sees none of that
	doc = append(doc, &bitem{kind: "code", text: "{{ tv }}{{ tm() }}{{ ti() }}"})
	doc = append(doc, &bitem{kind: "text", text: ">"})
	return doc
}

func (g *c10Gen) childDoc(level int) []*bitem {
	var doc []*bitem
	g.used = map[string]bool{}
	n := 1 + g.rg.intn(4)
	for i := 0; i < n; i++ {
		if g.rg.chance(1, 3) {
			doc = append(doc, &bitem{kind: "text", text: g.rg.pick([]string{"IGNORED", "{% set tv = \"CHILD\" %}", "{% macro tm() %}CHILDMACRO{% endmacro %}",
				"{% import \"lib.tpl\" ti %}", "{{ \"IGNORED\" }}", "{% with tv=1 %}IGNORED{% endwith %}", "{% for q in \"ab\" %}IGNORED{% endfor %}"})})
		}
		nn := g.pickName(true) // override, or add a block nobody renders
		if g.used[nn] {
			continue
		}
		g.used[nn] = true
		doc = append(doc, &bitem{kind: "block", name: nn, items: g.blockBody(level, nn, 2, true)})
	}
	return doc
}

func runC10(r *run) {
	rg := newRng(r.seed)
	gen := func(emit func(caseT)) {
		n := 2500
		if r.tier == "thorough" {
			n = 60000
		}
		for i := 0; i < n; i++ {
			g := &c10Gen{rg: rg.fork(uint64(i)), used: map[string]bool{}}
			depth := 1 + g.rg.intn(5)
			var chain []*btpl
			files := map[string]string{}
			for lv := 0; lv < depth; lv++ {
				t := &btpl{name: fmt.Sprintf("t%d.tpl", lv), blocks: map[string][]*bitem{}}
				if lv == 0 {
					t.doc = g.baseDoc()
					files[t.name] = printItems(t.doc)
				} else {
					t.parent = chain[lv-1].name
					t.doc = g.childDoc(lv)
					// whatever a child writes outside its blocks is ignored - also in front of extends
					pre := g.rg.pick([]string{"", "", "stray text\n", "{% comment %}header{% endcomment %}", "{# note #}", "{% set tv = \"PRE\" %}", "{{ \"PRE\" }}", "{% macro tm() %}PRE{% endmacro %}",
						"{% if true %}PRE{% endif %}", "{% block unused" + fmt.Sprint(lv) + " %}PRE{% endblock %}"})
					files[t.name] = pre + "{% extends \"" + t.parent + "\" %}" + printItems(t.doc)
				}
				t.collect(t.doc)
				chain = append(chain, t)
			}
			files["lib.tpl"] = "{% macro ti() export %}IMPORTED{% endmacro %}"
			w := &world{files: []map[string]string{files}}
			// render every template of the chain, most derived first (rendering a parent must
			// not be affected by its children having been compiled)
			var names, wants []string
			for lv := depth - 1; lv >= 0; lv-- {
				var out strings.Builder
				refRender(chain[:lv+1], chain[0].doc, nil, &out)
				a := w.args(chain[lv].name, nil)
				a = append(a, "-", "-", hx(out.String()))
				emit(caseT{"renderfile", a})
				if i%4 == 0 {
					// the same template pulled in by an include (static and by a computed name)
					files["wrap.tpl"] = "[{% include \"" + chain[lv].name + "\" %}|{% set nm = \"" + chain[lv].name + "\" %}{% include nm %}]"
					aw := (&world{files: []map[string]string{copyFiles(files)}}).args("wrap.tpl", nil)
					aw = append(aw, "-", "-", hx("["+out.String()+"|"+out.String()+"]"))
					emit(caseT{"renderfile", aw})
					delete(files, "wrap.tpl")
				}
				names = append(names, hx(chain[lv].name))
				wants = append(wants, hx(out.String()))
			}
			if depth > 1 && i%3 == 0 {
				// all templates of the chain compiled in ONE set before any is rendered, through
				// FromFile and through the cache, in both orders: each still renders as on its own
				a := w.args(chain[0].name, nil)
				a = append(a, "-", "-", strings.Join(names, ","), strings.Join(wants, ","), fmt.Sprint(i%4))
				emit(caseT{"sharedset", a})
			}
		}
		// the invalid shapes
		base := "<{% block a %}A{% endblock %}>"
		for _, c := range []struct{ child, what string }{
			{"{% extends \"base.tpl\" %}{% extends \"base.tpl\" %}{% block a %}x{% endblock %}", "second extends"},
			{"{% block a %}{% extends \"base.tpl\" %}{% endblock %}", "nested extends"},
			{"{% if true %}{% extends \"base.tpl\" %}{% endif %}", "nested extends"},
			{"{% extends \"base.tpl\" %}{% block a %}1{% endblock %}{% block a %}2{% endblock %}", "duplicate block"},
			{"{% block z %}{% block z %}{% endblock %}{% endblock %}", "duplicate nested block"},
			{"{% extends \"missing.tpl\" %}", "missing parent"},
			{"{% extends base %}", "non-literal parent"},
		} {
			w := &world{files: []map[string]string{{"base.tpl": base, "child.tpl": c.child}}}
			a := w.args("child.tpl", nil)
			a = append(a, "-", "-", hx("cerr"))
			emit(caseT{"invalid", a})
		}
	}
	driveCases(r, gen, func(r *run, c caseT) {
		if c.op == "sharedset" {
			execC10Shared(r, c)
			return
		}
		w, name, ctx := worldFromArgs(c.args)
		o, _ := w.render(name, true, ctx)
		id := r.emit("renderfile", c.args, o.obs)
		if id%503 == 0 {
			r.sample(map[string]any{"file": name, "files": w.files, "observed": o.obs})
		}
		if o.panicked != nil {
			r.reject(id, "panic", map[string]any{"files": w.files, "panic": fmt.Sprint(o.panicked)})
			return
		}
		want := unhx(c.args[9])
		if c.op == "invalid" {
			if o.obs != "cerr" {
				r.reject(id, "an invalid inheritance shape compiled", map[string]any{"files": w.files, "observed": o.obs})
			}
			return
		}
		if len(w.files[0]) > 1 {
			r.nontrivial(c.args[0] + c.args[2])
		}
		if o.obs != obsOK(want) {
			r.reject(id, "blocks are not resolved to the most-derived definition / Super to the next one", map[string]any{"file": name, "files": w.files, "observed": o.obs, "expected": want})
		}
	})
	r.finish(nil)
}

func execC10Shared(r *run, c caseT) {
	w, _, _ := worldFromArgs(c.args)
	names := strings.Split(c.args[9], ",")
	wants := strings.Split(c.args[10], ",")
	var mode int
	fmt.Sscanf(c.args[11], "%d", &mode)
	b := w.build()
	order := make([]int, len(names))
	for i := range order {
		order[i] = i
		if mode%2 == 1 {
			order[i] = len(names) - 1 - i
		}
	}
	tpls := make([]*pongo2.Template, len(names))
	obs := ""
	var failed string
	if mode == 1 || mode == 3 {
		// a first attempt with a broken base fails; it must not leave anything behind in the set
		baseName := unhx(names[len(names)-1])
		good := b.loaders[0].files[baseName]
		for _, broken := range []string{"{% block x %}{% endblock %}{% block x %}{% endblock %}", "{% if %}", ""} {
			b.loaders[0].mu.Lock()
			if broken == "" {
				delete(b.loaders[0].files, baseName)
			} else {
				b.loaders[0].files[baseName] = broken
			}
			b.loaders[0].mu.Unlock()
			for _, i := range order {
				if mode == 1 {
					_, _ = b.set.FromCache(unhx(names[i]))
				} else {
					_, _ = b.set.FromFile(unhx(names[i]))
				}
			}
		}
		b.loaders[0].mu.Lock()
		b.loaders[0].files[baseName] = good
		b.loaders[0].mu.Unlock()
		b.set.CleanCache()
	}
	func() {
		defer func() {
			if p := recover(); p != nil {
				failed = "panic: " + fmt.Sprint(p)
			}
		}()
		for _, i := range order {
			var err error
			if mode < 2 {
				tpls[i], err = b.set.FromCache(unhx(names[i]))
			} else {
				tpls[i], err = b.set.FromFile(unhx(names[i]))
			}
			if err != nil {
				failed = "compile error: " + err.Error()
				return
			}
		}
		for round := 0; round < 2 && failed == ""; round++ {
			if round == 1 {
				// the most derived template is rendered with the block options switched on (for
				// itself): what its ancestors render when asked directly does not change
				tpls[0].Options.TrimBlocks, tpls[0].Options.LStripBlocks = true, true
				_, _ = tpls[0].Execute(nil)
			}
			for _, i := range order {
				if round == 1 && i == 0 {
					continue
				}
				out, err := tpls[i].Execute(nil)
				if err != nil {
					failed = "execution error: " + err.Error()
					return
				}
				if out != unhx(wants[i]) {
					failed = fmt.Sprintf("%s rendered %q, on its own it renders %q", unhx(names[i]), out, unhx(wants[i]))
					return
				}
			}
		}
	}()
	if failed == "" {
		obs = "same"
	} else {
		obs = "differs"
	}
	id := r.emit(c.op, c.args, "sharedset:"+obs)
	r.nontrivial(c.args[2] + c.args[11])
	if failed != "" {
		r.reject(id, "templates of one chain compiled in the same set do not render as each renders on its own", map[string]any{"files": w.files, "mode": mode, "what": failed})
	}
}

func copyFiles(m map[string]string) map[string]string {
	c := map[string]string{}
	for k, v := range m {
		c[k] = v
	}
	return c
}
