package main

import (
	"flag"
	"fmt"
	"os"
	"sort"
	"strconv"
)

var props = map[string]func(r *run){}

func main() {
	prop := flag.String("prop", "", "property id")
	tier := flag.String("tier", "quick", "quick|thorough")
	seedS := flag.String("seed", "1", "seed")
	out := flag.String("out", "", "output directory")
	replay := flag.String("replay", "", "replay file (cases.tsv lines) instead of generating")
	flag.Parse()
	seed, _ := strconv.ParseUint(*seedS, 10, 64)
	f, ok := props[*prop]
	if !ok {
		names := []string{}
		for n := range props {
			names = append(names, n)
		}
		sort.Strings(names)
		fmt.Fprintln(os.Stderr, "harness: unknown property; have", names)
		os.Exit(3)
	}
	r := newRun(*prop, *tier, seed, *out)
	replayFile = *replay
	f(r)
}

var replayFile string
