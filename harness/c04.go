package main

import (
	"bytes"
	"fmt"
	"reflect"
	"strings"

	"github.com/flosch/pongo2/v6"
)

func init() { props["C04"] = runC04 }

// C04: one compiled template, executed several times with a mix of contexts (equal,
// different, failing): every execution must give what a freshly compiled template gives
// for that context, equal contexts must give equal results, and the token list must not
// change between executions (after the one-time block-option rewrite).
func runC04(r *run) {
	rg := newRng(r.seed)
	gen := func(emit func(caseT)) {
		n := 2500
		if r.tier == "thorough" {
			n = 60000
		}
		for i := 0; i < n; i++ {
			g := newProgGen(rg.fork(uint64(i)))
			g.allowInc = i%3 == 0
			src := g.program(3)
			if i%5 == 0 {
				// whitespace-heavy text so that the block options have something to do
				src = "{% if b1 %}\n\n\nA \t{% endif %}\n\n  {% for i in nums %}\n{{ i }}  \t{% endfor %}\n" + src
			}
			w := &world{trim: i%4 == 1 || i%4 == 3, lstrip: i%4 >= 2}
			if len(g.files) > 0 {
				w.files = []map[string]string{g.files}
			}
			// history: ctx A, ctx B, a failing context, ctx A again, ctx B again
			a, b := g.context(0), g.context(1)
			bad := append(gctx{}, a...)
			bad = append(bad, ctxEntry{"not an identifier", gInt(1)})
			hist := []gctx{a, b, bad, a, b}
			switch i % 3 {
			case 1: // the very first execution is rejected by the context checks
				hist = []gctx{bad, a, b, a}
			case 2:
				hist = []gctx{bad, bad, a, a, bad, b}
			}
			parts := make([]string, len(hist))
			for j, h := range hist {
				parts[j] = h.descr()
			}
			args := w.args(src, nil)
			args[1] = strings.Join(parts, "~")
			emit(caseT{"history", args})
		}
	}
	driveCases(r, func(emit func(caseT)) {
		gen(emit)
		genC04Errors(rg, emit)
		genC04Excluded(rg, emit)
		genC04Tags(rg, emit)
		genC04Wrapped(rg, emit)
		genC04Options(rg, emit)
	}, execC04)
	r.finish(nil)
}

// the same failing construct at two places of one template, selected by the context: each
// failure must be reported as a fresh compilation reports it, whatever failed before
func genC04Errors(rg *rng, emit func(caseT)) {
	fails := []string{`s1|date:"2006"`, `s1|pluralize:"a,b,c"`, `s1|slice:"1"`, `s1|floatformat:"x"`, `1 / z`, `s1|center:"x"`, `nosuchfn()`, `lst|time:"15"`, `n1|divisibleby:0`, `s1.0.x`}
	pads := []string{"", "\n", "line\n\n  ", "é ", "\t\t", "<p>\n</p>\n"}
	for i, f := range fails {
		for k := 0; k < 6; k++ {
			p1, p2 := pads[(i+k)%len(pads)], pads[(i+2*k+1)%len(pads)]
			src := p1 + "head{% if sel == 1 %}{{ " + f + " }}{% endif %}ok" + p2 + "{% if sel == 2 %}" + p1 + "{{ " + f + " }}{% endif %}end"
			g := newProgGen(rg.fork(uint64(7000 + i*10 + k)))
			a := g.context(0)
			mk := func(sel int) gctx {
				var c gctx
				for _, e := range a {
					if e.key != "sel" && e.key != "z" {
						c = append(c, e)
					}
				}
				return append(c, ctxEntry{"sel", gInt(sel)}, ctxEntry{"z", gInt(0)})
			}
			one, two, none := mk(1), mk(2), mk(0)
			hist := []gctx{one, none, two, none, one, two, none}
			if k%2 == 1 {
				hist = []gctx{two, one, none, none}
			}
			parts := make([]string, len(hist))
			for j, h := range hist {
				parts[j] = h.descr()
			}
			args := (&world{}).args(src, nil)
			args[1] = strings.Join(parts, "~")
			// extra: the failing construct, so that reported positions can be judged against the source
			args = append(args, "-", "-", hx("{{ "+f+" }}"))
			emit(caseT{"history", args})
		}
	}
}

// a construct that fails after the tag around it has already collected (or written) some of its
// body: what the failed execution left behind in the node must not reach the next execution
func genC04Wrapped(rg *rng, emit func(caseT)) {
	wraps := [][2]string{{"{% filter upper %}", "{% endfilter %}"}, {"{% filter lower|capfirst %}", "{% endfilter %}"}, {"{% spaceless %}", "{% endspaceless %}"}, {"{% ifchanged %}", "{% endifchanged %}"},
		{"{% with q=1 %}", "{% endwith %}"}, {"{% for q in nums %}", "{% endfor %}"}, {"{% macro zm() %}", "{% endmacro %}{{ zm() }}{{ zm() }}"}, {"{% block zb %}", "{% endblock %}"},
		{"{% autoescape off %}", "{% endautoescape %}"}, {"{% if b1 or not b1 %}", "{% endif %}"}, {"{% filter upper %}{% spaceless %}", "{% endspaceless %}{% endfilter %}"},
		{"{% for q in nums %}{% ifchanged %}", "{% endifchanged %}{% endfor %}"}}
	fails := []string{`1 / z`, `s1|slice:"1"`, `nosuchfn()`}
	for i, wr := range wraps {
		for k, f := range fails {
			src := "head " + wr[0] + "<b> total </b> {% if sel == 1 %}{{ " + f + " }}{% endif %} <i> tail </i>" + wr[1] + " end"
			g := newProgGen(rg.fork(uint64(7500 + i*10 + k)))
			a := g.context(0)
			mk := func(sel int) gctx {
				var c gctx
				for _, e := range a {
					if e.key != "sel" && e.key != "z" {
						c = append(c, e)
					}
				}
				return append(c, ctxEntry{"sel", gInt(sel)}, ctxEntry{"z", gInt(0)})
			}
			one, none := mk(1), mk(0)
			hist := []gctx{none, one, none, one, one, none}
			if k == 1 {
				hist = []gctx{one, none, none, one, none}
			}
			parts := make([]string, len(hist))
			for j, h := range hist {
				parts[j] = h.descr()
			}
			for pad := 0; pad < 5; pad += 2 { // the length of the source selects the entry points
				args := (&world{}).args(src+strings.Repeat(" ", pad), nil)
				args[1] = strings.Join(parts, "~")
				emit(caseT{"history", args})
			}
		}
	}
}

func genC04Excluded(rg *rng, emit func(caseT)) {
	for i, pair := range [][2]string{
		{"{% lorem 5 w random %}", "{% lorem 8 w %}|{% lorem 2 p %}|{% lorem 2 b %}|{% lorem %}"},
		{"{% lorem 3 p random %}{% lorem 2 b random %}", "{% lorem 3 p %}|{% lorem 4 b %}|{% lorem 30 w %}"},
		{"{{ lst|random }}{{ nums|random }}{{ s1|random }}", "{{ lst|join:\",\" }}|{{ nums|join:\",\" }}|{{ s1 }}|{{ lst|first }}{{ nums|last }}"},
		{"{% now \"2006-01-02 15:04:05.000000\" %}", "{% now \"\" %}|x"},
		{"{% for q in mm %}{{ q }}{% endfor %}", "{% for k, v in mm sorted %}{{ k }}{{ v }}{% endfor %}|{{ mm.a }}"},
	} {
		src := "{% if sel == 1 %}" + pair[0] + "{% else %}" + pair[1] + "{% endif %}"
		g := newProgGen(rg.fork(uint64(8000 + i)))
		a := g.context(0)
		mk := func(sel int) gctx {
			var c gctx
			for _, e := range a {
				if e.key != "sel" {
					c = append(c, e)
				}
			}
			return append(c, ctxEntry{"sel", gInt(sel)})
		}
		hist := []gctx{mk(0), mk(1), mk(0), mk(1), mk(1), mk(0)}
		parts := make([]string, len(hist))
		for j, h := range hist {
			parts[j] = h.descr()
		}
		args := (&world{}).args(src, nil)
		args[1] = strings.Join(parts, "~")
		// extra: the value of sel whose output is excluded from comparison
		args = append(args, "-", "-", "-", "excluded:i1")
		emit(caseT{"history", args})
	}
}

// the four entry points, in turn: what one of them leaves behind must not reach the next
func execVariant(tpl *pongo2.Template, ctx pongo2.Context, k int) (out string, err error, panicked any) {
	defer func() {
		if r := recover(); r != nil {
			panicked = r
		}
	}()
	switch k % 4 {
	case 0:
		out, err = tpl.Execute(ctx)
	case 1:
		var b bytes.Buffer
		err = tpl.ExecuteWriter(ctx, &b)
		out = b.String()
	case 2:
		var bs []byte
		bs, err = tpl.ExecuteBytes(ctx)
		out = string(bs)
	case 3:
		var b bytes.Buffer
		err = tpl.ExecuteWriterUnbuffered(ctx, &b)
		out = b.String()
	}
	return
}

func tokensEqual(a, b []pongo2.Token) bool { return reflect.DeepEqual(a, b) }

func execC04(r *run, c caseT) {
	if c.op == "optswitch" {
		execOptSwitch(r, c)
		return
	}
	wa := append([]string{}, c.args...)
	wa[1] = "-"
	w, src, _ := worldFromArgs(wa)
	var hist []gctx
	for _, d := range strings.Split(c.args[1], "~") {
		hist = append(hist, parseGctx(d))
	}
	b := w.build()
	tpl, err, p := compileIn(b, src, false)
	if p != nil {
		id := r.emit(c.op, c.args, "panic")
		r.reject(id, "panic while compiling", map[string]any{"template": src, "panic": fmt.Sprint(p)})
		return
	}
	if err != nil {
		r.emit(c.op, c.args, "cerr")
		r.stats["compile_error"]++
		return
	}
	var obs []string
	var toksAfter [][]pongo2.Token
	type res struct {
		out string
		err bool
	}
	var results []res
	var errTexts []string
	// which entry point runs each step: one of the four throughout, or all four in turn
	mode := len(src) % 5
	for k, h := range hist {
		v := mode
		if mode == 4 {
			v = k
		}
		out, xerr, p := execVariant(tpl, h.goContext(), v)
		et := ""
		if xerr != nil {
			et = xerr.Error()
		}
		errTexts = append(errTexts, et)
		// a failure is reported where it happened, whatever failed before (in this or any other
		// template of the process)
		if perr, ok := xerr.(*pongo2.Error); ok && len(c.args) > 9 && c.args[9] != "-" && perr.Line > 0 {
			construct := unhx(c.args[9])
			first, last := strings.Index(src, construct), strings.LastIndex(src, construct)
			want := first
			for _, e := range h {
				if e.key == "sel" && e.val.descr() == "i2" {
					want = last
				}
			}
			off, okPos := offsetOf(src, perr.Line, perr.Column)
			if !okPos || off < want || off >= want+len(construct) {
				id := r.emit(c.op, c.args, "xerr-position")
				r.reject(id, "an execution error is reported at a position outside the construct that failed", map[string]any{"template": src,
					"error": perr.Error(), "construct_at_byte": want, "reported_byte": off, "step": k + 1})
				return
			}
		}
		excluded := false
		if len(c.args) > 10 && strings.HasPrefix(c.args[10], "excluded:") {
			for _, e := range h {
				if e.key == "sel" && e.val.descr() == strings.TrimPrefix(c.args[10], "excluded:") {
					excluded = true
				}
			}
		}
		if excluded && p == nil && xerr == nil {
			obs = append(obs, "excluded")
		} else if p != nil {
			obs = append(obs, "panic")
		} else if xerr != nil {
			obs = append(obs, "xerr")
		} else {
			obs = append(obs, obsOK(out))
		}
		results = append(results, res{out, xerr != nil || p != nil})
		toksAfter = append(toksAfter, pongo2.VerifTokens(tpl))
	}
	id := r.emit(c.op, c.args, strings.Join(obs, ";"))
	if len(results) > 3 && !results[0].err {
		r.nontrivial(c.args[0])
	}
	if id%311 == 0 {
		r.sample(map[string]any{"template": src, "options": w.opts(), "observed": obs})
	}
	detail := map[string]any{"template": src, "options": w.opts(), "observed": obs}
	// (a) the compiled template is unchanged by executing it
	for k := 1; k < len(toksAfter); k++ {
		if !tokensEqual(toksAfter[0], toksAfter[k]) {
			r.reject(id, fmt.Sprintf("the token list of the compiled template changed between execution 1 and %d", k+1), detail)
			return
		}
	}
	// (b) equal contexts give equal results
	for i := range hist {
		for j := i + 1; j < len(hist); j++ {
			if hist[i].descr() == hist[j].descr() && obs[i] != obs[j] {
				r.reject(id, fmt.Sprintf("executions %d and %d had equal contexts but different results", i+1, j+1), detail)
				return
			}
		}
	}
	// (c) every execution gives what a fresh compile gives
	for i, h := range hist {
		if obs[i] == "excluded" {
			continue
		}
		fo, _ := w.render(src, false, h)
		if fo.obs == "xerr" && obs[i] == "xerr" && fo.err != nil && fo.err.Error() != errTexts[i] {
			d2 := map[string]any{"template": src, "options": w.opts(), "observed_error": errTexts[i], "fresh_error": fo.err.Error()}
			r.reject(id, fmt.Sprintf("execution %d fails with another error (message or position) than the first execution of a freshly compiled template", i+1), d2)
			return
		}
		if fo.obs != obs[i] {
			d2 := map[string]any{"template": src, "options": w.opts(), "observed": obs, "fresh": fo.obs}
			r.reject(id, fmt.Sprintf("execution %d differs from the first execution of a freshly compiled template", i+1), d2)
			return
		}
	}
}

// a tag registered through the public API that keeps per-rendering state wherever the execution
// context offers a place for it, and prints what it found there: the compiled template must not
// be that place
func init() {
	_ = pongo2.RegisterTag("verifstatetag", func(doc *pongo2.Parser, start *pongo2.Token, args *pongo2.Parser) (pongo2.INodeTag, *pongo2.Error) {
		return &stateNode{}, nil
	})
}

type stateNode struct{ runs int64 }

func (n *stateNode) Execute(ctx *pongo2.ExecutionContext, w pongo2.TemplateWriter) *pongo2.Error {
	shared := "-"
	if ctx.Shared != nil {
		c, _ := ctx.Shared["verifstate"].(int)
		ctx.Shared["verifstate"] = c + 1
		shared = fmt.Sprint(c)
	}
	p, _ := ctx.Private["verifstate"].(int)
	ctx.Private["verifstate"] = p + 1
	_, hasPub := ctx.Public["verifstate"]
	_, _ = w.WriteString(fmt.Sprintf("[%s,%d,%v]", shared, p, hasPub))
	return nil
}

func genC04Tags(rg *rng, emit func(caseT)) {
	for i, src := range []string{"{% verifstatetag %}", "{% verifstatetag %}{% verifstatetag %}", "{% for q in nums %}{% verifstatetag %}{% endfor %}{% verifstatetag %}",
		"{% if b1 %}{% verifstatetag %}{% endif %}{% with z=1 %}{% verifstatetag %}{% endwith %}", "{% macro m() %}{% verifstatetag %}{% endmacro %}{{ m() }}{{ m() }}{% verifstatetag %}",
		"{% block b %}{% verifstatetag %}{% endblock %}{% verifstatetag %}", "{% filter upper %}{% verifstatetag %}{% endfilter %}", "{% spaceless %} {% verifstatetag %} {% endspaceless %}"} {
		g := newProgGen(rg.fork(uint64(9100 + i)))
		a, b := g.context(0), g.context(1)
		hist := []gctx{a, a, b, a, b, b}
		parts := make([]string, len(hist))
		for j, h := range hist {
			parts[j] = h.descr()
		}
		for pad := 0; pad < 5; pad++ { // the length of the source selects the entry points
			args := (&world{}).args(src+strings.Repeat(" ", pad), nil)
			args[1] = strings.Join(parts, "~")
			emit(caseT{"gohistory", args})
		}
	}
}

// the block options of the template changed between executions: each execution gives what a
// template compiled afresh gives under the options in force at that moment, once they have been
// switched on (the rewrite of the text is not undone by switching an option off again)
func genC04Options(rg *rng, emit func(caseT)) {
	for i, src := range []string{"a\n{% if b1 %}\n  x\n  {% endif %}\nz", "{% for q in nums %}\n {{ q }}\n\t{% endfor %}\n", "  {% with q=1 %}\n{{ q }}{% endwith %}\n\n", "t{# c #}\n  {% if b1 %}\n{% endif %}"} {
		for order := 0; order < 6; order++ {
			emit(caseT{"optswitch", []string{hx(src), fmt.Sprint(order), fmt.Sprint(i)}})
		}
	}
}

func execOptSwitch(r *run, c caseT) {
	src := unhx(c.args[0])
	var order int
	fmt.Sscanf(c.args[1], "%d", &order)
	g := newProgGen(newRng(99))
	ctx := g.context(0).goContext()
	// settings in the order they are switched on (options only ever get switched on here)
	seqs := [][][2]bool{{{false, false}, {true, false}, {true, true}}, {{false, false}, {false, true}, {true, true}}, {{false, false}, {true, true}}, {{true, false}, {true, true}}, {{false, true}, {true, true}}, {{false, false}, {false, false}, {true, false}}}
	seq := seqs[order%len(seqs)]
	tpl, err := pongo2.FromString(src)
	must(err)
	var obs []string
	id := -1
	for step, o := range seq {
		tpl.Options.TrimBlocks, tpl.Options.LStripBlocks = o[0], o[1]
		got, _, _ := execVariant(tpl, ctx, step+order)
		fresh, ferr := pongo2.FromString(src)
		must(ferr)
		fresh.Options.TrimBlocks, fresh.Options.LStripBlocks = o[0], o[1]
		want, _ := fresh.Execute(ctx)
		obs = append(obs, got)
		if got != want && id < 0 {
			id = r.emit(c.op, c.args, "optswitch")
			r.reject(id, "after an earlier execution, switching a block option on does not give what a freshly compiled template gives under that option", map[string]any{"template": src, "step": step + 1,
				"trim_blocks": o[0], "lstrip_blocks": o[1], "observed": got, "fresh": want})
		}
	}
	if id < 0 {
		r.emit(c.op, c.args, "optswitch")
	}
	r.nontrivial("optswitch" + c.args[1] + c.args[2])
}
