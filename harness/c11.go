package main

import (
	"errors"
	"fmt"
	"io"
	"net/http"
	"os"
	"path/filepath"
	"strings"
	"sync"
	"time"

	"github.com/flosch/pongo2/v6"
)

func init() { props["C11"] = runC11 }

// C11: virtual file trees (nested directories, relative / rooted / ".." names, 1-3 loaders)
// and acyclic reference graphs over them via include (static/lazy, with/only/if_exists),
// extends, import, ssi (plain/parsed), observed through recording loaders. A canary file on
// the real file system that no loader serves must never show up.

const c11Canary = "CANARY-7f3a-must-never-appear"

type c11File struct {
	path string
	body string
}

func runC11(r *run) {
	rg := newRng(r.seed)
	canaryPath := filepath.Join(r.outdir, "canary.txt")
	if !childMode && replayFile == "" {
		must(os.WriteFile(canaryPath, []byte(c11Canary), 0o644))
		// the same canary under the name as the in-memory loaders spell it (they drop a leading
		// slash and resolve against the referrer): reachable from the working directory only
		must(os.WriteFile(filepath.Join(r.outdir, "canary_rel.txt"), []byte(c11Canary), 0o644))
		must(os.MkdirAll(filepath.Join(r.outdir, strings.TrimPrefix(filepath.Dir(canaryPath), "/")), 0o755))
		must(os.WriteFile(filepath.Join(r.outdir, strings.TrimPrefix(canaryPath, "/")), []byte(c11Canary), 0o644))
	}
	if !childMode {
		must(os.Chdir(r.outdir))
	}
	gen := func(emit func(caseT)) {
		n := 2500
		if r.tier == "thorough" {
			n = 60000
		}
		dirs := []string{"", "a/", "a/b/", "c/"}
		for i := 0; i < n; i++ {
			g := rg.fork(uint64(i))
			nl := 1 + g.intn(3)
			nf := 3 + g.intn(5)
			// files are numbered; file k may only reference files with a larger number (acyclic)
			paths := make([]string, nf)
			for k := range paths {
				paths[k] = fmt.Sprintf("%sf%d.tpl", dirs[g.intn(len(dirs))], k)
			}
			loaders := make([]map[string]string, nl)
			for l := range loaders {
				loaders[l] = map[string]string{}
			}
			// how file k refers to file j: relative to its own directory, with "..", or rooted
			ref := func(from, to string) string {
				fd := filepath.Dir(from)
				switch g.intn(3) {
				case 0:
					rel, err := filepath.Rel(fd, to)
					if err == nil {
						return rel
					}
				case 1:
					rel, err := filepath.Rel(fd, to)
					if err == nil && fd != "." {
						return "../" + filepath.Base(fd) + "/" + rel
					}
				}
				// a name with a superfluous "./"
				rel, _ := filepath.Rel(fd, to)
				return "./" + rel
			}
			for k := nf - 1; k >= 0; k-- {
				var sb strings.Builder
				sb.WriteString(fmt.Sprintf("[%d:", k))
				isChild := false
				if k < nf-1 && g.chance(1, 5) {
					j := k + 1 + g.intn(nf-k-1)
					sb.Reset()
					sb.WriteString("{% extends \"" + ref(paths[k], paths[j]) + "\" %}{% block b %}(" + fmt.Sprint(k) + "){% endblock %}")
					isChild = true
				}
				nrefs := g.intn(3)
				for q := 0; q < nrefs && k < nf-1 && !isChild; q++ {
					j := k + 1 + g.intn(nf-k-1)
					name := ref(paths[k], paths[j])
					switch g.intn(11) {
					case 8: // the includer's current bindings shadow the caller's key x
						sb.WriteString("{% with x=\"WX\" %}{% include \"" + name + "\" %}{% endwith %}")
					case 9:
						sb.WriteString("{% for x in \"pq\" %}{% include \"" + name + "\" %}{% endfor %}")
					case 10:
						sb.WriteString("{% with x=\"LX\" %}{% set nm = \"" + name + "\" %}{% include nm with v=x %}{% endwith %}")
					case 0:
						sb.WriteString("{% include \"" + name + "\" %}")
					case 1:
						sb.WriteString("{% include \"" + name + "\" with v=\"W\" %}")
					case 2:
						sb.WriteString("{% include \"" + name + "\" with v=\"W\" only %}")
					case 3:
						sb.WriteString("{% set nm = \"" + name + "\" %}{% include nm %}")
					case 4:
						sb.WriteString("{% include \"missing" + fmt.Sprint(q) + ".tpl\" if_exists %}{% include \"" + name + "\" if_exists %}")
					case 5:
						sb.WriteString("{% ssi \"" + name + "\" %}")
					case 6:
						sb.WriteString("{% ssi \"" + name + "\" parsed %}")
					case 7:
						sb.WriteString("{% set nm = \"nothere.tpl\" %}{% include nm if_exists %}{% include \"" + name + "\" %}")
					}
				}
				if !isChild {
					sb.WriteString("{% block b %}b" + fmt.Sprint(k) + "{% endblock %}{{ v }}{{ x }}]")
				}
				body := sb.String()
				// the file lives in one or several loaders (each copy marked with its loader)
				placed := false
				for l := 0; l < nl; l++ {
					if g.chance(1, 2) || (l == nl-1 && !placed) {
						loaders[l][paths[k]] = strings.Replace(body, "]", fmt.Sprintf("@L%d]", l), 1)
						placed = true
					}
				}
			}
			w := &world{files: loaders}
			emit(caseT{"loadlog", w.args(paths[0], gctx{{"x", gStr("X")}})})
		}
		// names no loader serves: the canary on the real file system
		for _, src := range []string{
			"{% ssi \"" + canaryPath + "\" %}", "{% include \"" + canaryPath + "\" %}", "{% ssi \"" + canaryPath + "\" parsed %}",
			"{% set p = \"" + canaryPath + "\" %}{% include p %}", "{% extends \"" + canaryPath + "\" %}", "{% import \"" + canaryPath + "\" m %}",
			"{% include \"" + canaryPath + "\" if_exists %}ok",
			"{% ssi \"canary_rel.txt\" %}", "{% include \"canary_rel.txt\" %}", "{% ssi \"canary_rel.txt\" parsed %}", "{% set p = \"canary_rel.txt\" %}{% include p %}",
			"{% extends \"canary_rel.txt\" %}", "{% import \"canary_rel.txt\" m %}", "{% include \"./canary_rel.txt\" if_exists %}ok",
		} {
			w := &world{files: []map[string]string{{"main.tpl": src}}}
			emit(caseT{"canary", w.args("main.tpl", nil)})
		}
		// loaders that spell names differently (a theme directory in front of a defaults
		// directory): every route must ask each loader for the name as that loader resolves it
		for _, has := range []string{"0", "1", "01"} {
			for route := 0; route < 8; route++ {
				emit(caseT{"absdiff", []string{has, fmt.Sprint(route)}})
			}
		}
		// a relative name that is missing next to the referrer is missing - a file of the same name
		// elsewhere (at the root, in the parent directory) is not what was named
		for ti, tag := range []string{"{% extends \"x.tpl\" %}", "{% include \"x.tpl\" %}", "{% import \"x.tpl\" m %}", "{% ssi \"x.tpl\" %}", "{% ssi \"x.tpl\" parsed %}", "{% set n = \"x.tpl\" %}{% include n %}",
			"{% include \"x.tpl\" if_exists %}ok", "{% set n = \"x.tpl\" %}{% include n if_exists %}ok"} {
			for di, dir := range []string{"sub/", "sub/deep/", "a/b/c/"} {
				files := map[string]string{dir + "main.tpl": tag, "x.tpl": "ROOT{% macro m() export %}r{% endmacro %}", "sub/other/x.tpl": "ELSEWHERE"}
				if di == 1 {
					files["sub/x.tpl"] = "PARENTDIR"
				}
				w := &world{files: []map[string]string{files}}
				emit(caseT{"missingrel", append(w.args(dir+"main.tpl", nil), "-", "-", fmt.Sprint(ti))})
			}
		}
		// the same flat composition through every loader pongo2 ships, on a real directory
		for i := 0; i < 40; i++ {
			emit(caseT{"realloaders", []string{fmt.Sprint(i)}})
		}
		// what an included file sees: every name bound around the include tag, at whatever depth of
		// enclosing scopes the tag sits (set, with, for, macro), plus the with-pairs
		for _, page := range []string{"{% set greeting = \"Hello\" %}{% for name in names %}{% include \"row.tpl\" %}{% endfor %}",
			"{% set greeting = \"Hi\" %}{% with mark=\"!\" %}{% for name in names %}{% include \"row.tpl\" %}{% set n = \"row.tpl\" %}{% include n %}{% endfor %}{% endwith %}",
			"{% set greeting = \"Yo\" %}{% macro m(name) %}{% with mark=\"?\" %}{% include \"row.tpl\" %}{% ssi \"row.tpl\" parsed %}{% endwith %}{% endmacro %}{{ m(\"z\") }}",
			"{% for name in names %}{% with greeting=name %}{% if name %}{% include \"row.tpl\" with mark=\"+\" %}{% include \"row.tpl\" with mark=\"-\" only %}{% endif %}{% endwith %}{% endfor %}"} {
			w := &world{files: []map[string]string{{"row.tpl": "[{{ greeting }} {{ name }}{{ mark }}]", "main.tpl": page}}}
			emit(caseT{"loadlog", w.args("main.tpl", gctx{{"names", gList(gStr("ann"), gStr("bob"))}})})
		}
		// an optional file that EXISTS but cannot be compiled or executed - it refers to a missing
		// file in turn, in each way a file can refer to another - is an error, not "nothing"
		for _, inner := range []string{"B{% include \"gone.tpl\" %}", "{% extends \"gone.tpl\" %}", "{% import \"gone.tpl\" m %}B", "B{% ssi \"gone.tpl\" parsed %}", "B{% ssi \"gone.tpl\" %}", "B{% set n = \"gone.tpl\" %}{% include n %}",
			"B{% include \"mid.tpl\" %}", "B{% include \"gone.tpl\" if_exists %}!", "B{% if %}"} {
			for _, outer := range []string{"[{% include \"b.tpl\" if_exists %}]", "{% set n = \"b.tpl\" %}[{% include n if_exists %}]", "[{% include \"b.tpl\" if_exists with q=1 only %}]", "[{% include \"wrap.tpl\" if_exists %}]"} {
				w := &world{files: []map[string]string{{"b.tpl": inner, "mid.tpl": "M{% include \"gone.tpl\" %}", "wrap.tpl": "W{% include \"b.tpl\" if_exists %}", "main.tpl": outer}}}
				want := "error"
				if strings.Contains(inner, "gone.tpl\" if_exists") {
					want = "ok"
				}
				emit(caseT{"optbroken", append(w.args("main.tpl", nil), "-", "-", want)})
				ws := &world{files: []map[string]string{{"b.tpl": inner, "mid.tpl": "M{% include \"gone.tpl\" %}", "wrap.tpl": "W{% include \"b.tpl\" if_exists %}"}}}
				emit(caseT{"optbroken", append(ws.args(outer, nil), "-", "-", want+":string")})
			}
		}
		// several compilations (and lazy includes) of templates of ONE set at the same time that
		// reference the same files: each gives what it gives alone
		for i := 0; i < 12; i++ {
			emit(caseT{"conccompile", []string{fmt.Sprint(i)}})
		}
		// pongo2's own loaders' path arithmetic against the model's
		for _, base := range []string{"", "a.tpl", "d/a.tpl", "d/e/a.tpl", "/r/a.tpl", "./d/a.tpl", "d/../a.tpl"} {
			for _, name := range []string{"x.tpl", "s/x.tpl", "../x.tpl", "../../x.tpl", "/x.tpl", "./x.tpl", "s/../x.tpl", "", ".", ".."} {
				emit(caseT{"abs", []string{hx(base), hx(name)}})
			}
		}
	}
	driveCases(r, gen, execC11)
	r.finish(nil)
}

// dirLoader resolves every name below its own directory, like LocalFilesystemLoader with a
// base directory does
type dirLoader struct {
	dir   string
	files map[string]string
}

func (l *dirLoader) Abs(base, name string) string {
	if filepath.IsAbs(name) {
		return name
	}
	return filepath.Join(l.dir, name)
}
func (l *dirLoader) Get(path string) (io.Reader, error) {
	c, ok := l.files[path]
	if !ok {
		return nil, errors.New("not found: " + path)
	}
	return strings.NewReader(c), nil
}

func execAbsDiff(r *run, c caseT) {
	has := c.args[0]
	var route int
	fmt.Sscanf(c.args[1], "%d", &route)
	l0 := &dirLoader{dir: "/theme", files: map[string]string{}}
	l1 := &dirLoader{dir: "/defaults", files: map[string]string{}}
	want := ""
	if strings.Contains(has, "1") {
		l1.files["/defaults/part.tpl"] = "P1{% block b %}{% endblock %}{% macro m() export %}M1{% endmacro %}"
		want = "1"
	}
	if strings.Contains(has, "0") {
		l0.files["/theme/part.tpl"] = "P0{% block b %}{% endblock %}{% macro m() export %}M0{% endmacro %}"
		want = "0"
	}
	set := pongo2.NewSet("absdiff", l0, l1)
	var out string
	var err error
	p := func() (p any) {
		defer func() { p = recover() }()
		var tpl *pongo2.Template
		switch route {
		case 0:
			tpl, err = set.FromFile("part.tpl")
		case 1:
			tpl, err = set.FromCache("part.tpl")
		case 2:
			tpl, err = set.FromString("{% include \"part.tpl\" %}")
		case 3:
			tpl, err = set.FromString("{% set n = \"part.tpl\" %}{% include n %}")
		case 4:
			tpl, err = set.FromString("{% ssi \"part.tpl\" %}")
		case 5:
			tpl, err = set.FromString("{% extends \"part.tpl\" %}")
		case 6:
			tpl, err = set.FromString("{% import \"part.tpl\" m %}P{{ m() }}")
		case 7:
			// a rooted name (these loaders resolve every name from their root) written as a
			// literal and computed at run time, inside a block of a child in a sub-directory
			for _, l := range []*dirLoader{l0, l1} {
				l.files[l.dir+"/layout.tpl"] = "<{% block c %}{% endblock %}>"
				l.files[l.dir+"/sub/child.tpl"] = "{% extends \"layout.tpl\" %}{% block c %}{% include \"part.tpl\" %}|{% include n %}{% endblock %}"
			}
			tpl, err = set.FromFile("sub/child.tpl")
		}
		if err == nil {
			out, err = tpl.Execute(pongo2.Context{"n": "part.tpl"})
			if err == nil && route == 7 {
				halves := strings.Split(strings.Trim(out, "<>"), "|")
				if len(halves) != 2 || halves[0] != halves[1] {
					err = errors.New("a rooted name rendered differently as a literal and computed: " + out)
				}
			}
		}
		return nil
	}()
	obs := "err"
	if p != nil {
		obs = "panic"
	} else if err == nil {
		obs = obsOK(out)
	}
	id := r.emit(c.op, c.args, "absdiff:"+obs)
	r.nontrivial("absdiff" + c.args[0] + c.args[1])
	detail := map[string]any{"loader0_has": strings.Contains(has, "0"), "loader1_has": strings.Contains(has, "1"), "route": route, "observed": obs}
	if err == nil {
		detail["output"] = out
	} else {
		detail["error"] = err.Error()
	}
	switch {
	case p != nil:
		r.reject(id, "panic", detail)
	case err != nil:
		r.reject(id, "a name one of the set's loaders has could not be loaded", detail)
	case !strings.Contains(out, "P"+want) && !strings.Contains(out, "M"+want):
		r.reject(id, "the name was not served by the first loader that has it", detail)
	}
}

func execRealLoaders(r *run, c caseT) {
	var i int
	fmt.Sscanf(c.args[0], "%d", &i)
	g := newRng(uint64(4242 + i))
	files := map[string]string{
		"base.tpl": "<{% block b %}base{% endblock %}|{% block c %}c0{% endblock %}>",
		"lib.tpl":  "{% macro m(x) export %}[{{ x }}]{% endmacro %}",
		"part.tpl": "P{{ v }}{{ x }}",
		"raw.tpl":  "{{ not parsed }}",
	}
	body := ""
	for k := 0; k < 1+g.intn(4); k++ {
		body += g.pick([]string{"{% include \"part.tpl\" %}", "{% include \"part.tpl\" with v=1 %}", "{% include \"part.tpl\" with v=2 only %}", "{% set n = \"part.tpl\" %}{% include n %}",
			"{% ssi \"raw.tpl\" %}", "{% ssi \"part.tpl\" parsed %}", "{% import \"lib.tpl\" m %}{{ m(x) }}", "{% include \"missing.tpl\" if_exists %}", "t"})
	}
	if g.chance(1, 2) {
		files["main.tpl"] = "{% extends \"base.tpl\" %}{% block b %}" + body + "{{ block.Super }}{% endblock %}"
	} else {
		files["main.tpl"] = body
	}
	dir := filepath.Join(r.outdir, fmt.Sprintf("tree%d", i))
	must(os.MkdirAll(dir, 0o755))
	for n, src := range files {
		must(os.WriteFile(filepath.Join(dir, n), []byte(src), 0o644))
	}
	render := func(l pongo2.TemplateLoader) string {
		set := pongo2.NewSet("real", l)
		out, err := set.RenderTemplateFile("main.tpl", pongo2.Context{"x": "X"})
		if err != nil {
			return "err:" + err.Error()
		}
		return out
	}
	want := render(newMemLoader(files))
	sand, err := pongo2.NewSandboxedFilesystemLoader(dir)
	must(err)
	httpl, err := pongo2.NewHttpFileSystemLoader(http.Dir(dir), "")
	must(err)
	got := map[string]string{
		"LocalFilesystemLoader":     render(pongo2.MustNewLocalFileSystemLoader(dir)),
		"SandboxedFilesystemLoader": render(sand),
		"FSLoader":                  render(pongo2.NewFSLoader(os.DirFS(dir))),
		"HttpFilesystemLoader":      render(httpl),
	}
	id := r.emit(c.op, c.args, "realloaders:"+hx(want))
	r.nontrivial("realloaders" + c.args[0])
	if strings.HasPrefix(want, "err:") {
		r.reject(id, "the composition does not render with the in-memory loader", map[string]any{"files": files, "observed": want})
		return
	}
	for ln, o := range got {
		if o != want {
			r.reject(id, "a composition renders differently through one of pongo2's own loaders", map[string]any{"files": files, "loader": ln, "observed": o, "expected": want})
			return
		}
	}
}

func execMissingRel(r *run, c caseT) {
	w, name, ctx := worldFromArgs(c.args)
	o, b := w.render(name, true, ctx)
	obs := o.obs + "#" + strings.Join(b.seq, ",")
	id := r.emit("loadlog", c.args, obs)
	r.nontrivial(c.args[0] + c.args[2])
	ifExists := strings.Contains(w.files[0][name], "if_exists")
	detail := map[string]any{"files": w.files, "entry": name, "observed": o.obs, "log": b.seq}
	if strings.Contains(o.out, "ROOT") || strings.Contains(o.out, "PARENTDIR") || strings.Contains(o.out, "ELSEWHERE") {
		r.reject(id, "a missing relative name was served by a file of the same name in another directory", detail)
		return
	}
	if ifExists && o.obs != obsOK("ok") {
		r.reject(id, "if_exists on a missing name did not render nothing", detail)
		return
	}
	if !ifExists && o.obs != "cerr" && o.obs != "xerr" {
		r.reject(id, "a missing name did not produce an error", detail)
		return
	}
	want := filepath.Join(filepath.Dir(name), "x.tpl")
	for _, e := range b.seq {
		parts := strings.Split(e, ":")
		if f := unhx(parts[1]); f != name && f != want {
			r.reject(id, "a name was fetched that no involved template references", map[string]any{"files": w.files, "fetched": f, "log": b.seq})
			return
		}
	}
}

// slowLoader takes its time for the shared files, so that compilations overlap inside them
type slowLoader struct {
	files map[string]string
}

func (l *slowLoader) Abs(base, name string) string { return filepath.Join(filepath.Dir(base), name) }
func (l *slowLoader) Get(path string) (io.Reader, error) {
	c, ok := l.files[path]
	if !ok {
		return nil, errors.New("not found: " + path)
	}
	if strings.HasPrefix(path, "shared") {
		time.Sleep(3 * time.Millisecond)
	}
	return strings.NewReader(c), nil
}

func execConcCompile(r *run, c caseT) {
	var i int
	fmt.Sscanf(c.args[0], "%d", &i)
	files := map[string]string{
		"shared_part.tpl": "P{{ v }}{% include \"shared_leaf.tpl\" %}", "shared_leaf.tpl": "L", "shared_base.tpl": "<{% block b %}b{% endblock %}{% include \"shared_leaf.tpl\" %}>",
		"shared_lib.tpl": "{% macro m(x) export %}[{{ x }}]{% endmacro %}",
	}
	pages := []string{"{% include \"shared_part.tpl\" %}", "{% include \"shared_part.tpl\" with v=1 %}", "{% extends \"shared_base.tpl\" %}{% block b %}c{% endblock %}", "{% import \"shared_lib.tpl\" m %}{{ m(1) }}",
		"{% ssi \"shared_part.tpl\" parsed %}", "{% set n = \"shared_part.tpl\" %}{% include n %}", "{% extends \"shared_base.tpl\" %}{% block b %}{% include \"shared_part.tpl\" %}{% endblock %}",
		"{% include \"shared_leaf.tpl\" %}{% include \"shared_part.tpl\" %}"}
	const k = 8
	for pi := 0; pi < k; pi++ {
		files[fmt.Sprintf("page%d.tpl", pi)] = pages[(pi+i)%len(pages)]
	}
	render := func(set *pongo2.TemplateSet, pi int) string {
		var tpl *pongo2.Template
		var err error
		name := fmt.Sprintf("page%d.tpl", pi)
		switch i % 3 {
		case 0:
			tpl, err = set.FromFile(name)
		case 1:
			tpl, err = set.FromCache(name)
		default:
			tpl, err = set.FromString(files[name])
		}
		if err != nil {
			return "cerr:" + err.Error()
		}
		out, xerr := tpl.Execute(pongo2.Context{"v": "V"})
		if xerr != nil {
			return "xerr:" + xerr.Error()
		}
		return "ok:" + out
	}
	want := make([]string, k)
	for pi := range want {
		want[pi] = render(pongo2.NewSet("alone", &slowLoader{files}), pi)
	}
	set := pongo2.NewSet("together", &slowLoader{files})
	set.Debug = i%2 == 1
	got := make([]string, k)
	var wg sync.WaitGroup
	start := make(chan struct{})
	for pi := 0; pi < k; pi++ {
		wg.Add(1)
		go func(pi int) {
			defer wg.Done()
			defer func() {
				if p := recover(); p != nil {
					got[pi] = "panic:" + fmt.Sprint(p)
				}
			}()
			<-start
			got[pi] = render(set, pi)
		}(pi)
	}
	close(start)
	wg.Wait()
	id := r.emit(c.op, c.args, "conccompile")
	r.nontrivial("conccompile" + c.args[0])
	for pi := range want {
		if got[pi] != want[pi] {
			r.reject(id, "a template compiled while others of the same set were being compiled gave something else than alone", map[string]any{"page": files[fmt.Sprintf("page%d.tpl", pi)], "alone": want[pi], "together": got[pi]})
			return
		}
	}
}

func execC11(r *run, c caseT) {
	if c.op == "conccompile" {
		execConcCompile(r, c)
		return
	}
	if c.op == "missingrel" {
		execMissingRel(r, c)
		return
	}
	if c.op == "optbroken" {
		w, name, ctx := worldFromArgs(c.args)
		isFile := !strings.HasSuffix(c.args[9], ":string")
		o, b := w.render(name, isFile, ctx)
		obs := o.obs + "#" + strings.Join(b.seq, ",")
		op := "loadlog"
		if !isFile {
			op = "render"
			obs = o.obs
		}
		id := r.emit(op, c.args, obs)
		r.nontrivial(c.args[0] + c.args[2])
		wantErr := strings.HasPrefix(c.args[9], "error")
		if wantErr && o.err == nil {
			r.reject(id, "an optional file that exists but refers to a missing one was rendered as if it were not there", map[string]any{"files": w.files, "entry": name, "observed": o.obs})
		}
		if !wantErr && o.err != nil {
			r.reject(id, "a file with an optional reference to a missing file does not render", map[string]any{"files": w.files, "entry": name, "observed": o.obs})
		}
		return
	}
	if c.op == "realloaders" {
		execRealLoaders(r, c)
		return
	}
	if c.op == "absdiff" {
		execAbsDiff(r, c)
		return
	}
	if c.op == "abs" {
		base, name := unhx(c.args[0]), unhx(c.args[1])
		got := pongo2.NewFSLoader(nil).Abs(base, name)
		id := r.emit(c.op, c.args, obsOK(got))
		r.nontrivial(c.args[0] + "|" + c.args[1])
		if want := filepath.Join(filepath.Dir(base), name); got != want {
			r.reject(id, "FSLoader.Abs does not resolve relative to the referring template", map[string]any{"base": base, "name": name, "got": got})
		}
		return
	}
	w, name, ctx := worldFromArgs(c.args)
	o, b := w.render(name, true, ctx)
	obs := o.obs + "#" + strings.Join(b.seq, ",")
	id := r.emit(c.op, c.args, obs)
	if id%401 == 0 {
		r.sample(map[string]any{"entry": name, "files": w.files, "observed": obs})
	}
	if o.panicked != nil {
		r.reject(id, "panic", map[string]any{"files": w.files, "panic": fmt.Sprint(o.panicked)})
		return
	}
	if strings.Contains(o.out, c11Canary) || (o.err != nil && strings.Contains(o.err.Error(), c11Canary)) {
		r.reject(id, "a file no loader serves was read from the operating system's file system", map[string]any{"files": w.files})
		return
	}
	if c.op == "canary" {
		r.nontrivial(c.args[2])
		for _, e := range b.seq {
			_ = e
		}
		if o.obs != "cerr" && o.obs != "xerr" && !strings.Contains(w.files[0]["main.tpl"], "if_exists") {
			r.reject(id, "a name no loader serves did not produce an error", map[string]any{"files": w.files, "observed": o.obs})
		}
		if strings.Contains(w.files[0]["main.tpl"], "if_exists") && o.obs != obsOK("ok") {
			r.reject(id, "if_exists on a missing name did not render nothing", map[string]any{"files": w.files, "observed": o.obs})
		}
		return
	}
	r.nontrivial(c.args[2])
	// (a) nothing is fetched that the templates involved do not reference
	referenced := map[string]bool{name: true}
	for _, m := range w.files {
		for p, body := range m {
			for _, q := range strings.Split(body, "\"")[1:] {
				if strings.HasSuffix(q, ".tpl") {
					referenced[filepath.Join(filepath.Dir(p), q)] = true
				}
			}
		}
	}
	firstHit := map[string]int{}
	for _, e := range b.seq {
		parts := strings.Split(e, ":")
		fetched := unhx(parts[1])
		if !referenced[fetched] {
			r.reject(id, "a name was fetched that no involved template references", map[string]any{"files": w.files, "fetched": fetched, "log": b.seq})
			return
		}
		var li int
		fmt.Sscanf(parts[0], "%d", &li)
		if parts[2] == "1" {
			if _, ok := firstHit[fetched]; !ok {
				firstHit[fetched] = li
			}
			// (b) the first loader that has the name wins
			for l := 0; l < li; l++ {
				if _, has := w.files[l][fetched]; has {
					r.reject(id, "a later loader served a name an earlier loader has", map[string]any{"files": w.files, "name": fetched, "log": b.seq})
					return
				}
			}
		}
	}
	if o.err == nil {
		// every rendered part names the loader it came from: it must be the first one that has it
		for _, m := range w.files {
			_ = m
		}
	}
}
