package main

import (
	"errors"
	"fmt"
	"strings"

	"github.com/flosch/pongo2/v6"
)

func init() { props["C08"] = runC08 }

// C08: nested context values (maps with string and int keys, slices, arrays, structs,
// pointers, interfaces, funcs/methods of the accepted signature shapes) x access paths,
// valid and invalid, via dot and via subscript, against the reference resolver below.

// ---- the value universe, as descriptions that can be turned into real Go values and
// walked by the reference resolver ----
type rv struct {
	kind  string // nil str int bool float list arr maps mapi struct ptr
	s     string
	i     int
	f     float64
	b     bool
	items []*rv    // list / arr
	keys  []string // maps
	ikeys []int    // mapi
	st    *rstruct // struct / ptr (nil st = nil pointer)
}

type rstruct struct {
	Name   string
	Items  *rv // list
	Sub    *rv // ptr
	M      *rv // maps
	IM     map[int]string
	Any    *rv
	hidden int
}

// the Go type the harness builds for struct descriptions
type TStruct struct {
	Name   string
	Items  []any
	Sub    *TStruct
	M      map[string]any
	IM     map[int]string
	Any    any
	hidden int
}

func (t TStruct) Greet() string    { return "hi:" + t.Name }
func (t TStruct) Add(a, b int) int { return a + b }
func (t TStruct) Var(xs ...int) int {
	n := 0
	for _, x := range xs {
		n += x
	}
	return n
}
func (t TStruct) Cat(p string, xs ...string) string                     { return p + strings.Join(xs, "") }
func (t TStruct) WithCtx(ctx *pongo2.ExecutionContext, s string) string { return "ctx:" + s }
func (t TStruct) Ctx3(ctx *pongo2.ExecutionContext, a, b, c int) int    { return a*100 + b*10 + c }
func (t TStruct) Ctx5(ctx *pongo2.ExecutionContext, a, b, c, d, e int) int {
	return a*10000 + b*1000 + c*100 + d*10 + e
}
func (t TStruct) Sum3(a, b, c int) int                 { return a + b + c }
func (t TStruct) ValArg(v *pongo2.Value) *pongo2.Value { return pongo2.AsValue(v.String() + "!") }
func (t TStruct) Fail() (string, error)                { return "", errors.New("failed") }
func (t TStruct) Two() (string, error)                 { return "two", nil }
func (t *TStruct) PtrName() string {
	if t == nil {
		return "p:nil"
	}
	return "p:" + t.Name
}

func (v *rv) goValue() any {
	switch v.kind {
	case "nil":
		return nil
	case "str":
		return v.s
	case "int":
		return v.i
	case "bool":
		return v.b
	case "float":
		return v.f
	case "list":
		out := make([]any, len(v.items))
		for i, it := range v.items {
			out[i] = it.goValue()
		}
		return out
	case "arr":
		var out [3]any
		for i := 0; i < 3 && i < len(v.items); i++ {
			out[i] = v.items[i].goValue()
		}
		return out
	case "maps":
		out := map[string]any{}
		for i, k := range v.keys {
			out[k] = v.items[i].goValue()
		}
		return out
	case "mapi":
		out := map[int]any{}
		for i, k := range v.ikeys {
			out[k] = v.items[i].goValue()
		}
		return out
	case "struct":
		return *v.st.goStruct()
	case "ptr":
		if v.st == nil {
			return (*TStruct)(nil)
		}
		return v.st.goStruct()
	}
	return nil
}

func (s *rstruct) goStruct() *TStruct {
	t := &TStruct{Name: s.Name, IM: s.IM, hidden: s.hidden}
	if s.Items != nil {
		t.Items = s.Items.goValue().([]any)
	}
	if s.Sub != nil && s.Sub.st != nil {
		t.Sub = s.Sub.st.goStruct()
	}
	if s.M != nil {
		t.M = s.M.goValue().(map[string]any)
	}
	if s.Any != nil {
		t.Any = s.Any.goValue()
	}
	return t
}

// ---- paths ----
type pstep struct {
	kind string // ident int sub
	name string
	i    int
	sub  *rv // literal subscript (str or int)
	call bool
	args []*rv // literal arguments (str / int)
}

func (p pstep) src() string {
	s := ""
	switch p.kind {
	case "ident":
		s = "." + p.name
	case "int":
		s = fmt.Sprintf(".%d", p.i)
	case "sub":
		if p.sub.kind == "str" {
			s = "[\"" + p.sub.s + "\"]"
		} else if p.sub.kind == "nil" {
			s = "[nothing]"
		} else if p.sub.kind == "float" {
			s = fmt.Sprintf("[%.1f]", p.sub.f)
		} else if p.sub.kind == "bool" {
			s = fmt.Sprintf("[%v]", p.sub.b)
		} else {
			s = fmt.Sprintf("[%d]", p.sub.i)
		}
	}
	if p.call {
		a := []string{}
		for _, x := range p.args {
			if x.kind == "str" {
				a = append(a, "\""+x.s+"\"")
			} else {
				a = append(a, fmt.Sprint(x.i))
			}
		}
		s += "(" + strings.Join(a, ", ") + ")"
	}
	return s
}

// ---- the reference resolver: what the property text says a path denotes ----
var errRef = errors.New("execution error")

type method struct {
	params   []string // "int" "str" "val" ; last may be variadic
	variadic bool
	ptrOnly  bool
	run      func(s *rstruct, args []*rv) (*rv, error)
}

var c08Methods = map[string]method{
	"Greet": {nil, false, false, func(s *rstruct, a []*rv) (*rv, error) { return &rv{kind: "str", s: "hi:" + s.Name}, nil }},
	"Add":   {[]string{"int", "int"}, false, false, func(s *rstruct, a []*rv) (*rv, error) { return &rv{kind: "int", i: a[0].i + a[1].i}, nil }},
	"Var": {[]string{"int"}, true, false, func(s *rstruct, a []*rv) (*rv, error) {
		n := 0
		for _, x := range a {
			n += x.i
		}
		return &rv{kind: "int", i: n}, nil
	}},
	"Cat": {[]string{"str", "str"}, true, false, func(s *rstruct, a []*rv) (*rv, error) {
		o := ""
		for _, x := range a {
			o += x.s
		}
		return &rv{kind: "str", s: o}, nil
	}},
	"WithCtx": {[]string{"str"}, false, false, func(s *rstruct, a []*rv) (*rv, error) { return &rv{kind: "str", s: "ctx:" + a[0].s}, nil }},
	"Ctx3": {[]string{"int", "int", "int"}, false, false, func(s *rstruct, a []*rv) (*rv, error) {
		return &rv{kind: "int", i: a[0].i*100 + a[1].i*10 + a[2].i}, nil
	}},
	"Ctx5": {[]string{"int", "int", "int", "int", "int"}, false, false, func(s *rstruct, a []*rv) (*rv, error) {
		return &rv{kind: "int", i: a[0].i*10000 + a[1].i*1000 + a[2].i*100 + a[3].i*10 + a[4].i}, nil
	}},
	"Sum3": {[]string{"int", "int", "int"}, false, false, func(s *rstruct, a []*rv) (*rv, error) {
		return &rv{kind: "int", i: a[0].i + a[1].i + a[2].i}, nil
	}},
	"ValArg": {[]string{"val"}, false, false, func(s *rstruct, a []*rv) (*rv, error) { return &rv{kind: "str", s: rvString(a[0]) + "!"}, nil }},
	"Fail":   {nil, false, false, func(s *rstruct, a []*rv) (*rv, error) { return nil, errRef }},
	"Two":    {nil, false, false, func(s *rstruct, a []*rv) (*rv, error) { return &rv{kind: "str", s: "two"}, nil }},
	"PtrName": {nil, false, true, func(s *rstruct, a []*rv) (*rv, error) {
		if s == nil {
			return &rv{kind: "str", s: "p:nil"}, nil
		}
		return &rv{kind: "str", s: "p:" + s.Name}, nil
	}},
}

func rvString(v *rv) string {
	switch v.kind {
	case "str":
		return v.s
	case "int":
		return fmt.Sprint(v.i)
	case "bool":
		if v.b {
			return "True"
		}
		return "False"
	case "float":
		return fmt.Sprintf("%f", v.f)
	case "nil":
		return ""
	}
	return "?"
}

var rvEmpty = &rv{kind: "nil"}

func callMethod(m method, s *rstruct, args []*rv) (*rv, error) {
	n := len(m.params)
	if m.variadic {
		if len(args) < n-1 {
			return nil, errRef
		}
	} else if len(args) != n {
		return nil, errRef
	}
	for i, a := range args {
		pt := ""
		if i < n {
			pt = m.params[i]
		} else {
			pt = m.params[n-1]
		}
		if m.variadic && i >= n-1 {
			pt = m.params[n-1]
		}
		switch pt {
		case "int":
			if a.kind != "int" {
				return nil, errRef
			}
		case "str":
			if a.kind != "str" {
				return nil, errRef
			}
		}
	}
	return m.run(s, args)
}

// refWalk follows the steps; a nil result with nil error means "empty"
func refWalk(v *rv, steps []pstep) (*rv, error) {
	cur := v
	for _, st := range steps {
		if cur == nil || cur.kind == "nil" {
			return rvEmpty, nil
		}
		called := false
		if st.kind == "ident" {
			if m, ok := c08Methods[st.name]; ok && (cur.kind == "struct" || cur.kind == "ptr") {
				if cur.kind == "struct" && m.ptrOnly {
					// a pointer-receiver method is not in the method set of a value
				} else {
					if cur.kind == "ptr" && cur.st == nil {
						if !m.ptrOnly {
							return rvEmpty, nil
						}
						// a method declared on the pointer type is called, also on a nil pointer
					}
					r, err := callMethod(m, cur.st, st.args)
					if err != nil {
						return nil, err
					}
					cur = r
					called = true
				}
			}
		}
		if !called {
			if cur.kind == "ptr" {
				if cur.st == nil {
					return rvEmpty, nil
				}
				cur = &rv{kind: "struct", st: cur.st}
			}
			switch st.kind {
			case "int":
				switch cur.kind {
				case "str":
					if st.i >= 0 && st.i < len(cur.s) {
						cur = &rv{kind: "int", i: int(cur.s[st.i])}
					} else {
						return rvEmpty, nil
					}
				case "list", "arr":
					if st.i >= 0 && st.i < len(cur.items) {
						cur = cur.items[st.i]
					} else {
						return rvEmpty, nil
					}
				default:
					return nil, errRef
				}
			case "ident":
				switch cur.kind {
				case "struct":
					cur = structField(cur.st, st.name)
				case "maps":
					cur = mapGet(cur, st.name)
				case "mapi":
					return rvEmpty, nil
				default:
					return nil, errRef
				}
			case "sub":
				switch cur.kind {
				case "str", "list", "arr":
					if st.sub.kind != "int" {
						// only an integer is an index: any other key finds nothing
						return rvEmpty, nil
					}
					idx := st.sub.i
					if cur.kind == "str" {
						if idx >= 0 && idx < len(cur.s) {
							cur = &rv{kind: "int", i: int(cur.s[idx])}
						} else {
							return rvEmpty, nil
						}
					} else if idx >= 0 && idx < len(cur.items) {
						cur = cur.items[idx]
					} else {
						return rvEmpty, nil
					}
				case "struct":
					cur = structField(cur.st, rvString(st.sub))
				case "maps":
					if st.sub.kind != "str" {
						return rvEmpty, nil
					}
					cur = mapGet(cur, st.sub.s)
				case "mapi":
					if st.sub.kind != "int" {
						return rvEmpty, nil
					}
					found := false
					for i, k := range cur.ikeys {
						if k == st.sub.i {
							cur, found = cur.items[i], true
							break
						}
					}
					if !found {
						return rvEmpty, nil
					}
				default:
					return nil, errRef
				}
			}
			if (cur == nil || cur.kind == "nil") && st.call {
				// calling something that is not there: the property fixes neither "empty" (a nil
				// on the way) nor "error" (a wrong call); pongo2 answers empty for a missing key
				// and an error for a key that holds nil - outside the reference
				return nil, nil
			}
			if cur == nil || cur.kind == "nil" {
				return rvEmpty, nil
			}
			if st.call {
				return nil, errRef // not a function
			}
		}
	}
	if cur == nil {
		return rvEmpty, nil
	}
	return cur, nil
}

func structField(s *rstruct, name string) *rv {
	switch name {
	case "Name":
		return &rv{kind: "str", s: s.Name}
	case "Items":
		return s.Items
	case "Sub":
		return s.Sub
	case "M":
		return s.M
	case "IM":
		m := &rv{kind: "mapi"}
		for k, v := range s.IM {
			m.ikeys = append(m.ikeys, k)
			m.items = append(m.items, &rv{kind: "str", s: v})
		}
		if s.IM == nil {
			return &rv{kind: "mapi"}
		}
		return m
	case "Any":
		return s.Any
	}
	return rvEmpty // unexported or missing
}

func mapGet(m *rv, k string) *rv {
	for i, kk := range m.keys {
		if kk == k {
			return m.items[i]
		}
	}
	return rvEmpty
}

func rvLen(v *rv) int {
	switch v.kind {
	case "str":
		return len([]rune(v.s))
	case "list", "arr":
		return len(v.items)
	case "maps":
		return len(v.keys)
	case "mapi":
		return len(v.ikeys)
	}
	return 0
}
func rvTrue(v *rv) bool {
	switch v.kind {
	case "str", "list", "arr", "maps", "mapi":
		return rvLen(v) > 0
	case "int":
		return v.i != 0
	case "float":
		return v.f != 0
	case "bool":
		return v.b
	case "struct":
		return true
	case "ptr":
		return v.st != nil
	}
	return false
}

// ---- generation ----
type c08Gen struct{ rg *rng }

func (g *c08Gen) leaf() *rv {
	switch g.rg.intn(6) {
	case 0:
		return &rv{kind: "str", s: g.rg.pick([]string{"abc", "", "x y", "hé"})}
	case 1:
		return &rv{kind: "int", i: g.rg.intn(9) - 2}
	case 2:
		return &rv{kind: "bool", b: g.rg.chance(1, 2)}
	case 3:
		return &rv{kind: "float", f: 1.5}
	case 4:
		return rvEmpty
	}
	return &rv{kind: "str", s: "leaf"}
}

func (g *c08Gen) value(d int) *rv {
	if d <= 0 {
		return g.leaf()
	}
	switch g.rg.intn(8) {
	case 0:
		v := &rv{kind: "list"}
		for i := 0; i < g.rg.intn(4); i++ {
			v.items = append(v.items, g.value(d-1))
		}
		return v
	case 1:
		v := &rv{kind: "arr"}
		for i := 0; i < 3; i++ {
			v.items = append(v.items, g.value(d-1))
		}
		return v
	case 2:
		v := &rv{kind: "maps"}
		for _, k := range []string{"a", "b", "Name"}[:1+g.rg.intn(3)] {
			v.keys = append(v.keys, k)
			v.items = append(v.items, g.value(d-1))
		}
		return v
	case 3:
		v := &rv{kind: "mapi"}
		for _, k := range []int{0, 1, 7}[:1+g.rg.intn(3)] {
			v.ikeys = append(v.ikeys, k)
			v.items = append(v.items, g.value(d-1))
		}
		return v
	case 4, 5:
		return &rv{kind: g.rg.pick([]string{"struct", "ptr"}), st: g.structV(d - 1)}
	case 6:
		return &rv{kind: "ptr"} // nil pointer
	}
	return g.leaf()
}

func (g *c08Gen) structV(d int) *rstruct {
	s := &rstruct{Name: g.rg.pick([]string{"nm", "", "Zed"}), hidden: 5}
	lst := &rv{kind: "list"}
	for i := 0; i < g.rg.intn(3); i++ {
		lst.items = append(lst.items, g.value(d))
	}
	s.Items = lst
	if d > 0 && g.rg.chance(1, 2) {
		s.Sub = &rv{kind: "ptr", st: g.structV(d - 1)}
	} else {
		s.Sub = &rv{kind: "ptr"}
	}
	s.M = &rv{kind: "maps", keys: []string{"k"}, items: []*rv{g.value(d)}}
	if g.rg.chance(1, 2) {
		s.IM = map[int]string{1: "one"}
	}
	s.Any = g.value(d)
	return s
}

var c08Idents = []string{"Name", "Items", "Sub", "M", "IM", "Any", "hidden", "a", "b", "k", "zz", "Greet", "Add", "Var", "Cat", "WithCtx", "ValArg", "Fail", "Two", "PtrName", "Ctx3", "Ctx5", "Sum3"}

func (g *c08Gen) step() pstep {
	switch g.rg.intn(8) {
	case 0, 1, 2:
		st := pstep{kind: "ident", name: g.rg.pick(c08Idents)}
		if _, isM := c08Methods[st.name]; isM || g.rg.chance(1, 10) {
			if g.rg.chance(3, 4) {
				st.call = true
				n := g.rg.intn(4)
				if isM && g.rg.chance(2, 3) {
					m := c08Methods[st.name]
					n = len(m.params)
				}
				for i := 0; i < n; i++ {
					if g.rg.chance(1, 2) {
						st.args = append(st.args, &rv{kind: "int", i: g.rg.intn(5)})
					} else {
						st.args = append(st.args, &rv{kind: "str", s: g.rg.pick([]string{"s", "t"})})
					}
				}
				if isM && g.rg.chance(1, 2) {
					// well-typed arguments
					m := c08Methods[st.name]
					st.args = nil
					for _, p := range m.params {
						if p == "int" {
							st.args = append(st.args, &rv{kind: "int", i: g.rg.intn(5)})
						} else {
							st.args = append(st.args, &rv{kind: "str", s: "s"})
						}
					}
				}
			}
		}
		return st
	case 3, 4:
		return pstep{kind: "int", i: g.rg.intn(5)}
	case 5:
		return pstep{kind: "sub", sub: &rv{kind: "int", i: g.rg.intn(9) - 1}}
	case 6:
		return pstep{kind: "sub", sub: &rv{kind: "str", s: g.rg.pick([]string{"a", "k", "Name", "1", "zz", "hidden", "Items", "Sub", "Greet"})}}
	}
	if g.rg.chance(1, 2) {
		// keys of other kinds
		return pstep{kind: "sub", sub: g.rg.pickRV([]*rv{{kind: "float", f: 1.5}, {kind: "bool", b: true}, {kind: "str", s: "1"}, {kind: "str", s: "0"}, {kind: "str", s: ""}})}
	}
	return pstep{kind: "sub", sub: rvEmpty}
}

func (g *rng) pickRV(xs []*rv) *rv { return xs[g.intn(len(xs))] }

func runC08(r *run) {
	rg := newRng(r.seed)
	gen := func(emit func(caseT)) {
		n := 5000
		if r.tier == "thorough" {
			n = 120000
		}
		for i := 0; i < n; i++ {
			emit(caseT{"path", []string{fmt.Sprint(r.seed), fmt.Sprint(i)}})
		}
		// data-only values (maps with string keys, slices, structs with exported fields, scalars)
		// as descriptors the model covers as well: the correspondence run compares them
		for i := 0; i < n; i++ {
			g := rg.fork(uint64(900000 + i))
			var mk func(d int) *gval
			mk = func(d int) *gval {
				if d <= 0 || g.chance(1, 3) {
					switch g.intn(5) {
					case 0:
						return gStr(g.pick([]string{"abc", "", "hé", "x y"}))
					case 1:
						return gInt(g.intn(9) - 2)
					case 2:
						return gNil()
					case 3:
						return gBool(g.chance(1, 2))
					}
					return gFloat("2.5")
				}
				switch g.intn(3) {
				case 0:
					var items []*gval
					for k := 0; k < g.intn(4); k++ {
						items = append(items, mk(d-1))
					}
					return gList(items...)
				case 1:
					ks := []string{"a", "b", "Name"}[:1+g.intn(3)]
					var items []*gval
					for range ks {
						items = append(items, mk(d-1))
					}
					return gMap(ks, items)
				}
				ks := []string{"Name", "Items", "Any"}
				return gStruct(ks, []*gval{mk(0), mk(d - 1), mk(d - 1)})
			}
			path := "v"
			for k := 0; k < g.intn(5); k++ {
				switch g.intn(6) {
				case 0, 1:
					path += "." + g.pick([]string{"Name", "Items", "Any", "a", "b", "zz"})
				case 2, 3:
					path += fmt.Sprintf(".%d", g.intn(4))
				case 4:
					path += fmt.Sprintf("[%d]", g.intn(6)-1)
				default:
					path += "[" + g.pick([]string{"\"a\"", "\"Name\"", "\"1\"", "\"zz\"", "1.9", "true", "nothere", "\"\"", "v", "1"}) + "]"
				}
			}
			src := "{% autoescape off %}[{{ " + path + "|default:\"?\"|striptags }}][{{ " + path + "|length }}][{% if " + path + " %}T{% else %}F{% endif %}]{% endautoescape %}"
			emit(caseT{"shadow", (&world{}).args(src, gctx{{"v", mk(3)}})})
		}
		// shadowing: tag-set names over context keys over globals
		w := &world{files: []map[string]string{{"inc.tpl": "<{{ x }},{{ y }},{{ g }}>"}}, globals: gctx{{"g", gStr("G")}, {"x", gStr("GX")}, {"y", gStr("GY")}, {"nv", gStr("GNV")}, {"gm", gMap([]string{"k"}, []*gval{gStr("GK")})}}}
		ctx := gctx{{"x", gStr("CX")}, {"nv", gNil()}, {"gm", gNil()}, {"block", gStr("CB")}, {"forloop", gStr("CF")}}
		w.files[0]["blk.tpl"] = "{% block b %}B{% endblock %}[{{ block }}]"
		w.files[0]["lib.tpl"] = "{% macro badge() export %}<{{ x }}/{{ y }}/{{ g }}>{% endmacro %}{% macro two(x) export %}({{ x }}{{ y }}){% endmacro %}"
		// names bound by tags AFTER an import are what an imported macro's free names mean at the call
		for _, src := range []string{"{% import \"lib.tpl\" badge %}{{ badge() }}{% set x = \"SX\" %}{{ badge() }}{% with y=\"WY\" %}{{ badge() }}{% endwith %}",
			"{% import \"lib.tpl\" badge, two %}{% set y = \"SY\" %}{{ two(\"a\") }}{% for g in \"pq\" %}{{ badge() }}{% endfor %}{{ two(x) }}",
			"{% set x = \"S0\" %}{% import \"lib.tpl\" badge as b2 %}{% set x = \"S1\" %}{{ b2() }}{% macro local() %}<{{ x }}>{% endmacro %}{% set x = \"S2\" %}{{ local() }}{{ b2() }}"} {
			emit(caseT{"shadow", w.args(src, ctx)})
		}
		for _, c := range [][2]string{{"{{ g }}{{ x }}{{ y }}", "GCXGY"}, {"{% set x = \"SX\" %}{{ x }}{{ y }}", "SXGY"}, {"{% with y=\"WY\" %}{{ x }}{{ y }}{% endwith %}{{ y }}", "CXWYGY"},
			{"{% for g in \"ab\" %}{{ g }}{% endfor %}{{ g }}", "abG"},
			{"{% with x=\"WX\" %}{% include \"inc.tpl\" %}{% endwith %}{% for y in \"pq\" %}{% include \"inc.tpl\" %}{% endfor %}{% set g = \"SG\" %}{% include \"inc.tpl\" %}{% ssi \"inc.tpl\" parsed %}", "<WX,GY,G><CX,p,G><CX,q,G><CX,GY,SG><CX,GY,SG>"},
			{"{% macro m(x) %}{% include \"inc.tpl\" %}{% endmacro %}{{ m(\"MX\") }}", "<MX,GY,G>"},
			{"{% macro m(x, y) %}[{{ x }}|{{ y }}|{{ g }}]{% endmacro %}{{ m(\"a\") }}{{ m() }}{% set y = \"SY\" %}{{ m(\"b\") }}", "[a||G][||G][b||G]"},
			{"{% macro m(g, x=\"dx\") %}[{{ g }}|{{ x }}]{% endmacro %}{{ m() }}{{ m(1) }}", "[|dx][1|dx]"},
			{"{% with x=y y=x %}{{ x }}{{ y }}{% endwith %}{{ x }}{{ y }}", "GYCXCXGY"},
			{"{% with x=\"WX\" z=x y=x|lower %}{{ z }}{{ y }}{{ x }}{% endwith %}", "CXcxWX"},
			{"{% with g=gm gm=g k=gm.k %}[{{ g.k }}][{{ gm }}][{{ k }}]{% endwith %}", "[][G][]"},
			// context keys that carry the names tags use for their own bindings, read where no tag binds them
			{"{{ block }}{% block b %}x{% endblock %}[{{ block }}]{% block c %}{% block d %}y{% endblock %}{% endblock %}[{{ block }}]", "CBx[CB]y[CB]"},
			{"{% extends \"blk.tpl\" %}{% block b %}C{{ block.Super }}{% endblock %}", "CB[CB]"},
			{"{{ forloop }}{% for i in \"ab\" %}{{ forloop.Counter }}{% for j in \"c\" %}{{ forloop.Parentloop.Counter }}{% endfor %}{% endfor %}[{{ forloop }}]", "CF1122[CF]"},
			{"{% for i in \"a\" %}{% endfor %}{% with q=1 %}{{ forloop }}{{ block }}{% endwith %}{% macro m() %}{{ forloop }}{{ block }}{% endmacro %}{{ m() }}", "CFCBCFCB"},
			// a name set to nothing is bound all the same: it hides the context key and the global
			{"{% set x = nothere %}[{{ x }}]{% set g = nv.name %}[{{ g }}]{% with y=nothere %}[{{ y }}]{% endwith %}[{{ y }}]", "[][][][GY]"},
			{"{% set gm = gm.zz %}[{{ gm.k }}]{% set x = nothere.nope %}[{{ x }}]", "[][]"},
			{"[{{ nv }}][{{ nv.name }}][{{ gm.k }}]{% if nv %}T{% else %}F{% endif %}{% if gm %}T{% else %}F{% endif %}", "[][][]FF"}, {"{% macro m(x) %}{{ x }}{{ y }}{% endmacro %}{{ m(\"MX\") }}{{ x }}", "MXGYCX"}} {
			a := w.args(c[0], ctx)
			a = append(a, "-", "-", hx(c[1]))
			emit(caseT{"shadow", a})
		}
	}
	_ = rg
	gen0 := gen
	gen = func(emit func(caseT)) {
		gen0(emit)
		// two struct types with the same name and different fields, resolved in turn
		for i := 0; i < 6; i++ {
			emit(caseT{"twotypes", []string{fmt.Sprint(i)}})
		}
	}
	driveCases(r, gen, execC08)
	r.finish(nil)
}

func c08RowA() any {
	type row struct {
		Kind  string
		Count int
	}
	return row{"customer", 4}
}

func c08RowB() any {
	type row struct {
		Count int
		Kind  string
		Extra string
	}
	return row{4, "customer", "x"}
}

func execTwoTypes(r *run, c caseT) {
	var i int
	fmt.Sscanf(c.args[0], "%d", &i)
	tpl, err := pongo2.FromString("{{ v.Kind }}/{{ v.Count }}/{{ v.Extra }}|{{ v[\"Kind\"] }}")
	must(err)
	order := []string{"ABA", "BAB", "AABB"}[i%3]
	id := -1
	for k, which := range order {
		v, exp := c08RowA(), "customer/4/|customer"
		if which == 'B' {
			v, exp = c08RowB(), "customer/4/x|customer"
		}
		out, xerr, p := executeIn(tpl, pongo2.Context{"v": v})
		o := out
		if p != nil {
			o = "panic:" + fmt.Sprint(p)
		} else if xerr != nil {
			o = "xerr"
		}
		if o != exp && id < 0 {
			id = r.emit(c.op, c.args, "twotypes")
			r.reject(id, "a field name resolved on one struct type gave the value of another type's field (two types with the same name)", map[string]any{"step": k + 1, "value": fmt.Sprintf("%+v", v), "observed": o, "expected": exp})
		}
	}
	if id < 0 {
		r.emit(c.op, c.args, "twotypes")
	}
	r.nontrivial("twotypes" + c.args[0])
}

func execC08(r *run, c caseT) {
	if c.op == "twotypes" {
		execTwoTypes(r, c)
		return
	}
	if c.op == "shadow" {
		w, src, ctx := worldFromArgs(c.args)
		o, _ := w.render(src, false, ctx)
		id := r.emit("render", c.args, o.obs)
		r.nontrivial(c.args[0])
		if len(c.args) > 9 && o.obs != obsOK(unhx(c.args[9])) {
			r.reject(id, "names set by tags do not shadow context keys, or context keys the set's globals", map[string]any{"template": src, "observed": o.obs, "expected": unhx(c.args[9])})
		}
		return
	}
	var seed, idx uint64
	fmt.Sscanf(c.args[0], "%d", &seed)
	fmt.Sscanf(c.args[1], "%d", &idx)
	g := &c08Gen{rg: newRng(seed).fork(idx + 77)}
	root := g.value(3)
	var steps []pstep
	for k := 0; k < g.rg.intn(5); k++ {
		steps = append(steps, g.step())
	}
	if g.rg.chance(1, 8) {
		// methods reached through a chain of pointers that ends in a nil pointer
		for k := 0; k < 1+g.rg.intn(3); k++ {
			steps = append(steps, pstep{kind: "ident", name: "Sub"})
		}
		steps = append(steps, pstep{kind: "ident", name: g.rg.pick([]string{"PtrName", "PtrName", "Greet", "Name", "Two"}), call: g.rg.chance(1, 2)})
	}
	path := "v"
	for _, st := range steps {
		path += st.src()
	}
	src := "{% autoescape off %}[{{ " + path + " }}][{{ " + path + "|length }}][{% if " + path + " %}T{% else %}F{% endif %}]{% endautoescape %}"
	tpl, err := pongo2.FromString(src)
	obs := ""
	var out string
	if err != nil {
		obs = "cerr"
	} else {
		var xerr error
		var p any
		out, xerr, p = executeIn(tpl, pongo2.Context{"v": root.goValue(), "nothing": nil})
		switch {
		case p != nil:
			obs = "panic:" + fmt.Sprint(p)
		case xerr != nil:
			obs = "xerr"
		default:
			obs = obsOK(out)
		}
		// the same name denotes the same value when the compiled template is executed again
		out2, xerr2, p2 := executeIn(tpl, pongo2.Context{"v": root.goValue(), "nothing": nil})
		if p == nil && (p2 != nil || (xerr == nil) != (xerr2 == nil) || out2 != out) {
			obs = "unstable:" + obs
		}
	}
	id := r.emit(c.op, c.args, obs)
	if id%499 == 0 {
		r.sample(map[string]any{"path": path, "observed": obs})
	}
	if strings.HasPrefix(obs, "panic") {
		r.reject(id, "panic", map[string]any{"path": path, "observed": obs})
		return
	}
	if strings.HasPrefix(obs, "unstable:") {
		r.reject(id, "the same path denotes different values in two executions of the compiled template", map[string]any{"path": path, "observed": obs})
		return
	}
	if len(steps) > 0 {
		r.nontrivial(path + fmt.Sprint(idx))
	}
	want, werr := refWalk(root, steps)
	if want == nil && werr == nil {
		r.stats["outside_reference"]++
		return
	}
	if werr != nil {
		if obs != "xerr" && obs != "cerr" {
			r.reject(id, "a wrong call or an index on a scalar did not produce an execution error", map[string]any{"path": path, "observed": obs})
		}
		return
	}
	if obs == "cerr" {
		r.stats["compile_error"]++
		return
	}
	// composite results print a Go type placeholder: compare length and truthiness only
	exp := ""
	switch want.kind {
	case "list", "arr", "maps", "mapi", "struct", "ptr":
		i := strings.Index(out, "][")
		if i < 0 {
			r.reject(id, "unexpected output shape", map[string]any{"path": path, "observed": obs})
			return
		}
		out = out[i+1:]
	default:
		exp = "[" + rvString(want) + "]"
	}
	t := "F"
	if rvTrue(want) {
		t = "T"
	}
	exp += fmt.Sprintf("[%d][%s]", rvLen(want), t)
	if obs == "xerr" || out != exp {
		r.reject(id, "the path does not denote the value obtained by following its steps", map[string]any{"path": path, "observed": obs, "expected": exp})
	}
}
