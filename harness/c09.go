package main

import (
	"fmt"
	"sort"
	"strings"

	"github.com/flosch/pongo2/v6"
)

func init() { props["C09"] = runC09 }

// C09: nestings of if/elif/else, ifequal/ifnotequal, firstof, for (+empty, reversed, sorted,
// key/value), cycle, ifchanged - generated as trees, printed as templates, and interpreted by
// the small reference interpreter below.

type cnode struct {
	kind  string // text pvar pfield if ifeq firstof for cycle ifch
	text  string
	conds []ccond
	kids  [][]*cnode // bodies
	neg   bool
	a, b  cval
	args  []cval
	src   string // for: name of the sequence in the context
	rev   bool
	sort  bool
	kv    bool
	vname string
	watch bool
}

type cval struct {
	kind  byte // 'v' loop var (current innermost), 'l' literal int, 's' literal string, 'c' forloop.Counter, 'k' context scalar
	i     int
	s     string
	depth int // which enclosing loop's variable (0 = innermost)
}

type ccond struct {
	kind string // truthy eq first last odd ctx
	v    cval
	w    cval
}

// the data every C09 program iterates over
var c09Data = map[string][]string{ // string sequences
	"ws": {"b", "a", "b", "c"}, "w1": {"x"}, "w0": {}, "uni": {"é", "日", "a"},
}
var c09Ints = map[string][]int{"ns": {3, 1, 2, 2}, "n1": {5}, "n0": {}, "big": {4, 9, 1, 7, 3, 8}}
var c09Strs = map[string]string{"str": "héy", "sempty": "", "sabc": "cab"}
var c09Maps = map[string]map[string]int{"mp": {"b": 2, "a": 1, "c": 3}, "m0": {}}
var c09Scalars = map[string]int{"one": 1, "zero": 0, "two": 2}

func c09Ctx() gctx {
	var c gctx
	for k, v := range c09Data {
		items := []*gval{}
		for _, s := range v {
			items = append(items, gStr(s))
		}
		c = append(c, ctxEntry{k, gList(items...)})
	}
	for k, v := range c09Ints {
		items := []*gval{}
		for _, n := range v {
			items = append(items, gInt(n))
		}
		c = append(c, ctxEntry{k, gList(items...)})
	}
	for k, v := range c09Strs {
		c = append(c, ctxEntry{k, gStr(v)})
	}
	for k, m := range c09Maps {
		var ks []string
		var vs []*gval
		for kk, vv := range m {
			ks = append(ks, kk)
			vs = append(vs, gInt(vv))
		}
		c = append(c, ctxEntry{k, gMap(ks, vs)})
	}
	for k, v := range c09Scalars {
		c = append(c, ctxEntry{k, gInt(v)})
	}
	sort.Slice(c, func(i, j int) bool { return c[i].key < c[j].key })
	return c
}

type c09Gen struct {
	rg        *rng
	loops     []string // loop variable names, outermost first
	inEmpty   bool     // inside an {% empty %} branch: no forloop references, no nested loops
	emptyRefs bool     // ... unless this is set (programs compared with the model only, not the reference)
}

func (g *c09Gen) val() cval {
	if len(g.loops) > 0 && g.rg.chance(2, 3) {
		switch g.rg.intn(3) {
		case 0:
			return cval{kind: 'v', depth: g.rg.intn(len(g.loops))}
		case 1:
			if !g.inEmpty || g.emptyRefs {
				return cval{kind: 'c', depth: g.rg.intn(len(g.loops))}
			}
		}
	}
	switch g.rg.intn(4) {
	case 0:
		return cval{kind: 'l', i: g.rg.intn(4)}
	case 1:
		return cval{kind: 's', s: g.rg.pick([]string{"a", "b", "", "x"})}
	case 2:
		return cval{kind: 'k', s: g.rg.pick([]string{"one", "zero", "two"})}
	}
	return cval{kind: 'l', i: 1}
}

func (g *c09Gen) cond() ccond {
	switch g.rg.intn(6) {
	case 0:
		return ccond{kind: "truthy", v: g.val()}
	case 1:
		if len(g.loops) > 0 && (!g.inEmpty || g.emptyRefs) {
			return ccond{kind: g.rg.pick([]string{"first", "last"}), v: cval{depth: g.rg.intn(len(g.loops))}}
		}
	case 2:
		if len(g.loops) > 0 && (!g.inEmpty || g.emptyRefs) {
			return ccond{kind: "odd", v: cval{depth: g.rg.intn(len(g.loops))}}
		}
	case 3:
		return ccond{kind: "ctx", v: cval{kind: 'k', s: g.rg.pick([]string{"one", "zero", "w0", "ws", "sempty", "str", "m0", "mp"})}}
	}
	return ccond{kind: "eq", v: g.val(), w: g.val()}
}

func (g *c09Gen) body(d int) []*cnode {
	n := 1 + g.rg.intn(3)
	var out []*cnode
	for i := 0; i < n; i++ {
		out = append(out, g.node(d))
	}
	return out
}

func (g *c09Gen) node(d int) *cnode {
	k := g.rg.intn(12)
	if d <= 0 && k >= 4 {
		k = g.rg.intn(4)
	}
	switch k {
	case 0:
		return &cnode{kind: "text", text: g.rg.pick([]string{"-", ".", " ", "x", "|"})}
	case 1, 2:
		if len(g.loops) > 0 {
			return &cnode{kind: "pvar", a: cval{kind: 'v', depth: g.rg.intn(len(g.loops))}}
		}
		return &cnode{kind: "text", text: "t"}
	case 3:
		if len(g.loops) > 0 && (!g.inEmpty || g.emptyRefs) {
			return &cnode{kind: "pfield", text: g.rg.pick([]string{"Counter", "Counter0", "Revcounter", "Revcounter0", "First", "Last"}), a: cval{depth: g.rg.intn(len(g.loops))}}
		}
		return &cnode{kind: "text", text: "f"}
	case 4, 5:
		n := &cnode{kind: "if"}
		nb := 1 + g.rg.intn(3)
		for i := 0; i < nb; i++ {
			n.conds = append(n.conds, g.cond())
			n.kids = append(n.kids, g.body(d-1))
		}
		if g.rg.chance(1, 2) {
			n.kids = append(n.kids, g.body(d-1)) // else
		}
		return n
	case 6:
		n := &cnode{kind: "ifeq", neg: g.rg.chance(1, 2), a: g.val(), b: g.val()}
		n.kids = append(n.kids, g.body(d-1))
		if g.rg.chance(1, 2) {
			n.kids = append(n.kids, g.body(d-1))
		}
		return n
	case 7:
		n := &cnode{kind: "firstof"}
		for i := 0; i < 1+g.rg.intn(3); i++ {
			n.args = append(n.args, g.val())
		}
		return n
	case 8, 9, 10:
		if g.inEmpty && !g.emptyRefs {
			return &cnode{kind: "text", text: "e"}
		}
		n := &cnode{kind: "for", vname: fmt.Sprintf("v%d", len(g.loops))}
		switch g.rg.intn(4) {
		case 0:
			n.src = g.rg.pick([]string{"ws", "w1", "w0", "uni"})
		case 1:
			n.src = g.rg.pick([]string{"ns", "n1", "n0", "big"})
		case 2:
			n.src = g.rg.pick([]string{"str", "sempty", "sabc"})
		default:
			n.src = g.rg.pick([]string{"mp", "m0"})
			n.sort = true // unsorted map iteration follows Go's map order
			n.kv = g.rg.chance(1, 2)
		}
		n.rev = g.rg.chance(1, 3)
		if g.rg.chance(1, 3) {
			n.sort = true
		}
		g.loops = append(g.loops, n.vname)
		n.kids = append(n.kids, g.body(d-1))
		g.loops = g.loops[:len(g.loops)-1]
		if g.rg.chance(1, 3) {
			// pongo2 binds forloop to the (zeroed) information of the empty loop inside the
			// empty branch, Django leaves it referring to the outer loop: not referenced here
			g.inEmpty = true
			n.kids = append(n.kids, g.body(d-1)) // empty
			g.inEmpty = false
		}
		return n
	case 11:
		if len(g.loops) == 0 || (g.inEmpty && !g.emptyRefs) {
			return &cnode{kind: "text", text: "c"}
		}
		if g.rg.chance(1, 2) {
			n := &cnode{kind: "cycle"}
			for i := 0; i < 1+g.rg.intn(3); i++ {
				if g.rg.chance(1, 2) {
					// an argument whose value differs from one iteration to the next
					n.args = append(n.args, g.val())
				} else {
					n.args = append(n.args, cval{kind: 's', s: g.rg.pick([]string{"A", "B", "C", ""})})
				}
			}
			return n
		}
		n := &cnode{kind: "ifch", watch: g.rg.chance(1, 2), a: cval{kind: 'v', depth: 0}}
		n.kids = append(n.kids, []*cnode{{kind: "pvar", a: cval{kind: 'v', depth: 0}}, {kind: "text", text: "!"}})
		if n.watch && g.rg.chance(1, 2) {
			n.kids = append(n.kids, []*cnode{{kind: "text", text: "="}})
		}
		return n
	}
	return &cnode{kind: "text", text: "?"}
}

// ---- printing ----

func (g *c09Gen) loopVar(loops []string, depth int) string { return loops[len(loops)-1-depth] }

func prVal(v cval, loops []string) string {
	switch v.kind {
	case 'v':
		return loops[len(loops)-1-v.depth]
	case 'c':
		return "forloop" + strings.Repeat(".Parentloop", v.depth) + ".Counter"
	case 'l':
		return fmt.Sprint(v.i)
	case 's':
		return "\"" + v.s + "\""
	case 'k':
		return v.s
	}
	return "?"
}

func prCond(c ccond, loops []string) string {
	fl := func(d int) string { return "forloop" + strings.Repeat(".Parentloop", d) }
	switch c.kind {
	case "truthy":
		return prVal(c.v, loops)
	case "first":
		return fl(c.v.depth) + ".First"
	case "last":
		return fl(c.v.depth) + ".Last"
	case "odd":
		return fl(c.v.depth) + ".Counter % 2 == 1"
	case "ctx":
		return c.v.s
	}
	return prVal(c.v, loops) + " == " + prVal(c.w, loops)
}

func prNodes(ns []*cnode, loops []string) string {
	var sb strings.Builder
	for _, n := range ns {
		sb.WriteString(prNode(n, loops))
	}
	return sb.String()
}

func prNode(n *cnode, loops []string) string {
	switch n.kind {
	case "text":
		return n.text
	case "pvar":
		return "{{ " + prVal(n.a, loops) + " }}"
	case "pfield":
		return "{{ forloop" + strings.Repeat(".Parentloop", n.a.depth) + "." + n.text + " }}"
	case "if":
		var sb strings.Builder
		for i, c := range n.conds {
			if i == 0 {
				sb.WriteString("{% if " + prCond(c, loops) + " %}")
			} else {
				sb.WriteString("{% elif " + prCond(c, loops) + " %}")
			}
			sb.WriteString(prNodes(n.kids[i], loops))
		}
		if len(n.kids) > len(n.conds) {
			sb.WriteString("{% else %}" + prNodes(n.kids[len(n.conds)], loops))
		}
		return sb.String() + "{% endif %}"
	case "ifeq":
		tn := "ifequal"
		if n.neg {
			tn = "ifnotequal"
		}
		s := "{% " + tn + " " + prVal(n.a, loops) + " " + prVal(n.b, loops) + " %}" + prNodes(n.kids[0], loops)
		if len(n.kids) > 1 {
			s += "{% else %}" + prNodes(n.kids[1], loops)
		}
		return s + "{% end" + tn + " %}"
	case "firstof":
		p := []string{}
		for _, a := range n.args {
			p = append(p, prVal(a, loops))
		}
		return "{% firstof " + strings.Join(p, " ") + " %}"
	case "for":
		v := n.vname
		if n.kv {
			v += ", val"
		}
		s := "{% for " + v + " in " + n.src
		if n.rev {
			s += " reversed"
		}
		if n.sort {
			s += " sorted"
		}
		s += " %}" + prNodes(n.kids[0], append(append([]string{}, loops...), n.vname))
		if n.kv {
			s = strings.Replace(s, " %}", " %}{{ val }}:", 1)
		}
		if len(n.kids) > 1 {
			s += "{% empty %}" + prNodes(n.kids[1], loops)
		}
		return s + "{% endfor %}"
	case "cycle":
		p := []string{}
		for _, a := range n.args {
			p = append(p, prVal(a, loops))
		}
		return "{% cycle " + strings.Join(p, " ") + " %}"
	case "ifch":
		if n.watch {
			s := "{% ifchanged " + prVal(n.a, loops) + " %}" + prNodes(n.kids[0], loops)
			if len(n.kids) > 1 {
				s += "{% else %}" + prNodes(n.kids[1], loops)
			}
			return s + "{% endifchanged %}"
		}
		return "{% ifchanged %}" + prNodes(n.kids[0], loops) + "{% endifchanged %}"
	}
	return ""
}

// ---- the reference interpreter ----

type rval struct {
	isInt bool
	i     int
	s     string
}

func (v rval) String() string {
	if v.isInt {
		return fmt.Sprint(v.i)
	}
	return v.s
}
func (v rval) truthy() bool {
	if v.isInt {
		return v.i != 0
	}
	return v.s != ""
}

type rloop struct {
	item   rval
	val    rval
	idx, n int
}

type rinterp struct {
	loops []rloop
	cyc   map[*cnode]int
	ifchV map[*cnode]*rval
	ifchC map[*cnode]*string
}

func (it *rinterp) val(v cval) rval {
	switch v.kind {
	case 'v':
		return it.loops[len(it.loops)-1-v.depth].item
	case 'c':
		return rval{isInt: true, i: it.loops[len(it.loops)-1-v.depth].idx + 1}
	case 'l':
		return rval{isInt: true, i: v.i}
	case 's':
		return rval{s: v.s}
	case 'k':
		return rval{isInt: true, i: c09Scalars[v.s]}
	}
	return rval{}
}

func ctxTruthy(name string) bool {
	if v, ok := c09Scalars[name]; ok {
		return v != 0
	}
	if v, ok := c09Data[name]; ok {
		return len(v) > 0
	}
	if v, ok := c09Ints[name]; ok {
		return len(v) > 0
	}
	if v, ok := c09Strs[name]; ok {
		return v != ""
	}
	if v, ok := c09Maps[name]; ok {
		return len(v) > 0
	}
	return false
}

func (it *rinterp) cond(c ccond) bool {
	switch c.kind {
	case "truthy":
		return it.val(c.v).truthy()
	case "first":
		return it.loops[len(it.loops)-1-c.v.depth].idx == 0
	case "last":
		l := it.loops[len(it.loops)-1-c.v.depth]
		return l.idx == l.n-1
	case "odd":
		return (it.loops[len(it.loops)-1-c.v.depth].idx+1)%2 == 1
	case "ctx":
		return ctxTruthy(c.v.s)
	}
	a, b := it.val(c.v), it.val(c.w)
	return a.isInt == b.isInt && a.i == b.i && a.s == b.s
}

func (it *rinterp) run(ns []*cnode, out *strings.Builder) {
	for _, n := range ns {
		it.node(n, out)
	}
}

func (it *rinterp) items(n *cnode) []rloop {
	var items []rloop
	if v, ok := c09Data[n.src]; ok {
		for _, s := range v {
			items = append(items, rloop{item: rval{s: s}})
		}
	} else if v, ok := c09Ints[n.src]; ok {
		for _, x := range v {
			items = append(items, rloop{item: rval{isInt: true, i: x}})
		}
	} else if v, ok := c09Strs[n.src]; ok {
		for _, rn := range []rune(v) {
			items = append(items, rloop{item: rval{s: string(rn)}})
		}
	} else if m, ok := c09Maps[n.src]; ok {
		for k, v := range m {
			items = append(items, rloop{item: rval{s: k}, val: rval{isInt: true, i: v}})
		}
		sort.Slice(items, func(i, j int) bool { return items[i].item.s < items[j].item.s })
	}
	if n.sort {
		sort.SliceStable(items, func(i, j int) bool {
			a, b := items[i].item, items[j].item
			if a.isInt && b.isInt {
				return a.i < b.i
			}
			return a.String() < b.String()
		})
	}
	if n.rev {
		for i, j := 0, len(items)-1; i < j; i, j = i+1, j-1 {
			items[i], items[j] = items[j], items[i]
		}
	}
	return items
}

func (it *rinterp) node(n *cnode, out *strings.Builder) {
	switch n.kind {
	case "text":
		out.WriteString(n.text)
	case "pvar":
		out.WriteString(it.val(n.a).String())
	case "pfield":
		l := it.loops[len(it.loops)-1-n.a.depth]
		switch n.text {
		case "Counter":
			fmt.Fprint(out, l.idx+1)
		case "Counter0":
			fmt.Fprint(out, l.idx)
		case "Revcounter":
			fmt.Fprint(out, l.n-l.idx)
		case "Revcounter0":
			fmt.Fprint(out, l.n-l.idx-1)
		case "First":
			out.WriteString(map[bool]string{true: "True", false: "False"}[l.idx == 0])
		case "Last":
			out.WriteString(map[bool]string{true: "True", false: "False"}[l.idx == l.n-1])
		}
	case "if":
		for i, c := range n.conds {
			if it.cond(c) {
				it.run(n.kids[i], out)
				return
			}
		}
		if len(n.kids) > len(n.conds) {
			it.run(n.kids[len(n.conds)], out)
		}
	case "ifeq":
		a, b := it.val(n.a), it.val(n.b)
		eq := a.isInt == b.isInt && a.i == b.i && a.s == b.s
		if eq != n.neg {
			it.run(n.kids[0], out)
		} else if len(n.kids) > 1 {
			it.run(n.kids[1], out)
		}
	case "firstof":
		for _, a := range n.args {
			if v := it.val(a); v.truthy() {
				out.WriteString(v.String())
				return
			}
		}
	case "for":
		items := it.items(n)
		if len(items) == 0 {
			if len(n.kids) > 1 {
				it.run(n.kids[1], out)
			}
			return
		}
		for i, l := range items {
			l.idx, l.n = i, len(items)
			it.loops = append(it.loops, l)
			if n.kv {
				out.WriteString(l.val.String() + ":")
			}
			it.run(n.kids[0], out)
			it.loops = it.loops[:len(it.loops)-1]
		}
	case "cycle":
		k := it.cyc[n]
		it.cyc[n] = k + 1
		out.WriteString(it.val(n.args[k%len(n.args)]).String())
	case "ifch":
		if n.watch {
			v := it.val(n.a)
			prev := it.ifchV[n]
			it.ifchV[n] = &v
			if prev == nil || *prev != v {
				it.run(n.kids[0], out)
			} else if len(n.kids) > 1 {
				it.run(n.kids[1], out)
			}
			return
		}
		var sb strings.Builder
		it.run(n.kids[0], &sb)
		s := sb.String()
		prev := it.ifchC[n]
		if (prev == nil && s != "") || (prev != nil && *prev != s) {
			out.WriteString(s)
			it.ifchC[n] = &s
		}
	}
}

func runC09(r *run) {
	rg := newRng(r.seed)
	ctx := c09Ctx()
	w := &world{}
	gen := func(emit func(caseT)) {
		n := 6000
		if r.tier == "thorough" {
			n = 150000
		}
		for i := 0; i < n; i++ {
			g := &c09Gen{rg: rg.fork(uint64(i))}
			if i%5 == 4 {
				// what forloop means inside an empty branch, and loops nested in one: pongo2's own
				// reading (the reference interpreter follows Django's), compared with the model
				g.emptyRefs = true
				prog := g.body(4)
				emit(caseT{"render", w.args("{% autoescape off %}"+prNodes(prog, nil)+"{% endautoescape %}", ctx)})
				continue
			}
			prog := g.body(4)
			src := "{% autoescape off %}" + prNodes(prog, nil) + "{% endautoescape %}"
			it := &rinterp{cyc: map[*cnode]int{}, ifchV: map[*cnode]*rval{}, ifchC: map[*cnode]*string{}}
			var out strings.Builder
			it.run(prog, &out)
			a := w.args(src, ctx)
			a = append(a, "-", "-", hx(out.String()))
			emit(caseT{"render", a})
		}
		// what counts as true: every kind of value as the condition of if / elif, under and / or /
		// not, and as an argument of firstof
		tctx := append(append(gctx{}, ctx...), ctxEntry{"nil1", gNil()}, ctxEntry{"fh", gFloat("0.5")}, ctxEntry{"fq", gFloat("-0.25")}, ctxEntry{"ft", gFloat("0.000000001")}, ctxEntry{"fz", gFloat("0.0")},
			ctxEntry{"f25", gFloat("2.5")}, ctxEntry{"fn", gFloat("-3.0")}, ctxEntry{"b1", gBool(true)}, ctxEntry{"b0", gBool(false)}, ctxEntry{"neg", gInt(-1)}, ctxEntry{"s0", gStr("0")}, ctxEntry{"sp", gStr(" ")})
		for _, tv := range []struct {
			e    string
			t    bool
			text string
		}{{"fh", true, "0.500000"}, {"fq", true, "-0.250000"}, {"ft", true, "0.000000"}, {"fz", false, ""}, {"f25", true, "2.500000"}, {"fn", true, "-3.000000"}, {"0.5", true, "0.500000"}, {"0.25", true, "0.250000"},
			{"0.0", false, ""}, {"one", true, "1"}, {"zero", false, ""}, {"neg", true, "-1"}, {"b1", true, "True"}, {"b0", false, ""}, {"nil1", false, ""}, {"nothere", false, ""}, {"s0", true, "0"}, {"sp", true, " "},
			{"sempty", false, ""}, {"\"\"", false, ""}, {"\"x\"", true, "x"}, {"w0", false, ""}, {"m0", false, ""}, {"n0", false, ""}, {"w1", true, "-"}, {"mp", true, "-"}, {"str", true, "héy"}, {"0", false, ""}, {"7", true, "7"}} {
			tf := func(b bool) string {
				if b {
					return "T"
				}
				return "F"
			}
			src := "{% autoescape off %}{% if " + tv.e + " %}T{% else %}F{% endif %}{% if zero %}a{% elif " + tv.e + " %}T{% else %}F{% endif %}{% if " + tv.e + " and one %}T{% else %}F{% endif %}" +
				"{% if " + tv.e + " or zero %}T{% else %}F{% endif %}{% if not " + tv.e + " %}T{% else %}F{% endif %}{% if one %}{% if " + tv.e + " %}T{% else %}F{% endif %}{% endif %}"
			want := tf(tv.t) + tf(tv.t) + tf(tv.t) + tf(tv.t) + tf(!tv.t) + tf(tv.t)
			if tv.text != "-" {
				src += "|{% firstof zero " + tv.e + " \"Z\" %}|{% firstof " + tv.e + " one %}"
				if tv.t {
					want += "|" + tv.text + "|" + tv.text
				} else {
					want += "|Z|1"
				}
			}
			src += "{% endautoescape %}"
			a := w.args(src, tctx)
			a = append(a, "-", "-", hx(want))
			emit(caseT{"render", a})
		}
		// ifchanged reached again while its own body renders (a macro that calls itself): every
		// activation compares with what was stored when it started
		for _, c := range [][2]string{
			{"{% macro m(n) %}{% ifchanged %}{% if n %}{{ m(n - 1) }}{% else %}x{% endif %}{% endifchanged %}{% endmacro %}[{{ m(1) }}][{{ m(2) }}]", "[x][]"},
			{"{% macro r(n) %}{% ifchanged n %}<{{ n }}{% if n %}{{ r(n - 1) }}{% endif %}>{% else %}={% endifchanged %}{% endmacro %}{{ r(2) }}|{{ r(0) }}", "<2<1<0>>>|="},
		} {
			a := w.args("{% autoescape off %}"+c[0]+"{% endautoescape %}", ctx)
			a = append(a, "-", "-", hx(c[1]))
			emit(caseT{"render", a})
		}
		// Go-typed context data: loops in another order leave the caller's slices alone (also for the
		// next loop and the next execution); integers of different Go kinds compare by value, and
		// ifequal / ifnotequal stay complementary on them
		for i := 0; i < 8; i++ {
			emit(caseT{"gotyped", []string{fmt.Sprint(i)}})
		}
		// ifequal and ifnotequal are complementary for EVERY pair of operands, whatever
		// "equal" means for the pair: exactly one of them takes its first branch
		ops := []string{"nothere", "nil1", "one", "two", "zero", "1", "2", "2.0", "2.5", "f2", "f25", "\"2\"", "\"\"", "sempty", "str", "\"héy\"", "true", "false", "b1", "ws", "w0", "n0", "mp", "m0",
			"ws.0", "\"b\"", "ns.1", "nil1.x", "-2", "0.0", "0"}
		cctx := append(append(gctx{}, ctx...), ctxEntry{"nil1", gNil()}, ctxEntry{"f2", gFloat("2.0")}, ctxEntry{"f25", gFloat("2.5")}, ctxEntry{"b1", gBool(true)})
		for _, a := range ops {
			for _, b := range ops {
				src := "{% ifequal " + a + " " + b + " %}E{% else %}N{% endifequal %}|{% ifnotequal " + a + " " + b + " %}N{% else %}E{% endifnotequal %}" +
					"|{% for q in ns %}{% ifequal " + a + " " + b + " %}e{% endifequal %}{% ifnotequal " + a + " " + b + " %}n{% endifnotequal %}{% endfor %}"
				emit(caseT{"compl", w.args(src, cctx)})
			}
		}
	}
	driveCases(r, gen, func(r *run, c caseT) {
		if c.op == "gotyped" {
			var i int
			fmt.Sscanf(c.args[0], "%d", &i)
			xs, ss, fs := []int{3, 1, 2}, []string{"b", "a", "c"}, []float64{2.5, 0.5}
			cx := func() pongo2.Context {
				return pongo2.Context{"xs": xs, "ss": ss, "fs": fs, "a": uint(3), "b": int64(3), "c": int8(3), "d": 3, "e": uint8(4), "l64": []int64{1, 2, 3, 2}, "lu": []uint{1, 2, 3, 2}}
			}
			var src, want string
			if i%2 == 0 {
				src = "{% for x in xs sorted %}{{ x }} {% endfor %}|{% for x in xs %}{{ forloop.Counter }}:{{ x }} {% endfor %}|{% for x in xs reversed %}{{ x }} {% endfor %}|{% for x in xs reversed sorted %}{{ x }}{% endfor %}|{% for x in xs %}{{ x }}{% endfor %}" +
					"|{% for x in ss sorted %}{{ x }}{% endfor %}|{% for x in ss %}{{ x }}{% endfor %}|{% for x in fs sorted %}{{ x|floatformat:1 }}{% endfor %}|{% for x in fs %}{{ x|floatformat:1 }}{% endfor %}"
				want = "1 2 3 |1:3 2:1 3:2 |2 1 3 |321|312|abc|bac|0.52.5|2.50.5"
			} else {
				pairs := [][2]string{{"a", "3"}, {"b", "3"}, {"c", "d"}, {"a", "b"}, {"e", "4"}, {"a", "e"}, {"b", "4"}, {"c", "c"}}
				for _, p := range pairs {
					src += "{% ifequal " + p[0] + " " + p[1] + " %}E{% else %}N{% endifequal %}{% ifnotequal " + p[0] + " " + p[1] + " %}N{% else %}E{% endifnotequal %}{% if " + p[0] + " == " + p[1] + " %}E{% else %}N{% endif %} "
				}
				want = "EEE EEE EEE EEE EEE NNN NNN EEE "
				src += "|{% for v in l64 %}{% ifequal v 2 %}={% else %}#{% endifequal %}{% ifnotequal v 2 %}#{% else %}={% endifnotequal %}{% endfor %}|{% for v in lu %}{% ifchanged v %}{{ v }}{% endifchanged %}{% endfor %}"
				want += "|##==##==|1232"
			}
			tpl, err := pongo2.FromString(src)
			must(err)
			id := -1
			for k := 0; k < 3; k++ {
				out, xerr, p := execVariant(tpl, cx(), k)
				if (p != nil || xerr != nil || out != want) && id < 0 {
					id = r.emit(c.op, c.args, "gotyped")
					r.reject(id, "control tags over Go-typed context data do not follow their reference semantics (or changed the caller's data)", map[string]any{"template": src, "execution": k + 1, "observed": out, "expected": want, "error": fmt.Sprint(xerr, p)})
				}
			}
			if fmt.Sprint(xs, ss, fs) != "[3 1 2] [b a c] [2.5 0.5]" && id < 0 {
				id = r.emit(c.op, c.args, "gotyped")
				r.reject(id, "a loop reordered the caller's slice", map[string]any{"template": src, "after": fmt.Sprint(xs, ss, fs)})
			}
			if id < 0 {
				r.emit(c.op, c.args, "gotyped")
			}
			r.nontrivial("gotyped" + c.args[0])
			return
		}
		w, src, ctx := worldFromArgs(c.args)
		o, _ := w.render(src, false, ctx)
		op := c.op
		if op == "compl" {
			op = "render"
		}
		id := r.emit(op, c.args, o.obs)
		if c.op == "compl" {
			r.nontrivial(c.args[0])
			if o.err == nil && o.panicked == nil {
				parts := strings.Split(o.out, "|")
				if len(parts) != 3 || parts[0] != parts[1] || (parts[2] != "eeee" && parts[2] != "nnnn") || (parts[0] == "E") != (parts[2] == "eeee") {
					r.reject(id, "ifequal and ifnotequal are not complementary", map[string]any{"template": src, "output": o.out})
				}
			} else if o.panicked != nil {
				r.reject(id, "panic", map[string]any{"template": src, "panic": fmt.Sprint(o.panicked)})
			}
			return
		}
		if id%997 == 0 {
			r.sample(map[string]any{"template": src, "observed": o.obs})
		}
		if o.panicked != nil {
			r.reject(id, "panic", map[string]any{"template": src, "panic": fmt.Sprint(o.panicked)})
			return
		}
		if strings.Contains(src, "{% for ") {
			r.nontrivial(c.args[0])
		}
		if strings.Contains(src, "{% cycle") || strings.Contains(src, "{% ifchanged") || strings.Contains(src, "{% for") {
			// what cycle and ifchanged remember belongs to one execution: a compiled template gives
			// the same on every execution
			if tpl, err := pongo2.FromString(src); err == nil {
				for k := 0; k < 3; k++ {
					out, xerr, p := execVariant(tpl, ctx.goContext(), k)
					if p != nil || (xerr != nil) != (o.err != nil) || (xerr == nil && out != o.out) {
						r.reject(id, "a compiled template does not render the same on every execution", map[string]any{"template": src, "execution": k + 1, "observed": out, "first": o.out})
						return
					}
				}
			}
		}
		if len(c.args) > 9 {
			want := obsOK(unhx(c.args[9]))
			if o.obs != want {
				r.reject(id, "control tags do not follow their reference semantics", map[string]any{"template": src, "observed": o.obs, "expected": unhx(c.args[9])})
			}
		}
	})
	r.finish(nil)
}
