package main

import (
	"bytes"
	"errors"
	"fmt"
	"runtime"
	"strings"
	"sync"

	"github.com/flosch/pongo2/v6"
)

func init() { props["C14"] = runC14 }

// a writer that records what it receives and starts failing once `limit` bytes arrived
type recWriter struct {
	buf   strings.Builder
	limit int // -1 = never fails
	calls int
	late  bool // a failing Write takes the whole block and reports the error with the full count
}

var errWriter = errors.New("verif: writer failed")

func (w *recWriter) Write(p []byte) (int, error) {
	w.calls++
	if w.limit >= 0 && w.buf.Len()+len(p) > w.limit {
		if w.late {
			w.buf.Write(p)
			return len(p), errWriter
		}
		n := w.limit - w.buf.Len()
		if n < 0 {
			n = 0
		}
		w.buf.Write(p[:n])
		return n, errWriter
	}
	w.buf.Write(p)
	return len(p), nil
}

// C14: the four entry points agree; ExecuteWriter is all-or-nothing; the unbuffered variant
// writes only a leading part of the successful output; ExecuteWriter hands the writer's error back.
func runC14(r *run) {
	rg := newRng(r.seed)
	gen := func(emit func(caseT)) {
		n := 1500
		if r.tier == "thorough" {
			n = 40000
		}
		for i := 0; i < n; i++ {
			g := newProgGen(rg.fork(uint64(i)))
			g.allowInc = i%2 == 0
			// sprinkle calls of a context function that fails on its k-th call
			src := g.program(3)
			plain := src
			parts := strings.SplitAfter(src, "%}")
			for j := range parts {
				if g.rg.chance(1, 4) {
					parts[j] += "{{ tick() }}"
				}
			}
			src = strings.Join(parts, "") + "{{ tick() }}"
			w := &world{}
			if len(g.files) > 0 {
				w.files = []map[string]string{g.files}
			}
			emit(caseT{"variants", w.args(src, g.context(i%2))})
			emit(caseT{"render", w.args(plain, g.context(i%2))}) // the same program without the failing function: model correspondence
		}
		// templates without any tag or variable, too (the rejected-context stream below runs on every case)
		for k, src := range []string{"", "plain text", "a{# c #}b", "{% verbatim %}{{ x }}{% endverbatim %}", "\n", "é <p>", "{# only a comment #}"} {
			g := newProgGen(rg.fork(uint64(95000 + k)))
			emit(caseT{"variants", (&world{}).args(src, g.context(0))})
		}
		// tags that collect their body before writing it, failing in the middle of the body
		for k, wr := range [][2]string{{"{% spaceless %}", "{% endspaceless %}"}, {"{% filter upper %}", "{% endfilter %}"}, {"{% macro zm() %}", "{% endmacro %}{{ zm() }}"}, {"{% for c in lst %}{% ifchanged %}", "{% endifchanged %}{% endfor %}"},
			{"{% for c in el %}never{% empty %}", "{% endfor %}"}, {"{% for c in lst %}", "{% empty %}<li>nothing</li>{% endfor %}"}, {"{% block zb %}", "{% endblock %}"}, {"{% with q=1 %}{% spaceless %}", "{% endspaceless %}{% endwith %}"}} {
			g := newProgGen(rg.fork(uint64(96000 + k)))
			src := "<div>" + wr[0] + "<b>{{ tick() }}</b> <i class=\"c{{ tick() }}\">x</i>\n <u>{{ tick() }}</u> " + wr[1] + "</div>{{ tick() }}"
			emit(caseT{"variants", (&world{}).args(src, g.context(0))})
		}
		// output pieces of every size around the usual buffer sizes, written by one node
		// (a text, an include, an ifchanged body, a macro result) after a short start
		for k, size := range []int{1, 63, 64, 255, 256, 511, 512, 513, 1023, 1024, 4095, 4096, 4097, 9000, 70000} {
			row := "<li>row</li>\n"
			var sb strings.Builder
			for sb.Len() < size {
				sb.WriteString(row)
			}
			big := sb.String()[:size]
			files := map[string]string{"big.tpl": big, "bigv.tpl": "{% for q in nums %}" + big + "{% endfor %}"}
			for j, src := range []string{
				"<h1>{{ s1 }}</h1>{% include \"big.tpl\" %}<footer>{{ tick() }}",
				"<h1>{{ s1 }}</h1>{% for c in lst %}{% ifchanged %}" + big + "{{ c }}{% endifchanged %}{% endfor %}<footer>{{ tick() }}",
				"x{% include \"bigv.tpl\" %}{{ tick() }}y{% include \"big.tpl\" %}{{ tick() }}",
				"{% macro mb() %}" + big + "{% endmacro %}a{{ mb() }}b{{ tick() }}{{ mb() }}",
				"a" + big + "{{ tick() }}b",
				"{% set nm = \"big.tpl\" %}h{% include nm %}t{{ tick() }}",
			} {
				g := newProgGen(rg.fork(uint64(90000 + k*10 + j)))
				emit(caseT{"variants", (&world{files: []map[string]string{files}}).args(src, g.context(0))})
			}
		}
		// a content-mode ifchanged inside another one, over every sequence of three pairs
		vals := []string{"", "q", "r", "qr", "zz"}
		nseq := 0
		for a := 0; a < 25 && nseq < 4000; a++ {
			for b := 0; b < 25; b++ {
				for c3 := 0; c3 < 25; c3 += 3 {
					mk := func(i int) *gval {
						return gMap([]string{"a", "b"}, []*gval{gStr(vals[i/5]), gStr(vals[i%5])})
					}
					ctx := gctx{{"items", gList(mk(a), mk(b), mk(c3))}}
					src := "{% for p in items %}{% ifchanged %}{{ p.a }}{% ifchanged %}{{ p.b }}{% endifchanged %}{% endifchanged %}{% endfor %}{{ tick() }}"
					emit(caseT{"variants", (&world{}).args(src, ctx)})
					emit(caseT{"render", (&world{}).args(strings.TrimSuffix(src, "{{ tick() }}"), ctx)})
					nseq++
				}
			}
		}
	}
	gen2 := func(emit func(caseT)) {
		gen(emit)
		// the very first executions of a freshly compiled template, all at once, through all four
		// variants, with the block options on: every one of them gives what a lone execution gives
		for i := 0; i < 24; i++ {
			emit(caseT{"concfirst", []string{fmt.Sprint(i)}})
		}
	}
	driveCases(r, gen2, execC14)
	r.finish(nil)
}

func execConcFirst(r *run, c caseT) {
	var i int
	fmt.Sscanf(c.args[0], "%d", &i)
	var sb strings.Builder
	for k := 0; k < 300; k++ {
		sb.WriteString([]string{"{% if a %}\n\n\nrow\n{% endif %}\n\n", "  \t{% for q in lst %}\n\n {{ q }}\n\n  {% endfor %}\n\n", "{% with z=1 %}\n\n{{ z }}{% endwith %}\n\n  "}[(i+k)%3])
	}
	src := sb.String()
	ctx := func() pongo2.Context { return pongo2.Context{"a": 1, "lst": []int{1, 2}} }
	mk := func() *pongo2.Template {
		set := pongo2.NewSet("concfirst", newMemLoader(map[string]string{"base.tpl": src}))
		if i%2 == 0 {
			set.Options.TrimBlocks, set.Options.LStripBlocks = true, i%4 == 0
		}
		var tpl *pongo2.Template
		var err error
		if i%3 == 0 {
			tpl, err = set.FromString("{% extends \"base.tpl\" %}")
		} else {
			tpl, err = set.FromString(src)
		}
		must(err)
		if i%2 == 1 {
			tpl.Options.TrimBlocks, tpl.Options.LStripBlocks = true, i%4 == 1
		}
		return tpl
	}
	want, werr := mk().Execute(ctx())
	must(werr)
	old := runtime.GOMAXPROCS(4)
	defer runtime.GOMAXPROCS(old)
	id := -1
	for round := 0; round < 10 && id < 0; round++ {
		tpl := mk()
		const k = 6
		outs := make([]string, k)
		var wg sync.WaitGroup
		start := make(chan struct{})
		for gi := 0; gi < k; gi++ {
			wg.Add(1)
			go func(gi int) {
				defer wg.Done()
				<-start
				out, xerr, p := execVariant(tpl, ctx(), gi)
				if xerr != nil || p != nil {
					out = fmt.Sprint("failed: ", xerr, p)
				}
				outs[gi] = out
			}(gi)
		}
		close(start)
		wg.Wait()
		for gi, o := range outs {
			if o != want {
				id = r.emit(c.op, c.args, "concfirst")
				r.reject(id, "one of the first, simultaneous executions of a fresh template gave something else than a lone execution", map[string]any{"round": round, "variant": gi % 4, "length": len(o), "expected_length": len(want)})
				break
			}
		}
	}
	if id < 0 {
		r.emit(c.op, c.args, "concfirst")
	}
	r.nontrivial("concfirst" + c.args[0])
}

func execC14(r *run, c caseT) {
	if c.op == "concfirst" {
		execConcFirst(r, c)
		return
	}
	w, src, ctx := worldFromArgs(c.args)
	if c.op == "render" {
		o, _ := w.render(src, false, ctx)
		id := r.emit(c.op, c.args, o.obs)
		if o.panicked != nil {
			r.reject(id, "panic", map[string]any{"template": src, "panic": fmt.Sprint(o.panicked)})
		}
		return
	}
	b := w.build()
	tpl, err, p := compileIn(b, src, false)
	if p != nil || err != nil {
		r.emit(c.op, c.args, "cerr")
		r.stats["compile_error"]++
		return
	}
	poison, poisoned := "", false
	mkCtx := func(failAt int) (pongo2.Context, *int) {
		calls := 0
		gc := ctx.goContext()
		if poisoned {
			gc[poison] = 1
		}
		gc["tick"] = func() (*pongo2.Value, error) {
			calls++
			if failAt > 0 && calls == failAt {
				return nil, errors.New("injected failure")
			}
			return pongo2.AsValue("."), nil
		}
		return gc, &calls
	}
	type four struct {
		s, b, w, u     string
		wb, wsb        string // ExecuteWriter into a *bytes.Buffer / *strings.Builder holding "PRE"
		ewb, ewsb      bool
		es, eb, ew, eu bool
		panicked       any
	}
	runAll := func(failAt int, limit int) (res four, wbuf, ubuf *recWriter, ewErr error) {
		defer func() {
			if rr := recover(); rr != nil {
				res.panicked = rr
			}
		}()
		c1, _ := mkCtx(failAt)
		s, e1 := tpl.Execute(c1)
		res.s, res.es = s, e1 != nil
		c2, _ := mkCtx(failAt)
		bb, e2 := tpl.ExecuteBytes(c2)
		res.b, res.eb = string(bb), e2 != nil
		c3, _ := mkCtx(failAt)
		wbuf = &recWriter{limit: limit}
		e3 := tpl.ExecuteWriter(c3, wbuf)
		res.w, res.ew = wbuf.buf.String(), e3 != nil
		ewErr = e3
		// the caller's writer may be any io.Writer, in particular the standard buffers
		c3b, _ := mkCtx(failAt)
		bbuf := bytes.NewBufferString("PRE")
		e3b := tpl.ExecuteWriter(c3b, bbuf)
		res.wb, res.ewb = bbuf.String(), e3b != nil
		c3c, _ := mkCtx(failAt)
		var sbuf strings.Builder
		sbuf.WriteString("PRE")
		e3c := tpl.ExecuteWriter(c3c, &sbuf)
		res.wsb, res.ewsb = sbuf.String(), e3c != nil
		c4, _ := mkCtx(failAt)
		ubuf = &recWriter{limit: -1}
		e4 := tpl.ExecuteWriterUnbuffered(c4, ubuf)
		res.u, res.eu = ubuf.buf.String(), e4 != nil
		return
	}
	// baseline: no injection
	base, _, _, _ := runAll(0, -1)
	obs := "xerr"
	if base.panicked != nil {
		obs = "panic"
	} else if !base.es {
		obs = obsOK(base.s)
	}
	id := r.emit(c.op, c.args, obs)
	if id%211 == 0 {
		r.sample(map[string]any{"template": src, "observed": obs})
	}
	detail := map[string]any{"template": src}
	if base.panicked != nil {
		r.reject(id, "panic", map[string]any{"template": src, "panic": fmt.Sprint(base.panicked)})
		return
	}
	check := func(tag string, f four, full string) bool {
		if f.panicked != nil {
			r.reject(id, "panic ("+tag+")", map[string]any{"template": src, "panic": fmt.Sprint(f.panicked)})
			return false
		}
		if f.es != f.eb || f.es != f.ew || f.es != f.eu || f.es != f.ewb || f.es != f.ewsb {
			r.reject(id, "the Execute variants do not fail in the same cases ("+tag+")", detail)
			return false
		}
		if !f.es && !(f.s == f.b && f.s == f.w && f.s == f.u && "PRE"+f.s == f.wb && "PRE"+f.s == f.wsb) {
			r.reject(id, "the Execute variants do not produce the same bytes ("+tag+")", detail)
			return false
		}
		if f.es {
			if f.w != "" || f.wb != "PRE" || f.wsb != "PRE" {
				r.reject(id, "ExecuteWriter wrote to the caller's writer although execution failed ("+tag+")", detail)
				return false
			}
			if full != "" && !strings.HasPrefix(full, f.u) {
				r.reject(id, "ExecuteWriterUnbuffered wrote something that is not a leading part of the successful output ("+tag+")", map[string]any{"template": src, "written": f.u, "full": full})
				return false
			}
		}
		return true
	}
	if !check("no fault", base, "") {
		return
	}
	if base.es {
		r.stats["base_exec_error"]++
		return
	}
	r.nontrivial(c.args[0])
	// every position at which the k-th evaluated tick() fails
	nticks := strings.Count(base.s, ".") + 1
	if nticks > 12 {
		nticks = 12
	}
	for k := 1; k <= nticks; k++ {
		f, _, _, _ := runAll(k, -1)
		if !f.es && f.s != base.s {
			r.reject(id, "an execution after a failed one differs", detail)
			return
		}
		if !check(fmt.Sprintf("tick %d fails", k), f, base.s) {
			return
		}
		r.stats["fault_positions"]++
	}
	// a context function that panics, and one that renders the same template again (into another
	// writer) while it is being rendered: whichever entry point is used, the same happens
	each := func(mk func() pongo2.Context) (outs [4]string, st [4]string) {
		run := func(k int, f func(cx pongo2.Context) (string, error)) {
			defer func() {
				if rr := recover(); rr != nil {
					st[k] = "panic"
				}
			}()
			o, e := f(mk())
			outs[k] = o
			st[k] = "ok"
			if e != nil {
				st[k] = "err"
			}
		}
		run(0, func(cx pongo2.Context) (string, error) { return tpl.Execute(cx) })
		run(1, func(cx pongo2.Context) (string, error) { b, e := tpl.ExecuteBytes(cx); return string(b), e })
		run(2, func(cx pongo2.Context) (string, error) {
			var sb strings.Builder
			e := tpl.ExecuteWriter(cx, &sb)
			return sb.String(), e
		})
		run(3, func(cx pongo2.Context) (string, error) {
			var sb strings.Builder
			e := tpl.ExecuteWriterUnbuffered(cx, &sb)
			return sb.String(), e
		})
		return
	}
	for k := 1; k <= nticks && k <= 4; k++ {
		_, st := each(func() pongo2.Context {
			calls := 0
			gc := ctx.goContext()
			gc["tick"] = func() (*pongo2.Value, error) {
				calls++
				if calls == k {
					var m map[string]int
					m["boom"] = 1 // panics
				}
				return pongo2.AsValue("."), nil
			}
			return gc
		})
		if st[0] != st[1] || st[0] != st[2] || st[0] != st[3] {
			r.reject(id, "the Execute variants do not behave alike when a context function panics", map[string]any{"template": src, "tick": k,
				"outcome": map[string]string{"Execute": st[0], "ExecuteBytes": st[1], "ExecuteWriter": st[2], "ExecuteWriterUnbuffered": st[3]}})
			return
		}
		inner := [2]string{}
		invoked := 0
		outs, st2 := each(func() pongo2.Context {
			calls := 0
			gc := ctx.goContext()
			plainCtx := func() pongo2.Context {
				pc := ctx.goContext()
				pc["tick"] = func() (*pongo2.Value, error) { return pongo2.AsValue("."), nil }
				return pc
			}
			gc["tick"] = func() (*pongo2.Value, error) {
				calls++
				if calls == k {
					invoked++
					var ib strings.Builder
					_ = tpl.ExecuteWriterUnbuffered(plainCtx(), &ib)
					inner[0] = ib.String()
					inner[1], _ = tpl.Execute(plainCtx())
				}
				return pongo2.AsValue("."), nil
			}
			return gc
		})
		for v := 0; v < 4; v++ {
			if st2[v] != "ok" || outs[v] != base.s || (invoked == 4 && (inner[0] != base.s || inner[1] != base.s)) {
				r.reject(id, "rendering a template again while it is being rendered (from a context function, into another writer) disturbed one of the renderings", map[string]any{"template": src, "tick": k,
					"variant": []string{"Execute", "ExecuteBytes", "ExecuteWriter", "ExecuteWriterUnbuffered"}[v], "outer": outs[v], "inner_unbuffered": inner[0], "inner_execute": inner[1], "expected": base.s})
				return
			}
		}
	}
	// the same with the set in debug mode: what the unbuffered variant wrote before a failure is
	// still a leading part of the successful output, nothing else
	{
		b2 := w.build()
		b2.set.Debug = true
		if tpl2, err2, p2 := compileIn(b2, src, false); err2 == nil && p2 == nil {
			for k := 1; k <= nticks && k <= 3; k++ {
				cx, _ := mkCtx(k)
				ub := &recWriter{limit: -1}
				xerr := tpl2.ExecuteWriterUnbuffered(cx, ub)
				if xerr != nil && !strings.HasPrefix(base.s, ub.buf.String()) {
					r.reject(id, "ExecuteWriterUnbuffered (set in debug mode) wrote something that is not a leading part of the successful output", map[string]any{"template": src, "tick": k, "written": ub.buf.String(), "full": base.s})
					return
				}
				cx2, _ := mkCtx(k)
				var sb strings.Builder
				sb.WriteString("PRE")
				if e := tpl2.ExecuteWriter(cx2, &sb); e != nil && sb.String() != "PRE" {
					r.reject(id, "ExecuteWriter (set in debug mode) wrote to the caller's writer although execution failed", map[string]any{"template": src, "tick": k, "written": sb.String()})
					return
				}
			}
		}
	}
	// a context the engine rejects is rejected by every variant, with nothing written
	for _, bad := range []string{"not an identifier", "k-ey", ""} {
		poison, poisoned = bad, true
		f, _, _, _ := runAll(0, -1)
		poison, poisoned = "", false
		if f.panicked != nil {
			r.reject(id, "panic with a rejected context", map[string]any{"template": src, "key": bad, "panic": fmt.Sprint(f.panicked)})
			return
		}
		if !(f.es && f.eb && f.ew && f.eu && f.ewb && f.ewsb) {
			r.reject(id, "a context with an invalid key is not rejected by every Execute variant", map[string]any{"template": src, "key": bad,
				"failed": map[string]bool{"Execute": f.es, "ExecuteBytes": f.eb, "ExecuteWriter": f.ew, "ExecuteWriterUnbuffered": f.eu}})
			return
		}
		if f.w != "" || f.u != "" || f.wb != "PRE" {
			r.reject(id, "a rejected context left output in the caller's writer", map[string]any{"template": src, "key": bad})
			return
		}
	}
	// every position at which the caller's writer starts failing
	for _, lim := range []int{0, 1, len(base.s) / 2, len(base.s) - 1} {
		if lim < 0 || lim >= len(base.s) {
			continue
		}
		// a writer may notice its error only after taking the data: (len(p), err) is an error too
		lw := &recWriter{limit: lim, late: true}
		cl, _ := mkCtx(0)
		if lerr := tpl.ExecuteWriter(cl, lw); lerr == nil || !errors.Is(lerr, errWriter) {
			r.reject(id, "ExecuteWriter did not hand back the error of a writer that reports it together with the full count", map[string]any{"template": src, "limit": lim, "returned": fmt.Sprint(lerr)})
			return
		}
		f, wbuf, _, ewErr := runAll(0, lim)
		if f.panicked != nil {
			r.reject(id, "panic with a failing writer", map[string]any{"template": src, "panic": fmt.Sprint(f.panicked)})
			return
		}
		if ewErr == nil || !errors.Is(ewErr, errWriter) {
			r.reject(id, "ExecuteWriter did not hand the writer's error back", map[string]any{"template": src, "limit": lim, "returned": fmt.Sprint(ewErr)})
			return
		}
		if !strings.HasPrefix(base.s, wbuf.buf.String()) {
			r.reject(id, "a failing writer received something that is not a leading part of the output", detail)
			return
		}
		r.stats["writer_fault_positions"]++
	}
	// unbuffered with a failing writer must not panic (include flushes into it)
	func() {
		defer func() {
			if rr := recover(); rr != nil {
				r.reject(id, "panic: unbuffered execution with a failing writer", map[string]any{"template": src, "panic": fmt.Sprint(rr)})
			}
		}()
		c5, _ := mkCtx(0)
		_ = tpl.ExecuteWriterUnbuffered(c5, &recWriter{limit: 3})
	}()
}
