// Harness for the correspondence check: generates inputs from one PRNG state, runs the
// real pongo2 code (built from /repo's working tree with -tags verif), and records
// projected, canonicalised observables, plus the verdict of the implementation-level
// oracle of each property.
package main

import (
	"bufio"
	"encoding/hex"
	"encoding/json"
	"fmt"
	"github.com/flosch/pongo2/v6"
	"os"
	"path/filepath"
	"sort"
	"strings"
)

// ---- PRNG: splitmix64, the only source of randomness ----

type rng struct{ s uint64 }

func newRng(seed uint64) *rng { return &rng{s: seed} }

func (r *rng) next() uint64 {
	r.s += 0x9E3779B97F4A7C15
	z := r.s
	z = (z ^ (z >> 30)) * 0xBF58476D1CE4E5B9
	z = (z ^ (z >> 27)) * 0x94D049BB133111EB
	return z ^ (z >> 31)
}
func (r *rng) intn(n int) int {
	if n <= 0 {
		return 0
	}
	return int(r.next() % uint64(n))
}
func (r *rng) chance(num, den int) bool { return r.intn(den) < num }
func (r *rng) pick(l []string) string   { return l[r.intn(len(l))] }
func (r *rng) fork(tag uint64) *rng     { return newRng(r.next() ^ (tag * 0x9E3779B97F4A7C15)) }

// ---- output ----

type run struct {
	prop   string
	tier   string
	seed   uint64
	outdir string

	cases  *bufio.Writer // id \t op \t hex args...   (input of the model driver)
	impl   *bufio.Writer // id \t observation        (what the real code did)
	fc, fi *os.File

	n           int
	oracleFail  []map[string]any
	stats       map[string]int
	samples     []map[string]any
	distinct    map[string]struct{}
	findingSeen map[string]int
}

func newRun(prop, tier string, seed uint64, outdir string) *run {
	must(os.MkdirAll(outdir, 0o755))
	fc, err := os.Create(filepath.Join(outdir, "cases.tsv"))
	must(err)
	fi, err := os.Create(filepath.Join(outdir, "impl.tsv"))
	must(err)
	return &run{prop: prop, tier: tier, seed: seed, outdir: outdir,
		cases: bufio.NewWriterSize(fc, 1<<20), impl: bufio.NewWriterSize(fi, 1<<20), fc: fc, fi: fi,
		stats: map[string]int{}, distinct: map[string]struct{}{}}
}

func must(err error) {
	if err != nil {
		fmt.Fprintln(os.Stderr, "harness:", err)
		os.Exit(3)
	}
}

func hx(s string) string {
	if s == "" {
		return "-"
	}
	return hex.EncodeToString([]byte(s))
}

// emit records one case: the model input line and the implementation's observation.
func (r *run) emit(op string, args []string, obs string) int {
	id := r.n
	r.n++
	fmt.Fprintf(r.cases, "%d\t%s", id, op)
	for _, a := range args {
		r.cases.WriteByte('\t')
		r.cases.WriteString(a)
	}
	r.cases.WriteByte('\n')
	fmt.Fprintf(r.impl, "%d\t%s\n", id, obs)
	if childMode {
		r.cases.Flush()
		r.impl.Flush()
	}
	r.stats["op:"+op]++
	return id
}

// nontrivial records a case key that counts as distinct and non-trivial by the
// property's stated rule.
func (r *run) nontrivial(key string) { r.distinct[key] = struct{}{} }

func (r *run) sample(m map[string]any) {
	if len(r.samples) < 12 {
		r.samples = append(r.samples, m)
	}
}

// reject records a case the implementation-level oracle refuses.
func (r *run) reject(id int, what string, detail map[string]any) {
	if childMode {
		f, err := os.OpenFile(filepath.Join(r.outdir, "rejects.tsv"), os.O_APPEND|os.O_CREATE|os.O_WRONLY, 0o644)
		if err == nil {
			fmt.Fprintf(f, "%d\t%s\n", id, what)
			f.Close()
		}
	}
	if len(r.oracleFail) >= 200 && !strings.HasPrefix(what, "KF:") {
		r.stats["oracle_reject_dropped"]++
		return
	}
	m := map[string]any{"case": id, "what": what}
	if strings.HasPrefix(what, "KF:") {
		// the oracle recognised the exact signature of a recorded finding
		sp := strings.SplitN(what[3:], " ", 2)
		m["finding"] = sp[0]
		if len(sp) > 1 {
			m["what"] = sp[1]
		}
		r.stats["finding:"+sp[0]]++
		if r.findingSeen == nil {
			r.findingSeen = map[string]int{}
		}
		r.findingSeen[sp[0]]++
		if r.findingSeen[sp[0]] > 3 {
			return // keep a few witnesses per finding, count the rest
		}
	}
	for k, v := range detail {
		m[k] = v
	}
	r.oracleFail = append(r.oracleFail, m)
}

func (r *run) finish(extra map[string]any) {
	must(r.cases.Flush())
	must(r.impl.Flush())
	r.fc.Close()
	r.fi.Close()
	keys := make([]string, 0, len(r.stats))
	for k := range r.stats {
		keys = append(keys, k)
	}
	sort.Strings(keys)
	out := map[string]any{
		"property": r.prop, "tier": r.tier, "seed": r.seed, "cases": r.n,
		"distinct_nontrivial": len(r.distinct), "stats": r.stats, "samples": r.samples,
		"oracle_rejects": r.oracleFail,
	}
	for k, v := range extra {
		out[k] = v
	}
	b, err := json.MarshalIndent(out, "", " ")
	must(err)
	must(os.WriteFile(filepath.Join(r.outdir, "harness.json"), b, 0o644))
}

func obsOK(s string) string { return "ok:" + hx(s) }
func obsErr() string        { return "err" }
func joinHex(l []string) string {
	p := make([]string, len(l))
	for i, s := range l {
		p[i] = hx(s)
	}
	return strings.Join(p, ",")
}

// registeredTags: the engine's tags plus the probe tag the model knows as an extra tag; the
// harness's other helper tags (Go-only cases) are left out
func registeredTags() []string {
	var out []string
	for _, t := range pongo2.VerifRegisteredTags() {
		if t != "verifstatetag" {
			out = append(out, t)
		}
	}
	return out
}
