package main

import (
	"fmt"
	"github.com/flosch/pongo2/v6"
	"strings"
)

func init() { props["C15"] = runC15 }

// C15: a document is a sequence  text construct text construct ... text ; every construct
// gets a subset of the four "-" positions, and the four TrimBlocks x LStripBlocks settings
// are tried. The marked document under the options must render like the hand-stripped
// document (plain delimiters, options off).

type c15Construct struct {
	isBlock    bool   // {% ... %} ... {% end %} (two tags) vs {{ ... }}
	open, body string // for blocks: opening tag content, inner text; for variables: expression
	end        string
	tight      bool    // no blank between a delimiter and the content: {{-1}}, {%-if a-%}
	dash       [4]bool // variable: [0]={{- [1]=-}} ; block: [0]={%- open [1]=-%} open [2]={%- end [3]=-%} end
}

const c15WS = " \t\r\n"

func c15Run(g *rng) string {
	var sb strings.Builder
	for i := 0; i < g.intn(4); i++ {
		sb.WriteString(g.pick([]string{" ", "\t", "\r", "\n", "\n\n", "  ", " \n"}))
	}
	return sb.String()
}

func c15Text(g *rng) string {
	return c15Run(g) + g.pick([]string{"w", "word", "a b", ".", "x\ny", ""}) + c15Run(g)
}

// render the marked form
func (c *c15Construct) marked(inner string) string {
	d := func(b bool, s string, left bool) string {
		if !b {
			return s
		}
		if left {
			return s + "-"
		}
		return "-" + s
	}
	sp := " "
	if c.tight {
		sp = "" // nothing between the delimiter (with its marker) and the content
	}
	if !c.isBlock {
		return d(c.dash[0], "{{", true) + sp + c.open + sp + d(c.dash[1], "}}", false)
	}
	return d(c.dash[0], "{%", true) + sp + c.open + sp + d(c.dash[1], "%}", false) + inner +
		d(c.dash[2], "{%", true) + sp + c.end + sp + d(c.dash[3], "%}", false)
}
func (c *c15Construct) plain(inner string) string {
	if !c.isBlock {
		return "{{ " + c.open + " }}"
	}
	return "{% " + c.open + " %}" + inner + "{% " + c.end + " %}"
}

func runC15(r *run) {
	rg := newRng(r.seed)
	ctx := gctx{{"a", gInt(1)}, {"s", gStr("S")}, {"lst", gList(gInt(1), gInt(2))}}
	gen := func(emit func(caseT)) {
		n := 700
		if r.tier == "thorough" {
			n = 12000
		}
		for i := 0; i < n; i++ {
			g := rg.fork(uint64(i))
			nc := 1 + g.intn(3)
			texts := []string{c15Text(g)}
			var cons []*c15Construct
			var inners []string
			for k := 0; k < nc; k++ {
				c := &c15Construct{}
				switch g.intn(4) {
				case 0:
					c.open = g.pick([]string{"s", "a", "\"lit\"", "s|lower", "1", "12", "0", "a + 1", "2.5"})
				case 1:
					c.isBlock, c.open, c.end = true, "if a", "endif"
				case 2:
					c.isBlock, c.open, c.end = true, "for i in lst", "endfor"
				default:
					c.isBlock, c.open, c.end = true, "with z=1", "endwith"
				}
				c.tight = g.chance(1, 3)
				cons = append(cons, c)
				inners = append(inners, c15Text(g))
				texts = append(texts, c15Text(g))
			}
			// a {# comment #} inside a text (marked by a NUL here) splits it into two texts: only
			// the part that touches a delimiter is that delimiter's adjacent text
			for k := range texts {
				if len(texts[k]) >= 2 && g.chance(1, 3) {
					at := 1 + g.intn(len(texts[k])-1)
					texts[k] = texts[k][:at] + "\x00" + texts[k][at:]
				}
			}
			// every subset of the four dash positions of the first construct, a random subset for the others
			for mask := 0; mask < 16; mask++ {
				for k, c := range cons {
					m := mask
					if k > 0 {
						m = g.intn(16)
					}
					for b := 0; b < 4; b++ {
						c.dash[b] = m&(1<<b) != 0
					}
					if !c.isBlock {
						c.dash[2], c.dash[3] = false, false
					}
				}
				for opt := 0; opt < 4; opt++ {
					trim, lstrip := opt&1 != 0, opt&2 != 0
					marked, stripped := c15Build(texts, inners, cons, trim, lstrip)
					w := &world{trim: trim, lstrip: lstrip}
					a := w.args(marked, ctx)
					a = append(a, "-", "-", hx(stripped))
					emit(caseT{"render", a})
				}
			}
		}
		// spaceless
		ns := 3000
		if r.tier == "thorough" {
			ns = 60000
		}
		for i := 0; i < ns; i++ {
			g := rg.fork(uint64(1000000 + i))
			var sb strings.Builder
			for k := 0; k < 2+g.intn(6); k++ {
				sb.WriteString(g.pick([]string{"<b>", "</b>", "<p>", "<br/>", "<a href=x>", " ", "\n", "\t", "  ", "text", "a > b", "1 < 2", ">", "<", "x", "\n\n", "<i>", " <", "> "}))
			}
			emit(caseT{"spaceless", (&world{}).args("{% spaceless %}"+sb.String()+"{% endspaceless %}", nil)})
		}
	}
	driveCases(r, func(emit func(caseT)) {
		gen(emit)
		// block options switched on for ONE template (not the set): the files it includes - named
		// by a literal or by an expression - are templates of their own and keep the set's options
		for i := 0; i < 64; i++ {
			emit(caseT{"tplopts", []string{fmt.Sprint(i)}})
		}
		// the block options of the SET apply to every file of the set, however it is reached:
		// directly, by include (literal or computed name), by ssi parsed, as a parent
		for i := 0; i < 48; i++ {
			emit(caseT{"routes", []string{fmt.Sprint(i)}})
		}
		// the same against the model: a base with block tags on lines of their own, a child, the
		// set's options in all four settings
		for opt := 0; opt < 4; opt++ {
			for bi, base := range []string{"<ul>\n  {% for q in lst %}\n  <li>{{ q }}</li>\n    \t{% endfor %}\n</ul>\n", "  {% if a %}\nP\n\t{% endif %}\nQ\n{% block b %}\n base \n  {% endblock %}\n!",
				"\n{% block b %}{% endblock %}\n\n  {% if a %} x {% endif %}  \n"} {
				for ci, child := range []string{"{% extends \"base.tpl\" %}", "{% extends \"base.tpl\" %}\n{% block b %}\n  child\n  {% if a %}\n y\n  {% endif %}\n{% endblock %}\n"} {
					w := &world{trim: opt&1 != 0, lstrip: opt&2 != 0, files: []map[string]string{{"base.tpl": base, "inc.tpl": "{% include \"base.tpl\" %}"}}}
					emit(caseT{"render", append(w.args(child, ctx), "-", "-", "norefcheck")})
					if bi+ci == 0 {
						emit(caseT{"render", append(w.args("{% include \"inc.tpl\" %}{% ssi \"base.tpl\" parsed %}", ctx), "-", "-", "norefcheck")})
					}
				}
			}
		}
		// spaceless reached again while its body is being rendered (a macro that calls itself)
		for i := 0; i < 40; i++ {
			g := rg.fork(uint64(2000000 + i))
			pieces := []string{"<li>", "</li>", " ", "\n", "<b>", "</b>", "x", " <i> ", "t "}
			var pre, post strings.Builder
			for k := 0; k < 1+g.intn(4); k++ {
				pre.WriteString(g.pick(pieces))
				post.WriteString(g.pick(pieces))
			}
			src := "{% macro tree(n) %}{% spaceless %}" + pre.String() + "{{ n }}{% if n > 0 %} {{ tree(n - 1) }} {% endif %}" + post.String() + "{% endspaceless %}{% endmacro %}{{ tree(" + fmt.Sprint(g.intn(4)) + ") }}"
			emit(caseT{"render", append((&world{}).args(src, nil), "-", "-", "norefcheck")})
		}
	}, execC15)
	r.finish(nil)
}

func execRoutes(r *run, c caseT) {
	var i int
	fmt.Sscanf(c.args[0], "%d", &i)
	trim, lstrip := i&1 != 0, i&2 != 0
	part := []string{"<ul>\n  {% for q in lst %}\n  <li>{{ q }}</li>\n    \t{% endfor %}\n</ul>\n", "  {% if a %}\nP\n\t{% endif %}\nQ\n", "\n{% with z=1 %}\n\n{{ z }}{% endwith %}\n \n", "{% if a %}{% endif %}\n\n  {% if a %} x {% endif %}  \n"}[(i>>2)&3]
	route := (i >> 4) % 3
	files := map[string]string{"part.tpl": part, "inc.tpl": "{% include \"part.tpl\" %}", "lazy.tpl": "{% include nm %}", "ssi.tpl": "{% ssi \"part.tpl\" parsed %}",
		"child.tpl": "{% extends \"part.tpl\" %}"}
	ctx := func() pongo2.Context { return pongo2.Context{"a": 1, "lst": []int{1, 2}, "nm": "part.tpl"} }
	mk := func() *pongo2.TemplateSet {
		set := pongo2.NewSet("routes", newMemLoader(files))
		set.Options.TrimBlocks, set.Options.LStripBlocks = trim, lstrip
		return set
	}
	render := func(name string) string {
		set := mk()
		var out string
		var err error
		switch route {
		case 0:
			out, err = set.RenderTemplateFile(name, ctx())
		case 1:
			var tpl *pongo2.Template
			if tpl, err = set.FromCache(name); err == nil {
				out, err = tpl.Execute(ctx())
			}
		default:
			var tpl *pongo2.Template
			if tpl, err = set.FromFile(name); err == nil {
				_, _ = tpl.Execute(ctx())
				out, err = tpl.Execute(ctx())
			}
		}
		if err != nil {
			return "err:" + err.Error()
		}
		return out
	}
	want := render("part.tpl")
	id := r.emit(c.op, c.args, "routes")
	r.nontrivial("routes" + c.args[0])
	for _, name := range []string{"inc.tpl", "lazy.tpl", "ssi.tpl", "child.tpl"} {
		if got := render(name); got != want {
			r.reject(id, "a file renders differently under the set's block options when it is reached through another template", map[string]any{"file": part, "through": files[name],
				"trim_blocks": trim, "lstrip_blocks": lstrip, "direct": want, "observed": got})
			return
		}
	}
}

func execTplOpts(r *run, c caseT) {
	var i int
	fmt.Sscanf(c.args[0], "%d", &i)
	trim, lstrip := i&1 != 0, i&2 != 0
	partial := []string{"  {% if a %}\nP\n\t{% endif %}\nQ\n", "{% for q in lst %}\n {{ q }}\n  {% endfor %}\n", "\n{% if a %}\n{% endif %}\n", "plain\n  text\n"}[(i>>2)&3]
	pageTpl := []string{"A\n  {% if a %}\nB\n  {% endif %}\n[@1@]\n", "{% for q in lst %}\n<@1@>\n  {% endfor %}\n@2@", "  {% with z=1 %}\n@2@\n{% endwith %}\n@1@"}[(i>>4)%3]
	page := strings.ReplaceAll(strings.ReplaceAll(pageTpl, "@1@", "{% include nm %}"), "@2@", "{% include \"p.tpl\" %}")
	ctx := func() pongo2.Context { return pongo2.Context{"a": 1, "lst": []int{1, 2}, "nm": "p.tpl"} }
	set := pongo2.NewSet("tplopts", newMemLoader(map[string]string{"p.tpl": partial}))
	// the partial alone, under the set's options (off)
	pOut, perr := set.RenderTemplateFile("p.tpl", ctx())
	must(perr)
	// the page's own text under the template's options
	skel := pongo2.NewSet("tplopts-skel", newMemLoader(nil))
	st, serr := skel.FromString(strings.ReplaceAll(strings.ReplaceAll(pageTpl, "@1@", "{% firstof \"@1@\" %}"), "@2@", "{% firstof \"@2@\" %}"))
	must(serr)
	st.Options.TrimBlocks, st.Options.LStripBlocks = trim, lstrip
	sOut, serr2 := st.Execute(ctx())
	must(serr2)
	want := strings.ReplaceAll(strings.ReplaceAll(sOut, "@1@", pOut), "@2@", pOut)
	tpl, err := set.FromString(page)
	must(err)
	tpl.Options.TrimBlocks, tpl.Options.LStripBlocks = trim, lstrip
	got, xerr := tpl.Execute(ctx())
	again, xerr2 := tpl.Execute(ctx())
	id := r.emit(c.op, c.args, "tplopts")
	r.nontrivial("tplopts" + c.args[0])
	if xerr != nil || xerr2 != nil || got != want || again != want {
		r.reject(id, "block options of one template changed how the files it includes are rendered (or were not applied to its own text)", map[string]any{"page": page, "partial": partial,
			"trim_blocks": trim, "lstrip_blocks": lstrip, "observed": got, "second_execution": again, "expected": want})
	}
}

// c15Build gives the marked source and the source from which the named white space was
// deleted by hand (plain delimiters; to be rendered with the options off).
func c15Build(texts, inners []string, cons []*c15Construct, trim, lstrip bool) (string, string) {
	var marked strings.Builder
	// pieces of literal text with what stands left and right of them
	type piece struct {
		txt                     string
		afterBlock, beforeBlock bool // directly after a %} / directly before a {%
		dashLeft, dashRight     bool // the neighbouring delimiter on that side carries a dash
	}
	var out strings.Builder
	strip := func(p piece) string {
		t := p.txt
		if lstrip && p.beforeBlock {
			t = strings.TrimRight(t, "\t ")
		}
		if trim && p.afterBlock && strings.HasPrefix(t, "\n") {
			t = t[1:]
		}
		if p.dashLeft {
			t = strings.TrimLeft(t, c15WS)
		}
		if p.dashRight {
			t = strings.TrimRight(t, c15WS)
		}
		return t
	}
	for k := range texts {
		// the text before construct k (or the final text)
		p := piece{txt: texts[k]}
		if k > 0 {
			prev := cons[k-1]
			p.afterBlock = prev.isBlock
			if prev.isBlock {
				p.dashLeft = prev.dash[3]
			} else {
				p.dashLeft = prev.dash[1]
			}
		}
		if k < len(cons) {
			p.beforeBlock = cons[k].isBlock
			p.dashRight = cons[k].dash[0]
		}
		if p.txt == "" {
			// no text token at all: nothing to strip (and neighbours become adjacent)
		}
		if i := strings.IndexByte(p.txt, 0); i >= 0 {
			marked.WriteString(p.txt[:i] + "{# c #}" + p.txt[i+1:])
			left, right := p, p
			left.txt, left.beforeBlock, left.dashRight = p.txt[:i], false, false
			right.txt, right.afterBlock, right.dashLeft = p.txt[i+1:], false, false
			out.WriteString(strip(left) + strip(right))
		} else {
			marked.WriteString(p.txt)
			out.WriteString(strip(p))
		}
		if k < len(cons) {
			c := cons[k]
			marked.WriteString(c.marked(inners[k]))
			if c.isBlock {
				ip := piece{txt: inners[k], afterBlock: true, beforeBlock: true, dashLeft: c.dash[1], dashRight: c.dash[2]}
				body := strip(ip)
				if c.end == "endfor" {
					out.WriteString(c.plain(body))
				} else {
					out.WriteString(c.plain(body))
				}
			} else {
				out.WriteString(c.plain(""))
			}
		}
	}
	return marked.String(), out.String()
}

// spacelessRef: remove exactly the white-space runs that lie between two HTML tags, where a
// tag is '<' ... '>' on one line (pongo2's reading: the '>' before the run closes something
// opened by a '<' earlier on its line, the '<' after the run is closed by a '>' later on
// its line); repeated until nothing changes.
func spacelessRef(s string) string {
	isWS := func(b byte) bool { return b == '\t' || b == '\n' || b == '\v' || b == '\f' || b == '\r' || b == ' ' }
	for {
		var sb strings.Builder
		changed := false
		i := 0
		for i < len(s) {
			if isWS(s[i]) && i > 0 && s[i-1] == '>' {
				k := i
				for k < len(s) && isWS(s[k]) {
					k++
				}
				okBefore := false
				for j := i - 2; j >= 0 && s[j] != '\n'; j-- {
					if s[j] == '<' {
						okBefore = true
						break
					}
				}
				okAfter := false
				if k < len(s) && s[k] == '<' {
					for j := k + 1; j < len(s) && s[j] != '\n'; j++ {
						if s[j] == '>' {
							okAfter = true
							break
						}
					}
				}
				if okBefore && okAfter {
					i = k
					changed = true
					continue
				}
			}
			sb.WriteByte(s[i])
			i++
		}
		s = sb.String()
		if !changed {
			return s
		}
	}
}

func execC15(r *run, c caseT) {
	if c.op == "tplopts" {
		execTplOpts(r, c)
		return
	}
	if c.op == "routes" {
		execRoutes(r, c)
		return
	}
	w, src, ctx := worldFromArgs(c.args)
	o, _ := w.render(src, false, ctx)
	id := r.emit(c.op, c.args, o.obs)
	if id%2003 == 0 {
		r.sample(map[string]any{"source": src, "options": w.opts(), "observed": o.obs})
	}
	if o.panicked != nil {
		r.reject(id, "panic", map[string]any{"source": src, "panic": fmt.Sprint(o.panicked)})
		return
	}
	if c.op == "spaceless" {
		body := strings.TrimSuffix(strings.TrimPrefix(src, "{% spaceless %}"), "{% endspaceless %}")
		r.nontrivial(c.args[0])
		if o.obs != obsOK(spacelessRef(body)) {
			r.reject(id, "spaceless does not remove exactly the white space between two tags", map[string]any{"body": body, "observed": o.obs, "expected": spacelessRef(body)})
		}
		return
	}
	if len(c.args) > 9 && c.args[9] == "norefcheck" {
		r.nontrivial(c.args[0])
		return // compared with the model only
	}
	stripped := unhx(c.args[9])
	plain := &world{}
	po, _ := plain.render(stripped, false, ctx)
	if strings.Contains(src, "-") {
		r.nontrivial(c.args[0] + c.args[3])
	}
	if po.obs == o.obs && (w.trim || w.lstrip) && !strings.Contains(src, "-") {
		// the same through a history: compiled and executed with the options off, then the
		// options are switched on for this template and it is executed again
		// through the set's render shortcuts, the set's options switched on between two calls
		{
			set := pongo2.NewSet("c15hist", newMemLoader(map[string]string{"f.tpl": src}))
			for route := 0; route < 3; route++ {
				set.Options.TrimBlocks, set.Options.LStripBlocks = false, false
				call := func() (string, error) {
					switch route {
					case 0:
						return set.RenderTemplateString(src, ctx.goContext())
					case 1:
						return set.RenderTemplateBytes([]byte(src), ctx.goContext())
					}
					return set.RenderTemplateFile("f.tpl", ctx.goContext())
				}
				first, e1 := call()
				set.Options.TrimBlocks, set.Options.LStripBlocks = w.trim, w.lstrip
				second, e2 := call()
				if e1 == nil && e2 == nil && obsOK(second) != o.obs {
					r.reject(id, "block options switched on in the set between two renderings of the same source are not applied",
						map[string]any{"source": src, "options": w.opts(), "route": []string{"RenderTemplateString", "RenderTemplateBytes", "RenderTemplateFile"}[route], "first": first, "second": second, "fresh": o.obs})
					return
				}
			}
		}
		if tpl, err := pongo2.FromString(src); err == nil {
			first, e1 := tpl.Execute(ctx.goContext())
			tpl.Options.TrimBlocks, tpl.Options.LStripBlocks = w.trim, w.lstrip
			second, e2 := tpl.Execute(ctx.goContext())
			if e1 == nil && e2 == nil && obsOK(second) != o.obs {
				r.reject(id, "block options switched on after a first execution are not applied like on a fresh template",
					map[string]any{"source": src, "options": w.opts(), "first": first, "second": second, "fresh": o.obs})
				return
			}
		}
	}
	if po.obs != o.obs {
		r.reject(id, "the marked source does not render like the source with that white space deleted by hand",
			map[string]any{"marked": src, "options": w.opts(), "handstripped": stripped, "observed": o.obs, "expected": po.obs})
	}
}
