package main

import (
	"errors"
	"fmt"
	"os"
	"path/filepath"
	"sort"
	"strconv"
	"strings"

	"github.com/flosch/pongo2/v6"
)

func init() { props["C16"] = runC16 }

var lexAlphabet = []string{"{", "}", "%", "#", "-", " ", "\n", "\"", "'", "\\", "a", "1", ".", "\x01", "\xff", "="}

// exhaustive strings over the lexer-significant alphabet
func genLexExhaustive(maxLen int, emit func(string)) {
	var rec func(prefix string, n int)
	rec = func(prefix string, n int) {
		emit(prefix)
		if n == 0 {
			return
		}
		for _, a := range lexAlphabet {
			rec(prefix+a, n-1)
		}
	}
	rec("", maxLen)
}

func runC16(r *run) {
	rg := newRng(r.seed)
	gen := func(emit func(caseT)) {
		maxLen := 4
		nprog := 6000
		if r.tier == "thorough" {
			maxLen = 5
			nprog = 150000
		}
		genLexExhaustive(maxLen, func(s string) { emit(caseT{"lex", []string{hx(s)}}) })
		for i := 0; i < nprog; i++ {
			g := newDocGen(rg.fork(uint64(i)))
			g.layout = true
			g.broken = i%2 == 0
			src := g.doc(2)
			emit(caseT{"lex", []string{hx(src)}})
			// the same construct with text inserted in front (position shift)
			pre := g.rg.pick([]string{"x", "ab\n", "\n\n  ", "é\r\nzz", "12345", "\ufeff", "\ufeffab", "\xef\xbb", "\u2028", "\x00", "\t"})
			emit(caseT{"lexshift", []string{hx(pre), hx(src)}})
		}
		for i := 0; i < 40; i++ {
			emit(caseT{"rawline", []string{fmt.Sprint(i)}})
		}
		nerr := 1500
		if r.tier == "thorough" {
			nerr = 40000
		}
		for i := 0; i < nerr; i++ {
			emit(genErrFile(rg.fork(uint64(1<<40+i)), i))
		}
		// errors that are noticed at the end of the source (a tag that is never closed): the token
		// they report is found where they say, also when '-' markers, comments or verbatim blocks
		// touch the text in front of the end
		opens := []string{"{% block body %}", "{% if a %}", "{% for x in lst %}", "{% with q=1 %}", "{% macro m() %}", "{% filter upper %}", "{% spaceless %}", "{% autoescape on %}", "{% ifchanged %}", "{% comment %}", "{% verbatim %}"}
		trails := []string{"   text", " \n\t text \n", "a{# one #}b{# two #}c", "x{% verbatim %} v {% endverbatim %}y", "", "\n", "{{ a -}}   z", "é  ü", "t{# c #}"}
		for oi, op := range opens {
			for ti, tr := range trails {
				for di, dash := range []string{"", "-"} {
					o := op
					if dash == "-" {
						o = strings.Replace(op, " %}", " -%}", 1)
					}
					pre := []string{"", "head\n  ", "{{ a }} "}[(oi+ti+di)%3]
					emit(caseT{"eoferr", []string{hx(pre + o + tr)}})
				}
			}
		}
		// the same compositions on disk, spread over two base directories (site templates and a
		// shared library): the error names the file that holds the construct, and RawLine gives the
		// line of that file
		for i := 0; i < nerr/5; i++ {
			c := genErrFile(rg.fork(uint64(1<<41+i)), i)
			c.op = "errdisk"
			c.args = append(c.args, fmt.Sprint(i))
			emit(c)
		}
	}
	driveCases(r, gen, execC16)
	r.finish(nil)
}

// offsetOf maps a (line, col) pair to a byte offset: lines end at '\n', columns count bytes from 1
func offsetOf(src string, line, col int) (int, bool) {
	if line < 1 || col < 1 {
		return 0, false
	}
	off := 0
	for l := 1; l < line; l++ {
		j := strings.IndexByte(src[off:], '\n')
		if j < 0 {
			return 0, false
		}
		off += j + 1
	}
	off += col - 1
	if off > len(src) {
		return 0, false
	}
	return off, true
}

func unescapeLit(raw string) string {
	return strings.Replace(strings.Replace(raw, `\"`, `"`, -1), `\\`, `\`, -1)
}

// tokenAt: does the token's source spelling stand at its recorded position?
func tokenAt(src string, t *pongo2.Token) string {
	off, ok := offsetOf(src, t.Line, t.Col)
	if !ok {
		return "token position outside the source"
	}
	rest := src[off:]
	switch t.Typ {
	case pongo2.TokenString:
		if len(rest) == 0 || (rest[0] != '"' && rest[0] != '\'') {
			return "string token does not start at a quote"
		}
		q := rest[0]
		// find the closing quote as the lexer does
		i := 1
		for i < len(rest) {
			if rest[i] == '\\' {
				i += 2
				continue
			}
			if rest[i] == q {
				break
			}
			i++
		}
		if i >= len(rest) || unescapeLit(rest[1:i]) != t.Val {
			return "string token text not found at its position"
		}
	case pongo2.TokenSymbol:
		sp := t.Val
		if t.TrimWhitespaces {
			if strings.HasPrefix(sp, "{") {
				sp = sp + "-"
			} else {
				sp = "-" + sp
			}
		}
		if !strings.HasPrefix(rest, sp) {
			return "symbol token text not found at its position"
		}
	default:
		if !strings.HasPrefix(rest, t.Val) {
			return "token text not found at its position"
		}
	}
	return ""
}

func execC16(r *run, c caseT) {
	switch c.op {
	case "rawline":
		execRawLine(r, c)
	case "errfile":
		execErrFile(r, c)
	case "errdisk":
		execErrDisk(r, c)
	case "eoferr":
		src := unhx(c.args[0])
		_, err := pongo2.FromString(src)
		obs := "none"
		var perr *pongo2.Error
		if err != nil {
			perr, _ = err.(*pongo2.Error)
			obs = "plainerr"
			if perr != nil {
				obs = fmt.Sprintf("%d:%d", perr.Line, perr.Column)
				if perr.Token != nil {
					obs += fmt.Sprintf(":%d:%d:%s", perr.Token.Line, perr.Token.Col, hx(perr.Token.Val))
				}
			}
		}
		id := r.emit(c.op, c.args, "eoferr:"+obs)
		r.nontrivial(c.args[0])
		detail := map[string]any{"source": src, "observed": obs}
		switch {
		case perr == nil:
			if !strings.Contains(src, "{% verbatim") { // (a verbatim block is closed by the first endverbatim)
				r.reject(id, "a tag that is never closed produced no pongo2 error", detail)
			}
		case perr.Line > 0:
			if _, ok := offsetOf(src, perr.Line, perr.Column); !ok {
				r.reject(id, "error position outside the source", detail)
			} else if perr.Token != nil && perr.Token.Line == perr.Line && perr.Token.Col == perr.Column {
				if why := tokenAt(src, perr.Token); why != "" {
					detail["token"] = perr.Token.String()
					r.reject(id, "error: "+why, detail)
				}
			}
		}
	case "lex":
		src := unhx(c.args[0])
		obs, toks, lerr := lexObs(src)
		id := r.emit(c.op, c.args, obs)
		if len(toks) > 1 {
			r.nontrivial(c.args[0])
		}
		if id%9973 == 0 {
			r.sample(map[string]any{"source": src, "observed": obs})
		}
		for _, t := range toks {
			if why := tokenAt(src, t); why != "" {
				r.reject(id, why, map[string]any{"source_hex": c.args[0], "token": t.String()})
				break
			}
		}
		if lerr != nil {
			r.stats["lex_error"]++
			if _, ok := offsetOf(src, lerr.Line, lerr.Column); !ok {
				r.reject(id, "lexer error position outside the source", map[string]any{"source_hex": c.args[0], "line": lerr.Line, "col": lerr.Column})
			}
			if lerr.Filename != "t" {
				r.reject(id, "lexer error does not name the template", map[string]any{"source_hex": c.args[0]})
			}
			return
		}
		// compile / execute errors: position inside the source, token text found there
		tpl, err := pongo2.FromString(src)
		var perr *pongo2.Error
		if err != nil {
			perr, _ = err.(*pongo2.Error)
			r.stats["compile_error"]++
		} else {
			_, xerr := tpl.Execute(pongo2.Context{"a": 1, "b": "x", "s": "héllo", "n": 7, "lst": []int{1, 2}, "m": map[string]int{"k": 1}, "u": "", "x1": 3.5})
			if xerr != nil {
				perr, _ = xerr.(*pongo2.Error)
				r.stats["exec_error"]++
			}
		}
		if perr != nil {
			if perr.Filename == "" {
				r.reject(id, "error does not name its template", map[string]any{"source_hex": c.args[0], "error": perr.Error()})
			}
			if perr.Line > 0 {
				if _, ok := offsetOf(src, perr.Line, perr.Column); !ok {
					r.reject(id, "error position outside the source", map[string]any{"source_hex": c.args[0], "error": perr.Error()})
				} else if perr.Token != nil && perr.Token.Line == perr.Line && perr.Token.Col == perr.Column {
					if why := tokenAt(src, perr.Token); why != "" {
						r.reject(id, "error: "+why, map[string]any{"source_hex": c.args[0], "error": perr.Error()})
					}
				}
			}
		}
	case "lexshift":
		pre, src := unhx(c.args[0]), unhx(c.args[1])
		obs, toks2, err2 := lexObs(pre + src)
		id := r.emit(c.op, c.args, obs)
		_, toks1, err1 := lexObs(src)
		k := strings.Count(pre, "\n")
		last := len(pre) - (strings.LastIndexByte(pre, '\n') + 1)
		shift := func(line, col int) (int, int) {
			if line == 1 {
				return line + k, col + last
			}
			return line + k, col
		}
		if (err1 == nil) != (err2 == nil) {
			r.reject(id, "inserting text in front changed whether the source lexes", map[string]any{"prefix_hex": c.args[0], "source_hex": c.args[1]})
			return
		}
		if err1 != nil {
			l, cc := shift(err1.Line, err1.Column)
			// an error reported at a pending text start moves with the merged text; only
			// construct-anchored errors are compared
			if !(l == err2.Line && cc == err2.Column) && !strings.HasPrefix(src, "{") {
				return
			}
			if l != err2.Line || cc != err2.Column {
				r.reject(id, "error position did not shift by the inserted lines and columns", map[string]any{"prefix_hex": c.args[0], "source_hex": c.args[1]})
			}
			return
		}
		// drop a leading text token (it merges with the inserted text)
		a, b := toks1, toks2
		if len(a) > 0 && a[0].Typ == pongo2.TokenHTML && a[0].Line == 1 && a[0].Col == 1 {
			a = a[1:]
		}
		if len(b) > 0 && b[0].Typ == pongo2.TokenHTML {
			b = b[1:]
		}
		if len(a) != len(b) {
			r.reject(id, "inserting text in front changed the token list", map[string]any{"prefix_hex": c.args[0], "source_hex": c.args[1]})
			return
		}
		for i := range a {
			l, cc := shift(a[i].Line, a[i].Col)
			if b[i].Line != l || b[i].Col != cc || b[i].Val != a[i].Val || b[i].Typ != a[i].Typ {
				r.reject(id, "token position did not shift by the inserted lines and columns", map[string]any{"prefix_hex": c.args[0], "source_hex": c.args[1], "token": b[i].String()})
				return
			}
		}
		r.nontrivial(c.args[0] + c.args[1])
	}
}

// ---- errors in multi-file compositions: the error must name the file the offending
// construct was written in, and a position inside that construct ----

var errConstructs = []struct {
	text    string
	compile bool
}{
	{"{{ boom() }}", false},
	{"{% if boom() %}x{% endif %}", false},
	{"{% nosuchtag %}", true},
	{"{{ a| }}", true},
	{"{{ 1 + }}", true},
	// lexer errors
	{"{{ \"unclosed }}", true},
	{"{{ \"bad \\q escape\" }}", true},
	{"{% if a\n %}x{% endif %}", true},
	{"{{ a ~ }}", true},
	// execution errors raised inside filters
	{"{{ a|date:\"2006\" }}", false},
	{"{{ \"s\"|pluralize }}", false},
	{"{{ a|slice:\"x\" }}", false},
	{"{{ a|pluralize:\"a,b,c\" }}", false},
	{"{{ a|floatformat:2000 }}", false},
	{"{{ \"x\"|center:100000 }}", false},
	{"{{ 1 / 0 }}", false},
	// arguments that stop short: the parser has no token left to blame
	{"{% for item %}x{% endfor %}", true},
	{"{% set answer %}", true},
	{"{% with total %}x{% endwith %}", true},
	{"{% include \"other.html\" with user %}", true},
	{"{% import \"lib2.html\" %}", true},
	{"{% widthratio 10 20 30 as %}", true},
	{"{% if %}x{% endif %}", true},
	{"{% cycle %}", true},
	{"{% macro %}{% endmacro %}", true},
	{"{% block %}{% endblock %}", true},
	{"{% ifequal a %}x{% endifequal %}", true},
	{"{% templatetag %}", true},
	{"{% now %}", true},
	{"{% autoescape %}x{% endautoescape %}", true},
}

// genErrFile plants one failing construct at a random position of one file of a composition.
func genErrFile(rg *rng, i int) caseT {
	pad := rg.pick([]string{"", "x", "line one\nline two\n", "  \t", "é\n\n  ab", "<p>\n"})
	c := errConstructs[rg.intn(len(errConstructs))]
	planted := pad + c.text + "tail"
	files := map[string]string{"other.html": "O", "lib2.html": "{% macro lm() export %}m{% endmacro %}"}
	where := rg.intn(8)
	expect := "main.html"
	l, cc := 0, 0
	put := func(name, before, after string) {
		files[name] = before + planted + after
		expect = name
		pre := before + pad
		l = 1 + strings.Count(pre, "\n")
		cc = 1 + len(pre) - (strings.LastIndexByte(pre, '\n') + 1)
	}
	switch where {
	case 0: // top level of the entry template
		put("main.html", "", "")
	case 1: // inside a block override of a child
		files["base.html"] = "B{% block c %}base{% endblock %}E"
		put("main.html", "{% extends \"base.html\" %}\n{% block c %}", "{% endblock %}")
	case 2: // in the parent, outside blocks
		put("base.html", "top\n", "{% block c %}base{% endblock %}E")
		files["main.html"] = "{% extends \"base.html\" %}{% block c %}child{% endblock %}"
	case 3: // static include
		put("inc.html", "", "")
		files["main.html"] = "a\n{% include \"inc.html\" %}b"
	case 4: // lazy include
		put("inc.html", "", "")
		files["main.html"] = "a\n{% include incname %}b"
	case 5: // body of an imported macro
		put("macros.html", "{% macro m() export %}", "{% endmacro %}")
		files["main.html"] = "{% import \"macros.html\" m %}\n\nxx {{ m() }}"
	case 6: // a parent's block definition that the child does not override
		put("base.html", "top{% block c %}", "{% endblock %}E")
		files["main.html"] = "{% extends \"base.html\" %}{% block other %}child{% endblock %}"
	case 7: // reached through block.Super
		put("base.html", "top{% block c %}", "{% endblock %}E")
		files["main.html"] = "{% extends \"base.html\" %}\n\n{% block c %}[{{ block.Super }}]{% endblock %}"
	}
	w := &world{files: []map[string]string{files}}
	args := append(w.args("main.html", nil), "-", "-", hx(expect), strconv.Itoa(l), strconv.Itoa(cc), strconv.Itoa(len(c.text)))
	return caseT{"errfile", args}
}

func execErrFile(r *run, c caseT) {
	w, name, _ := worldFromArgs(c.args)
	expect := unhx(c.args[9])
	line, _ := strconv.Atoi(c.args[10])
	col, _ := strconv.Atoi(c.args[11])
	n, _ := strconv.Atoi(c.args[12])
	b := w.build()
	var perr *pongo2.Error
	stage := "compile"
	tpl, err, p := compileIn(b, name, true)
	if p == nil && err == nil {
		stage = "execute"
		_, err, p = executeIn(tpl, pongo2.Context{
			"boom":    func() (*pongo2.Value, error) { return nil, errors.New("boom") },
			"incname": "inc.html", "a": 1,
		})
	}
	obs := "none"
	if p != nil {
		obs = "panic"
	} else if err != nil {
		perr, _ = err.(*pongo2.Error)
		if perr != nil {
			obs = fmt.Sprintf("%s@%s:%d:%d", stage, perr.Filename, perr.Line, perr.Column)
		} else {
			obs = "plainerr"
		}
	}
	id := r.emit(c.op, c.args, "errfile:"+hx(obs))
	r.nontrivial(strings.Join(c.args, "|"))
	detail := map[string]any{"files": w.files[0], "expected_file": expect, "expected_line": line,
		"expected_col_from": col, "expected_col_to": col + n - 1, "observed": obs}
	if id%499 == 0 {
		r.sample(detail)
	}
	if p != nil {
		r.reject(id, "panic", detail)
		return
	}
	if perr == nil {
		r.reject(id, "a failing construct produced no pongo2 error", detail)
		return
	}
	// the named source: the file of the composition the error names
	named, ok := "", false
	for fn, src := range w.files[0] {
		if perr.Filename == fn || strings.HasSuffix(perr.Filename, "/"+fn) {
			named, ok = src, true
		}
	}
	if !ok {
		r.reject(id, "error names no file of the composition", detail)
		return
	}
	if stage == "compile" && !strings.HasSuffix(perr.Filename, expect) {
		// a compile error occurs in the file whose source is being parsed
		r.reject(id, "compile error does not name the template it occurred in", detail)
		return
	}
	if stage == "compile" && perr.Line > 0 && (perr.Line != line || perr.Column < col || perr.Column >= col+n) {
		r.reject(id, "compile error position is not inside the offending construct", detail)
		return
	}
	if perr.Line > 0 {
		if _, ok := offsetOf(named, perr.Line, perr.Column); !ok {
			r.reject(id, "error position outside the named source", detail)
		} else if perr.Token != nil && perr.Token.Filename == perr.Filename && (perr.Token.Line != perr.Line || perr.Token.Col != perr.Column) {
			detail["token"] = perr.Token.String()
			r.reject(id, "the error's position is not the position of the token it reports", detail)
		} else if perr.Token != nil && perr.Token.Line == perr.Line && perr.Token.Col == perr.Column {
			if why := tokenAt(named, perr.Token); why != "" {
				detail["token"] = perr.Token.String()
				r.reject(id, "error: "+why+" (in the named source)", detail)
			}
		}
	}
}

// Error.RawLine: for a template loaded from disk, the source line the error points at
func execRawLine(r *run, c caseT) {
	var i int
	fmt.Sscanf(c.args[0], "%d", &i)
	g := newRng(uint64(777 + i))
	nl := g.intn(5)
	var lines []string
	for k := 0; k < nl; k++ {
		lines = append(lines, g.pick([]string{"plain", "", "  indented é", "{{ a }}", "<p>"}))
	}
	bad := g.pick([]string{"x {% nosuchtag %} y", "{{ 1 + }}", "ab {{ a| }}", "\t{% if %}", "{{ boom() }} z"})
	lines = append(lines, bad, "after")
	src := strings.Join(lines, "\n")
	dir := filepath.Join(r.outdir, "rawline")
	must(os.MkdirAll(dir, 0o755))
	name := fmt.Sprintf("t%d.tpl", i)
	must(os.WriteFile(filepath.Join(dir, name), []byte(src), 0o644))
	set := pongo2.NewSet("rawline", pongo2.MustNewLocalFileSystemLoader(dir))
	tpl, err := set.FromFile(name)
	if err == nil {
		_, err = tpl.Execute(pongo2.Context{"boom": func() (*pongo2.Value, error) { return nil, errors.New("boom") }, "a": 1})
	}
	obs := "none"
	var perr *pongo2.Error
	if err != nil {
		perr, _ = err.(*pongo2.Error)
	}
	line, avail := "", false
	if perr != nil {
		var e2 error
		line, avail, e2 = perr.RawLine()
		obs = fmt.Sprintf("%d:%v:%v:%s", perr.Line, avail, e2 == nil, line)
	}
	id := r.emit(c.op, c.args, "rawline:"+hx(obs))
	r.nontrivial("rawline" + c.args[0])
	detail := map[string]any{"source": src, "observed": obs}
	switch {
	case perr == nil:
		r.reject(id, "a failing construct produced no pongo2 error", detail)
	case perr.Line != nl+1:
		r.reject(id, "the error does not point at the line of the offending construct", detail)
	case !avail || line != bad:
		r.reject(id, "RawLine does not give the source line the error points at", detail)
	}
}

func execErrDisk(r *run, c caseT) {
	w, name, _ := worldFromArgs(c.args)
	var i int
	fmt.Sscanf(c.args[13], "%d", &i)
	site := filepath.Join(r.outdir, "errdisk", fmt.Sprint(i), "site")
	shared := filepath.Join(r.outdir, "errdisk", fmt.Sprint(i), "shared")
	must(os.MkdirAll(site, 0o755))
	must(os.MkdirAll(shared, 0o755))
	k := 0
	var names []string
	for fn := range w.files[0] {
		names = append(names, fn)
	}
	sort.Strings(names)
	for _, fn := range names {
		dir := shared
		if fn == name || (i+k)%3 == 0 {
			dir = site
		}
		k++
		must(os.WriteFile(filepath.Join(dir, fn), []byte(w.files[0][fn]), 0o644))
	}
	set := pongo2.NewSet("errdisk", pongo2.MustNewLocalFileSystemLoader(site), pongo2.MustNewLocalFileSystemLoader(shared))
	var perr *pongo2.Error
	obs := "none"
	func() {
		defer func() {
			if p := recover(); p != nil {
				obs = "panic:" + fmt.Sprint(p)
			}
		}()
		tpl, err := set.FromFile(name)
		if err == nil {
			_, err = tpl.Execute(pongo2.Context{"boom": func() (*pongo2.Value, error) { return nil, errors.New("boom") }, "incname": "inc.html", "a": 1})
		}
		if err != nil {
			perr, _ = err.(*pongo2.Error)
			obs = "plainerr"
		}
	}()
	rawLine, avail := "", false
	if perr != nil {
		rawLine, avail, _ = perr.RawLine()
		rel := strings.TrimPrefix(strings.TrimPrefix(perr.Filename, site), shared)
		obs = fmt.Sprintf("%s:%d:%d:%v", rel, perr.Line, perr.Column, avail)
	}
	id := r.emit(c.op, c.args, "errdisk:"+hx(obs))
	r.nontrivial("errdisk" + c.args[13])
	detail := map[string]any{"files": w.files[0], "site_dir": site, "shared_dir": shared, "observed": obs}
	switch {
	case strings.HasPrefix(obs, "panic"):
		r.reject(id, "panic", detail)
		return
	case perr == nil:
		r.reject(id, "a failing construct produced no pongo2 error", detail)
		return
	}
	// the named source: an absolute path, or a name the set's loaders resolve (first one that has it)
	named, rerr := os.ReadFile(perr.Filename)
	if !filepath.IsAbs(perr.Filename) {
		named, rerr = os.ReadFile(filepath.Join(site, perr.Filename))
		if rerr != nil {
			named, rerr = os.ReadFile(filepath.Join(shared, perr.Filename))
		}
	}
	if rerr != nil {
		detail["filename"] = perr.Filename
		r.reject(id, "the error names a file that neither exists nor is served by the set's loaders", detail)
		return
	}
	if perr.Line > 0 {
		off, ok := offsetOf(string(named), perr.Line, perr.Column)
		if !ok {
			r.reject(id, "error position outside the named file", detail)
			return
		}
		_ = off
		if perr.Token != nil && perr.Token.Line == perr.Line && perr.Token.Col == perr.Column {
			if why := tokenAt(string(named), perr.Token); why != "" {
				detail["token"] = perr.Token.String()
				r.reject(id, "error: "+why+" (in the named file)", detail)
				return
			}
		}
		if avail {
			lines := strings.Split(string(named), "\n")
			if perr.Line > len(lines) || rawLine != lines[perr.Line-1] {
				detail["rawline"] = rawLine
				r.reject(id, "RawLine is not the line of the named file the error points at", detail)
			}
		}
	}
}
