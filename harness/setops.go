package main

import (
	"fmt"
	"strings"

	"github.com/flosch/pongo2/v6"
)

// Histories of operations on a template set (C03, C20): encoded as
//   B:t:<hexname> BanTag   B:f:<hexname> BanFilter   S:<hexsrc> FromString   F:<hexname> FromFile
//   C:<hexname> FromCache  R:<hexsrc> RenderTemplateString  RF:<hexname> RenderTemplateFile
//   X:<hex,hex..> CleanCache  D:0|1 Debug  W:<hexname>:<hexcontent> change a file
// joined by ';'.  After every operation the real state is read through VerifSetState.

type setRun struct {
	set     *pongo2.TemplateSet
	loader  *memLoader
	stamps  map[*pongo2.Template]int
	next    int
	fetches []int // loader.Get calls after each op
}

func newSetRun(files map[string]string) *setRun {
	l := newMemLoader(files)
	return &setRun{set: pongo2.NewSet("hist", l), loader: l, stamps: map[*pongo2.Template]int{}, next: 1}
}

func (s *setRun) stamp(t *pongo2.Template) int {
	if n, ok := s.stamps[t]; ok {
		return n
	}
	s.stamps[t] = s.next
	s.next++
	return s.stamps[t]
}

func (s *setRun) totalGets() int {
	s.loader.mu.Lock()
	defer s.loader.mu.Unlock()
	n := 0
	for _, c := range s.loader.gets {
		n += c
	}
	return n
}

func (s *setRun) snapshot() string {
	v := pongo2.VerifSetState(s.set)
	c := "0"
	if v.FirstTemplateCreated {
		c = "1"
	}
	return c + "|" + hexList(v.BannedTags) + "|" + hexList(v.BannedFilters) + "|" + hexList(v.CacheKeys)
}

// apply one encoded operation; returns the result part of the observation
func (s *setRun) apply(op string) (res string, panicked any) {
	defer func() {
		if r := recover(); r != nil {
			panicked = r
			res = "panic"
		}
	}()
	p := strings.Split(op, ":")
	tplRes := func(t *pongo2.Template, err error) string {
		if err != nil {
			return "e"
		}
		return fmt.Sprintf("t%d", s.stamp(t))
	}
	switch p[0] {
	case "B":
		var err error
		if p[1] == "t" {
			err = s.set.BanTag(unhx(p[2]))
		} else {
			err = s.set.BanFilter(unhx(p[2]))
		}
		if err != nil {
			return "e", nil
		}
		return "k", nil
	case "S":
		if src := unhx(p[1]); len(src)%2 == 1 {
			return tplRes(s.set.FromBytes([]byte(src))), nil
		}
		return tplRes(s.set.FromString(unhx(p[1]))), nil
	case "F":
		return tplRes(s.set.FromFile(unhx(p[1]))), nil
	case "C":
		return tplRes(s.set.FromCache(unhx(p[1]))), nil
	case "R":
		var out string
		var err error
		if src := unhx(p[1]); len(src)%2 == 1 {
			out, err = s.set.RenderTemplateBytes([]byte(src), pongo2.Context{})
		} else {
			out, err = s.set.RenderTemplateString(src, pongo2.Context{})
		}
		if err != nil {
			return "oe", nil
		}
		return "o" + obsOK(out), nil
	case "RF":
		out, err := s.set.RenderTemplateFile(unhx(p[1]), pongo2.Context{})
		if err != nil {
			return "oe", nil
		}
		return "o" + obsOK(out), nil
	case "X":
		s.set.CleanCache(parseHexList(p[1])...)
		return "k", nil
	case "D":
		s.set.Debug = p[1] == "1"
		return "k", nil
	case "W":
		s.loader.mu.Lock()
		s.loader.files[unhx(p[1])] = unhx(p[2])
		s.loader.mu.Unlock()
		return "k", nil
	}
	return "?", nil
}

// runSetOps executes a history and returns the observation: res~snapshot per op, joined by ';'
func runSetOps(files map[string]string, ops []string) (string, *setRun, any) {
	s := newSetRun(files)
	var parts []string
	var pan any
	for _, op := range ops {
		res, p := s.apply(op)
		if p != nil && pan == nil {
			pan = p
		}
		parts = append(parts, res+"~"+s.snapshot())
		s.fetches = append(s.fetches, s.totalGets())
	}
	return strings.Join(parts, ";"), s, pan
}
