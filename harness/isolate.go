package main

import (
	"bufio"
	"context"
	"fmt"
	"os"
	"os/exec"
	"path/filepath"
	"runtime/debug"
	"strconv"
	"strings"
	"time"
)

// Cases that can kill the process (unbounded recursion) or hang run in child processes:
// the harness re-executes itself on a batch of case lines; what the child recorded before it
// died is kept, the case it died on is reported as "crash" / "timeout", and the rest of the
// batch continues in a new child.

var childMode = os.Getenv("VERIF_CHILD") == "1"

func init() {
	if childMode {
		// a runaway recursion should die quickly, not after Go's default 1 GB stack
		debug.SetMaxStack(96 << 20)
	}
}

// a child gives every case its own wall-clock limit and exits with code 77 when a case
// exceeds it (the runtime preempts tight loops, so the timer fires)
func caseWatchdog() *time.Timer {
	if !childMode {
		return nil
	}
	ms, err := strconv.Atoi(os.Getenv("VERIF_CASE_MS"))
	if err != nil || ms <= 0 {
		return nil
	}
	return time.AfterFunc(time.Duration(ms)*time.Millisecond, func() { os.Exit(77) })
}

type isoResult struct {
	obs    string // observation the child recorded, or "crash" / "timeout"
	reject string // the child's oracle verdict ("" = accepted)
}

// runIsolated executes the cases through exec (which must call r.emit exactly once per
// case) in child processes and returns one result per case.
func runIsolated(prop string, cases []caseT, perCase time.Duration, workdir string) []isoResult {
	res := make([]isoResult, len(cases))
	must(os.MkdirAll(workdir, 0o755))
	start := 0
	batch := 0
	for start < len(cases) {
		batch++
		in := filepath.Join(workdir, fmt.Sprintf("in%d.tsv", batch))
		outDir := filepath.Join(workdir, fmt.Sprintf("out%d", batch))
		f, err := os.Create(in)
		must(err)
		w := bufio.NewWriter(f)
		for i := start; i < len(cases); i++ {
			fmt.Fprintf(w, "%d\t%s", i, cases[i].op)
			for _, a := range cases[i].args {
				w.WriteByte('\t')
				w.WriteString(a)
			}
			w.WriteByte('\n')
		}
		must(w.Flush())
		f.Close()
		n := len(cases) - start
		// the child limits each case itself (exit 77); the batch limit is only a backstop
		batchLimit := perCase*time.Duration(n)/4 + 2*perCase + 30*time.Second
		ctx, cancel := context.WithTimeout(context.Background(), batchLimit)
		cmd := exec.CommandContext(ctx, os.Args[0], "-prop", prop, "-replay", in, "-out", outDir)
		if v := os.Getenv("VERIF_CASE_MS_OVERRIDE"); v != "" {
			if ms, err := strconv.Atoi(v); err == nil {
				perCase = time.Duration(ms) * time.Millisecond
			}
		}
		cmd.Env = append(os.Environ(), "VERIF_CHILD=1", fmt.Sprintf("VERIF_CASE_MS=%d", perCase.Milliseconds()), "GOTRACEBACK=none", "GORACE=halt_on_error=1 exitcode=66")
		var stderr tailBuffer
		cmd.Stderr = &stderr
		cmd.Stdout = nil
		runErr := cmd.Run()
		timedOut := ctx.Err() == context.DeadlineExceeded
		if ee, ok := runErr.(*exec.ExitError); ok && ee.ExitCode() == 77 {
			timedOut = true
		}
		cancel()
		// the child flushes impl.tsv / rejects after every case (childMode)
		done := 0
		if fi, err := os.Open(filepath.Join(outDir, "impl.tsv")); err == nil {
			sc := bufio.NewScanner(fi)
			sc.Buffer(make([]byte, 1<<20), 1<<26)
			for sc.Scan() {
				parts := strings.SplitN(sc.Text(), "\t", 2)
				if len(parts) == 2 && start+done < len(cases) {
					res[start+done].obs = parts[1]
					done++
				}
			}
			fi.Close()
		}
		if fr, err := os.Open(filepath.Join(outDir, "rejects.tsv")); err == nil {
			sc := bufio.NewScanner(fr)
			sc.Buffer(make([]byte, 1<<20), 1<<26)
			for sc.Scan() {
				parts := strings.SplitN(sc.Text(), "\t", 2)
				var k int
				if _, err := fmt.Sscanf(parts[0], "%d", &k); err == nil && len(parts) == 2 && start+k < len(cases) {
					res[start+k].reject = parts[1]
				}
			}
			fr.Close()
		}
		os.RemoveAll(outDir)
		os.Remove(in)
		if done >= n && runErr == nil {
			break
		}
		if done < n {
			// the child died (or timed out) on case start+done
			switch {
			case timedOut:
				res[start+done].obs = "timeout"
			case strings.Contains(stderr.String(), "DATA RACE"):
				res[start+done].obs = "race"
				res[start+done].reject = firstRaceLines(stderr.String())
			default:
				res[start+done].obs = "crash"
			}
			start = start + done + 1
		} else {
			break
		}
	}
	return res
}

// tailBuffer keeps the first 64 KiB of what is written to it
type tailBuffer struct{ b []byte }

func (t *tailBuffer) Write(p []byte) (int, error) {
	if len(t.b) < 1<<16 {
		t.b = append(t.b, p...)
	}
	return len(p), nil
}
func (t *tailBuffer) String() string { return string(t.b) }

func firstRaceLines(s string) string {
	i := strings.Index(s, "DATA RACE")
	if i < 0 {
		return ""
	}
	lines := strings.Split(s[i:], "\n")
	var keep []string
	for _, l := range lines {
		l = strings.TrimSpace(l)
		if strings.Contains(l, ".go:") || strings.HasPrefix(l, "Write at") || strings.HasPrefix(l, "Read at") || strings.HasPrefix(l, "Previous") {
			keep = append(keep, l)
		}
		if len(keep) >= 8 {
			break
		}
	}
	return "data race: " + strings.Join(keep, " | ")
}
