package main

import (
	"fmt"
	"io"
	"math"
	"net/http"
	"os"
	"path/filepath"
	"sort"
	"strings"
	"sync"
	"sync/atomic"
	"time"

	"github.com/flosch/pongo2/v6"
)

func init() { props["C01"] = runC01 }

// C01: compiling and executing never panics, crashes or hangs. Every case runs in a child
// process (stack cap, wall-clock limit); the observation is the outcome class.

type c01Key struct {
	N int
	S string
}

type c01Unexported struct {
	Name   string
	secret string
	inner  struct{ x int }
	Ptr    *c01Unexported
}

func (c c01Unexported) Hello(n int) string         { return fmt.Sprint("hi", n) }
func (c *c01Unexported) PtrMethod() string         { return "pm" }
func (c c01Unexported) Fail() (string, error)      { return "", fmt.Errorf("nope") }
func (c c01Unexported) Var(xs ...int) int          { return len(xs) }
func (c c01Unexported) NilValue() *pongo2.Value    { return nil }
func (c c01Unexported) ValArg(v *pongo2.Value) int { return v.Len() }

type c01Holder struct {
	S *c01Stringer
	T *time.Time
	U *c01Unexported
	I fmt.Stringer
	E error
}

type c01Stringer struct{ v string }

func (s c01Stringer) String() string { return s.v }

// contexts from the value universe of the property (Go values the model does not cover)
func c01GoContext(i int) pongo2.Context {
	var nilp *c01Unexported
	var nilm map[string]int
	var nils []int
	var nilf func() string
	u := c01Unexported{Name: "n", secret: "s"}
	base := pongo2.Context{
		"s1": "alpha", "s2": "be ta", "e": "", "n1": 3, "n2": -2, "z": 0, "f1": 2.5, "b1": true, "b0": false, "nil1": nil,
		"lst": []string{"x", "y"}, "nums": []int{3, 1, 2}, "el": []int{}, "m": map[string]string{"k": "v"}, "mm": map[string]any{"a": 1, "b": "w"},
		"st": u, "nest": [][]int{{1, 2}, {3}}, "fh": 0.5, "ft": float32(-0.25), "tiny": 1e-9,
		// maps with every kind of key, and values to look up in them
		"up": &u, "pm": map[*c01Unexported]bool{&u: true}, "sk": c01Key{1, "a"}, "sm": map[c01Key]int{{1, "a"}: 1}, "fm": map[float64]string{2.5: "x"},
		"bm": map[bool]int{true: 1}, "im": map[int]string{3: "three"}, "ak": [2]int{1, 2}, "am": map[[2]int]int{{1, 2}: 3}, "ifm": map[any]any{"a": 1, 2: "b", 2.5: "c"},
		"um": map[uint8]string{200: "x"}, "i8m": map[int8]string{-128: "y"}, "stm": map[string]any{"x&y": 1}, "nilm": map[string]int(nil),
		// functions that find nothing
		"nilfn": func() any { return nil }, "nilval": func() *pongo2.Value { return pongo2.AsValue(nil) }, "nilvalp": func() *pongo2.Value { return nil },
		"nilarg": func(x int) any { return nil }, "nilerr": func() (any, error) { return nil, nil }, "nilst": func() *c01Unexported { return nil },
		// typed nil pointers, also to types that have methods
		"npst": (*c01Stringer)(nil), "nptm": (*time.Time)(nil), "npun": (*c01Unexported)(nil), "npmap": (*map[string]int)(nil), "nperr": error(nil), "holder": c01Holder{},
		// functions with pointer, map, slice, func and interface parameters (called with nils of every kind)
		"fptr": func(p *c01Unexported) string {
			if p == nil {
				return "nilp"
			}
			return p.Name
		}, "fmap": func(m map[string]int) int { return len(m) }, "fsl": func(x []int) int { return len(x) }, "ffn": func(f func() string) bool { return f == nil },
		"fany": func(x any) bool { return x == nil }, "fvar": func(ps ...*c01Unexported) int { return len(ps) }, "fstr": func(x fmt.Stringer) bool { return x == nil }, "ferr": func(e error) bool { return e == nil },
		"nils": []int(nil), "nilfunc": (func() string)(nil), "fstrs": func(xs ...fmt.Stringer) int { return len(xs) },
		"uurl": "http://пример-длинного-доменного-имени-для-проверки.рф/страница", "wurl": "www." + strings.Repeat("例", 40) + ".de x@y.de", "emo": "😀 héllo wörld 😀😀 naïve",
	}
	switch i % 8 {
	case 0:
		return base
	case 1:
		base["s1"], base["s2"] = "\xff\xfe\x00", "a\x01b"
		base["n1"], base["n2"], base["f1"] = math.MaxInt64, math.MinInt64, math.NaN()
		base["lst"] = [3]string{"a", "b", "c"}
		base["st"] = &u
	case 2:
		base["n1"], base["n2"], base["f1"] = uint8(200), int8(-128), math.Inf(1)
		base["nums"] = [2]int{9, 8}
		base["m"] = map[int]string{1: "one"}
		base["mm"] = map[any]any{"a": 1, 2: "b"}
		base["st"] = nilp
	case 3:
		base["n1"], base["n2"], base["f1"] = uint64(math.MaxUint64), int16(7), float32(1.5)
		base["lst"], base["nums"], base["m"] = nils, nils, nilm
		base["st"] = c01Stringer{"<str>"}
	case 4:
		base["s1"] = c01Stringer{"sg"}
		base["st"] = struct{ hidden int }{1}
		base["lst"] = []any{nil, 1, "a", []int{1}, map[string]int{"q": 1}, u}
		base["f1"] = math.Inf(-1)
	case 5:
		base["st"] = time.Date(2020, 1, 2, 3, 4, 5, 0, time.UTC)
		base["s1"] = func() string { return "fn" }
		base["s2"] = func(a, b int) int { return a + b }
		base["n1"] = func(xs ...string) string { return strings.Join(xs, ",") }
		base["nil1"] = nilf
	case 6:
		base["m"] = map[bool]int{true: 1}
		base["mm"] = map[float64]string{1.5: "x"}
		base["st"] = &c01Unexported{Ptr: &u}
		base["lst"] = []*c01Unexported{nil, &u}
		base["s1"] = pongo2.AsSafeValue("<safe>")
		base["s2"] = (*pongo2.Value)(nil)
	case 7:
		base["n1"], base["n2"] = uintptr(5), complex(1, 2)
		base["f1"] = float32(math.MaxFloat32)
		base["lst"] = make(chan int)
		base["nums"] = []uint8("bytes")
		base["st"] = func(c *pongo2.ExecutionContext) *pongo2.Value { return pongo2.AsValue(1) }
	}
	return base
}

var c01Paths = []string{"st", "st.Name", "st.secret", "st.inner", "st.Hello", "st.Hello(2)", "st.Hello(\"x\")", "st.Hello()", "st.Fail", "st.Var(1,2,3)",
	"st.NilValue", "st.ValArg(lst)", "st.PtrMethod", "st.Ptr.Name", "st.Ptr.Ptr.Name", "m.k", "m.1", "m[1]", "m[\"k\"]", "mm.a", "mm[2]", "lst.0", "lst.9", "lst[-1]",
	"lst[n1]", "lst[\"x\"]", "nums.1", "nums[s1]", "s1.0", "s1[100]", "n1.x", "n1[0]", "nil1.x.y", "s1(1)", "s2(1,2)", "s2(1)", "n1(\"a\",\"b\")", "nil1()", "nest.0.1", "nest[1][0]"}

var c01Exprs = []string{"-s1", "n1 / z", "n1 % z", "f1 / 0.0", "n1 ^ n2", "big ^ big", "n1 * n1 * n1", "-n2", "not st", "lst in lst", "st in st", "m in m", "n1 in 5", "\"a\" in n1",
	"n1 == st", "lst == lst", "f1 < lst", "nil1 + nil1", "st + 1", "9223372036854775807 + 1", "99999999999999999999", "1.99999999999999999999", "n2 / -1", "n2 % -1",
	"up in pm", "st in pm", "nil1 in pm", "sk in sm", "st in sm", "f1 in fm", "n1 in fm", "b1 in bm", "n1 in bm", "n1 in im", "s1 in im", "f1 in im", "ak in am", "lst in am", "nums in am",
	"up in lst", "sk in sk", "n1 in ifm", "lst in ifm", "m in ifm", "st in ifm", "nil1 in ifm", "n1 in um", "n2 in i8m", "s1 in stm", "s1 in nilm", "up in up", "pm in pm", "am in am",
	"nilfn().Name", "nilfn().x.y", "nilval().Name", "nilvalp().Name", "nilarg(2).Name", "nilerr().a", "nilst().Name", "nilst().Hello(1)", "nilfn()|upper", "nilfn().0", "nilfn()[0]", "nilfn().Name|length",
	"nilval().x()", "nilfn()(1)", "st.NilValue.Name", "st.NilValue.x.y", "m.zz.Name", "lst.9.Name", "nil1.Name.x", "nilfn() in lst", "nilfn() == nil1",
	"npst", "nptm", "npun", "npmap", "nperr", "holder.S", "holder.T", "holder.U", "holder.I", "holder.E", "npst|upper", "nptm|date:\"2006\"", "npun.Name", "npun.Hello(1)", "npst|length", "npst == npst",
	"npst in lst", "holder.T|default:\"d\"", "npst|default_if_none:\"n\"", "npst|safe", "npst|escape", "npst + 1", "not npst", "nptm|time:\"15\"", "nptm < nptm", "npst|stringformat:\"%v\"",
	"fstr(n1)", "fstr(s1)", "fstr(st)", "fstr(lst)", "ferr(n1)", "ferr(s1)", "ferr(st)", "fstrs(npst, n1)", "fstrs(s1)", "fstrs()", "fany(n1)", "fany(st)",
	"fptr(npun)", "fptr(up)", "fptr(nil1)", "fptr(npst)", "fptr(holder.U)", "fmap(nilm)", "fmap(npmap)", "fmap(nil1)", "fsl(nils)", "fsl(nil1)", "fsl(npun)", "ffn(nilfunc)", "ffn(nil1)", "fany(npun)", "fany(nil1)", "fany(nilm)",
	"fvar(npun, up, npun)", "fvar(nil1)", "fvar()", "fstr(npst)", "fstr(nil1)", "fstr(holder.I)", "ferr(nperr)", "ferr(holder.E)", "ferr(npun)", "st.ValArg(npun)", "st.Hello(npun)", "st.Var(nil1)", "fptr(nilst())", "fptr(nilfn())",
	"not (lst in ifm)", "up == up", "pm == pm", "sk == sk", "am == am", "ifm == ifm", "up in nil1", "nil1 in nil1"}

// references to names that exist but are not readable templates
var c01DirRefs = []string{"{% include \"partials\" %}", "{% include d %}", "{% include dd if_exists %}", "{% include \"partials\" if_exists %}", "{% extends \"partials\" %}", "{% import \"partials\" m %}",
	"{% ssi \"partials\" %}", "{% ssi \"partials\" parsed %}", "{% include \"\" %}", "{% include e %}", "{% include dot %}", "{% include up %}", "{% include \".\" %}", "{% extends \"\" %}",
	"{% import \".\" m %}", "{% ssi \"..\" parsed %}", "FILE:partials", "FILE:", "FILE:.", "FILE:partials/sub", "{% include \"partials/x.tpl\" %}{% include \"ok.tpl\" %}", "{% include \"partials/sub\" only %}"}

func runC01(r *run) {
	rg := newRng(r.seed)
	var cases []caseT
	gen := func(emit func(caseT)) {
		w := &world{files: []map[string]string{{"inc.tpl": "I{{ s1 }}", "lib.tpl": "{% macro mm(a) export %}{{ a }}{% endmacro %}", "base.tpl": "<{% block b %}{% endblock %}>"}}}
		// (a) raw byte strings: exhaustive short ones over the lexer alphabet, random longer ones
		maxLen := 3
		nrand := 4000
		nprog := 1500
		if r.tier == "thorough" {
			maxLen = 5
			nrand = 150000
			nprog = 60000
		}
		xf, xt := hexList([]string{"verifprobe"}), hexList([]string{"verifprobetag"})
		pg0 := newProgGen(rg.fork(1))
		ctx0 := pg0.context(0)
		genLexExhaustive(maxLen, func(s string) { cases = append(cases, caseT{"render", append(w.args(s, ctx0), xf, xt)}) })
		alphabet := append([]string{}, lexAlphabet...)
		alphabet = append(alphabet, "{{", "}}", "{%", "%}", "{#", "#}", "if", "endif", "for", "in", "x", "|", "(", ")", "[", "]", ",", ":", "\x00", "é", "9", "macro", "endmacro", "block", "endblock", "include", "extends", "\"inc.tpl\"", "with", "set", "=", "cycle", "filter", "endfilter", "ifchanged", "widthratio", "lorem", "now", "ssi", "import", "verbatim", "endverbatim", "safe", "-")
		for i := 0; i < nrand; i++ {
			var sb strings.Builder
			for k := 0; k < 1+rg.intn(14); k++ {
				sb.WriteString(alphabet[rg.intn(len(alphabet))])
				if rg.chance(1, 2) {
					sb.WriteString(" ")
				}
			}
			cases = append(cases, caseT{"render", append(w.args(sb.String(), ctx0), xf, xt)})
		}
		// (b) grammar-generated programs over the whole vocabulary x contexts
		filters := pongo2.VerifRegisteredFilters()
		for i := 0; i < nprog; i++ {
			g := newProgGen(rg.fork(uint64(100 + i)))
			g.allowInc = true
			src := g.program(3)
			// add: every registered filter somewhere, odd parameters, access paths, odd expressions
			f := filters[i%len(filters)]
			param := []string{"", ":0", ":-1", ":n1", ":s1", ":lst", ":\"\"", ":99999999999", ":f1", ":nil1", ":\"a:b\"", ":\":\"", ":st"}[rg.intn(13)]
			src += "{{ " + g.rg.pick([]string{"s1", "n1", "f1", "lst", "nil1", "st", "m", "b1"}) + "|" + f + param + " }}"
			src += "{{ " + c01Paths[rg.intn(len(c01Paths))] + " }}{% if " + c01Paths[rg.intn(len(c01Paths))] + " %}t{% endif %}{{ " + c01Paths[rg.intn(len(c01Paths))] + "|length }}"
			src += "{{ " + c01Exprs[rg.intn(len(c01Exprs))] + " }}"
			src += rg.pick([]string{"", "{% lorem 3 w %}", "{% lorem 2 p random %}", "{% lorem 999999999 %}", "{% lorem 99999999999999999999 %}", "{% cycle zx as zx %}{% cycle zx %}", "{% for q in nums %}{% cycle zy as zy %}{% endfor %}", "{% cycle s1 zc as zc %}{% cycle zc %}{% cycle zc %}{{ zc }}",
				"{% cycle \"a\" as za %}{% cycle za \"b\" as zb %}{% cycle zb %}{% cycle zb za as za %}{% cycle za %}{{ za }}{{ zb }}", "{% lorem 9223372036854775808 w %}", "{% lorem 18446744073709551616 p %}", "{% lorem -1 %}",
				"{% lorem 9223372036854775807 b %}", "{% widthratio 99999999999999999999 2 3 %}", "{% widthratio 1 99999999999999999999 99999999999999999999 %}", "{% cycle 99999999999999999999 1e999 %}", "{{ s1|center:99999999999999999999 }}",
				"{{ s1|truncatechars:99999999999999999999 }}", "{{ lst|slice:\"99999999999999999999:\" }}", "{{ 99999999999999999999|get_digit:99999999999999999999 }}", "{{ s1|wordwrap:99999999999999999999 }}", "{{ f1|floatformat:99999999999999999999 }}", "{% now \"2006-01-02\" fake %}", "{% ssi \"inc.tpl\" %}", "{% import \"lib.tpl\" mm %}{{ mm(lst) }}",
				"{% for a, b in mm %}{{ a }}{% endfor %}", "{{ s1|center:99999 }}", "{{ f1|floatformat:1001 }}", "{{ s1|truncatechars_html:3 }}", "{{ \"<b>x y</b> <\"|truncatewords_html:2 }}", "{{ s1|stringformat:\"%d %s %v\" }}",
				"{{ st|date:\"2006\" }}", "{{ lst|random }}", "{{ \"www.x.com a@b.cd\"|urlize }}", "{{ \"www.x.com\"|urlizetrunc:5 }}"})
			if len(g.files) > 0 {
				fs := map[string]string{}
				for k, v := range w.files[0] {
					fs[k] = v
				}
				for k, v := range g.files {
					fs[k] = v
				}
				w2 := &world{files: []map[string]string{fs}}
				cases = append(cases, caseT{"render", append(w2.args(src, g.context(i%2)), xf, xt)})
				cases = append(cases, caseT{"gototal", append(w2.args(src, nil), xf, xt, fmt.Sprint(i))})
			} else {
				cases = append(cases, caseT{"render", append(w.args(src, g.context(i%2)), xf, xt)})
				cases = append(cases, caseT{"gototal", append(w.args(src, nil), xf, xt, fmt.Sprint(i))})
			}
		}
		// (d) every arithmetic / comparison operator on a grid of awkward operands (zero and
		// fractional divisors, limits of int64, non-numbers), as literals and as context values
		operands := []string{"0", "1", "-1", "2", "7", "0.0", "0.5", "-0.25", "0.000000001", "1.5", "9223372036854775807", "-9223372036854775807", "99999999999999999999",
			"\"a\"", "\"\"", "z", "n1", "n2", "f1", "fh", "ft", "tiny", "s1", "lst", "nil1", "b1", "st"}
		for _, op := range []string{"+", "-", "*", "/", "%", "^", "==", "<", "in"} {
			for ai, a := range operands {
				for bi, b := range operands {
					src := "{{ " + a + " " + op + " " + b + " }}"
					cases = append(cases, caseT{"render", append(w.args(src, ctx0), xf, xt)})
					cases = append(cases, caseT{"gototal", append(w.args(src, nil), xf, xt, fmt.Sprint(ai+bi))})
				}
			}
		}
		// (e) filters that take a length / count / position, on multi-byte and invalid text, for a
		// grid of arguments around the byte and character counts
		for _, f := range []string{"truncatechars", "truncatechars_html", "truncatewords", "truncatewords_html", "urlizetrunc", "center", "ljust", "rjust", "wordwrap", "get_digit", "floatformat", "linenumbers", "urlize", "slice"} {
			for _, v := range []string{"uurl", "wurl", "emo", "s1", "s2"} {
				for _, n := range []string{"0", "1", "2", "3", "4", "5", "20", "40", "60", "63", "64", "68", "90", "117", "120", "-1", "\"2:5\"", "\"-3:\"",
					"9223372036854775807", "9223372036854775806", "9223372036854775805", "4611686018427387904", "-9223372036854775807", "2147483647", "2147483648", "n1", "n2"} {
					src := "{{ " + v + "|" + f + ":" + n + " }}"
					cases = append(cases, caseT{"gototal", append(w.args(src, nil), xf, xt, "0")})
					cases = append(cases, caseT{"gototal", append(w.args(src, nil), xf, xt, "1")})
				}
			}
		}
		// (f) every tag: its documented forms cut off after every byte (a source may end anywhere),
		// and its arguments dropped, doubled or replaced token by token
		fullUses := []string{}
		for _, u := range c03TagUse {
			fullUses = append(fullUses, strings.ReplaceAll(u, "FILE", "inc.tpl"))
		}
		fullUses = append(fullUses, "{% if a %}x{% elif b %}y{% else %}z{% endif %}", "{% for k, v in mm sorted %}{{ k }}{% empty %}e{% endfor %}", "{% with a=1 b=2 %}x{% endwith %}",
			"{% with s1 as w %}x{% endwith %}", "{% include \"inc.tpl\" with a=1 b=2 only %}", "{% include s1 if_exists %}", "{% import \"lib.tpl\" mm as m2, mm %}", "{% macro zm(a, b=1) export %}x{% endmacro %}",
			"{% cycle \"a\" \"b\" as cc silent %}", "{% ifchanged a b %}x{% else %}y{% endifchanged %}", "{% widthratio 1 2 3 as wr %}", "{% lorem 2 p random %}", "{% block zz %}x{% endblock zz %}",
			"{% filter lower|cut:\"a\" %}x{% endfilter %}", "{% ssi \"inc.tpl\" parsed %}", "{% autoescape off %}x{% endautoescape %}", "{% set a = 1 + 2 %}", "{% comment %}x{% endcomment %}y",
			"{{ a|default:[1, b]|join:\",\" }}", "{{ a.b[0](1, \"x\").c }}", "{% verbatim %}{{ x }}{% endverbatim %}", "a{# c #}b")
		sort.Strings(fullUses)
		for _, u := range fullUses {
			for cut := 1; cut < len(u); cut++ {
				cases = append(cases, caseT{"render", append(w.args(u[:cut], ctx0), xf, xt)})
			}
			// token-level damage inside the first tag
			end := strings.Index(u, "%}")
			if strings.HasPrefix(u, "{%") && end > 0 {
				toks := strings.Fields(u[2:end])
				rest := u[end:]
				for i := range toks {
					for _, repl := range []string{"", toks[i] + " " + toks[i], "1", "\"s\"", "=", ",", "x.y", "as", "%"} {
						nt := append(append(append([]string{}, toks[:i]...), repl), toks[i+1:]...)
						cases = append(cases, caseT{"render", append(w.args("{% "+strings.Join(nt, " ")+" "+rest, ctx0), xf, xt)})
					}
				}
				cases = append(cases, caseT{"render", append(w.args("{% "+strings.Join(toks, " ")+" extra "+rest, ctx0), xf, xt)})
				cases = append(cases, caseT{"render", append(w.args("{% "+strings.Join(toks, " ")+" 1 \"s\" , "+rest, ctx0), xf, xt)})
			}
		}
		// (g) markup and links for the filters that read HTML or look for URLs
		for _, f := range []string{"truncatechars_html", "truncatewords_html", "urlize", "urlizetrunc", "striptags", "removetags:\"b,i\"", "linebreaks", "escapejs", "wordwrap", "title", "phone2numeric"} {
			for _, v := range []string{"<b>bold <i>it</i></b> tail", "<a href=\"x y\" title='t'>l i n k</a>", "<p", "<", "a <", "</", "</b>x", "<b><b><b>deep</b>", "<br/>a<br />b", "a < b > c", "<é>ü</é>", "<!-- c -->x", "<b\nclass=x>y</b>",
				"see www.example.com and http://a.b/c?d=e&f=g, mail x@y.de.", "http://", "www.", "a@b", "http://x.y/" + strings.Repeat("z", 80), "https://пример.рф/путь www.例.jp", "x@y.de,www.a.bc;http://d.ef", " www.a.bc ", "&amp; &lt;b&gt;", "\xff<b>\xfe</b>"} {
				for _, n := range []string{"", ":0", ":1", ":3", ":7", ":15", ":40", ":true", ":false", ":\"x\""} {
					if !strings.Contains(f, ":") || n == "" {
						cases = append(cases, caseT{"render", append(w.args("{{ \""+strings.ReplaceAll(strings.ReplaceAll(v, "\\", "\\\\"), "\"", "\\\"")+"\"|"+f+n+" }}", ctx0), xf, xt)})
					}
				}
			}
		}
		// (h) the block options switched on and off between executions of one compiled template
		for hi, src := range []string{"{% for i in nums %}  {% if i %}x{% endif %}\t{% endfor %}\n\n", "a\n{% if b1 %} \t {% endif %}\n  {% if b0 %}{% endif %}\n", "  {% set q = 1 %}\n{{ q }}\n\t{% with z=1 %} {% endwith %} ",
			"{% if b1 %}\n{% endif %}", " {% if b1 %} {% endif %} ", "{% if b1 %}{% endif %}", "\n{% for i in nums %}\n{% endfor %}\n", "{% block b %} {% endblock %}\t{% comment %} {% endcomment %} \n"} {
			for hist := 0; hist < 16; hist++ {
				cases = append(cases, caseT{"opthist", append(w.args(src, nil), xf, xt, fmt.Sprint(hi*16+hist))})
			}
		}
		// (i) names that a loader can open but not read (directories), empty and odd names, through
		// every referring tag and every loader pongo2 ships
		for i := 0; i < 4*len(c01DirRefs); i++ {
			cases = append(cases, caseT{"realdir", []string{fmt.Sprint(i)}})
		}
		// (j) many executions at once, each with context keys nobody has used before
		for i := 0; i < 6; i++ {
			cases = append(cases, caseT{"conckeys", []string{fmt.Sprint(i)}})
		}
		// (c) the recorded finding: cyclic references between templates
		for _, fs := range []map[string]string{
			{"a.tpl": "{% include \"a.tpl\" %}"},
			{"a.tpl": "{% extends \"b.tpl\" %}", "b.tpl": "{% extends \"a.tpl\" %}"},
			{"a.tpl": "{% set n = \"a.tpl\" %}x{% include n %}"},
		} {
			if os.Getenv("VERIF_SKIP_CRASHING") == "1" {
				continue // coverage measurement: a crashed child loses its counters
			}
			wc := &world{files: []map[string]string{fs}}
			cases = append(cases, caseT{"cyclic", wc.args("a.tpl", nil)})
		}
		if childMode || replayFile != "" {
			for _, c := range cases {
				emit(c)
			}
			return
		}
		res := runIsolated("C01", cases, 2*time.Second, filepath.Join(r.outdir, "iso"))
		for i, c := range cases {
			if c.op == "cyclic" && res[i].obs == "timeout" {
				// unbounded recursion either overflows the (capped) stack or hits the case deadline
				// first, depending on the machine: the same observation "did not return"
				res[i].obs = "crash"
			}
			id := r.emit(c.op, c.args, res[i].obs)
			if len(c.args[0]) > 8 {
				r.nontrivial(c.args[0])
			}
			if i%4999 == 0 && len(c.args) > 2 {
				r.sample(map[string]any{"source": unhx(c.args[0]), "observed": res[i].obs})
			}
			cls := res[i].obs
			if strings.HasPrefix(cls, "ok:") {
				cls = "ok"
			}
			r.stats["outcome:"+cls]++
			if cls == "panic" || cls == "crash" || cls == "timeout" || cls == "race" {
				if c.op == "cyclic" {
					r.reject(id, "KF:C01-cyclic-template-reference templates that reference themselves recurse until the process dies", map[string]any{"files": c.args[2], "observed": cls})
					continue
				}
				r.stats["panicmsg:"+res[i].reject]++
				if c.op == "conckeys" {
					r.reject(id, "several simultaneous executions with fresh context keys did not return: "+cls, map[string]any{"op": c.op, "observed": cls, "message": res[i].reject})
					continue
				}
				if c.op == "realdir" {
					var ri int
					fmt.Sscanf(c.args[0], "%d", &ri)
					r.reject(id, "compile/execute did not return: "+cls, map[string]any{"source": c01DirRefs[(ri/4)%len(c01DirRefs)], "loader": []string{"LocalFilesystemLoader", "SandboxedFilesystemLoader", "FSLoader", "HttpFilesystemLoader"}[ri%4], "op": c.op, "observed": cls, "message": res[i].reject})
					continue
				}
				r.reject(id, "compile/execute did not return: "+cls, map[string]any{"source_hex": c.args[0], "files": c.args[2], "context": c.args[1], "op": c.op, "observed": cls, "message": res[i].reject})
			}
		}
	}
	driveCases(r, gen, execC01)
	r.finish(nil)
}

func execC01(r *run, c caseT) {
	if c.op == "conckeys" {
		var i int
		fmt.Sscanf(c.args[0], "%d", &i)
		tpl, err := pongo2.FromString("{{ a }}{% for k in l %}{{ k }}{% endfor %}{% include n if_exists %}")
		must(err)
		var wg sync.WaitGroup
		start := make(chan struct{})
		bad := int32(0)
		for gi := 0; gi < 8; gi++ {
			wg.Add(1)
			go func(gi int) {
				defer wg.Done()
				defer func() {
					if recover() != nil {
						atomic.AddInt32(&bad, 1)
					}
				}()
				<-start
				for rep := 0; rep < 200; rep++ {
					cx := pongo2.Context{"a": 1, "l": []int{1}, "n": ""}
					for k := 0; k < 6; k++ {
						cx[fmt.Sprintf("key_%d_%d_%d_%d", i, gi, rep, k)] = k
					}
					if rep%50 == 7 {
						cx["not an identifier"] = 1
					}
					_, _ = tpl.Execute(cx)
					_ = tpl.ExecuteWriterUnbuffered(cx, io.Discard)
				}
			}(gi)
		}
		close(start)
		wg.Wait()
		obs := "ok"
		if bad > 0 {
			obs = "panic"
		}
		id := r.emit(c.op, c.args, obs)
		r.nontrivial("conckeys" + c.args[0])
		if bad > 0 {
			r.reject(id, "panic in one of several simultaneous executions", nil)
		}
		return
	}
	if c.op == "realdir" {
		execRealDir(r, c)
		return
	}
	w, src, ctx := worldFromArgs(c.args)
	switch c.op {
	case "cyclic":
		o, _ := w.render(src, true, ctx)
		r.emit(c.op, c.args, o.obs)
	case "opthist":
		// four steps; before each one the two options are set from two bits of the history number
		var hno int
		fmt.Sscanf(c.args[9], "%d", &hno)
		obs := "ok"
		var pmsg any
		func() {
			defer func() {
				if p := recover(); p != nil {
					obs, pmsg = "panic", p
				}
			}()
			tpl, err := pongo2.FromString(src)
			if err != nil {
				obs = "cerr"
				return
			}
			for step := 0; step < 4; step++ {
				bits := (hno >> (step % 2 * 2)) & 3
				if step >= 2 {
					bits = ((hno >> 2) + step) & 3
				}
				tpl.Options.TrimBlocks, tpl.Options.LStripBlocks = bits&1 != 0, bits&2 != 0
				if _, xerr := tpl.Execute(c01GoContext(0)); xerr != nil {
					obs = "xerr"
				}
			}
		}()
		id := r.emit(c.op, c.args, obs)
		if pmsg != nil {
			r.reject(id, "panic: "+fmt.Sprint(pmsg), nil)
		}
	case "gototal":
		var i int
		fmt.Sscanf(c.args[9], "%d", &i)
		b := w.build()
		obs := "cerr"
		tpl, err, p := compileIn(b, src, false)
		var pmsg any
		if p != nil {
			obs, pmsg = "panic", p
		} else if err == nil {
			out, xerr, p2 := executeIn(tpl, c01GoContext(i))
			switch {
			case p2 != nil:
				obs, pmsg = "panic", p2
			case xerr != nil:
				obs = "xerr"
			default:
				_ = out
				obs = "ok"
			}
		}
		id := r.emit(c.op, c.args, obs)
		if pmsg != nil {
			r.reject(id, "panic: "+fmt.Sprint(pmsg), nil)
		}
	default:
		o, _ := w.render(src, false, ctx)
		id := r.emit(c.op, c.args, o.obs)
		if o.panicked != nil {
			r.reject(id, "panic: "+fmt.Sprint(o.panicked), nil)
		}
	}
}

func execRealDir(r *run, c caseT) {
	var i int
	fmt.Sscanf(c.args[0], "%d", &i)
	dir := filepath.Join(r.outdir, "realdir")
	must(os.MkdirAll(filepath.Join(dir, "partials", "sub"), 0o755))
	must(os.WriteFile(filepath.Join(dir, "partials", "x.tpl"), []byte("X"), 0o644))
	must(os.WriteFile(filepath.Join(dir, "ok.tpl"), []byte("ok"), 0o644))
	var l pongo2.TemplateLoader
	switch i % 4 {
	case 0:
		l = pongo2.MustNewLocalFileSystemLoader(dir)
	case 1:
		sl, err := pongo2.NewSandboxedFilesystemLoader(dir)
		must(err)
		l = sl
	case 2:
		l = pongo2.NewFSLoader(os.DirFS(dir))
	case 3:
		hl, err := pongo2.NewHttpFileSystemLoader(http.Dir(dir), "")
		must(err)
		l = hl
	}
	src := c01DirRefs[(i/4)%len(c01DirRefs)]
	obs := "ok"
	var pmsg any
	func() {
		defer func() {
			if p := recover(); p != nil {
				obs, pmsg = "panic", p
			}
		}()
		set := pongo2.NewSet("realdir", l)
		var tpl *pongo2.Template
		var err error
		if strings.HasPrefix(src, "FILE:") {
			tpl, err = set.FromFile(src[5:])
		} else {
			tpl, err = set.FromString(src)
		}
		if err != nil {
			obs = "cerr"
			return
		}
		if _, err = tpl.Execute(pongo2.Context{"d": "partials", "dd": "partials/sub", "e": "", "dot": ".", "up": ".."}); err != nil {
			obs = "xerr"
		}
	}()
	id := r.emit(c.op, c.args, obs)
	r.nontrivial("realdir" + c.args[0])
	if pmsg != nil {
		r.reject(id, "panic: "+fmt.Sprint(pmsg), map[string]any{"source": src, "loader": i % 4})
	}
}
