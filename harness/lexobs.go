package main

import (
	"fmt"
	"strings"

	"github.com/flosch/pongo2/v6"
)

// lexObs runs the real lexer and renders its result in the canonical form the model
// driver prints: ok:typ,valhex,line,col,trim;...  or err:line,col
func lexObs(src string) (string, []*pongo2.Token, *pongo2.Error) {
	toks, err := pongo2.VerifLex("t", src)
	if err != nil {
		return fmt.Sprintf("err:%d,%d", err.Line, err.Column), nil, err
	}
	parts := make([]string, len(toks))
	for i, t := range toks {
		tr := 0
		if t.TrimWhitespaces {
			tr = 1
		}
		parts[i] = fmt.Sprintf("%d,%s,%d,%d,%d", int(t.Typ), hx(t.Val), t.Line, t.Col, tr)
	}
	return "ok:" + strings.Join(parts, ";"), toks, nil
}
