package main

import (
	"fmt"
	"github.com/flosch/pongo2/v6"
	"io"
	"net/http"
	"os"
	"path/filepath"
	"strings"
)

func init() { props["C06"] = runC06 }

// C06: text without opening delimiters renders to itself; independent fragments render to
// the concatenation of their renderings; verbatim bodies literally; comments nothing;
// templatetag exactly the delimiter it names.
func c06Fragment(g *docGen, kind int) (src string, what string) {
	switch kind {
	case 0:
		return sanitizeText(g.text()), "text"
	case 1:
		return g.verbatim(), "verbatim"
	case 2:
		return g.lineComment(), "comment"
	case 3:
		g.noTrim = true
		return "{{ " + g.rg.pick([]string{"a", "b|upper", "n + 1", "s|length", "\"lit\"", "lst|join:\",\"", "u"}) + " }}", "variable"
	case 4:
		return "{% comment %}" + g.rg.pick([]string{"x", "{{ never }}", "{% if %}", "", "{% comment %}", "a{% comment x %}b", "{% endif %}{% endfor %}", "{# #}", "{% endcomment", "{%comment%}", "{% block b %}",
			// what a comment holds is never looked at, so it may hold what no expression or tag may
			"{{ price ~ currency }}", "{% if a ? b : c %}", "{{ $x }}", "{{ a; b }}", "{{ a & b }}", "{% @decorator %}", "{{ a \\ b }}", "{{ `x` }}", "{{ a # b }}", "{{ 1 ^^ 2 }}", "{{ 'q' }}"}) + "{% endcomment %}", "commenttag"
	case 5:
		return "{% templatetag " + g.rg.pick([]string{"openblock", "closeblock", "openvariable", "closevariable", "openbrace", "closebrace", "opencomment", "closecomment"}) + " %}", "templatetag"
	}
	return "{% if a %}" + g.rg.pick([]string{"yes", "{{ b }}", ""}) + "{% else %}no{% endif %}", "tagblock"
}

// sanitizeText makes a string free of opening delimiters, also across its end.
func sanitizeText(s string) string {
	for strings.Contains(s, "{{") || strings.Contains(s, "{%") || strings.Contains(s, "{#") {
		s = strings.NewReplacer("{{", "{ {", "{%", "{ %", "{#", "{ #").Replace(s)
	}
	for strings.HasSuffix(s, "{") {
		s = s[:len(s)-1] + "."
	}
	if s == "" {
		s = "."
	}
	return s
}

var c06TemplateTags = map[string]string{"openblock": "{%", "closeblock": "%}", "openvariable": "{{", "closevariable": "}}",
	"openbrace": "{", "closebrace": "}", "opencomment": "{#", "closecomment": "#}"}

func c06Ctx() gctx {
	return gctx{{"a", gInt(1)}, {"b", gStr("x")}, {"s", gStr("héllo")}, {"n", gInt(7)}, {"lst", gList(gInt(1), gInt(2))}, {"u", gStr("")}}
}

func runC06(r *run) {
	rg := newRng(r.seed)
	gen := func(emit func(caseT)) {
		w := &world{}
		// exhaustive short strings over the lexer alphabet (as sources)
		maxLen := 4
		nfr := 6000
		if r.tier == "thorough" {
			maxLen = 5
			nfr = 120000
		}
		genLexExhaustive(maxLen, func(s string) { emit(caseT{"render", w.args(s, c06Ctx())}) })
		// random delimiter-free byte strings
		for i := 0; i < nfr/2; i++ {
			var sb strings.Builder
			for k := 0; k < 1+rg.intn(24); k++ {
				switch rg.intn(8) {
				case 0:
					sb.WriteByte(byte(rg.intn(256)))
				case 1:
					sb.WriteString(rg.pick([]string{"\r\n", "\n", "\r", "\t", "\x00", "\x01"}))
				case 2:
					sb.WriteString(rg.pick([]string{"{", "}", "%", "#", "} }", "{ {", "{ %", "% }"}))
				case 3:
					sb.WriteRune(rune(0x80 + rg.intn(0x3000)))
				default:
					sb.WriteString(rg.pick([]string{"a", "hello ", "<b>", "&", "1", "  "}))
				}
			}
			s := sanitizeText(sb.String())
			emit(caseT{"text", w.args(s, c06Ctx())})
		}
		// text that comes out of a loader is reproduced like text handed over as a string, whatever
		// bytes it starts with
		for i := 0; i < nfr/10; i++ {
			var sb strings.Builder
			sb.WriteString(rg.pick([]string{"", "\xef\xbb\xbf", "\xef\xbb", "\ufeff\ufeff", "\xff\xfe", "\x00", "#!", "\r\n", "<?xml", " ", "\xc3"}))
			for k := 0; k < rg.intn(6); k++ {
				sb.WriteString(rg.pick([]string{"a", "hello ", "\n", "\xe9", "é", "{ ", "}", "%", "\xef\xbb\xbf"}))
			}
			s := sanitizeText(sb.String())
			wf := &world{files: []map[string]string{{"main.tpl": s, "wrap.tpl": "[{% include \"main.tpl\" %}]", "child.tpl": "{% extends \"main.tpl\" %}"}}}
			emit(caseT{"textfile", append(wf.args(rg.pick([]string{"main.tpl", "wrap.tpl", "child.tpl"}), c06Ctx()), "-", "-", hx(s))})
		}
		// whitespace-control delimiters next to text that comments and verbatim blocks split into
		// several pieces: only the whitespace that touches the delimiter goes
		for i := 0; i < nfr/3; i++ {
			var sb strings.Builder
			for k := 0; k < 2+rg.intn(6); k++ {
				sb.WriteString(rg.pick([]string{" a ", "a b", "\n x", " ", "  \t", "x", "{# c #}", "{# c #}", "{% verbatim %} v {% endverbatim %}", "{% verbatim %}{% endverbatim %}",
					"{{ b -}}", "{{- b }}", "{{- b -}}", "{%- if a %}", "{% if a -%}", "{%- if a -%}", "{% comment %}x{% endcomment %}", "{%- comment -%} x {%- endcomment -%}", "{{ b }}",
					// characters that Unicode calls space but whitespace control does not remove
					"\u00a0", "\f", "\v", "\u0085", "\u2003", " \u00a0 ", "\n\f\n", "\u3000x"}))
			}
			src := sb.String()
			src += strings.Repeat("{% endif %}", strings.Count(src, "if a"))
			emit(caseT{"render", w.args(src, c06Ctx())})
		}
		// long runs of literal text (around the usual buffer sizes) after shorter output
		for i := 0; i < 60; i++ {
			g := newDocGen(rg.fork(uint64(700000 + i)))
			size := []int{2047, 2048, 2049, 4095, 4096, 4097, 5000, 9000}[i%8]
			big := strings.Repeat("0123456789abcdef", size/16+1)[:size]
			var frags []string
			for k := 0; k < 1+g.rg.intn(3); k++ {
				f, _ := c06Fragment(g, 1+g.rg.intn(6))
				frags = append(frags, f)
			}
			frags = append(frags, g.rg.pick([]string{"s", "short ", "{{ b }}"}), g.rg.pick([]string{"{# c #}", "{% verbatim %}v{% endverbatim %}", "{% templatetag openblock %}", "{{ a }}"}), big, "{# c #}", big[:size/2], "tail")
			args := w.args(strings.Join(frags, ""), c06Ctx())
			args = append(args, "-", "-", joinHex(frags))
			emit(caseT{"frags", args})
		}
		// the same text files through the loaders pongo2 ships, on a real directory
		for i := 0; i < 44; i++ {
			emit(caseT{"realtext", []string{fmt.Sprint(i)}})
		}
		// fragment sequences
		for i := 0; i < nfr; i++ {
			g := newDocGen(rg.fork(uint64(i)))
			n := 2 + g.rg.intn(5)
			var frags []string
			prevText := false
			for k := 0; k < n; k++ {
				kind := g.rg.intn(7)
				if prevText && kind == 0 {
					kind = 1 + g.rg.intn(6)
				}
				f, _ := c06Fragment(g, kind)
				frags = append(frags, f)
				prevText = kind == 0
			}
			args := w.args(strings.Join(frags, ""), c06Ctx())
			args = append(args, "-", "-", joinHex(frags))
			emit(caseT{"frags", args})
		}
	}
	driveCases(r, gen, execC06)
	r.finish(nil)
}

func execRealText(r *run, c caseT) {
	var i int
	fmt.Sscanf(c.args[0], "%d", &i)
	prefixes := []string{"", "\xef\xbb\xbf", "\xef\xbb", "\ufeff\ufeff", "\xff\xfe", "\x00", "#!", "\r\n", "<?xml", " ", "\xc3"}
	text := prefixes[i%len(prefixes)] + "id,name\r\n1,x\r\n"
	dir := filepath.Join(r.outdir, fmt.Sprintf("realtext%d", i))
	must(os.MkdirAll(dir, 0o755))
	must(os.WriteFile(filepath.Join(dir, "t.txt"), []byte(text), 0o644))
	must(os.WriteFile(filepath.Join(dir, "wrap.tpl"), []byte("[{% include \"t.txt\" %}]"), 0o644))
	var l pongo2.TemplateLoader
	switch (i / len(prefixes)) % 4 {
	case 0:
		l = pongo2.MustNewLocalFileSystemLoader(dir)
	case 1:
		sl, err := pongo2.NewSandboxedFilesystemLoader(dir)
		must(err)
		l = sl
	case 2:
		l = pongo2.NewFSLoader(os.DirFS(dir))
	default:
		hl, err := pongo2.NewHttpFileSystemLoader(http.Dir(dir), "")
		must(err)
		l = hl
	}
	set := pongo2.NewSet("realtext", l)
	direct, e1 := set.RenderTemplateFile("t.txt", nil)
	wrapped, e2 := set.RenderTemplateFile("wrap.tpl", nil)
	fromString, e3 := set.RenderTemplateString(text, nil)
	id := r.emit(c.op, c.args, "realtext")
	r.nontrivial("realtext" + c.args[0])
	if e1 != nil || e2 != nil || e3 != nil || direct != text || wrapped != "["+text+"]" || fromString != text {
		r.reject(id, "text read through one of pongo2's loaders is not reproduced byte for byte", map[string]any{"text_hex": hx(text), "direct_hex": hx(direct), "included_hex": hx(wrapped), "loader": (i / len(prefixes)) % 4})
	}
}

func execC06(r *run, c caseT) {
	if c.op == "realtext" {
		execRealText(r, c)
		return
	}
	if c.op == "textfile" {
		w, name, ctx := worldFromArgs(c.args)
		o, _ := w.render(name, true, ctx)
		id := r.emit("renderfile", c.args, o.obs)
		r.nontrivial(c.args[2] + c.args[0])
		want := unhx(c.args[9])
		if name == "wrap.tpl" {
			want = "[" + want + "]"
		}
		if o.obs != obsOK(want) {
			r.reject(id, "text loaded through a loader is not reproduced byte for byte", map[string]any{"entry": name, "text_hex": c.args[9], "observed": o.obs})
		}
		return
	}
	w, src, ctx := worldFromArgs(c.args)
	o, _ := w.render(src, false, ctx)
	id := r.emit(c.op, c.args, o.obs)
	if id%7919 == 0 {
		r.sample(map[string]any{"source": src, "observed": o.obs})
	}
	if o.panicked != nil {
		r.reject(id, "panic", map[string]any{"source_hex": c.args[0], "panic": fmt.Sprint(o.panicked)})
		return
	}
	switch c.op {
	case "render":
		if !strings.Contains(src, "{{") && !strings.Contains(src, "{%") && !strings.Contains(src, "{#") {
			if o.obs != obsOK(src) {
				r.reject(id, "a source without opening delimiters does not render to itself", map[string]any{"source_hex": c.args[0], "observed": o.obs})
			}
			if len(src) > 1 {
				r.nontrivial(c.args[0])
			}
		}
	case "text":
		r.nontrivial(c.args[0])
		if o.obs != obsOK(src) {
			r.reject(id, "a source without opening delimiters does not render to itself", map[string]any{"source_hex": c.args[0], "observed": o.obs})
		}
	case "frags":
		r.nontrivial(c.args[0])
		if tpl, err := pongo2.FromString(src); err == nil {
			// what ExecuteBytes returned belongs to the caller: later renderings do not change it
			b1, e1 := tpl.ExecuteBytes(ctx.goContext())
			keep := string(b1)
			for k := 0; k < 3 && e1 == nil; k++ {
				_, _ = tpl.Execute(ctx.goContext())
				if t2, err2 := pongo2.FromString("XXXXXXXXXXXXXXXXXXXXXXXXXXXXXXXXXXXXXXXXXXXXXXXXXXXXXXXXXXXXXXXX{{ s }}"); err2 == nil {
					_, _ = t2.ExecuteBytes(ctx.goContext())
					_ = t2.ExecuteWriter(ctx.goContext(), io.Discard)
				}
			}
			if e1 == nil && string(b1) != keep {
				r.reject(id, "the bytes returned by ExecuteBytes changed when something else was rendered afterwards", map[string]any{"source_hex": c.args[0], "before": keep, "after": string(b1)})
				return
			}
		}
		// literal text is reproduced in source order whichever entry point renders the template
		if tpl, err := pongo2.FromString(src); err == nil && o.err == nil {
			for k := 1; k < 4; k++ {
				if out, xerr, p := execVariant(tpl, ctx.goContext(), k); xerr != nil || p != nil || out != o.out {
					r.reject(id, "one of the Execute variants reproduces the text differently", map[string]any{"source_hex": c.args[0], "variant": k, "output": out, "expected": o.out})
					return
				}
			}
		}
		// the bytes handed to FromBytes belong to the caller: reusing them afterwards changes nothing
		buf := []byte(src)
		if tpl, err := pongo2.FromBytes(buf); err == nil {
			for k := range buf {
				buf[k] = 'X'
			}
			copy(buf, "{{ 1 }}{% if")
			if out, xerr := tpl.Execute(ctx.goContext()); xerr == nil && o.err == nil && out != o.out {
				r.reject(id, "a template compiled by FromBytes changed when the caller reused its byte slice", map[string]any{"source_hex": c.args[0], "output": out, "expected": o.out})
				return
			}
		}
		var frags []string
		for _, h := range strings.Split(c.args[9], ",") {
			frags = append(frags, unhx(h))
		}
		if o.err != nil {
			r.reject(id, "a sequence of independent fragments does not compile/execute", map[string]any{"source": src, "error": o.err.Error()})
			return
		}
		var want strings.Builder
		for _, f := range frags {
			fo, _ := w.render(f, false, ctx)
			if fo.err != nil || fo.panicked != nil {
				r.reject(id, "a fragment alone does not render", map[string]any{"fragment": f})
				return
			}
			want.WriteString(fo.out)
			// direct expectations for the literal kinds
			if strings.HasPrefix(f, "{% verbatim %}") {
				body := strings.TrimSuffix(strings.TrimPrefix(f, "{% verbatim %}"), "{% endverbatim %}")
				if fo.out != body {
					r.reject(id, "a verbatim body is not emitted literally", map[string]any{"fragment": f, "output": fo.out})
					return
				}
			}
			if strings.HasPrefix(f, "{#") || strings.HasPrefix(f, "{% comment %}") {
				if fo.out != "" {
					r.reject(id, "a comment emitted something", map[string]any{"fragment": f, "output": fo.out})
					return
				}
			}
			if strings.HasPrefix(f, "{% templatetag ") {
				name := strings.TrimSuffix(strings.TrimPrefix(f, "{% templatetag "), " %}")
				if fo.out != c06TemplateTags[name] {
					r.reject(id, "templatetag did not emit the delimiter it names", map[string]any{"fragment": f, "output": fo.out})
					return
				}
			}
		}
		if o.out != want.String() {
			r.reject(id, "independent fragments do not render to the concatenation of their renderings", map[string]any{"source": src, "output": o.out, "expected": want.String()})
		}
	}
}
