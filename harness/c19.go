package main

import (
	"fmt"
	"strings"

	"github.com/flosch/pongo2/v6"
)

func init() { props["C19"] = runC19 }

// C19: v|f1:a1|f2:a2 is f2(f1(v,a1),a2), equal to composing the public ApplyFilter; at every
// expression position and in the filter tag; unknown names never render silently;
// registering twice is refused.

type c19Filter struct {
	name  string
	param string // "" none, else source text of the parameter (literal or variable)
}

var c19Filters = []c19Filter{
	{"upper", ""}, {"lower", ""}, {"capfirst", ""}, {"length", ""}, {"first", ""}, {"last", ""}, {"title", ""},
	{"add", "\"Z\""}, {"add", "2"}, {"add", "pv"}, {"cut", "\"a\""}, {"cut", "ps"}, {"default", "\"dv\""}, {"default", "ps"},
	{"truncatechars", "5"}, {"truncatechars", "pn"}, {"center", "9"}, {"ljust", "pn"}, {"rjust", "7"},
	{"slice", "\"1:3\""}, {"slice", "sl"}, {"join", "\"-\""}, {"join", "ps"}, {"wordcount", ""}, {"floatformat", "2"}, {"floatformat", ""},
	{"yesno", "\"y,n,m\""}, {"yesno", ""}, {"pluralize", ""}, {"pluralize", "\"es\""}, {"divisibleby", "2"}, {"integer", ""}, {"float", ""},
	{"escape", ""}, {"addslashes", ""}, {"striptags", ""}, {"urlencode", ""}, {"linebreaksbr", ""}, {"make_list", ""}, {"split", "\",\""},
	{"default", "[ps, pn]"}, {"default", "[sv, 1]"}, {"join", "pv"}, {"add", "[pn]"},
	{"e", ""}, {"time", "\"15:04\""}, {"date", "\"2006\""},
	{"length_is", "3"}, {"get_digit", "1"}, {"default_if_none", "\"none\""}, {"safe", ""}, {"escapejs", ""}, {"phone2numeric", ""},
}

func c19Ctx() gctx {
	return gctx{{"sv", gStr("a<b ca")}, {"nv", gInt(12)}, {"fv", gFloat("3.14159")}, {"lv", gList(gStr("x"), gStr("yy"), gStr("z"))},
		{"ev", gStr("")}, {"nil1", gNil()}, {"pv", gStr("!")}, {"ps", gStr("a")}, {"pn", gInt(8)}, {"sl", gStr(":2")}, {"bv", gBool(true)}}
}

var c19Values = []string{"sv", "nv", "fv", "lv", "ev", "nil1", "\"lit a\"", "42", "bv", "-5", "-42"}

func evalParam(src string, ctx pongo2.Context) *pongo2.Value {
	if src == "" {
		return nil
	}
	if src[0] == '"' {
		return pongo2.AsValue(src[1 : len(src)-1])
	}
	if src[0] == '[' {
		// a list literal: its items, evaluated in the current scope
		var items []any
		for _, it := range strings.Split(src[1:len(src)-1], ", ") {
			items = append(items, evalParam(it, ctx).Interface())
		}
		return pongo2.AsValue(items)
	}
	if src[0] >= '0' && src[0] <= '9' {
		var n int
		fmt.Sscanf(src, "%d", &n)
		return pongo2.AsValue(n)
	}
	return pongo2.AsValue(ctx[src])
}

func runC19(r *run) {
	rg := newRng(r.seed)
	gen := func(emit func(caseT)) {
		n := 6000
		if r.tier == "thorough" {
			n = 150000
		}
		w := &world{}
		for i := 0; i < n; i++ {
			g := rg.fork(uint64(i))
			k := g.intn(5)
			var chain []string
			for j := 0; j < k; j++ {
				f := c19Filters[g.intn(len(c19Filters))]
				s := f.name
				if f.param != "" {
					s += ":" + f.param
				}
				chain = append(chain, s)
			}
			v := c19Values[g.intn(len(c19Values))]
			pos := g.intn(15)
			if pos == 9 && k == 0 {
				pos = 0 // the filter tag needs a chain
			}
			emit(caseT{"chain", append(w.args("", c19Ctx()), "-", "-", hx(v), hx(strings.Join(chain, "|")), fmt.Sprint(pos))})
		}
		// every filter twice in one chain, alone and with another filter in between
		for fi, f := range c19Filters {
			one := f.name
			if f.param != "" {
				one += ":" + f.param
			}
			mid := c19Filters[(fi*7+3)%len(c19Filters)]
			midS := mid.name
			if mid.param != "" {
				midS += ":" + mid.param
			}
			for _, chain := range []string{one + "|" + one, one + "|" + midS + "|" + one} {
				for _, v := range []string{"sv", "nv", "lv"} {
					for _, pos := range []int{0, 3, 9} {
						emit(caseT{"chain", append(w.args("", c19Ctx()), "-", "-", hx(v), hx(chain), fmt.Sprint(pos))})
					}
				}
			}
		}
		// tags that collect their body before writing it, re-entered through a recursive macro:
		// every level must get the chain applied to ITS rendered body
		for _, c := range [][2]string{
			{"{% macro m(n) %}{% filter upper %}a{% if n %}{{ m(n - 1) }}{% endif %}b{% endfilter %}{% endmacro %}{{ m(2) }}", "AAABBB"},
			{"{% macro m(n) %}{% filter upper|cut:\"A\" %}a{{ n }}{% if n %}[{{ m(n - 1) }}]{% endif %}b{% endfilter %}{% endmacro %}{{ m(2) }}", "2[1[0B]B]B"},
			{"{% macro m(n) %}{% filter lower %}X{% if n %}{{ m(n - 1) }}{{ m(n - 1) }}{% endif %}Y{% endfilter %}{% endmacro %}{{ m(2) }}", "xxxyxyyxxyxyyy"},
			{"{% macro m(n) %}{% spaceless %}<a> {% if n %}{{ m(n - 1) }}{% endif %} </a>{% endspaceless %}{% endmacro %}{{ m(2) }}", "<a><a><a></a></a></a>"},
			{"{% macro m(n) %}{% filter upper %}{% for i in \"ab\" %}{{ i }}{% if n %}{{ m(n - 1) }}{% endif %}{% endfor %}{% endfilter %}{% endmacro %}{{ m(1) }}", "AABBAB"},
		} {
			a := w.args(c[0], c19Ctx())
			emit(caseT{"reentrant", append(a, "-", "-", hx(c[1]))})
		}
		// a chain applied to a name that is bound to nothing in the current scope works on that
		// nothing, not on a context entry of the same name
		for _, c := range [][2]string{
			{"{% macro greet(name) %}<{{ name|default:\"anonymous\" }}>{% endmacro %}{{ greet() }}{{ greet(nick|safe) }}{{ greet(\"x\") }}", "<anonymous><anonymous><x>"},
			{"{% with name=nothere %}[{{ name|default:\"d\"|upper }}]{% endwith %}{% set name = nick %}[{{ name|default:\"e\" }}][{{ name|length }}]", "[D][e][0]"},
		} {
			a := w.args(c[0], append(c19Ctx(), ctxEntry{"name", gStr("ACME Inc.")}))
			emit(caseT{"reentrant", append(a, "-", "-", hx(c[1]))})
		}
		// unknown names
		wf := &world{files: []map[string]string{{"badf.tpl": "A{{ sv|nosuchfilter }}B", "badt.tpl": "A{% nosuchtag %}B", "good.tpl": "G"}}}
		for _, src := range []string{"{% include \"badf.tpl\" if_exists %}", "{% include \"badt.tpl\" if_exists %}", "{% set n = \"badf.tpl\" %}{% include n if_exists %}", "{% set n = \"badt.tpl\" %}x{% include n if_exists %}y",
			"{% include \"badf.tpl\" %}", "{% ssi \"badt.tpl\" parsed %}", "{% import \"badf.tpl\" m %}", "{% extends \"badt.tpl\" %}"} {
			emit(caseT{"unknown", wf.args(src, c19Ctx())})
		}
		for _, src := range []string{"{{ sv|nosuchfilter }}", "{{ sv|upper|nosuch:1 }}", "{% nosuchtag %}", "{% if sv|nosuch %}x{% endif %}", "{% filter nosuch %}x{% endfilter %}", "{% filter upper|nosuch %}x{% endfilter %}"} {
			emit(caseT{"unknown", w.args(src, c19Ctx())})
		}
		emit(caseT{"register", []string{hx("upper")}})
		emit(caseT{"register", []string{hx("for")}})
		for i := 0; i < 3; i++ {
			emit(caseT{"register2", []string{hx(fmt.Sprintf("verifdup%d", i))}})
		}
		// a filter replaced between two renderings of the same text: every route uses the
		// function that is registered at that moment
		for i := 0; i < 6; i++ {
			emit(caseT{"replacehist", []string{fmt.Sprint(i)}})
		}
	}
	driveCases(r, gen, execC19)
	r.finish(nil)
}

// the template that uses  v|chain  at a given expression position, and the template that
// prints an already computed value the same way
func c19Templates(pos int, expr string) (string, string, bool) {
	switch pos {
	case 0:
		return "{{ " + expr + " }}", "{{ rv }}", true
	case 1:
		return "{% if " + expr + " %}T{% else %}F{% endif %}", "{% if rv %}T{% else %}F{% endif %}", true
	case 2:
		return "{% for it in " + expr + " %}[{{ it }}]{% empty %}E{% endfor %}", "{% for it in rv %}[{{ it }}]{% empty %}E{% endfor %}", true
	case 3:
		return "{% with w=" + expr + " %}{{ w }}{% endwith %}", "{% with w=rv %}{{ w }}{% endwith %}", true
	case 4:
		return "{% set w = " + expr + " %}{{ w }}", "{% set w = rv %}{{ w }}", true
	case 5:
		return "{% macro m(p) %}<{{ p }}>{% endmacro %}{{ m(" + expr + ") }}", "{% macro m(p) %}<{{ p }}>{% endmacro %}{{ m(rv) }}", true
	case 6:
		return "{% macro m(p=" + expr + ") %}<{{ p }}>{% endmacro %}{{ m() }}", "{% macro m(p=rv) %}<{{ p }}>{% endmacro %}{{ m() }}", true
	case 7:
		return "{{ 1 + " + expr + " }}", "{{ 1 + rv }}", true
	}
	return "{{ lv[" + expr + "] }}", "{{ lv[rv] }}", true
}

// the filter tag: the chain applied to the rendered body
func c19FilterTag(v, chain string) string {
	return "{% filter " + chain + " %}{{ " + v + " }}{% endfilter %}"
}

func execC19(r *run, c caseT) {
	switch c.op {
	case "register":
		name := unhx(c.args[0])
		obs := ""
		rejected := ""
		if pongo2.FilterExists(name) {
			e1 := pongo2.RegisterFilter(name, func(in *pongo2.Value, p *pongo2.Value) (*pongo2.Value, *pongo2.Error) { return in, nil })
			obs += fmt.Sprintf("filter-refused:%v ", e1 != nil)
			if e1 == nil {
				rejected = "registering an existing filter name twice was not refused"
			}
		}
		for _, tn := range registeredTags() {
			if tn == name {
				e2 := pongo2.RegisterTag(name, nil)
				obs += fmt.Sprintf("tag-refused:%v", e2 != nil)
				if e2 == nil {
					rejected = "registering an existing tag name twice was not refused"
				}
			}
		}
		id := r.emit(c.op, c.args, obs)
		r.nontrivial("register:" + name)
		if rejected != "" {
			r.reject(id, rejected, map[string]any{"name": name})
		}
		return
	case "register2":
		// a name that is taken stays taken, whatever is offered for it: the very same function
		// again, or another function made by the same constructor
		name := unhx(c.args[0])
		mkF := func(tag string) pongo2.FilterFunction {
			return func(in *pongo2.Value, p *pongo2.Value) (*pongo2.Value, *pongo2.Error) {
				return pongo2.AsValue(tag), nil
			}
		}
		mkT := func(tag string) pongo2.TagParser {
			return func(doc *pongo2.Parser, start *pongo2.Token, args *pongo2.Parser) (pongo2.INodeTag, *pongo2.Error) {
				return &textNode{tag}, nil
			}
		}
		f1, t1 := mkF("first"), mkT("first")
		var steps []string
		if !pongo2.FilterExists(name) {
			steps = append(steps, fmt.Sprintf("filter-new:%v", pongo2.RegisterFilter(name, f1) == nil))
			steps = append(steps, fmt.Sprintf("tag-new:%v", pongo2.RegisterTag(name, t1) == nil))
		}
		steps = append(steps, fmt.Sprintf("filter-same-refused:%v", pongo2.RegisterFilter(name, f1) != nil))
		steps = append(steps, fmt.Sprintf("filter-sibling-refused:%v", pongo2.RegisterFilter(name, mkF("second")) != nil))
		steps = append(steps, fmt.Sprintf("tag-same-refused:%v", pongo2.RegisterTag(name, t1) != nil))
		steps = append(steps, fmt.Sprintf("tag-sibling-refused:%v", pongo2.RegisterTag(name, mkT("second")) != nil))
		out, err := pongo2.RenderTemplateString("{{ 1|"+name+" }}{% "+name+" %}", nil)
		steps = append(steps, fmt.Sprintf("use:%s:%v", out, err == nil))
		obs := strings.Join(steps, " ")
		id := r.emit(c.op, c.args, obs)
		r.nontrivial("register2:" + name)
		if strings.Contains(obs, "refused:false") || strings.Contains(obs, "new:false") || !strings.Contains(obs, "use:firstfirst:true") {
			r.reject(id, "a registered filter or tag name could be registered again (or the first registration is no longer what the name means)", map[string]any{"name": name, "observed": obs})
		}
		return
	case "replacehist":
		var i int
		fmt.Sscanf(c.args[0], "%d", &i)
		name := fmt.Sprintf("verifrepl%d", i)
		mk := func(tag string) pongo2.FilterFunction {
			return func(in *pongo2.Value, p *pongo2.Value) (*pongo2.Value, *pongo2.Error) {
				return pongo2.AsValue(tag + in.String()), nil
			}
		}
		if !pongo2.FilterExists(name) {
			must(pongo2.RegisterFilter(name, mk("[1]")))
		} else {
			must(pongo2.ReplaceFilter(name, mk("[1]")))
		}
		set := pongo2.NewSet("replacehist", newMemLoader(map[string]string{"f.tpl": "{{ \"a\"|" + name + " }}/{% filter " + name + " %}a{% endfilter %}"}))
		set.Debug = i%3 == 2
		text := "{{ \"a\"|" + name + " }}/{% filter " + name + " %}a{% endfilter %}"
		render := func() string {
			var out string
			var err error
			switch i % 3 {
			case 0:
				out, err = set.RenderTemplateString(text, nil)
			case 1:
				out, err = set.RenderTemplateBytes([]byte(text), nil)
			default:
				out, err = set.RenderTemplateFile("f.tpl", nil)
			}
			if err != nil {
				return "err:" + err.Error()
			}
			return out
		}
		first := render()
		must(pongo2.ReplaceFilter(name, mk("[2]")))
		second := render()
		av, aerr := pongo2.ApplyFilter(name, pongo2.AsValue("a"), nil)
		if aerr != nil {
			must(aerr)
		}
		obs := first + " " + second + " " + av.String()
		id := r.emit(c.op, c.args, obs)
		r.nontrivial("replacehist" + c.args[0])
		if first != "[1]a/[1]a" || second != "[2]a/[2]a" || av.String() != "[2]a" {
			r.reject(id, "after ReplaceFilter a rendering of the same text (or a route within it) still used the replaced function", map[string]any{"first": first, "second": second, "apply_filter": av.String()})
		}
		return
	case "reentrant":
		w, src, ctx := worldFromArgs(c.args)
		o, _ := w.render(src, false, ctx)
		id := r.emit("render", w.args(src, ctx), o.obs)
		r.nontrivial(c.args[0])
		if o.obs != obsOK(unhx(c.args[9])) {
			r.reject(id, "a tag that is re-entered while it collects its body did not apply its chain to its own rendered body", map[string]any{"template": src, "observed": o.obs, "expected": unhx(c.args[9])})
		}
		return
	case "unknown":
		w, src, ctx := worldFromArgs(c.args)
		o, _ := w.render(src, false, ctx)
		id := r.emit(c.op, c.args, o.obs)
		r.nontrivial(c.args[0])
		if o.obs != "cerr" && o.obs != "xerr" {
			r.reject(id, "an unregistered tag or filter name rendered silently", map[string]any{"template": src, "observed": o.obs})
		}
		return
	}
	w, _, ctx := worldFromArgs(c.args)
	v, chainS := unhx(c.args[9]), unhx(c.args[10])
	var pos int
	fmt.Sscanf(c.args[11], "%d", &pos)
	expr := v
	if chainS != "" {
		expr += "|" + chainS
	}
	src, ref, _ := c19Templates(pos, expr)
	neg := strings.HasPrefix(v, "-")
	if neg {
		// a filter binds tighter than the unary minus: -5|f is -(5|f)
		ref = strings.Replace(ref, "rv", "-rv", 1)
	}
	if pos == 11 {
		// a parameter default: evaluated at the call, in the scope of the call's definition as it is then
		src = "{% macro m(p=" + expr + ") %}<{{ p }}>{% endmacro %}{% set ps = \"Q\" %}{% set pn = 3 %}{% set pv = \"#\" %}{% set sl = \"1:\" %}{{ m() }}"
		ref = "{% macro m(p) %}<{{ p }}>{% endmacro %}{{ m(rv) }}"
		if neg {
			ref = "{% macro m(p) %}<{{ p }}>{% endmacro %}{{ m(-rv) }}"
		}
	}
	switch pos {
	case 12:
		// an element of a comma-separated list that is not the last one: the comma ends the chain
		src = "{% macro m(p, q) %}<{{ p }}>{{ q }}{% endmacro %}{{ m(" + expr + ", \"t\") }}"
		ref = "{% macro m(p, q) %}<{{ p }}>{{ q }}{% endmacro %}{{ m(rv, \"t\") }}"
	case 13:
		src = "{% for it in [" + expr + ", \"t\"] %}[{{ it }}]{% endfor %}"
		ref = "{% for it in [rv, \"t\"] %}[{{ it }}]{% endfor %}"
	case 14:
		src = "{% macro m(p=" + expr + ", q=\"t\") %}<{{ p }}>{{ q }}{% endmacro %}{{ m() }}"
		ref = "{% macro m(p, q) %}<{{ p }}>{{ q }}{% endmacro %}{{ m(rv, \"t\") }}"
	}
	if pos >= 12 && neg {
		ref = strings.Replace(ref, "rv", "-rv", 1)
	}
	if pos == 10 {
		// one pair among several of a with tag: the other pairs rebind names the chain's
		// arguments use; every pair is evaluated in the enclosing scope
		src = "{% with ps=\"-\" pn=1 pv=\"?\" sl=\"9:\" w=" + expr + " %}{{ w }}{% endwith %}"
		ref = "{% with w=rv %}{{ w }}{% endwith %}"
		if neg {
			ref = "{% with w=-rv %}{{ w }}{% endwith %}"
		}
	}
	if pos == 9 {
		src = c19FilterTag(v, chainS)
		ref = "{% autoescape off %}{{ rv }}{% endautoescape %}"
	}
	o, _ := w.render(src, false, ctx)
	// re-emit as a plain render case so that the model runs the same template
	args := w.args(src, ctx)
	id := r.emit("render", args, o.obs)
	if id%601 == 0 {
		r.sample(map[string]any{"template": src, "observed": o.obs})
	}
	if o.panicked != nil {
		r.reject(id, "panic", map[string]any{"template": src, "panic": fmt.Sprint(o.panicked)})
		return
	}
	// the same chain through the public ApplyFilter
	gc := ctx.goContext()
	if pos == 11 {
		gc["ps"], gc["pn"], gc["pv"], gc["sl"] = "Q", 3, "#", "1:"
	}
	var cur *pongo2.Value
	switch {
	case v[0] == '"':
		cur = pongo2.AsValue(v[1 : len(v)-1])
	case v == "42" || v == "-42":
		cur = pongo2.AsValue(42)
	case v == "-5":
		cur = pongo2.AsValue(5)
	default:
		cur = pongo2.AsValue(gc[v])
	}
	if pos == 9 {
		// the body as it renders on its own is what the chain is applied to
		bo, _ := w.render("{{ "+v+" }}", false, ctx)
		if bo.err != nil || bo.panicked != nil {
			return
		}
		cur = pongo2.AsValue(bo.out)
	}
	failed := false
	usesSafe := false
	if chainS != "" {
		for _, f := range strings.Split(chainS, "|") {
			name, param := f, ""
			if i := strings.Index(f, ":"); i >= 0 {
				name, param = f[:i], f[i+1:]
			}
			if name == "safe" {
				usesSafe = true
			}
			var ferr *pongo2.Error
			cur, ferr = pongo2.ApplyFilter(name, cur, evalParam(param, gc))
			if ferr != nil {
				failed = true
				break
			}
		}
	}
	if len(chainS) > 0 {
		r.nontrivial(c.args[9] + c.args[10] + c.args[11])
	}
	if failed {
		if o.obs != "xerr" && !(neg && o.obs == "cerr") {
			r.reject(id, "a filter error in the chain did not surface as an execution error", map[string]any{"template": src, "observed": o.obs})
		}
		return
	}
	rctx := ctx.goContext()
	rctx["rv"] = cur
	if usesSafe && pos == 0 {
		rctx["rv"] = pongo2.AsSafeValue(cur.Interface())
	}
	b := w.build()
	rt, err := b.set.FromString(ref)
	wobs := "xerr"
	if err != nil {
		wobs = "cerr" // e.g. a sign directly after a binary operator: invalid in both forms
	} else {
		want, xerr, pp := executeIn(rt, rctx)
		if pp != nil {
			return
		}
		if xerr == nil {
			wobs = obsOK(want)
		}
	}
	if o.obs != wobs {
		r.reject(id, "the filter chain in the template does not equal the composition of ApplyFilter calls", map[string]any{"template": src, "observed": o.obs, "expected": wobs})
	}
}

type textNode struct{ s string }

func (n *textNode) Execute(ctx *pongo2.ExecutionContext, w pongo2.TemplateWriter) *pongo2.Error {
	_, _ = w.WriteString(n.s)
	return nil
}
