package main

import (
	"fmt"
	"path/filepath"
	"strings"
	"time"

	"github.com/flosch/pongo2/v6"
)

func init() { props["C13"] = runC13 }

type macArg struct {
	src  string // how it is written at the call site / as default
	want string // how {{ p }} prints it inside the macro body (autoescape on)
}

var c13Args = []macArg{
	{`"lit"`, "lit"}, {`"a<b"`, "a&lt;b"}, {`7`, "7"}, {`2.5`, "2.500000"}, {`true`, "True"}, {`sv`, "x&amp;y"}, {`nv`, ""}, {`iv`, "42"}, {`sv|upper`, "X&amp;Y"}, {`iv + 1`, "43"},
}

func c13Ctx() gctx {
	// p0, p2, p3 collide with parameter names: an omitted parameter is still the parameter
	// (empty), never the outer binding of the same name
	return gctx{{"sv", gStr("x&y")}, {"nv", gNil()}, {"iv", gInt(42)}, {"p0", gStr("CTX0")}, {"p2", gStr("CTX2")}, {"p3", gInt(333)}}
}

func runC13(r *run) {
	rg := newRng(r.seed)
	var recCases []caseT
	gen := func(emit func(caseT)) {
		n := 3000
		if r.tier == "thorough" {
			n = 60000
		}
		for i := 0; i < n; i++ {
			g := rg.fork(uint64(i))
			np := g.intn(5)
			var params, wantDefaults []string
			var body strings.Builder
			body.WriteString("<")
			for k := 0; k < np; k++ {
				pn := fmt.Sprintf("p%d", k)
				if g.chance(1, 2) {
					d := c13Args[g.intn(len(c13Args))]
					params = append(params, pn+"="+d.src)
					wantDefaults = append(wantDefaults, d.want)
				} else {
					params = append(params, pn)
					wantDefaults = append(wantDefaults, "")
				}
				body.WriteString("{{ " + pn + " }}|")
			}
			body.WriteString("{{ p9 }}>")
			na := g.intn(6)
			var args, wantArgs []string
			for k := 0; k < na; k++ {
				a := c13Args[g.intn(len(c13Args))]
				args = append(args, a.src)
				wantArgs = append(wantArgs, a.want)
			}
			// expected output
			want := "xerr"
			if na <= np {
				var sb strings.Builder
				sb.WriteString("<")
				for k := 0; k < np; k++ {
					if k < na {
						sb.WriteString(wantArgs[k])
					} else {
						sb.WriteString(wantDefaults[k])
					}
					sb.WriteString("|")
				}
				sb.WriteString(">")
				want = obsOK("[" + sb.String() + "]")
			}
			def := "{% macro m(" + strings.Join(params, ", ") + ")"
			call := "(" + strings.Join(args, ", ") + ")"
			mode := g.intn(3)
			w := &world{}
			var src string
			switch mode {
			case 0:
				pre := ""
				if g.chance(1, 2) {
					pre = "{% set p1 = \"SET1\" %}{% set p4 = 44 %}"
				}
				src = pre + def + " %}" + body.String() + "{% endmacro %}[{{ m" + call + " }}]"
			case 1:
				w.files = []map[string]string{{"lib.tpl": def + " export %}" + body.String() + "{% endmacro %}"}}
				src = "{% import \"lib.tpl\" m %}[{{ m" + call + " }}]"
			default:
				w.files = []map[string]string{{"lib.tpl": "{% macro other() export %}o{% endmacro %}" + def + " export %}" + body.String() + "{% endmacro %}"}}
				src = "{% import \"lib.tpl\" other, m as mm %}[{{ mm" + call + " }}]"
			}
			a := w.args(src, c13Ctx())
			a = append(a, "-", "-", hx(want))
			emit(caseT{"render", a})
		}
		// recursion with a base case through one call site that has several arguments
		for _, c := range [][2]string{
			{"{% macro cell(a, b) %}[{{ a }}|{{ b }}]{% endmacro %}{% macro chain(n) %}{% if n > 0 %}{{ cell(n, chain(n - 1)) }}{% else %}end{% endif %}{% endmacro %}{{ chain(3) }}", "[3|[2|[1|end]]]"},
			{"{% macro t(a, b, c) %}({{ a }},{{ b }},{{ c }}){% endmacro %}{% macro r(n) %}{% if n > 0 %}{{ t(n, r(n - 1), n) }}{% else %}.{% endif %}{% endmacro %}{{ r(3) }}", "(3,(2,(1,.,1),2),3)"},
			{"{% macro f(n, acc=\"\") %}{% if n > 0 %}{{ f(n - 1, acc + n) }}{% else %}{{ acc }}{% endif %}{% endmacro %}{{ f(3) }}|{{ f(2, \"x\") }}", "321|x21"},
			{"{% macro two(a, b) %}({{ a }}{{ b }}){% endmacro %}{{ two(two(1, 2), two(two(3, 4), 5)) }}", "((12)((34)5))"},
		} {
			for mode := 0; mode < 2; mode++ {
				w := &world{}
				src := c[0]
				if mode == 1 {
					// the same macros imported from a library
					k := strings.LastIndex(src, "{% endmacro %}") + len("{% endmacro %}")
					lib := strings.ReplaceAll(src[:k], ") %}", ") export %}")
					var names []string
					for _, part := range strings.Split(lib, "{% macro ")[1:] {
						names = append(names, part[:strings.Index(part, "(")])
					}
					w.files = []map[string]string{{"reclib.tpl": lib}}
					src = "{% import \"reclib.tpl\" " + strings.Join(names, ", ") + " %}" + src[k:]
				}
				a := w.args(src, c13Ctx())
				emit(caseT{"render", append(a, "-", "-", hx(obsOK(c[1])))})
			}
		}
		// a default is an expression of the defining context, evaluated at every call that omits
		// the argument; a name means the macro it is bound to at the place of the call
		for _, c := range [][2]string{
			{"{% macro price(a, cur=currency) %}{{ a }}{{ cur }}{% endmacro %}{% set currency = \"A\" %}{{ price(1) }}{% set currency = \"B\" %}{{ price(2) }}{{ price(3, \"C\") }}{{ price(4) }}", "1A2B3C4B"},
			{"{% for q in \"xyz\" %}{% macro row(a, v=q) %}<{{ a }}{{ v }}>{% endmacro %}{{ row(1) }}{% endfor %}", "<1x><1y><1z>"},
			{"{% macro m(a, n=cnt + 1) %}{{ n }}{% endmacro %}{% set cnt = 0 %}{{ m(0) }}{% set cnt = 5 %}{{ m(0) }}{% with cnt=9 %}{{ m(0) }}{% endwith %}{{ m(0) }}", "1666"},
			{"{% macro g() %}one{% endmacro %}{{ g() }}{% macro g() %}two{% endmacro %}{{ g() }}", "onetwo"},
			{"{{ late() }}{% macro late() %}L{% endmacro %}{{ late() }}", "L"},
			{"{% import \"hl.tpl\" heading as greet %}{{ greet(\"a\") }}{% macro greet(t) %}local:{{ t }}{% endmacro %}{{ greet(\"b\") }}", "<h>a</h>local:b"},
			{"{% macro greet(t) %}local:{{ t }}{% endmacro %}{{ greet(\"a\") }}{% import \"hl.tpl\" heading as greet %}{{ greet(\"b\") }}", "local:a<h>b</h>"},
			{"{% macro a1() %}A{% endmacro %}{% macro b1() %}{{ a1() }}B{% endmacro %}{% macro a1() %}A2{% endmacro %}{{ b1() }}", "A2B"},
		} {
			w := &world{files: []map[string]string{{"hl.tpl": "{% macro heading(t) export %}<h>{{ t }}</h>{% endmacro %}"}}}
			a := w.args(c[0], c13Ctx())
			emit(caseT{"render", append(a, "-", "-", hx(obsOK(c[1])))})
		}
		// a parameter bound to nothing (omitted, or a nil argument) stays bound in every nested scope
		// of the body, whatever the caller's context holds under that name
		for _, c := range [][2]string{
			{"{% macro show(title) %}:{% for i in \"ab\" %}<{{ title }}{{ i }}>{% endfor %}({{ title }}){% with z=1 %}{{ title }}{% endwith %}{% endmacro %}{{ show() }}{{ show(nothere) }}{{ show(\"t\") }}", ":<a><b>():<a><b>():<ta><tb>(t)t"},
			{"{% macro outer(title) %}{% macro inner() %}[{{ title }}]{% endmacro %}{% for i in \"a\" %}{{ inner() }}{% endfor %}{% endmacro %}{{ outer() }}", "[]"},
		} {
			a := (&world{}).args(c[0], append(c13Ctx(), ctxEntry{"title", gStr("PAGE")}))
			emit(caseT{"render", append(a, "-", "-", hx(obsOK(c[1])))})
		}
		// macros and the autoescape tag: the tag is no scope (a macro defined inside it is callable
		// after it), and a macro's body follows the autoescaping in force where it is called / defined
		// as pongo2 has it (compared with the model)
		for _, src := range []string{"{% autoescape off %}{% macro m(x) %}[{{ x }}]{% endmacro %}{% endautoescape %}{{ m(\"a&b\") }}{{ m(1, 2) }}",
			"{% macro m(x) %}[{{ x }}]{% endmacro %}{% autoescape off %}{{ m(\"a&b\") }}{% endautoescape %}{{ m(\"c&d\") }}",
			"{% autoescape on %}{% import \"hl.tpl\" heading %}{% endautoescape %}{{ heading(\"x&y\") }}",
			"{% autoescape off %}{% macro m(x) %}[{{ x }}]{% endmacro %}{{ m(\"a&b\") }}{% endautoescape %}{% autoescape on %}{{ m(\"a&b\") }}{% endautoescape %}"} {
			w := &world{files: []map[string]string{{"hl.tpl": "{% macro heading(t) export %}<h>{{ t }}</h>{% endmacro %}"}}}
			emit(caseT{"render", w.args(src, c13Ctx())})
		}
		// a context key with the name of a macro: the macro (local, imported or aliased alike) is
		// what the name means in the template
		for _, c := range [][2]string{
			{"{% macro heading(t) %}<h>{{ t }}</h>{% endmacro %}{{ heading(\"x\") }}", "<h>x</h>"},
			{"{% import \"hl.tpl\" heading %}{{ heading(\"x\") }}", "<h>x</h>"},
			{"{% import \"hl.tpl\" heading as title %}{{ title(\"x\") }}{{ heading }}", "<h>x</h>CTXH"},
			{"{% import \"hl.tpl\" heading as p0, heading %}{{ p0(\"x\") }}{{ heading(\"y\") }}", "<h>x</h><h>y</h>"},
		} {
			w := &world{files: []map[string]string{{"hl.tpl": "{% macro heading(t) export %}<h>{{ t }}</h>{% endmacro %}"}}}
			ctx := append(c13Ctx(), ctxEntry{"heading", gStr("CTXH")}, ctxEntry{"title", gStr("CTXT")})
			a := w.args(c[0], ctx)
			emit(caseT{"render", append(a, "-", "-", hx(obsOK(c[1])))})
		}
		// runaway recursion: 1..3 macros without a base case, local and through import
		for k := 1; k <= 3; k++ {
			for _, imported := range []bool{false, true} {
				for _, viaDefault := range []bool{false, true} {
					var defs strings.Builder
					exp := ""
					if imported {
						exp = " export"
					}
					names := []string{}
					for j := 0; j < k; j++ {
						names = append(names, fmt.Sprintf("r%d", j))
					}
					for j := 0; j < k; j++ {
						next := names[(j+1)%k]
						if viaDefault {
							defs.WriteString(fmt.Sprintf("{%% macro %s(x=%s())%s %%}{{ x }}{%% endmacro %%}", names[j], next, exp))
						} else {
							defs.WriteString(fmt.Sprintf("{%% macro %s()%s %%}a{{ %s() }}{%% endmacro %%}", names[j], exp, next))
						}
					}
					w := &world{}
					src := defs.String() + "{{ r0() }}"
					if imported {
						w.files = []map[string]string{{"rec.tpl": defs.String()}}
						src = "{% import \"rec.tpl\" " + strings.Join(names, ", ") + " %}{{ r0() }}"
					}
					a := w.args(src, nil)
					a = append(a, "-", "-", hx("xerr"))
					recCases = append(recCases, caseT{"render", a})
				}
			}
		}
		for _, c := range recCases {
			emit(caseT{"recursion", c.args})
		}
		// a library is what the loaders serve when the importing template is compiled: several
		// importers compiled in one set while the library changes in between
		for i := 0; i < 12; i++ {
			emit(caseT{"importhist", []string{fmt.Sprint(i)}})
		}
	}
	driveCases(r, gen, func(r *run, c caseT) { execC13(r, c) })
	r.finish(nil)
}

func execImportHist(r *run, c caseT) {
	var i int
	fmt.Sscanf(c.args[0], "%d", &i)
	libs := []string{"{% macro m(a, b=\"d1\") export %}1[{{ a }}|{{ b }}]{% endmacro %}", "{% macro m(a, b=\"d2\", c=\"e2\") export %}2[{{ a }}|{{ b }}|{{ c }}]{% endmacro %}",
		"{% macro m(a) export %}3<{{ a }}>{% endmacro %}{% macro k() export %}K{% endmacro %}"}
	wants := []string{"1[x|d1]", "2[x|d2|e2]", "3<x>"}
	files := map[string]string{"lib.tpl": libs[0], "page.tpl": "{% import \"lib.tpl\" m %}{{ m(\"x\") }}", "sub/page.tpl": "{% import \"../lib.tpl\" m as q %}{{ q(\"x\") }}"}
	loader := newMemLoader(files)
	set := pongo2.NewSet("importhist", loader)
	set.Debug = i%4 == 3
	importer := func(step int) (string, error) {
		var tpl *pongo2.Template
		var err error
		switch (i + step) % 3 {
		case 0:
			tpl, err = set.FromString("{% import \"lib.tpl\" m %}{{ m(\"x\") }}")
		case 1:
			tpl, err = set.FromFile("page.tpl")
		default:
			tpl, err = set.FromFile("sub/page.tpl")
		}
		if err != nil {
			return "", err
		}
		return tpl.Execute(nil)
	}
	var obs []string
	id := -1
	for step := 0; step < 3; step++ {
		loader.mu.Lock()
		files["lib.tpl"] = libs[step]
		loader.mu.Unlock()
		out, err := importer(step)
		if err != nil {
			out = "err:" + err.Error()
		}
		obs = append(obs, out)
		if out != wants[step] && id < 0 {
			id = r.emit(c.op, c.args, "importhist")
			r.reject(id, "a template compiled now imported a macro library as the loaders served it earlier", map[string]any{"step": step + 1, "library_now": libs[step], "observed": out, "expected": wants[step]})
		}
	}
	if id < 0 {
		r.emit(c.op, c.args, "importhist")
	}
	r.nontrivial("importhist" + c.args[0])
}

func execC13(r *run, c caseT) {
	if c.op == "importhist" {
		execImportHist(r, c)
		return
	}
	want := "?"
	if len(c.args) > 9 {
		want = unhx(c.args[9])
	}
	if c.op == "recursion" && !childMode {
		// run in a child process: a missing depth guard kills the process
		res := runIsolated("C13", []caseT{{"render", c.args}}, 20*time.Second, filepath.Join(r.outdir, "iso"))
		obs := res[0].obs
		id := r.emit(c.op, c.args, obs)
		r.nontrivial(c.args[0] + c.args[2])
		if obs != "xerr" {
			r.reject(id, "runaway macro recursion did not end in an execution error", map[string]any{"template": unhx(c.args[0]), "observed": obs})
		}
		return
	}
	w, src, ctx := worldFromArgs(c.args)
	o, _ := w.render(src, false, ctx)
	id := r.emit(c.op, c.args, o.obs)
	if id%499 == 0 {
		r.sample(map[string]any{"template": src, "observed": o.obs, "expected": want})
	}
	if o.panicked != nil {
		r.reject(id, "panic", map[string]any{"template": src, "panic": fmt.Sprint(o.panicked)})
		return
	}
	r.nontrivial(c.args[0] + c.args[2])
	if want != "?" && o.obs != want {
		r.reject(id, "macro call does not bind arguments by position with defaults", map[string]any{"template": src, "files": c.args[2], "observed": o.obs, "expected": want})
	}
}
