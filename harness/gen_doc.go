package main

import (
	"fmt"
	"strings"
)

// docGen generates template sources from a grammar: literal text, variables, tag blocks,
// comments, verbatim blocks - mostly valid, with a separate knob for deliberately broken
// constructs and for layout (white space inside tags, CRLF, multi-byte text).
type docGen struct {
	rg       *rng
	depth    int
	broken   bool // allow malformed constructs
	layout   bool // random spacing / line breaks in text, CRLF, multi-byte
	vars     []string
	noTrim   bool // never emit "-" trim markers
	used     map[string]int
	maxDepth int
}

func newDocGen(rg *rng) *docGen {
	return &docGen{rg: rg, vars: []string{"a", "b", "s", "n", "lst", "m", "u", "x1"}, used: map[string]int{}, maxDepth: 3}
}

var textFrags = []string{"hello", "x", " ", "  ", "\n", "\r\n", "\t", "é", "日本", "}", "{", "%}", "#", "a{b", "x-y", "\xff\xfe", "<b>", "&", "0", "}}", " {", "{ ", "-", "word word", "\n\n", "end."}

func (g *docGen) text() string {
	var sb strings.Builder
	n := 1 + g.rg.intn(3)
	for i := 0; i < n; i++ {
		sb.WriteString(g.rg.pick(textFrags))
	}
	s := sb.String()
	// literal text must not accidentally open a construct with what follows
	for strings.HasSuffix(s, "{") {
		s = s[:len(s)-1] + "("
	}
	return s
}

func (g *docGen) sp() string {
	if !g.layout {
		return " "
	}
	switch g.rg.intn(6) {
	case 0:
		return ""
	case 1:
		return "  "
	case 2:
		return "\t"
	case 3:
		return " \r"
	}
	return " "
}

func (g *docGen) sp1() string { // at least one blank where the grammar needs a separator
	s := g.sp()
	if s == "" {
		return " "
	}
	return s
}

func (g *docGen) strLit() string {
	q := "\""
	if g.rg.chance(1, 3) {
		q = "'"
	}
	body := g.rg.pick([]string{"", "a", "hello world", "x\\\"y", "b\\\\c", "é", "it's", "say \\\"hi\\\"", "{{", "%}", "#}", "a,b"})
	if q == "'" {
		body = strings.ReplaceAll(body, "'", "")
	} else {
		body = strings.ReplaceAll(body, "it's", "its")
	}
	return q + body + q
}

func (g *docGen) atom() string {
	switch g.rg.intn(7) {
	case 0:
		return fmt.Sprintf("%d", g.rg.intn(100))
	case 1:
		return g.strLit()
	case 2:
		return g.rg.pick([]string{"true", "false"})
	case 3:
		return g.rg.pick(g.vars) + "." + g.rg.pick([]string{"0", "1", "x", "Name", "k"})
	case 4:
		return fmt.Sprintf("%d.%d", g.rg.intn(10), g.rg.intn(100))
	}
	return g.rg.pick(g.vars)
}

var simpleFilters = []string{"upper", "lower", "length", "escape", "safe", "capfirst", "title", "striptags", "first", "last", "addslashes", "default:\"d\"", "add:1", "center:7", "cut:\"a\"", "join:\", \"", "truncatechars:5", "yesno:\"y,n\"", "floatformat:2", "slice:\"1:3\""}

func (g *docGen) filtered(e string) string {
	k := g.rg.intn(4)
	if k > 1 {
		k = 0
	}
	for i := 0; i <= k && g.rg.chance(1, 2); i++ {
		e += g.sp() + "|" + g.sp() + g.rg.pick(simpleFilters)
	}
	return e
}

func (g *docGen) expr(d int) string {
	if d <= 0 || g.rg.chance(2, 5) {
		return g.filtered(g.atom())
	}
	switch g.rg.intn(8) {
	case 0:
		return "(" + g.sp() + g.expr(d-1) + g.sp() + ")"
	case 1:
		return "not" + g.sp1() + g.filtered(g.atom())
	case 2:
		return "-" + g.filtered(g.atom())
	}
	op := g.rg.pick([]string{"+", "-", "*", "/", "%", "==", "!=", "<", ">", "<=", ">=", "and", "or", "&&", "||", "in", "^", "<>"})
	return g.expr(d-1) + g.sp1() + op + g.sp1() + g.expr(d-1)
}

func (g *docGen) open(kind string) string {
	if kind == "{{" {
		if !g.noTrim && g.rg.chance(1, 6) {
			return "{{-"
		}
		return "{{"
	}
	if !g.noTrim && g.rg.chance(1, 6) {
		return "{%-"
	}
	return "{%"
}
func (g *docGen) close(kind string) string {
	if kind == "}}" {
		if !g.noTrim && g.rg.chance(1, 6) {
			return "-}}"
		}
		return "}}"
	}
	if !g.noTrim && g.rg.chance(1, 6) {
		return "-%}"
	}
	return "%}"
}

func (g *docGen) tag(body string) string {
	return g.open("{%") + g.sp() + body + g.sp() + g.close("%}")
}

func (g *docGen) variable() string {
	g.used["variable"]++
	return g.open("{{") + g.sp() + g.expr(2) + g.sp() + g.close("}}")
}

func (g *docGen) brokenFrag() string {
	g.used["broken"]++
	switch g.rg.intn(16) {
	case 0:
		return "{{ " + g.atom()
	case 1:
		return "{% if " + g.atom() + "\n %}x{% endif %}"
	case 2:
		return "{{ \"a\\q\" }}"
	case 3:
		return "{% nosuchtag %}"
	case 4:
		return "{# never closed"
	case 5:
		return "{% if a %}unclosed"
	case 6:
		return "{% endif %}"
	case 7:
		return "{{ a|nosuchfilter }}"
	case 8:
		return "{{ \"unclosed }}"
	case 9:
		return "{# two\nlines #}"
	case 10:
		return "{{ a + }}"
	case 11:
		return "{{ (a }}"
	case 12:
		return "{% for x lst %}{% endfor %}"
	case 13:
		return "{{ a $ b }}"
	case 14:
		return "{% verbatim %}never closed"
	}
	return "{{ 1.x }}"
}

func (g *docGen) block(d int) string {
	kind := g.rg.intn(12)
	inner := func() string { return g.doc(d - 1) }
	switch kind {
	case 0:
		g.used["if"]++
		s := g.tag("if"+g.sp1()+g.expr(1)) + inner()
		if g.rg.chance(1, 3) {
			s += g.tag("elif"+g.sp1()+g.expr(1)) + inner()
		}
		if g.rg.chance(1, 2) {
			s += g.tag("else") + inner()
		}
		return s + g.tag("endif")
	case 1:
		g.used["for"]++
		s := g.tag("for"+g.sp1()+"i"+g.sp1()+"in"+g.sp1()+g.rg.pick([]string{"lst", "s", "m", "u"})) + "{{ i }}" + inner()
		if g.rg.chance(1, 3) {
			s += g.tag("empty") + inner()
		}
		return s + g.tag("endfor")
	case 2:
		g.used["with"]++
		return g.tag("with"+g.sp1()+"w="+g.filtered(g.atom())) + "{{ w }}" + inner() + g.tag("endwith")
	case 3:
		g.used["set"]++
		return g.tag("set" + g.sp1() + "v" + g.sp() + "=" + g.sp() + g.expr(1))
	case 4:
		g.used["comment"]++
		return g.tag("comment") + g.text() + "{{ never }}" + g.tag("endcomment")
	case 5:
		g.used["autoescape"]++
		return g.tag("autoescape"+g.sp1()+g.rg.pick([]string{"on", "off"})) + inner() + g.tag("endautoescape")
	case 6:
		g.used["filter"]++
		return g.tag("filter"+g.sp1()+g.rg.pick([]string{"upper", "lower", "escape", "striptags"})) + inner() + g.tag("endfilter")
	case 7:
		g.used["spaceless"]++
		return g.tag("spaceless") + "<p> " + inner() + " </p>" + g.tag("endspaceless")
	case 8:
		g.used["templatetag"]++
		return g.tag("templatetag" + g.sp1() + g.rg.pick([]string{"openblock", "closeblock", "openvariable", "closevariable", "openbrace", "closebrace", "opencomment", "closecomment"}))
	case 9:
		g.used["firstof"]++
		return g.tag("firstof" + g.sp1() + g.atom() + g.sp1() + g.atom())
	case 10:
		g.used["ifequal"]++
		return g.tag("ifequal"+g.sp1()+g.atom()+g.sp1()+g.atom()) + inner() + g.tag("endifequal")
	}
	g.used["widthratio"]++
	return g.tag("widthratio" + g.sp1() + g.rg.pick([]string{"3", "n", "175"}) + g.sp1() + "200" + g.sp1() + "100")
}

func (g *docGen) verbatim() string {
	g.used["verbatim"]++
	body := g.rg.pick([]string{"", "{{ x }}", "{% if %}", "raw\ntext", "{# c #}", "{% endverbatim", "a{{b}}c{%d%}",
		"a{% verbatim %}b", "{% verbatim %}", "{%verbatim%}x", "{% verbatim  %}", "{% endverbatim x %}", "{% end verbatim %}", "{{", "{%", "{#", "%}{% verbatim %}{{"})
	return "{% verbatim %}" + body + "{% endverbatim %}"
}

func (g *docGen) lineComment() string {
	g.used["linecomment"]++
	return "{#" + g.rg.pick([]string{"", " c ", "{{ x }}", " # ", "é", "}", " {% if %} "}) + "#}"
}

func (g *docGen) frag(d int) string {
	if g.broken && g.rg.chance(1, 9) {
		return g.brokenFrag()
	}
	switch g.rg.intn(10) {
	case 0, 1, 2:
		g.used["text"]++
		return g.text()
	case 3, 4, 5:
		return g.variable()
	case 6:
		return g.lineComment()
	case 7:
		return g.verbatim()
	}
	if d <= 0 {
		return g.variable()
	}
	return g.block(d)
}

func (g *docGen) doc(d int) string {
	var sb strings.Builder
	n := 1 + g.rg.intn(4)
	for i := 0; i < n; i++ {
		sb.WriteString(g.frag(d))
	}
	return sb.String()
}
