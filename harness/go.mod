module verifharness

go 1.23

require github.com/flosch/pongo2/v6 v6.0.0

replace github.com/flosch/pongo2/v6 => /repo
