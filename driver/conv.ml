(* Conversions between OCaml data and the extracted Coq data types; hex I/O. *)
open Model

let rec pos_of_int i =
  if i = 1 then XH
  else if i land 1 = 0 then XO (pos_of_int (i lsr 1))
  else XI (pos_of_int (i lsr 1))
let n_of_int i = if i = 0 then N0 else Npos (pos_of_int i)
let rec int_of_pos = function XH -> 1 | XO p -> 2 * int_of_pos p | XI p -> 2 * int_of_pos p + 1
let int_of_n = function N0 -> 0 | Npos p -> int_of_pos p
let z_of_int i = if i = 0 then Z0 else if i > 0 then Zpos (pos_of_int i) else Zneg (pos_of_int (- i))
let int_of_z = function Z0 -> 0 | Zpos p -> int_of_pos p | Zneg p -> - (int_of_pos p)
let rec nat_of_int i = if i <= 0 then O else S (nat_of_int (i - 1))
let rec int_of_nat = function O -> 0 | S n -> 1 + int_of_nat n

let hexval c =
  match c with
  | '0' .. '9' -> Char.code c - 48
  | 'a' .. 'f' -> Char.code c - 87
  | 'A' .. 'F' -> Char.code c - 55
  | _ -> failwith "bad hex"

(* "-" is the empty string *)
let str_of_hex (h : string) : n list =
  if h = "-" || h = "" then []
  else begin
    let l = String.length h / 2 in
    let rec go i acc =
      if i < 0 then acc
      else go (i - 1) (n_of_int (hexval h.[2 * i] * 16 + hexval h.[2 * i + 1]) :: acc) in
    go (l - 1) []
  end

let hex_of_str (s : n list) : string =
  match s with
  | [] -> "-"
  | _ ->
    let b = Buffer.create 64 in
    List.iter (fun x -> Buffer.add_string b (Printf.sprintf "%02x" (int_of_n x land 0xff))) s;
    Buffer.contents b

(* decimal strings for big integers: via Z arithmetic of the model would be slow; the
   harness sends integers as decimal text that fits OCaml's 63-bit int or as hex *)
let string_of_str (s : n list) : string =
  String.init (List.length s) (fun i -> Char.chr (int_of_n (List.nth s i) land 0xff))

let ok s = "ok:" ^ hex_of_str s

(* ---- value / context descriptors (see harness/world.go for the grammar) ---- *)
exception Bad_descr of string

let z_of_string (s : string) : z =
  (* decimal, possibly negative, arbitrary size *)
  let neg = String.length s > 0 && s.[0] = '-' in
  let digits = if neg then String.sub s 1 (String.length s - 1) else s in
  let ten = z_of_int 10 in
  let acc = ref Z0 in
  String.iter (fun c -> acc := Z.add (Z.mul !acc ten) (z_of_int (Char.code c - 48))) digits;
  if neg then Z.opp !acc else !acc

let parse_val (s : string) (pos : int ref) : val0 =
  let len = String.length s in
  let peek () = if !pos < len then s.[!pos] else '\000' in
  let take_while p =
    let st = !pos in
    while !pos < len && p s.[!pos] do incr pos done;
    String.sub s st (!pos - st) in
  let is_hex c = (c >= '0' && c <= '9') || (c >= 'a' && c <= 'f') in
  let rec value () : val0 =
    let c = peek () in
    incr pos;
    match c with
    | 'n' -> VNil
    | 't' -> VBool true
    | 'f' -> VBool false
    | 'i' -> VInt (z_of_string (take_while (fun c -> c = '-' || (c >= '0' && c <= '9'))))
    | 'd' ->
      let txt = str_of_hex (take_while is_hex) in
      (match parse_float_str txt with
       | Some (Some f) -> VFloat f
       | _ -> raise (Bad_descr "float"))
    | 's' -> VStr (str_of_hex (take_while is_hex))
    | 'L' -> VList (items (fun () -> value ()))
    | 'M' -> VMap (items keyed)
    | 'T' -> VStruct (items keyed)
    | _ -> raise (Bad_descr (Printf.sprintf "unexpected %c at %d" c !pos))
  and keyed () =
    let k = str_of_hex (take_while is_hex) in
    if peek () <> ':' then raise (Bad_descr "expected :");
    incr pos;
    let v = value () in
    (k, v)
  and items : 'a. (unit -> 'a) -> 'a list = fun item ->
    if peek () <> '(' then raise (Bad_descr "expected (");
    incr pos;
    if peek () = ')' then (incr pos; [])
    else begin
      let acc = ref [] in
      let continue = ref true in
      while !continue do
        acc := item () :: !acc;
        (match peek () with
         | ',' -> incr pos
         | ')' -> incr pos; continue := false
         | _ -> raise (Bad_descr "expected , or )"))
      done;
      List.rev !acc
    end in
  value ()

(* ctx ::= key:v;key:v;...  where a value may be prefixed by '!' for a safe *Value *)
let parse_ctx (s : string) : (n list * cval) list =
  if s = "-" || s = "" then []
  else begin
    let pos = ref 0 in
    let len = String.length s in
    let acc = ref [] in
    while !pos < len do
      let st = !pos in
      while !pos < len && s.[!pos] <> ':' do incr pos done;
      let k = str_of_hex (String.sub s st (!pos - st)) in
      incr pos;
      let safe = !pos < len && s.[!pos] = '!' in
      if safe then incr pos;
      let v = parse_val s pos in
      acc := (k, CV { vv = v; vsafe = safe }) :: !acc;
      if !pos < len && s.[!pos] = ';' then incr pos
    done;
    List.rev !acc
  end

let parse_hexlist (s : string) : n list list =
  if s = "-" || s = "" then [] else List.map str_of_hex (String.split_on_char ',' s)

(* files ::= loader|loader ; loader ::= name:content,name:content *)
let parse_files (s : string) : loader list =
  if s = "-" || s = "" then []
  else
    List.map (fun l ->
        if l = "" then []
        else List.map (fun kv ->
            match String.split_on_char ':' kv with
            | [k; v] -> (str_of_hex k, str_of_hex v)
            | [k] -> (str_of_hex k, [])
            | _ -> raise (Bad_descr "file")) (String.split_on_char ',' l))
      (String.split_on_char '|' s)
