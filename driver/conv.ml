(* Conversions between OCaml data and the extracted Coq data types; hex I/O. *)
open Model

let rec pos_of_int i =
  if i = 1 then XH
  else if i land 1 = 0 then XO (pos_of_int (i lsr 1))
  else XI (pos_of_int (i lsr 1))
let n_of_int i = if i = 0 then N0 else Npos (pos_of_int i)
let rec int_of_pos = function XH -> 1 | XO p -> 2 * int_of_pos p | XI p -> 2 * int_of_pos p + 1
let int_of_n = function N0 -> 0 | Npos p -> int_of_pos p
let z_of_int i = if i = 0 then Z0 else if i > 0 then Zpos (pos_of_int i) else Zneg (pos_of_int (- i))
let int_of_z = function Z0 -> 0 | Zpos p -> int_of_pos p | Zneg p -> - (int_of_pos p)
let rec nat_of_int i = if i <= 0 then O else S (nat_of_int (i - 1))
let rec int_of_nat = function O -> 0 | S n -> 1 + int_of_nat n

let hexval c =
  match c with
  | '0' .. '9' -> Char.code c - 48
  | 'a' .. 'f' -> Char.code c - 87
  | 'A' .. 'F' -> Char.code c - 55
  | _ -> failwith "bad hex"

(* "-" is the empty string *)
let str_of_hex (h : string) : n list =
  if h = "-" || h = "" then []
  else begin
    let l = String.length h / 2 in
    let rec go i acc =
      if i < 0 then acc
      else go (i - 1) (n_of_int (hexval h.[2 * i] * 16 + hexval h.[2 * i + 1]) :: acc) in
    go (l - 1) []
  end

let hex_of_str (s : n list) : string =
  match s with
  | [] -> "-"
  | _ ->
    let b = Buffer.create 64 in
    List.iter (fun x -> Buffer.add_string b (Printf.sprintf "%02x" (int_of_n x land 0xff))) s;
    Buffer.contents b

(* decimal strings for big integers: via Z arithmetic of the model would be slow; the
   harness sends integers as decimal text that fits OCaml's 63-bit int or as hex *)
let string_of_str (s : n list) : string =
  String.init (List.length s) (fun i -> Char.chr (int_of_n (List.nth s i) land 0xff))

let ok s = "ok:" ^ hex_of_str s
