(* op name -> model function.  One section per property. *)
open Model
open Conv

let arg l i = str_of_hex (List.nth l i)

let c17 op args =
  match op with
  | "escape" | "e" -> Some (ok (filter_escape (arg args 0)))
  | "escapejs" -> Some (ok (filter_escapejs (arg args 0)))
  | "urlencode" -> Some (ok (filter_urlencode (arg args 0)))
  | "iriencode" -> Some (ok (filter_iriencode (arg args 0)))
  | "addslashes" -> Some (ok (filter_addslashes (arg args 0)))
  | "striptags" -> Some (ok (filter_striptags (arg args 0)))
  | "safe" -> Some (ok (filter_safe (arg args 0)))
  | "removetags" ->
    (match filter_removetags (arg args 0) (arg args 1) with
     | Some r -> Some (ok r)
     | None -> Some "err")
  | _ -> None

(* ---- lexer ---- *)
let typ_code = function
  | TError -> 0 | TEOF -> 1 | THTML -> 2 | TKeyword -> 3 | TIdentifier -> 4
  | TString -> 5 | TNumber -> 6 | TSymbol -> 7 | TNil -> 8

let show_token t =
  Printf.sprintf "%d,%s,%d,%d,%d" (typ_code t.ttyp) (hex_of_str t.tval) (int_of_z t.tline)
    (int_of_z t.tcol) (if t.ttrim then 1 else 0)

let show_lex = function
  | LexOk toks -> "ok:" ^ String.concat ";" (List.map show_token toks)
  | LexFail (LexErr (l, c, _)) -> Printf.sprintf "err:%d,%d" (int_of_z l) (int_of_z c)
  | LexFuel -> "fuel"

let lexer op args =
  match op with
  | "lex" -> Some (show_lex (lex (arg args 0)))
  | "lexshift" -> Some (show_lex (lex (arg args 0 @ arg args 1)))
  | _ -> None

(* ---- whole-template rendering ---- *)
let argd l i = if i < List.length l then List.nth l i else "-"

let show_obs = function
  | OOk out -> "ok:" ^ hex_of_str out
  | OCompileErr _ -> "cerr"
  | OExecErr (_, _) -> "xerr"
  | OUnmod -> "unmodelled"
  | OFuel -> "fuel"
  | OPanic s -> Printf.sprintf "panic:%d" (int_of_n s)

let world_of args =
  let opts = argd args 3 in
  { w_loaders = parse_files (argd args 2);
    w_trim = String.contains opts 'T';
    w_lstrip = String.contains opts 'L';
    w_banned_filters = parse_hexlist (argd args 4);
    w_banned_tags = parse_hexlist (argd args 5);
    w_extra_filters = parse_hexlist (argd args 7);
    w_extra_tags = parse_hexlist (argd args 8);
    w_globals = parse_ctx (argd args 6) }

let render op args =
  match op with
  | "render" | "text" | "frags" | "recursion" | "validate" | "spaceless" -> Some (show_obs (api_render_string (world_of args) (arg args 0) (parse_ctx (argd args 1))))
  | "renderfile" | "invalid" -> Some (show_obs (api_render_file (world_of args) (arg args 0) (parse_ctx (argd args 1))))
  | "cyclic" ->
    (* no amount of fuel suffices: the real code recurses until the process dies *)
    (match api_render_file (world_of args) (arg args 0) (parse_ctx (argd args 1)) with
     | OFuel -> Some "crash"
     | o -> Some (show_obs o))
  | "loadlog" | "canary" ->
    let (o, log) = api_render_file_log (world_of args) (arg args 0) (parse_ctx (argd args 1)) in
    (match log with
     | Some l ->
       Some (show_obs o ^ "#" ^ String.concat "," (List.map (fun (LGet (i, n, hit)) ->
           Printf.sprintf "%d:%s:%s" (int_of_nat i) (match n with [] -> "" | _ -> hex_of_str n) (if hit then "1" else "0")) l))
     | None -> Some (show_obs o ^ "#*"))
  | "abs" -> Some (ok (fsloader_abs (arg args 0) (arg args 1)))
  | "history" ->
    (* one compiled template executed with several contexts: in the model execution is a
       pure function of the compiled template, so each execution is a fresh render *)
    let w = world_of args in
    (match api_compile_only w (arg args 0) with
     | OOk _ ->
       let ctxs = String.split_on_char '~' (argd args 1) in
       Some (String.concat ";" (List.map (fun c -> show_obs (api_render_string w (arg args 0) (parse_ctx c))) ctxs))
     | o -> Some (show_obs o))
  | _ -> None

(* ---- filters applied to a value (C18, C19) ---- *)
let rec descr_of_val (v : val0) : string option =
  match v with
  | VNil -> Some "n"
  | VBool true -> Some "t"
  | VBool false -> Some "f"
  | VInt z -> Some ("i" ^ string_of_str (itoa z))
  | VFloat f -> Some ("d" ^ (match format6 f with [] -> "" | s -> hex_of_str s))
  | VStr s -> Some ("s" ^ (match s with [] -> "" | _ -> hex_of_str s))
  | VList l ->
    let parts = List.map descr_of_val l in
    if List.exists (fun x -> x = None) parts then None
    else Some ("L(" ^ String.concat "," (List.map (function Some x -> x | None -> "") parts) ^ ")")
  | _ -> None

let filter_op op args =
  match op with
  | "filter" ->
    let pos = ref 0 in
    let v = parse_val (List.nth args 1) pos in
    let pos2 = ref 0 in
    let p = parse_val (List.nth args 2) pos2 in
    (match apply_filter (arg args 0) { vv = v; vsafe = false } { vv = p; vsafe = false } with
     | Ok r -> (match descr_of_val r.vv with Some d -> Some ("v:" ^ d) | None -> Some "unmodelled")
     | Err _ -> Some "err"
     | Unmod -> Some "unmodelled"
     | Fuel -> Some "fuel"
     | Panic _ -> Some "panic")
  | _ -> None

(* ---- histories of operations on a template set (C03, C20) ---- *)
let hexlist_sorted (l : n list list) : string =
  match l with
  | [] -> "-"
  | _ -> String.concat "," (List.sort compare (List.map (fun s -> match s with [] -> "" | _ -> hex_of_str s) l))

let parse_sop (s : string) : sop =
  match String.split_on_char ':' s with
  | ["B"; "t"; n] -> OBanTag (str_of_hex n)
  | ["B"; "f"; n] -> OBanFilter (str_of_hex n)
  | ["S"; src] -> OFromString (str_of_hex src)
  | ["F"; n] -> OFromFile (str_of_hex n)
  | ["C"; n] -> OFromCache (str_of_hex n)
  | ["R"; src] -> ORenderString (str_of_hex src)
  | ["RF"; n] -> ORenderFile (str_of_hex n)
  | ["X"; l] -> OCleanCache (parse_hexlist l)
  | ["D"; b] -> OSetDebug (b = "1")
  | ["W"; n; c] -> OSetFile (str_of_hex n, str_of_hex c)
  | _ -> raise (Bad_descr ("set op " ^ s))

let show_sres = function
  | RErr -> "e"
  | ROk -> "k"
  | RTpl st -> Printf.sprintf "t%d" (int_of_n st)
  | ROut (OOk o) -> "ook:" ^ hex_of_str o
  | ROut (OCompileErr _) | ROut (OExecErr (_, _)) -> "oe"
  | ROut OUnmod | RUnmod -> "unmodelled"
  | ROut OFuel -> "fuel"
  | ROut (OPanic p) -> Printf.sprintf "panic:%d" (int_of_n p)

let setops op args =
  match op with
  | "setops" ->
    let files = (match parse_files (argd args 0) with [] -> [] | l :: _ -> l) in
    let ops = List.map parse_sop (String.split_on_char ';' (argd args 1)) in
    let rs = s_run (s_init files) ops in
    let unm = ref false in
    let parts = List.map (fun (r, st) ->
        (* once an operation is outside the model, the rest of the history is too *)
        let rs = show_sres r in
        if rs = "unmodelled" then unm := true;
        if !unm then "unmodelled"
        else Printf.sprintf "%s~%s|%s|%s|%s" rs (if st.s_created then "1" else "0")
            (hexlist_sorted st.s_btags) (hexlist_sorted st.s_bfilters) (hexlist_sorted (List.map fst st.s_cache))) rs in
    Some (String.concat ";" parts)
  | _ -> None

let first_some fs op args =
  List.fold_left (fun acc f -> match acc with Some _ -> acc | None -> f op args) None fs

let run op args = first_some [c17; lexer; render; filter_op; setops] op args
