(* op name -> model function.  One section per property. *)
open Model
open Conv

let arg l i = str_of_hex (List.nth l i)

let c17 op args =
  match op with
  | "escape" | "e" -> Some (ok (filter_escape (arg args 0)))
  | "escapejs" -> Some (ok (filter_escapejs (arg args 0)))
  | "urlencode" -> Some (ok (filter_urlencode (arg args 0)))
  | "iriencode" -> Some (ok (filter_iriencode (arg args 0)))
  | "addslashes" -> Some (ok (filter_addslashes (arg args 0)))
  | "striptags" -> Some (ok (filter_striptags (arg args 0)))
  | "safe" -> Some (ok (filter_safe (arg args 0)))
  | "removetags" ->
    (match filter_removetags (arg args 0) (arg args 1) with
     | Some r -> Some (ok r)
     | None -> Some "err")
  | _ -> None

(* ---- lexer ---- *)
let typ_code = function
  | TError -> 0 | TEOF -> 1 | THTML -> 2 | TKeyword -> 3 | TIdentifier -> 4
  | TString -> 5 | TNumber -> 6 | TSymbol -> 7 | TNil -> 8

let show_token t =
  Printf.sprintf "%d,%s,%d,%d,%d" (typ_code t.ttyp) (hex_of_str t.tval) (int_of_z t.tline)
    (int_of_z t.tcol) (if t.ttrim then 1 else 0)

let show_lex = function
  | LexOk toks -> "ok:" ^ String.concat ";" (List.map show_token toks)
  | LexFail (LexErr (l, c, _)) -> Printf.sprintf "err:%d,%d" (int_of_z l) (int_of_z c)
  | LexFuel -> "fuel"

let lexer op args =
  match op with
  | "lex" -> Some (show_lex (lex (arg args 0)))
  | "lexshift" -> Some (show_lex (lex (arg args 0 @ arg args 1)))
  | _ -> None

let first_some fs op args =
  List.fold_left (fun acc f -> match acc with Some _ -> acc | None -> f op args) None fs

let run op args = first_some [c17; lexer] op args
