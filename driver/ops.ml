(* op name -> model function.  One section per property. *)
open Model
open Conv

let arg l i = str_of_hex (List.nth l i)

let c17 op args =
  match op with
  | "escape" | "e" -> Some (ok (filter_escape (arg args 0)))
  | "escapejs" -> Some (ok (filter_escapejs (arg args 0)))
  | "urlencode" -> Some (ok (filter_urlencode (arg args 0)))
  | "iriencode" -> Some (ok (filter_iriencode (arg args 0)))
  | "addslashes" -> Some (ok (filter_addslashes (arg args 0)))
  | "striptags" -> Some (ok (filter_striptags (arg args 0)))
  | "safe" -> Some (ok (filter_safe (arg args 0)))
  | "removetags" ->
    (match filter_removetags (arg args 0) (arg args 1) with
     | Some r -> Some (ok r)
     | None -> Some "err")
  | _ -> None

let run op args =
  match c17 op args with
  | Some r -> Some r
  | None -> None
