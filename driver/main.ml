(* Model driver: reads case lines (id \t op \t hex args...) and prints id \t observation,
   computed by the functions extracted from the Coq model. *)
open Model
open Conv

let split_tab s = String.split_on_char '\t' s

let dispatch (op : string) (args : string list) : string =
  match Ops.run op args with
  | Some r -> r
  | None -> "unmodelled"

let () =
  try
    while true do
      let line = input_line stdin in
      if line <> "" then begin
        match split_tab line with
        | id :: op :: args ->
          let r = (try dispatch op args with
                   | Stack_overflow -> "model-stack-overflow"
                   | Conv.Bad_descr "float" -> "unmodelled"   (* a float literal outside what the model's decimal parser covers *)
                   | Failure m -> "model-failure:" ^ m) in
          print_string id; print_char '\t'; print_string r; print_char '\n'
        | _ -> ()
      end
    done
  with End_of_file -> ()
