"""Orchestration of one property check. See /verif/check and DESIGN.md."""
import sys, os, json, subprocess, time, re, fcntl, shutil, glob

GOENV = {"GOFLAGS": "-mod=mod", "GOPROXY": "off", "GOSUMDB": "off", "GOTOOLCHAIN": "local"}
REPO = os.environ.get("VERIF_REPO", "/repo")

FORBIDDEN = re.compile(r"\b(Admitted|admit|Axiom|Axioms|Parameter|Parameters|Conjecture|Hypothesis|Hypotheses)\b"
                       r"|Unset Guard Checking|bypass_check|type-in-type|impredicative-set|Admit Obligations"
                       r"|Unset Positivity|Unset Universe Checking")

TRUSTED_BASE = [
    "Coq 8.16.1 kernel (coqc, full .vo build; vm_compute used for finite side conditions and witnesses; no native_compute)",
    "axioms: none (Print Assumptions under every property theorem must say 'Closed under the global context')",
    "tools/go2v: the translator regenerating coq/gen/{Tables,Scalar,Wrappers,SetFuncs}.v from /repo (location rules, scalar-fragment semantics, the statement fragment of Lib/GoStmt.v with its interpretations in Spec/SpecWrappers.v and Spec/SpecSetFuncs.v)",
    "extraction: Require Extraction + ExtrOcamlBasic only (its Extract Inductive bool/option/unit/list/prod/sumbool/sumor and Extract Inlined Constant andb/orb directives); nat/positive/N/Z stay data types; OCaml 4.13.1 compiler; driver/*.ml",
    "correspondence check: harness/ (generators, oracles), lib/vcheck.py (differ); agreement on the cases run is evidence, not proof, that the hand model is the code",
]


def log(msg):
    print(msg, flush=True)


def run(cmd, cwd=None, timeout=None, env=None, stdin=None, stdout=None):
    e = dict(os.environ)
    e.update(GOENV)
    if env:
        e.update(env)
    try:
        p = subprocess.run(cmd, cwd=cwd, timeout=timeout, env=e, stdin=stdin,
                           stdout=stdout if stdout is not None else subprocess.PIPE,
                           stderr=subprocess.STDOUT if stdout is None else subprocess.PIPE,
                           text=True)
        out = p.stdout if stdout is None else (p.stderr or "")
        out = "\n".join(l for l in (out or "").splitlines() if "conda" not in l)
        return p.returncode, out
    except subprocess.TimeoutExpired as ex:
        return 124, "TIMEOUT after %ss: %s" % (timeout, " ".join(cmd) if isinstance(cmd, list) else cmd)


class Lock:
    def __init__(self, path):
        self.path = path

    def __enter__(self):
        os.makedirs(os.path.dirname(self.path), exist_ok=True)
        self.f = open(self.path, "w")
        fcntl.flock(self.f, fcntl.LOCK_EX)
        return self

    def __exit__(self, *a):
        fcntl.flock(self.f, fcntl.LOCK_UN)
        self.f.close()


# ------------------------------------------------------------------------------------
# property table: what each check consists of
# ------------------------------------------------------------------------------------

def load_props(root):
    with open(os.path.join(root, "lib", "props.json")) as f:
        return json.load(f)


# ------------------------------------------------------------------------------------
# build steps (all under the build lock)
# ------------------------------------------------------------------------------------

def step_go2v(root, st):
    b = os.path.join(root, "build")
    os.makedirs(b, exist_ok=True)
    rc, out = run(["go", "build", "-o", os.path.join(b, "go2v"), "."], cwd=os.path.join(root, "tools", "go2v"), timeout=300)
    if rc != 0:
        st["tie_errors"].append({"obligation": "go2v.build", "detail": out[-2000:]})
        return False
    rc, out = run([os.path.join(b, "go2v"), "-repo", REPO, "-out", os.path.join(root, "coq", "gen")], timeout=120)
    st["go2v_output"] = out
    if rc != 0:
        st["tie_errors"].append({"obligation": "go2v.locate", "detail": out[-3000:]})
        return False
    # E3: effect summary from SSA
    rc, out = run(["go", "build", "-o", os.path.join(b, "go2eff"), "."], cwd=os.path.join(root, "tools", "go2eff"), timeout=600)
    if rc != 0:
        st["tie_errors"].append({"obligation": "go2eff.build", "detail": out[-2000:]})
        return False
    rc, out = run([os.path.join(b, "go2eff"), "-repo", REPO, "-out", os.path.join(root, "coq", "gen")], timeout=300)
    st["go2v_output"] += "\n" + out
    if rc != 0:
        st["tie_errors"].append({"obligation": "go2eff.run", "detail": out[-3000:]})
        return False
    return True


def coq_makefile(root):
    c = os.path.join(root, "coq")
    mk = os.path.join(c, "Makefile")
    cp = os.path.join(c, "_CoqProject")
    if not os.path.exists(mk) or os.path.getmtime(mk) < os.path.getmtime(cp):
        run(["coq_makefile", "-f", "_CoqProject", "-o", "Makefile"], cwd=c, timeout=60)


def step_make(root, targets, st, timeout=1500):
    """make the given .vo targets; on failure record which file (and, when it can be told, which
    theorem) no longer checks."""
    c = os.path.join(root, "coq")
    coq_makefile(root)
    t0 = time.time()
    # a proof script that meets a changed generated term may not fail but run away (time, memory):
    # every coqc is capped (address space 14 GB; the whole make 15 minutes), and running into a cap
    # is a proof that no longer checks
    rc, out = run(["bash", "-c", "ulimit -v 14000000; exec timeout -k 15 900 make -j16 -k " + " ".join(targets)],
                  cwd=c, timeout=timeout)
    if rc in (124, 137):
        out += "\nmake: the proof build ran into its time limit (a proof script no longer terminates)"
    st["make_s"] = round(time.time() - t0, 1)
    st["make_log_tail"] = out[-1500:]
    ok = True
    if rc != 0:
        ok = False
        for m in re.finditer(r'File "\./([^"]+)", line (\d+), characters [^\n]*\n(?:Error:|Warning:)?', out):
            pass
        errs = re.findall(r'File "\./([^"]+)", line (\d+), characters ([^\n:]*):\s*\nError:\s*((?:.|\n)*?)(?=\n\n|\nmake|\Z)', out)
        if not errs:
            st["proof_errors"].append({"obligation": "coq.make", "detail": out[-3000:]})
        for (f, line, chars, msg) in errs:
            thm = enclosing_statement(os.path.join(c, f), int(line))
            st["proof_errors"].append({"obligation": "%s:%s" % (f, thm or ("line " + line)), "file": f,
                                       "line": int(line), "detail": msg.strip()[:1500]})
    return ok


def enclosing_statement(path, line):
    try:
        lines = open(path).read().splitlines()
    except OSError:
        return None
    for i in range(min(line, len(lines)) - 1, -1, -1):
        m = re.match(r"\s*(Theorem|Lemma|Example|Corollary|Definition|Fact|Remark)\s+([A-Za-z0-9_']+)", lines[i])
        if m:
            return m.group(2)
    return None


def statements_in(path):
    try:
        src = open(path).read()
    except OSError:
        return []
    return re.findall(r"^\s*(?:Theorem|Lemma|Example|Corollary)\s+([A-Za-z0-9_']+)", src, re.M)


def step_hygiene(root, st):
    bad = []
    for p in glob.glob(os.path.join(root, "coq", "**", "*.v"), recursive=True):
        src = open(p).read()
        # strip comments (non-nested approximation is enough: forbidden words in comments
        # are reported too unless the whole comment is removed)
        stripped = strip_comments(src)
        for m in FORBIDDEN.finditer(stripped):
            # Section-local Variable/Hypothesis are allowed; the regex does not look for Variable
            if m.group(0) in ("Hypothesis", "Hypotheses"):
                if inside_section(stripped, m.start()):
                    continue
            bad.append("%s: %s" % (os.path.relpath(p, root), m.group(0)))
    st["hygiene_bad"] = bad
    return not bad


def strip_comments(s):
    out = []
    depth = 0
    i = 0
    while i < len(s):
        if s.startswith("(*", i):
            depth += 1
            i += 2
        elif s.startswith("*)", i) and depth > 0:
            depth -= 1
            i += 2
        else:
            if depth == 0:
                out.append(s[i])
            i += 1
    return "".join(out)


def inside_section(src, pos):
    opened = len(re.findall(r"^\s*Section\s+\w+", src[:pos], re.M))
    closed = len(re.findall(r"^\s*End\s+\w+", src[:pos], re.M))
    return opened > closed


def step_assumptions(root, prop, cfg, st):
    """Print Assumptions for every statement of Props/<prop>.v, in a scratch file compiled now."""
    c = os.path.join(root, "coq")
    thms = statements_in(os.path.join(c, "Props", prop + ".v"))
    d = os.path.join(root, "build", "assum")
    os.makedirs(d, exist_ok=True)
    f = os.path.join(d, "A_%s.v" % prop)
    with open(f, "w") as fh:
        fh.write("From PV Require Import Props.%s.\n" % prop)
        for t in thms:
            fh.write('Goal True. idtac "ASSUM %s". exact I. Qed.\nPrint Assumptions %s.\n' % (t, t))
    rc, out = run(["coqc", "-Q", c, "PV", f], cwd=d, timeout=600)
    res = {}
    if rc != 0:
        st["proof_errors"].append({"obligation": "assumptions:%s" % prop, "detail": out[-1500:]})
        return False
    cur = None
    buf = []
    for line in out.splitlines():
        m = re.match(r"ASSUM (\S+)", line)
        if m:
            if cur:
                res[cur] = " ".join(buf).strip()
            cur = m.group(1)
            buf = []
        elif cur:
            buf.append(line.strip())
    if cur:
        res[cur] = " ".join(buf).strip()
    allowed = cfg.get("allowed_axioms", [])
    ok = True
    axioms = {}
    for t in thms:
        r = res.get(t, "?")
        if "Closed under the global context" in r:
            axioms[t] = []
            continue
        names = re.findall(r"^\s*([A-Za-z_][\w.']*)\s*:", r, re.M) or re.findall(r"([A-Za-z_][\w.']*) :", r)
        axioms[t] = names or [r[:200]]
        if not names or any(n not in allowed for n in names):
            ok = False
            st["proof_errors"].append({"obligation": "assumptions:%s" % t, "detail": r[:500]})
    st["axioms"] = axioms
    st["theorems"] = thms
    return ok


def step_coqchk(root, prop, st):
    """Thorough tier: the independent checker re-checks Props/<prop>.vo and everything it depends on."""
    c = os.path.join(root, "coq")
    t0 = time.time()
    rc, out = run(["coqchk", "-silent", "-o", "-Q", ".", "PV", "PV.Props.%s" % prop], cwd=c, timeout=5400)
    summ = {}
    for key in ("Axioms", "Constants/Inductives relying on type-in-type", "Constants/Inductives relying on unsafe (co)fixpoints",
                "Inductives whose positivity is assumed"):
        m = re.search(r"\* " + re.escape(key) + r":(.*?)(?:\n\s*\n|\Z)", out, re.S)
        summ[key] = " ".join(m.group(1).split()) if m else "?"
    st["coqchk"] = {"rc": rc, "wall_s": round(time.time() - t0, 1), "summary": summ}
    ok = rc == 0 and all(v == "<none>" for v in summ.values())
    if not ok:
        st["proof_errors"].append({"obligation": "coqchk:%s" % prop, "detail": out[-1500:]})
    return ok


def step_driver(root, st):
    """Re-extract the model and rebuild the OCaml driver when any model .vo or driver source is newer."""
    b = os.path.join(root, "build")
    drv = os.path.join(b, "modeldrv")
    c = os.path.join(root, "coq")
    srcs = glob.glob(os.path.join(root, "driver", "*.ml")) + [os.path.join(c, "Extract", "Extract.v")]
    vos = [p for p in glob.glob(os.path.join(c, "**", "*.vo"), recursive=True)
           if "/Props/" not in p and "/Tie/" not in p and "/Proofs/" not in p]
    newest = max([os.path.getmtime(p) for p in srcs + vos] or [0])
    if os.path.exists(drv) and os.path.getmtime(drv) >= newest:
        return True
    t0 = time.time()
    m = os.path.join(b, "model")
    os.makedirs(m, exist_ok=True)
    shutil.copy(os.path.join(c, "Extract", "Extract.v"), os.path.join(m, "Extract.v"))
    rc, out = run(["coqc", "-Q", c, "PV", "Extract.v"], cwd=m, timeout=900)
    if rc != 0:
        st["tie_errors"].append({"obligation": "extraction", "detail": out[-2000:]})
        return False
    for p in glob.glob(os.path.join(root, "driver", "*.ml")):
        shutil.copy(p, m)
    rc, out = run(["ocamlfind", "ocamlopt", "-O3", "-w", "-a", "-o", drv + ".new", "model.mli", "model.ml",
                   "conv.ml", "ops.ml", "main.ml"], cwd=m, timeout=900)
    if rc != 0:
        st["tie_errors"].append({"obligation": "driver.build", "detail": out[-2000:]})
        return False
    os.replace(drv + ".new", drv)
    st["driver_rebuilt_s"] = round(time.time() - t0, 1)
    return True


def step_harness_build(root, st, race=False):
    b = os.path.join(root, "build")
    h = os.path.join(root, "harness")
    gs = os.path.join(REPO, "go.sum")
    if os.path.exists(gs):
        shutil.copy(gs, os.path.join(h, "go.sum"))
    out_bin = os.path.join(b, "harness_race" if race else "harness")
    cmd = ["go", "build", "-tags", "verif"] + (["-race"] if race else []) + ["-o", out_bin, "."]
    rc, out = run(cmd, cwd=h, timeout=900)
    if rc != 0:
        st["harness_build_error"] = out[-3000:]
        return False
    return True


# ------------------------------------------------------------------------------------
# correspondence
# ------------------------------------------------------------------------------------

def run_harness(root, prop, tier, seed, st, outdir, replay=None, race=False, timeout=3000):
    b = os.path.join(root, "build")
    shutil.rmtree(outdir, ignore_errors=True)
    os.makedirs(outdir, exist_ok=True)
    cmd = [os.path.join(b, "harness_race" if race else "harness"), "-prop", prop, "-tier", tier, "-seed", str(seed), "-out", outdir]
    if replay:
        cmd += ["-replay", replay]
    t0 = time.time()
    rc, out = run(cmd, cwd=outdir, timeout=timeout)
    st["harness_s"] = round(time.time() - t0, 1)
    if rc != 0:
        st["harness_error"] = "exit %s: %s" % (rc, out[-3000:])
        return None
    with open(os.path.join(outdir, "harness.json")) as f:
        return json.load(f)


def run_model(root, outdir, st, timeout=3000):
    b = os.path.join(root, "build")
    t0 = time.time()
    with open(os.path.join(outdir, "cases.tsv")) as fin, open(os.path.join(outdir, "model.tsv"), "w") as fout:
        rc, err = run([os.path.join(b, "modeldrv")], stdin=fin, stdout=fout, timeout=timeout,
                      env={"OCAMLRUNPARAM": "l=8M"})
    st["model_s"] = round(time.time() - t0, 1)
    if rc != 0:
        st["model_error"] = "exit %s: %s" % (rc, err[-2000:])
        return False
    return True


def diff_obs(outdir, limit=50):
    """Compare impl.tsv with model.tsv line by line. Returns (n_compared, n_unmodelled, disagreements)."""
    dis = []
    n = 0
    unm = 0
    total_dis = 0
    with open(os.path.join(outdir, "impl.tsv")) as fi, open(os.path.join(outdir, "model.tsv")) as fm, \
            open(os.path.join(outdir, "cases.tsv")) as fc:
        for li, lm, lc in zip(fi, fm, fc):
            n += 1
            if li == lm:
                continue
            a = li.rstrip("\n").split("\t", 1)
            m = lm.rstrip("\n").split("\t", 1)
            if len(m) > 1 and m[1] == "unmodelled":
                unm += 1
                continue
            if len(m) > 1 and len(a) > 1 and m[1].endswith("#*"):
                # the model does not keep the access log of a failed run: compare the outcome only
                if m[1][:-2] == "unmodelled":
                    unm += 1
                    continue
                if a[1].split("#", 1)[0] == m[1][:-2]:
                    continue
            if len(m) > 1 and len(a) > 1 and m[1].startswith("unmodelled#"):
                unm += 1
                continue
            if len(m) > 1 and len(a) > 1 and "unmodelled" in m[1]:
                # an observation made of several components (a history): compare the
                # components the model covers
                ca, cm = a[1].split(";"), m[1].split(";")
                if len(ca) == len(cm) and all(x == y or y == "unmodelled" for x, y in zip(ca, cm)):
                    if all(y == "unmodelled" for y in cm):
                        unm += 1
                    continue
            total_dis += 1
            if len(dis) < limit:
                dis.append({"case": a[0], "case_line": lc.rstrip("\n"), "impl": a[1] if len(a) > 1 else "",
                            "model": m[1] if len(m) > 1 else ""})
    # sanity: same number of lines
    return n, unm, total_dis, dis


def case_lines(outdir, ids):
    want = set(str(i) for i in ids)
    res = {}
    with open(os.path.join(outdir, "cases.tsv")) as fc:
        for l in fc:
            i = l.split("\t", 1)[0]
            if i in want:
                res[i] = l.rstrip("\n")
                if len(res) == len(want):
                    break
    return res


# ------------------------------------------------------------------------------------
# known findings
# ------------------------------------------------------------------------------------

def load_findings(root, prop):
    p = os.path.join(root, "known_findings.json")
    if not os.path.exists(p):
        return {}
    with open(p) as f:
        d = json.load(f)
    return {e["id"]: e for e in d.get("findings", []) if prop in e.get("properties", [e.get("property")])}


# ------------------------------------------------------------------------------------
# main
# ------------------------------------------------------------------------------------

def write_replay(root, prop, n, payload):
    d = os.path.join(root, "evidence", "replay")
    os.makedirs(d, exist_ok=True)
    p = os.path.join(d, "%s-%s.json" % (prop, n))
    with open(p, "w") as f:
        json.dump(payload, f, indent=1)
    return p


def main(root, argv):
    if len(argv) < 2:
        print(__doc__)
        return 2
    prop = argv[0]
    props = load_props(root)
    if prop not in props:
        print("unknown property", prop)
        return 2
    cfg = props[prop]
    if argv[1] == "--replay":
        return replay(root, prop, cfg, argv[2])
    tier = argv[1]
    if os.environ.get("VERIF_TIER") in ("quick", "thorough"):
        tier = os.environ["VERIF_TIER"]
    seed = int(os.environ.get("VERIF_SEED", "1") or 1)
    return check(root, prop, cfg, tier, seed)


def check(root, prop, cfg, tier, seed):
    t_start = time.time()
    st = {"tie_errors": [], "proof_errors": []}
    ev_path = os.path.join(root, "evidence", prop + ".json")
    os.makedirs(os.path.dirname(ev_path), exist_ok=True)
    build = os.path.join(root, "build")
    os.makedirs(build, exist_ok=True)
    outdir = os.path.join(build, "run", prop)

    targets = cfg.get("coq_targets", ["Props/%s.vo" % prop])
    with Lock(os.path.join(build, ".lock")):
        go2v_ok = step_go2v(root, st)
        if tier == "thorough" and cfg.get("clean_cone", True):
            # thorough: rebuild the property's own proof files from scratch
            for t in targets + cfg.get("cone", []):
                for ext in (".vo", ".vok", ".vos", ".glob"):
                    p = os.path.join(root, "coq", t[:-3] + ext)
                    if os.path.exists(p):
                        os.remove(p)
        # the cone (the Tie and Proofs files the property's claim rests on) is built explicitly:
        # a Tie file that Props does not import still holds obligations of this property
        make_ok = step_make(root, targets + cfg.get("cone", []) + ["Extract/Deps.vo"], st)
        hygiene_ok = step_hygiene(root, st)
        assum_ok = step_assumptions(root, prop, cfg, st) if make_ok else False
        if tier == "thorough" and make_ok and cfg.get("coqchk", True):
            assum_ok = step_coqchk(root, prop, st) and assum_ok
        # the executable model may still build although a proof broke
        model_targets = cfg.get("model_targets", [])
        model_ok = make_ok or step_make(root, model_targets + ["Extract/Deps.vo"], {"proof_errors": [], "tie_errors": []})
        drv_ok = step_driver(root, st) if (make_ok or model_ok) else False
        hb_ok = step_harness_build(root, st, race=cfg.get("race", False))

    if not hb_ok:
        # the harness does not build against the current tree: the check cannot observe the code
        print("harness build failed:\n" + st.get("harness_build_error", ""))
        rp = write_replay(root, prop, "harness-build", {"property": prop, "broken": "harness.build",
                                                         "detail": st.get("harness_build_error", "")})
        finish(root, prop, cfg, tier, seed, st, None, t_start, violations=1)
        print("VIOLATION property=%s replay=%s no-failing-input-found" % (prop, os.path.relpath(rp, root)))
        return 1

    hj = run_harness(root, prop, tier, seed, st, outdir, race=cfg.get("race", False))
    if hj is None:
        print("harness failed: " + st.get("harness_error", ""))
        rp = write_replay(root, prop, "harness-run", {"property": prop, "broken": "harness.run",
                                                       "detail": st.get("harness_error", "")})
        finish(root, prop, cfg, tier, seed, st, None, t_start, violations=1)
        print("VIOLATION property=%s replay=%s no-failing-input-found" % (prop, os.path.relpath(rp, root)))
        return 1

    corr = {"compared": 0, "unmodelled": 0, "disagreements": 0, "examples": []}
    corr_ok = True
    if cfg.get("model_driver", True):
        if drv_ok and run_model(root, outdir, st):
            n, unm, total, dis = diff_obs(outdir)
            corr = {"compared": n, "unmodelled": unm, "disagreements": total, "examples": dis[:10]}
            corr_ok = (total == 0) and n == hj["cases"]
            if n != hj["cases"]:
                corr["examples"].append({"note": "model driver produced %d lines for %d cases" % (n, hj["cases"])})
        else:
            corr_ok = False
            corr["examples"].append({"note": "model driver unavailable: " + st.get("model_error", "not built")})
    st["corr"] = corr

    # ---- classify the oracle's rejections ----
    findings = load_findings(root, prop)
    dis_ids = set(d["case"] for d in corr.get("examples", []) if "case" in d)
    rejects = hj.get("oracle_rejects") or []
    known_hits = {}
    violations = []
    for r in rejects:
        fid = r.get("finding")
        e = findings.get(fid) if fid else None
        if e and e.get("status") == "open" and str(r.get("case")) not in dis_ids:
            known_hits.setdefault(fid, []).append(r)
        else:
            violations.append(r)
    # counts of finding hits beyond the recorded witnesses
    for k, v in (hj.get("stats") or {}).items():
        if k.startswith("finding:"):
            fid = k.split(":", 1)[1]
            if fid in findings and findings[fid].get("status") == "open":
                known_hits.setdefault(fid, [])
            elif not any(r.get("finding") == fid for r in violations):
                violations.append({"what": "oracle attributed cases to finding %s which is not an open entry of known_findings.json" % fid})

    proofs_ok = go2v_ok and make_ok and assum_ok and hygiene_ok
    st["proofs_ok"] = proofs_ok
    rc = 0
    lines = []
    if violations:
        ids = [v["case"] for v in violations if "case" in v]
        cl = case_lines(outdir, ids[:20]) if ids else {}
        v0 = violations[0]
        rp = write_replay(root, prop, "oracle", {
            "property": prop, "kind": "implementation-level oracle rejected a case",
            "seed": seed, "tier": tier, "first": v0, "rejects": violations[:20],
            "cases": [cl[str(i)] for i in ids[:20] if str(i) in cl],
            "how_to_replay": "./check %s --replay <this file>" % prop})
        log("oracle rejected %d case(s); first: %s %s" % (len(violations), v0.get("what", ""), json.dumps(v0.get("detail", ""))[:600]))
        lines.append("VIOLATION property=%s replay=%s" % (prop, os.path.relpath(rp, root)))
        rc = 1
    elif not proofs_ok or not corr_ok:
        # a proof obligation, the tie or the correspondence broke, and the oracle accepted
        # every case of this run: search further (thorough generator, other seeds)
        found = None
        if tier == "quick" and hb_ok and cfg.get("search_thorough", True):
            sdir = os.path.join(build, "run", prop + "-search")
            for s2 in (seed + 1000003,):
                hj2 = run_harness(root, prop, "thorough", s2, {}, sdir, race=False, timeout=cfg.get("search_timeout", 900))
                if hj2:
                    rj = [r for r in (hj2.get("oracle_rejects") or [])
                          if not (r.get("finding") in findings and findings[r.get("finding")].get("status") == "open")]
                    if rj:
                        cl = case_lines(sdir, [r["case"] for r in rj[:20] if "case" in r])
                        found = {"first": rj[0], "rejects": rj[:20], "cases": list(cl.values()), "seed": s2, "tier": "thorough"}
                        break
        broken = st["tie_errors"] + st["proof_errors"]
        if st.get("hygiene_bad"):
            broken.append({"obligation": "hygiene", "detail": st["hygiene_bad"]})
        if not corr_ok:
            broken.append({"obligation": "corr.%s" % prop, "detail": corr})
        if found:
            found.update({"property": prop, "kind": "search after a broken obligation found a failing input",
                          "broken": broken, "how_to_replay": "./check %s --replay <this file>" % prop})
            rp = write_replay(root, prop, "search", found)
            lines.append("VIOLATION property=%s replay=%s" % (prop, os.path.relpath(rp, root)))
        else:
            cases = [d["case_line"] for d in corr.get("examples", []) if "case_line" in d]
            rp = write_replay(root, prop, "broken", {
                "property": prop, "kind": "a proof obligation, the tie or the correspondence no longer checks; no concrete failing input found",
                "broken": broken, "cases": cases, "seed": seed, "tier": tier})
            names = ",".join(sorted(set(str(b.get("obligation")) for b in broken)))[:300]
            log("no longer checks: " + names)
            lines.append("VIOLATION property=%s replay=%s no-failing-input-found" % (prop, os.path.relpath(rp, root)))
        rc = 1

    for fid, hits in sorted(known_hits.items()):
        e = findings[fid]
        log("KNOWN-FINDING: property=%s %s (%s)" % (prop, e.get("what", fid), fid))
    st["known_hits"] = {k: len(v) for k, v in known_hits.items()}
    # open findings of this property whose witness did not reproduce are reported, not hidden
    for fid, e in findings.items():
        if e.get("status") == "open" and fid not in known_hits and e.get("detected_by", "oracle") == "oracle":
            log("note: open finding %s was not reproduced by this run's cases" % fid)

    finish(root, prop, cfg, tier, seed, st, hj, t_start, violations=len(violations) if violations else (1 if rc else 0))
    for l in lines:
        print(l, flush=True)
    if rc == 0:
        log("OK property=%s tier=%s cases=%d proofs=%d/%d corr_disagreements=%d wall=%.1fs" % (
            prop, tier, hj["cases"], st.get("discharged", 0), st.get("obligations", 0), corr["disagreements"], time.time() - t_start))
    return rc


def finish(root, prop, cfg, tier, seed, st, hj, t_start, violations):
    c = os.path.join(root, "coq")
    files = [t[:-3] + ".v" for t in cfg.get("coq_targets", ["Props/%s.vo" % prop])] + [t[:-3] + ".v" for t in cfg.get("cone", [])]
    obligations = 0
    discharged = 0
    per_file = {}
    for f in files:
        names = statements_in(os.path.join(c, f))
        vo = os.path.join(c, f[:-2] + ".vo")
        src = os.path.join(c, f)
        built = os.path.exists(vo) and os.path.exists(src) and os.path.getmtime(vo) >= os.path.getmtime(src)
        obligations += len(names)
        if built and not any(e.get("file") == f for e in st["proof_errors"]):
            discharged += len(names)
        per_file[f] = {"statements": len(names), "compiled": bool(built)}
    st["obligations"] = obligations
    st["discharged"] = discharged
    cov = {
        "obligations": obligations, "discharged": discharged,
        "checker_cmd": "make -C coq %s (coqc 8.16.1, full .vo build) ; coqc build/assum/A_%s.v (Print Assumptions)" % (
            " ".join(cfg.get("coq_targets", ["Props/%s.vo" % prop])), prop),
        "trusted_base": TRUSTED_BASE + cfg.get("trusted_extra", []),
        "proof_files": per_file,
        "theorems": st.get("theorems", []),
        "axioms_per_theorem": st.get("axioms", {}),
        "tie": {"go2v": st.get("go2v_output", ""), "errors": st["tie_errors"]},
        "proof_errors": st["proof_errors"],
        "hygiene_bad": st.get("hygiene_bad", []),
    }
    if st.get("coqchk"):
        cov["coqchk"] = st["coqchk"]
        cov["checker_cmd"] += " ; coqchk -silent -o -Q . PV PV.Props.%s" % prop
    if hj:
        cov.update({
            "evaluations": hj["cases"], "distinct_nontrivial": hj["distinct_nontrivial"],
            "rule": cfg.get("rule", ""), "samples": hj.get("samples") or [{"note": "no sample recorded"}],
            "input_distribution": hj.get("stats", {}),
            "correspondence": st.get("corr", {}),
            "oracle_rejects": len(hj.get("oracle_rejects") or []),
            "known_finding_hits": st.get("known_hits", {}),
            "exhaustive": bool(cfg.get("exhaustive_part")),
            "exhaustive_part": cfg.get("exhaustive_part", ""),
        })
        for k, v in hj.items():
            if k not in ("cases", "distinct_nontrivial", "samples", "stats", "oracle_rejects", "property", "tier", "seed"):
                cov.setdefault("harness_" + k, v)
    ev = {
        "property_id": prop, "tier": tier if tier in ("quick", "thorough") else "quick", "seed": seed,
        "level": cfg.get("level", "proof"), "coverage": cov,
        "assumptions": cfg.get("assumptions", []) + ["open known findings: " + ", ".join(
            sorted(k for k in load_findings(root, prop) if load_findings(root, prop)[k].get("status") == "open")) or "none"],
        "wall_s": round(time.time() - t_start, 1), "violations": violations,
    }
    with open(os.path.join(root, "evidence", prop + ".json"), "w") as f:
        json.dump(ev, f, indent=1)


def replay(root, prop, cfg, path):
    with open(path) as f:
        rp = json.load(f)
    cases = rp.get("cases") or []
    if not cases:
        print("replay file names no concrete case; what no longer checks:")
        print(json.dumps(rp.get("broken"), indent=1)[:4000])
        return 1
    build = os.path.join(root, "build")
    st = {"tie_errors": [], "proof_errors": []}
    with Lock(os.path.join(build, ".lock")):
        step_go2v(root, st)
        step_make(root, cfg.get("model_targets", []) + ["Extract/Deps.vo"], st)
        step_driver(root, st)
        if not step_harness_build(root, st, race=cfg.get("race", False)):
            print(st.get("harness_build_error"))
            return 1
    d = os.path.join(build, "run", prop + "-replay")
    os.makedirs(d, exist_ok=True)
    rf = os.path.join(d, "replay_cases.tsv")
    with open(rf, "w") as f:
        for c in cases:
            f.write(c + "\n")
    hj = run_harness(root, prop, "quick", rp.get("seed", 1), st, os.path.join(d, "out"), replay=rf, race=cfg.get("race", False))
    if hj is None:
        print(st.get("harness_error"))
        return 1
    run_model(root, os.path.join(d, "out"), st)
    n, unm, total, dis = diff_obs(os.path.join(d, "out"))
    for r in hj.get("oracle_rejects") or []:
        print("oracle rejects:", json.dumps(r))
    for x in dis:
        print("model/implementation disagree:", json.dumps(x))
    bad = len(hj.get("oracle_rejects") or []) + total
    print("replayed %d cases: %d oracle rejections, %d disagreements" % (n, len(hj.get("oracle_rejects") or []), total))
    return 1 if bad else 0
