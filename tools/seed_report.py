#!/usr/bin/env python3
"""Writes seeded/README.md from seeded/*/meta.json and seeded/RESULTS.tsv (last result per change and tier)."""
import json, os, glob
ROOT = os.path.dirname(os.path.dirname(os.path.abspath(__file__)))
res = {}
p = os.path.join(ROOT, "seeded", "RESULTS.tsv")
if os.path.exists(p):
    for l in open(p):
        f = l.rstrip("\n").split("\t")
        if len(f) >= 5:
            how = "oracle (failing input in the replay file)" if "-oracle.json" in f[4] else \
                  "search after a broken obligation (failing input found)" if "-search.json" in f[4] else \
                  "broken proof/tie/correspondence obligation, no failing input found" if "no-failing-input-found" in f[4] else \
                  ("harness could not run against the change" if "harness" in f[4] and "VIOLATION" in f[4] else "")
            res[(f[0], f[1])] = (f[2], f[3], how)
out = ["# Seeded changes\n",
       "Each directory holds one change to flosch/pongo2 that breaks the named property while compiling and passing the",
       "repository's test suite: `patch.diff`, a demonstration test (`demo_test.go`, passes on the clean tree, fails with",
       "the change) and `meta.json`. They were written by sub-agents that saw only the property text and a scratch worktree,",
       "and each was confirmed with `tools/seed_verify.sh`. They are never committed to /repo; `tools/seed_run.sh <PROP> <dir>`",
       "applies one, runs the property's check and restores the tree. Changes m1/m2 (first round) were used to strengthen the",
       "generators after the first run (15 of 40 were missed then); m3/m4 (second round) were written afterwards.\n",
       "| change | what it does | needs | quick | how it was seen |", "|---|---|---|---|---|"]
for d in sorted(glob.glob(os.path.join(ROOT, "seeded", "C*-m*"))):
    n = os.path.basename(d)
    m = json.load(open(os.path.join(d, "meta.json")))
    r = res.get((n, "quick"), ("not run", "", ""))
    t = res.get((n, "thorough"))
    verdict = r[0] + (" (%s)" % r[1] if r[1] else "")
    if t:
        verdict += "; thorough: " + t[0]
    esc = lambda s: " ".join(str(s).split()).replace("|", "\\|")
    out.append("| %s | %s | %s | %s | %s |" % (n, esc(m.get("summary", ""))[:330], esc(m.get("needs", ""))[:260], verdict, r[2] or (t[2] if t else "")))
open(os.path.join(ROOT, "seeded", "README.md"), "w").write("\n".join(out) + "\n")
print(len(out) - 9, "changes")
