#!/bin/bash
export GOFLAGS=-mod=mod GOPROXY=off GOSUMDB=off GOTOOLCHAIN=local
cd /verif
for d in seeded/C*-m3 seeded/C*-m4; do
  n=$(basename $d); p=${n%%-*}
  t0=$(date +%s)
  out=$(tools/seed_run.sh $p $n quick 2>&1 | tr '\n' ' ' | cut -c1-300)
  t1=$(date +%s)
  case "$out" in *VIOLATION*) v=DETECTED;; *) v=MISSED;; esac
  printf "%s\t%s\t%s\t%ss\t%s\n" "$n" "quick" "$v" "$((t1-t0))" "$out" >> seeded/RESULTS.tsv
done
