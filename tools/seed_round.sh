#!/bin/bash
# usage: seed_round.sh <suffix...> : runs the seeded changes whose name ends in one of the suffixes
# (e.g. m5 m6) against their property's quick check, appending to seeded/RESULTS.tsv
export GOFLAGS=-mod=mod GOPROXY=off GOSUMDB=off GOTOOLCHAIN=local
cd /verif
for suf in "$@"; do
for d in seeded/C*-$suf; do
  n=$(basename $d); p=${n%%-*}
  t0=$(date +%s)
  out=$(tools/seed_run.sh $p $n quick 2>&1 | tr '\n' ' ' | cut -c1-300)
  t1=$(date +%s)
  case "$out" in *VIOLATION*) v=DETECTED;; *) v=MISSED;; esac
  printf "%s\t%s\t%s\t%ss\t%s\n" "$n" "quick" "$v" "$((t1-t0))" "$out" >> seeded/RESULTS.tsv
done
done
