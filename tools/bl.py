#!/usr/bin/env python3
"""Authoring helper: replaces $"text" in a Coq source by its byte list with the text as comment."""
import re, sys
src = open(sys.argv[1]).read()
def rep(m):
    t = m.group(1)
    b = t.encode()
    return "[%s] (* %s *)" % ("; ".join(str(x) for x in b), t.replace("*)", "* )"))
open(sys.argv[2], "w").write(re.sub(r'\$"([^"\n]*)"', rep, src))
