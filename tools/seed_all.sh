#!/bin/bash
# usage: seed_all.sh [tier] [PROP...] : runs every confirmed seeded change of the given properties
# (default: all) against the property's check; one line per change in seeded/RESULTS.tsv
TIER=${1:-quick}; shift
export GOFLAGS=-mod=mod GOPROXY=off GOSUMDB=off GOTOOLCHAIN=local
cd /verif
for d in seeded/C*-m*; do
  n=$(basename $d); p=${n%%-*}
  if [ $# -gt 0 ]; then case " $* " in *" $p "*) ;; *) continue;; esac; fi
  grep -q "\"$p\"" lib/props.json || { echo "$n skipped (no check)"; continue; }
  t0=$(date +%s)
  out=$(tools/seed_run.sh $p $n $TIER 2>&1 | tr '\n' ' ' | cut -c1-300)
  t1=$(date +%s)
  case "$out" in *VIOLATION*) v=DETECTED;; *) v=MISSED;; esac
  printf "%s\t%s\t%s\t%ss\t%s\n" "$n" "$TIER" "$v" "$((t1-t0))" "$out" | tee -a seeded/RESULTS.tsv
done
