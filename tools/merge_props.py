#!/usr/bin/env python3
"""Authoring helper: append the statements of Props/<B>.v to Props/<A>.v (one Props file per property)."""
import sys, re
a, b = sys.argv[1], sys.argv[2]
def split(path):
    lines = open(path).read().split("\n")
    i = 0
    while i < len(lines) and not re.match(r"^(From|Require|Import|Open Scope)", lines[i]): i += 1
    j = i
    while j < len(lines) and (re.match(r"^(From|Require|Import|Open Scope|Local Open Scope)", lines[j]) or lines[j].strip() == ""): j += 1
    return lines[:i], [l for l in lines[i:j] if l.strip()], lines[j:]
ha, ia, ba = split(a)
hb, ib, bb = split(b)
imports = ia[:]
opens = [l for l in imports if l.startswith("Open Scope")]
imports = [l for l in imports if not l.startswith("Open Scope")]
for l in ib:
    if l.startswith("Open Scope"):
        if l not in opens: opens.append(l)
    elif l not in imports: imports.append(l)
out = ha + ["(* ---- second part (statements appended below) ---- *)"] + hb + imports + opens + [""] + ba + ["", "(* ==================== second part ==================== *)", ""] + bb
open(a, "w").write("\n".join(out))
