package main

import (
	"fmt"
	"go/ast"
	"go/printer"
	"go/token"
	"io"
	"strconv"
	"strings"
)

func printerFprint(w io.Writer, fset *token.FileSet, n any) {
	_ = printer.Fprint(w, fset, n)
}

// exprEnv drives the translation of the scalar fragment of Go into Gallina over Z/bool.
type exprEnv struct {
	p      *pkgInfo
	opaque map[string]string // Go source text of an opaque sub-expression -> Gallina name
	ints   map[string]bool   // local int variables in scope (Gallina name = Go name + "_")
	bools  map[string]bool
	consts map[string]int64 // package constants resolved to literals
	// obligations collected while translating one expression (divisors, indexes)
	oblig []string
	fn    string
}

func (e *exprEnv) src(x ast.Expr) string { return exprString(e.p.fset, x) }

func gname(s string) string { return "v_" + s }

func zlit(v int64) string {
	if v < 0 {
		return fmt.Sprintf("(%d)%%Z", v)
	}
	return fmt.Sprintf("%d%%Z", v)
}

// isBool decides whether a Go expression of the fragment is boolean.
func (e *exprEnv) isBool(x ast.Expr) bool {
	switch t := x.(type) {
	case *ast.ParenExpr:
		return e.isBool(t.X)
	case *ast.UnaryExpr:
		return t.Op == token.NOT
	case *ast.BinaryExpr:
		switch t.Op {
		case token.LAND, token.LOR, token.EQL, token.NEQ, token.LSS, token.LEQ, token.GTR, token.GEQ:
			return true
		}
		return false
	case *ast.Ident:
		if t.Name == "true" || t.Name == "false" {
			return true
		}
		return e.bools[t.Name]
	}
	if n, ok := e.opaque[e.src(x)]; ok {
		return strings.HasPrefix(n, "b_")
	}
	return false
}

// tr translates an expression; ok=false when it left the fragment.
func (e *exprEnv) tr(x ast.Expr) (string, bool) {
	if n, ok := e.opaque[e.src(x)]; ok {
		return n, true
	}
	switch t := x.(type) {
	case *ast.ParenExpr:
		s, ok := e.tr(t.X)
		return "(" + s + ")", ok
	case *ast.BasicLit:
		switch t.Kind {
		case token.INT:
			v, err := strconv.ParseInt(t.Value, 0, 64)
			if err != nil {
				return "", false
			}
			return zlit(v), true
		case token.CHAR:
			r, _, _, err := strconv.UnquoteChar(t.Value[1:len(t.Value)-1], '\'')
			if err != nil {
				return "", false
			}
			return zlit(int64(r)), true
		}
		return "", false
	case *ast.Ident:
		if t.Name == "true" || t.Name == "false" {
			return t.Name, true
		}
		if e.ints[t.Name] || e.bools[t.Name] {
			return gname(t.Name), true
		}
		if v, ok := e.consts[t.Name]; ok {
			return zlit(v), true
		}
		if v, ok := e.p.intConstQuiet(t.Name); ok {
			return zlit(v), true
		}
		return "", false
	case *ast.UnaryExpr:
		s, ok := e.tr(t.X)
		if !ok {
			return "", false
		}
		switch t.Op {
		case token.NOT:
			return "(negb " + s + ")", true
		case token.SUB:
			return "(wrap64 (- " + s + ")%Z)", true
		case token.ADD:
			return s, true
		}
		return "", false
	case *ast.BinaryExpr:
		a, ok1 := e.tr(t.X)
		b, ok2 := e.tr(t.Y)
		if !ok1 || !ok2 {
			return "", false
		}
		switch t.Op {
		case token.ADD:
			return "(wrap64 (" + a + " + " + b + ")%Z)", true
		case token.SUB:
			return "(wrap64 (" + a + " - " + b + ")%Z)", true
		case token.MUL:
			return "(wrap64 (" + a + " * " + b + ")%Z)", true
		case token.QUO:
			e.oblig = append(e.oblig, "(negb ("+b+" =? 0)%Z)")
			return "(wrap64 (Z.quot " + a + " " + b + "))", true
		case token.REM:
			e.oblig = append(e.oblig, "(negb ("+b+" =? 0)%Z)")
			return "(Z.rem " + a + " " + b + ")", true
		case token.LSS:
			return "(" + a + " <? " + b + ")%Z", true
		case token.LEQ:
			return "(" + a + " <=? " + b + ")%Z", true
		case token.GTR:
			return "(" + b + " <? " + a + ")%Z", true
		case token.GEQ:
			return "(" + b + " <=? " + a + ")%Z", true
		case token.EQL:
			if e.isBool(t.X) {
				return "(Bool.eqb " + a + " " + b + ")", true
			}
			return "(" + a + " =? " + b + ")%Z", true
		case token.NEQ:
			if e.isBool(t.X) {
				return "(negb (Bool.eqb " + a + " " + b + "))", true
			}
			return "(negb (" + a + " =? " + b + ")%Z)", true
		case token.LAND:
			// Go's && is short-circuit: obligations of the right operand hold only
			// under the left one; the fragment has no obligations inside conditions
			return "(" + a + " && " + b + ")", true
		case token.LOR:
			return "(" + a + " || " + b + ")", true
		}
		return "", false
	case *ast.CallExpr:
		if id, ok := t.Fun.(*ast.Ident); ok && len(t.Args) == 2 && (id.Name == "max" || id.Name == "min") {
			a, ok1 := e.tr(t.Args[0])
			b, ok2 := e.tr(t.Args[1])
			if !ok1 || !ok2 {
				return "", false
			}
			if id.Name == "max" {
				return "(Z.max " + a + " " + b + ")", true
			}
			return "(Z.min " + a + " " + b + ")", true
		}
		if id, ok := t.Fun.(*ast.Ident); ok && len(t.Args) == 1 && id.Name == "int" {
			return e.tr(t.Args[0])
		}
		return "", false
	}
	return "", false
}

func (p *pkgInfo) intConstQuiet(name string) (int64, bool) {
	n := len(problems)
	v, ok := p.intConst(name)
	problems = problems[:n]
	return v, ok
}
