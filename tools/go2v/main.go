// go2v regenerates coq/gen/*.v from /repo's current source on every run.
//
//	E1 Tables.v : tables and constants the model computes with
//	E2 Scalar.v : scalar skeletons of index arithmetic (see scalar.go)
//	E3 Wrappers.v : the entry-point wrappers of template.go as terms of a small Go fragment
//	               (see wrappers.go)
//	E4 SetFuncs.v : the template set's functions of template_sets.go as terms of the same
//	               fragment, extended (see setfuncs.go)
//	E5 LoaderFuncs.v : the loader lookup of template_sets.go as terms of the same fragment,
//	               extended once more (see loaderfuncs.go)
//	E6 TagFuncs.v : the Execute methods of the branching tags (if, firstof, ifequal, ifnotequal)
//	               as terms of the same fragment, extended by integer + and > (see tagfuncs.go)
//
// Constructs are located by role (a package var's initialiser, the arguments of the
// strings.Replace calls in a named function, ...), never by line.  If a construct
// cannot be found the program says which and exits 2: the tie no longer checks.
package main

import (
	"bytes"
	"flag"
	"fmt"
	"go/ast"
	"go/parser"
	"go/token"
	"os"
	"path/filepath"
	"sort"
	"strconv"
	"strings"
)

type pkgInfo struct {
	fset  *token.FileSet
	files map[string]*ast.File
}

var problems []string

func problem(format string, a ...any) {
	problems = append(problems, fmt.Sprintf(format, a...))
}

func load(dir string) *pkgInfo {
	fset := token.NewFileSet()
	pkgs, err := parser.ParseDir(fset, dir, func(fi os.FileInfo) bool {
		n := fi.Name()
		return !strings.HasSuffix(n, "_test.go") && n != "verif_hooks.go"
	}, parser.ParseComments)
	if err != nil {
		fmt.Fprintln(os.Stderr, "go2v: parse error:", err)
		os.Exit(2)
	}
	p, ok := pkgs["pongo2"]
	if !ok {
		fmt.Fprintln(os.Stderr, "go2v: package pongo2 not found in", dir)
		os.Exit(2)
	}
	return &pkgInfo{fset: fset, files: p.Files}
}

func (p *pkgInfo) sortedFiles() []*ast.File {
	names := make([]string, 0, len(p.files))
	for n := range p.files {
		names = append(names, n)
	}
	sort.Strings(names)
	out := make([]*ast.File, 0, len(names))
	for _, n := range names {
		out = append(out, p.files[n])
	}
	return out
}

// findFunc returns the declaration of a top-level function or method by name.
func (p *pkgInfo) findFunc(name string) *ast.FuncDecl {
	for _, f := range p.sortedFiles() {
		for _, d := range f.Decls {
			if fd, ok := d.(*ast.FuncDecl); ok && fd.Name.Name == name {
				return fd
			}
		}
	}
	return nil
}

// findMethod returns method `name` on receiver type `recv` (pointer or value).
func (p *pkgInfo) findMethod(recv, name string) *ast.FuncDecl {
	for _, f := range p.sortedFiles() {
		for _, d := range f.Decls {
			fd, ok := d.(*ast.FuncDecl)
			if !ok || fd.Name.Name != name || fd.Recv == nil || len(fd.Recv.List) == 0 {
				continue
			}
			t := fd.Recv.List[0].Type
			if s, ok := t.(*ast.StarExpr); ok {
				t = s.X
			}
			if id, ok := t.(*ast.Ident); ok && id.Name == recv {
				return fd
			}
		}
	}
	return nil
}

// findValue returns the initialiser expression of a package-level var or const.
func (p *pkgInfo) findValue(name string) (ast.Expr, *ast.GenDecl, int) {
	for _, f := range p.sortedFiles() {
		for _, d := range f.Decls {
			gd, ok := d.(*ast.GenDecl)
			if !ok || (gd.Tok != token.VAR && gd.Tok != token.CONST) {
				continue
			}
			for si, s := range gd.Specs {
				vs := s.(*ast.ValueSpec)
				for i, n := range vs.Names {
					if n.Name == name {
						if i < len(vs.Values) {
							return vs.Values[i], gd, si
						}
						return nil, gd, si
					}
				}
			}
		}
	}
	return nil, nil, 0
}

func strLit(e ast.Expr) (string, bool) {
	bl, ok := e.(*ast.BasicLit)
	if !ok || bl.Kind != token.STRING {
		return "", false
	}
	s, err := strconv.Unquote(bl.Value)
	if err != nil {
		return "", false
	}
	return s, true
}

func coqStr(s string) string {
	var b strings.Builder
	b.WriteString("[")
	for i := 0; i < len(s); i++ {
		if i > 0 {
			b.WriteString("; ")
		}
		fmt.Fprintf(&b, "%d", s[i])
	}
	b.WriteString("]")
	return b.String()
}

func coqStrList(l []string) string {
	parts := make([]string, len(l))
	for i, s := range l {
		parts[i] = coqStr(s)
	}
	return "[" + strings.Join(parts, ";\n   ") + "]"
}

func coqPairList(l [][2]string) string {
	parts := make([]string, len(l))
	for i, s := range l {
		parts[i] = "(" + coqStr(s[0]) + ", " + coqStr(s[1]) + ")"
	}
	return "[" + strings.Join(parts, ";\n   ") + "]"
}

// replacePairs: the (old,new) arguments of the consecutive strings.Replace(.., -1)
// calls in function fn, in source order.
func (p *pkgInfo) replacePairs(fn string) [][2]string {
	fd := p.findFunc(fn)
	if fd == nil {
		problem("function %s not found", fn)
		return nil
	}
	var out [][2]string
	ast.Inspect(fd.Body, func(n ast.Node) bool {
		ce, ok := n.(*ast.CallExpr)
		if !ok {
			return true
		}
		se, ok := ce.Fun.(*ast.SelectorExpr)
		if !ok {
			return true
		}
		x, ok := se.X.(*ast.Ident)
		if !ok || x.Name != "strings" {
			return true
		}
		if se.Sel.Name == "Replace" && len(ce.Args) == 4 {
			o, ok1 := strLit(ce.Args[1])
			nw, ok2 := strLit(ce.Args[2])
			cnt := exprString(p.fset, ce.Args[3])
			if ok1 && ok2 && cnt == "-1" {
				out = append(out, [2]string{o, nw})
			} else {
				problem("%s: strings.Replace with non-literal arguments or count != -1", fn)
			}
		} else if se.Sel.Name == "ReplaceAll" && len(ce.Args) == 3 {
			o, ok1 := strLit(ce.Args[1])
			nw, ok2 := strLit(ce.Args[2])
			if ok1 && ok2 {
				out = append(out, [2]string{o, nw})
			} else {
				problem("%s: strings.ReplaceAll with non-literal arguments", fn)
			}
		}
		return true
	})
	// Inspect visits outer calls before inner ones; nested Replace(Replace(..)) would
	// be applied inner-first.  pongo2 writes them as consecutive statements; keep source
	// order but reverse within one statement.
	return orderPairsBySource(p, fd, out)
}

func orderPairsBySource(p *pkgInfo, fd *ast.FuncDecl, fallback [][2]string) [][2]string {
	var out [][2]string
	for _, st := range fd.Body.List {
		var inStmt [][2]string
		ast.Inspect(st, func(n ast.Node) bool {
			ce, ok := n.(*ast.CallExpr)
			if !ok {
				return true
			}
			se, ok := ce.Fun.(*ast.SelectorExpr)
			if !ok {
				return true
			}
			x, ok := se.X.(*ast.Ident)
			if !ok || x.Name != "strings" {
				return true
			}
			var o, nw string
			var ok1, ok2 bool
			if se.Sel.Name == "Replace" && len(ce.Args) == 4 {
				o, ok1 = strLit(ce.Args[1])
				nw, ok2 = strLit(ce.Args[2])
			} else if se.Sel.Name == "ReplaceAll" && len(ce.Args) == 3 {
				o, ok1 = strLit(ce.Args[1])
				nw, ok2 = strLit(ce.Args[2])
			} else {
				return true
			}
			if ok1 && ok2 {
				inStmt = append(inStmt, [2]string{o, nw})
			}
			return true
		})
		for i := len(inStmt) - 1; i >= 0; i-- { // innermost call is applied first
			out = append(out, inStmt[i])
		}
	}
	if len(out) != len(fallback) {
		return fallback
	}
	return out
}

func exprString(fset *token.FileSet, e ast.Expr) string {
	var b bytes.Buffer
	printerFprint(&b, fset, e)
	return b.String()
}

func (p *pkgInfo) stringValue(name string) (string, bool) {
	e, _, _ := p.findValue(name)
	if e == nil {
		problem("value %s not found", name)
		return "", false
	}
	s, ok := strLit(e)
	if !ok {
		problem("value %s is not a string literal", name)
	}
	return s, ok
}

func (p *pkgInfo) stringSlice(name string) []string {
	e, _, _ := p.findValue(name)
	cl, ok := e.(*ast.CompositeLit)
	if !ok {
		problem("value %s is not a composite literal", name)
		return nil
	}
	var out []string
	for _, el := range cl.Elts {
		s, ok := strLit(el)
		if !ok {
			problem("value %s has a non-literal element", name)
			continue
		}
		out = append(out, s)
	}
	return out
}

func (p *pkgInfo) stringMap(name string) [][2]string {
	e, _, _ := p.findValue(name)
	cl, ok := e.(*ast.CompositeLit)
	if !ok {
		problem("value %s is not a composite literal", name)
		return nil
	}
	var out [][2]string
	for _, el := range cl.Elts {
		kv, ok := el.(*ast.KeyValueExpr)
		if !ok {
			problem("value %s has a non key/value element", name)
			continue
		}
		k, ok1 := strLit(kv.Key)
		v, ok2 := strLit(kv.Value)
		if !ok1 || !ok2 {
			problem("value %s has a non-literal entry", name)
			continue
		}
		out = append(out, [2]string{k, v})
	}
	sort.Slice(out, func(i, j int) bool { return out[i][0] < out[j][0] })
	return out
}

// intConst evaluates an integer constant: a literal, or a member of an iota block.
func (p *pkgInfo) intConst(name string) (int64, bool) {
	e, gd, si := p.findValue(name)
	if gd == nil {
		problem("constant %s not found", name)
		return 0, false
	}
	if e != nil {
		if bl, ok := e.(*ast.BasicLit); ok && bl.Kind == token.INT {
			v, err := strconv.ParseInt(bl.Value, 0, 64)
			if err == nil {
				return v, true
			}
		}
		if id, ok := e.(*ast.Ident); ok && id.Name == "iota" {
			return int64(si), true
		}
		if ue, ok := e.(*ast.UnaryExpr); ok && ue.Op == token.SUB {
			if bl, ok := ue.X.(*ast.BasicLit); ok && bl.Kind == token.INT {
				v, err := strconv.ParseInt(bl.Value, 0, 64)
				if err == nil {
					return -v, true
				}
			}
		}
		problem("constant %s has an initialiser go2v does not evaluate: %s", name, exprString(p.fset, e))
		return 0, false
	}
	// implicit repetition inside a const block: find the governing expression
	if gd.Tok == token.CONST {
		for k := si; k >= 0; k-- {
			vs := gd.Specs[k].(*ast.ValueSpec)
			if len(vs.Values) > 0 {
				if id, ok := vs.Values[0].(*ast.Ident); ok && id.Name == "iota" {
					return int64(si), true
				}
				break
			}
		}
	}
	problem("constant %s: cannot evaluate", name)
	return 0, false
}

// registered names: first arguments of all calls to fn (RegisterTag/RegisterFilter)
// inside init functions.
func (p *pkgInfo) registered(fn string) []string {
	var out []string
	for _, f := range p.sortedFiles() {
		for _, d := range f.Decls {
			fd, ok := d.(*ast.FuncDecl)
			if !ok || fd.Name.Name != "init" || fd.Recv != nil {
				continue
			}
			ast.Inspect(fd.Body, func(n ast.Node) bool {
				ce, ok := n.(*ast.CallExpr)
				if !ok {
					return true
				}
				id, ok := ce.Fun.(*ast.Ident)
				if !ok || id.Name != fn || len(ce.Args) < 1 {
					return true
				}
				s, ok := strLit(ce.Args[0])
				if !ok {
					problem("%s called with a non-literal name", fn)
					return true
				}
				out = append(out, s)
				return true
			})
		}
	}
	sort.Strings(out)
	return out
}

// registeredImpl: name -> implementing function identifier
func (p *pkgInfo) registeredImpl(fn string) map[string]string {
	out := map[string]string{}
	for _, f := range p.sortedFiles() {
		for _, d := range f.Decls {
			fd, ok := d.(*ast.FuncDecl)
			if !ok || fd.Name.Name != "init" || fd.Recv != nil {
				continue
			}
			ast.Inspect(fd.Body, func(n ast.Node) bool {
				ce, ok := n.(*ast.CallExpr)
				if !ok {
					return true
				}
				id, ok := ce.Fun.(*ast.Ident)
				if !ok || id.Name != fn || len(ce.Args) < 2 {
					return true
				}
				s, ok := strLit(ce.Args[0])
				if !ok {
					return true
				}
				if impl, ok := ce.Args[1].(*ast.Ident); ok {
					out[s] = impl.Name
				}
				return true
			})
		}
	}
	return out
}

func writeIfChanged(path string, content []byte) (bool, error) {
	old, err := os.ReadFile(path)
	if err == nil && bytes.Equal(old, content) {
		return false, nil
	}
	if err := os.MkdirAll(filepath.Dir(path), 0o755); err != nil {
		return false, err
	}
	return true, os.WriteFile(path, content, 0o644)
}

func main() {
	repo := flag.String("repo", "/repo", "pongo2 source directory")
	out := flag.String("out", "/verif/coq/gen", "output directory")
	flag.Parse()
	p := load(*repo)

	tables := genTables(p)
	scalar := genScalar(p)
	wrappers := genWrappers(p)
	setfuncs := genSetFuncs(p)
	loaderfuncs := genLoaderFuncs(p)
	tagfuncs := genTagFuncs(p)

	if len(problems) > 0 {
		for _, s := range problems {
			fmt.Fprintln(os.Stderr, "go2v: PROBLEM:", s)
		}
	}
	outputs := [][2]string{{"Tables.v", tables}, {"Scalar.v", scalar}, {"Wrappers.v", wrappers}, {"SetFuncs.v", setfuncs},
		{"LoaderFuncs.v", loaderfuncs}, {"TagFuncs.v", tagfuncs}}
	for _, o := range outputs {
		name, content := o[0], o[1]
		ch, err := writeIfChanged(filepath.Join(*out, name), []byte(content))
		if err != nil {
			fmt.Fprintln(os.Stderr, "go2v:", err)
			os.Exit(2)
		}
		fmt.Printf("go2v: %s %s\n", name, map[bool]string{true: "rewritten", false: "unchanged"}[ch])
	}
	if len(problems) > 0 {
		os.Exit(2)
	}
}
