package main

// E2: scalar skeletons. A skeleton is the integer/boolean bookkeeping of one Go function,
// translated statement by statement into a Gallina function over Z and bool:
//
//	x := e ; x = e ; x++ ; x--        let v_x := <e> in
//	if c { assignments }  [else {..}] let (..) := if <c> then .. else .. in
//
// Everything else in the function (calls that build values, early-exit guards that assign
// nothing followed) is outside the skeleton and skipped - but a skipped statement that assigns a
// followed variable is a PROBLEM, so an edit that moves the arithmetic elsewhere is noticed.
// Sub-expressions that are not scalar arithmetic (in.Len(), AsValue(..).Integer()) are opaque:
// they are listed per skeleton and become parameters. Go's int is int64: + - * are wrapped.

import (
	"fmt"
	"go/ast"
	"go/token"
	"sort"
	"strings"
)

type skelVar struct {
	key  string // Go source text of the variable: "from", "loopInfo.Counter"
	kind string // "Z" or "bool"
}

type skeleton struct {
	name    string
	comment string
	block   func(p *pkgInfo) *ast.BlockStmt
	params  [][2]string       // Gallina parameters (name, type), in order
	opaque  map[string]string // Go source text -> Gallina expression over the parameters
	tracked []skelVar         // the variables followed, in result order
	initial map[string]string // initial Gallina value of a followed variable that the block does not define
	stop    string            // stop before the first statement whose source contains this text
	resCond string            // if set: the result is the condition of the first if whose source contains this text
	guards  bool              // early-exit ifs (return inside, nothing followed assigned) become boolean results, in order
}

func galName(v skelVar) string {
	s := strings.NewReplacer(".", "_", "[", "_", "]", "_").Replace(v.key)
	if v.kind == "bool" && strings.Contains(v.key, ".") {
		return "b_" + s
	}
	return "v_" + s
}

type skelGen struct {
	p      *pkgInfo
	sk     *skeleton
	env    *exprEnv
	vars   map[string]skelVar
	out    []string
	ok     bool
	guards []string // names of the guard conditions collected so far
}

func (g *skelGen) fail(format string, a ...any) {
	problem("scalar skeleton %s: %s", g.sk.name, fmt.Sprintf(format, a...))
	g.ok = false
}

func (g *skelGen) trExpr(x ast.Expr) string {
	s, ok := g.env.tr(x)
	if !ok {
		g.fail("expression outside the scalar fragment: %s", g.env.src(x))
		return "0%Z"
	}
	return s
}

// assigned lists the followed variables assigned anywhere inside n, in first-assignment order.
func (g *skelGen) assigned(n ast.Node) []skelVar {
	var res []skelVar
	seen := map[string]bool{}
	add := func(x ast.Expr) {
		k := g.env.src(x)
		if v, ok := g.vars[k]; ok && !seen[k] {
			seen[k] = true
			res = append(res, v)
		}
	}
	ast.Inspect(n, func(m ast.Node) bool {
		switch t := m.(type) {
		case *ast.AssignStmt:
			for _, l := range t.Lhs {
				add(l)
			}
		case *ast.IncDecStmt:
			add(t.X)
		case *ast.FuncLit:
			return false
		}
		return true
	})
	return res
}

func hasReturn(n ast.Node) bool {
	found := false
	ast.Inspect(n, func(m ast.Node) bool {
		switch m.(type) {
		case *ast.ReturnStmt:
			found = true
		case *ast.FuncLit:
			return false
		}
		return true
	})
	return found
}

func tupleOf(vs []skelVar) string {
	var names []string
	for _, v := range vs {
		names = append(names, galName(v))
	}
	if len(names) == 1 {
		return names[0]
	}
	return "(" + strings.Join(names, ", ") + ")"
}

func patOf(vs []skelVar) string {
	if len(vs) == 1 {
		return galName(vs[0])
	}
	return "'" + tupleOf(vs)
}

// stmts translates a statement list into a chain of lets (one string per let, without "in").
func (g *skelGen) stmts(list []ast.Stmt, indent string) []string {
	var out []string
	for _, s := range list {
		src := nodeString(g.p.fset, s)
		if g.sk.stop != "" && strings.Contains(src, g.sk.stop) {
			break
		}
		switch t := s.(type) {
		case *ast.AssignStmt:
			if len(t.Lhs) == 1 && len(t.Rhs) == 1 {
				if v, ok := g.vars[g.env.src(t.Lhs[0])]; ok {
					if t.Tok != token.ASSIGN && t.Tok != token.DEFINE {
						g.fail("unsupported assignment operator in: %s", src)
						continue
					}
					out = append(out, indent+"let "+galName(v)+" := "+g.trExpr(t.Rhs[0])+" in")
					continue
				}
			}
			if len(g.assigned(s)) > 0 {
				g.fail("unsupported assignment to a followed variable: %s", src)
			}
		case *ast.IncDecStmt:
			if v, ok := g.vars[g.env.src(t.X)]; ok {
				op := "+"
				if t.Tok == token.DEC {
					op = "-"
				}
				out = append(out, indent+"let "+galName(v)+" := (wrap64 ("+galName(v)+" "+op+" 1)%Z) in")
			}
		case *ast.IfStmt:
			as := g.assigned(t)
			if len(as) == 0 {
				if g.sk.guards && hasReturn(t) && t.Init == nil {
					// an early exit: its condition (over the followed variables, as they are at
					// this point) is part of the skeleton
					if c, ok := g.env.tr(t.Cond); ok {
						name := fmt.Sprintf("b_guard%d", len(g.guards)+1)
						g.guards = append(g.guards, name)
						out = append(out, indent+"let "+name+" := "+c+" in")
					}
				}
				continue // something about values: outside the skeleton
			}
			if t.Init != nil || hasReturn(t) {
				g.fail("a followed variable is assigned in an if with init or return: %s", strings.SplitN(src, "\n", 2)[0])
				continue
			}
			cond := g.trExpr(t.Cond)
			thenLets := g.stmts(t.Body.List, indent+"    ")
			elseLets := []string{}
			switch e := t.Else.(type) {
			case nil:
			case *ast.BlockStmt:
				elseLets = g.stmts(e.List, indent+"    ")
			default:
				g.fail("else-if chains are not supported: %s", strings.SplitN(src, "\n", 2)[0])
			}
			tup := tupleOf(as)
			out = append(out, indent+"let "+patOf(as)+" :=")
			out = append(out, indent+"  if "+cond+" then")
			out = append(out, thenLets...)
			out = append(out, indent+"    "+tup)
			out = append(out, indent+"  else")
			out = append(out, elseLets...)
			out = append(out, indent+"    "+tup+" in")
		default:
			if _, isDefer := s.(*ast.DeferStmt); isDefer {
				continue // runs at function exit: after everything the skeleton describes
			}
			if len(g.assigned(s)) > 0 {
				g.fail("a followed variable is assigned in an unsupported statement: %s", strings.SplitN(src, "\n", 2)[0])
			}
		}
	}
	return out
}

func nodeString(fset *token.FileSet, n ast.Node) string {
	var sb strings.Builder
	printerFprint(&sb, fset, n)
	return sb.String()
}

func (sk *skeleton) gen(p *pkgInfo) string {
	g := &skelGen{p: p, sk: sk, vars: map[string]skelVar{}, ok: true}
	g.env = &exprEnv{p: p, opaque: map[string]string{}, ints: map[string]bool{}, bools: map[string]bool{}, consts: map[string]int64{}, fn: sk.name}
	for k, v := range sk.opaque {
		g.env.opaque[k] = v
	}
	for _, v := range sk.tracked {
		g.vars[v.key] = v
		if strings.Contains(v.key, ".") {
			g.env.opaque[v.key] = galName(v)
		} else if v.kind == "bool" {
			g.env.bools[v.key] = true
		} else {
			g.env.ints[v.key] = true
		}
	}
	blk := sk.block(p)
	var sig []string
	for _, pr := range sk.params {
		sig = append(sig, "("+pr[0]+" : "+pr[1]+")")
	}
	var resT []string
	for _, v := range sk.tracked {
		resT = append(resT, v.kind)
	}
	resType := strings.Join(resT, " * ")
	if blk == nil {
		problem("scalar skeleton %s: the function was not found", sk.name)
		return fmt.Sprintf("(* %s: NOT FOUND in the source *)\n", sk.name)
	}
	var body []string
	// initial values, in a fixed order
	var keys []string
	for k := range sk.initial {
		keys = append(keys, k)
	}
	sort.Strings(keys)
	for _, k := range keys {
		body = append(body, "  let "+galName(g.vars[k])+" := "+sk.initial[k]+" in")
	}
	result := ""
	if sk.resCond != "" {
		// translate up to the if whose condition is the result
		var pre []ast.Stmt
		var cond ast.Expr
		for _, s := range blk.List {
			if t, ok := s.(*ast.IfStmt); ok && strings.Contains(nodeString(p.fset, t.Cond), sk.resCond) {
				cond = t.Cond
				break
			}
			pre = append(pre, s)
		}
		if cond == nil {
			problem("scalar skeleton %s: no if-statement mentions %s", sk.name, sk.resCond)
			return fmt.Sprintf("(* %s: guard NOT FOUND *)\n", sk.name)
		}
		body = append(body, g.stmts(pre, "  ")...)
		result = g.trExpr(cond)
		resType = "bool"
	} else {
		body = append(body, g.stmts(blk.List, "  ")...)
		// guards first (in source order), then the followed variables
		names := append([]string{}, g.guards...)
		resT = resT[:0]
		for range g.guards {
			resT = append(resT, "bool")
		}
		for _, v := range sk.tracked {
			resT = append(resT, v.kind)
			names = append(names, galName(v))
		}
		resType = strings.Join(resT, " * ")
		if len(names) == 1 {
			result = names[0]
		} else {
			result = "(" + strings.Join(names, ", ") + ")"
		}
	}
	checkOblig(g.env, sk.name)
	var sb strings.Builder
	sb.WriteString("(* " + noComment(sk.comment) + " *)\n")
	sb.WriteString("Definition " + sk.name + " " + strings.Join(sig, " ") + " : " + resType + " :=\n")
	for _, l := range body {
		sb.WriteString(l + "\n")
	}
	sb.WriteString("  " + result + ".\n\n")
	return sb.String()
}

func noComment(s string) string {
	return strings.NewReplacer("(*", "( *", "*)", "* )").Replace(s)
}

// firstFuncLit returns the body of the first function literal with the given parameter names.
func firstFuncLit(fd *ast.FuncDecl, params ...string) *ast.BlockStmt {
	var res *ast.BlockStmt
	if fd == nil || fd.Body == nil {
		return nil
	}
	ast.Inspect(fd.Body, func(n ast.Node) bool {
		fl, ok := n.(*ast.FuncLit)
		if !ok || res != nil {
			return res == nil
		}
		var names []string
		for _, f := range fl.Type.Params.List {
			for _, nm := range f.Names {
				names = append(names, nm.Name)
			}
		}
		if len(names) >= len(params) {
			match := true
			for i, pn := range params {
				if names[i] != pn {
					match = false
				}
			}
			if match {
				res = fl.Body
				return false
			}
		}
		return true
	})
	return res
}

// compositeInit reads the composite literal  name := &T{field: value, ..}  in fd and gives the
// Gallina initial value of every int/bool field of T (zero value where the literal is silent).
func compositeInit(p *pkgInfo, fd *ast.FuncDecl, varName, typeName string) (fields []skelVar, init map[string]string) {
	init = map[string]string{}
	// the struct's int and bool fields, in declaration order
	for _, f := range p.sortedFiles() {
		for _, d := range f.Decls {
			gd, ok := d.(*ast.GenDecl)
			if !ok || gd.Tok != token.TYPE {
				continue
			}
			for _, s := range gd.Specs {
				ts := s.(*ast.TypeSpec)
				st, ok := ts.Type.(*ast.StructType)
				if !ok || ts.Name.Name != typeName {
					continue
				}
				for _, fl := range st.Fields.List {
					id, ok := fl.Type.(*ast.Ident)
					if !ok || (id.Name != "int" && id.Name != "bool") {
						continue
					}
					for _, nm := range fl.Names {
						kind := "Z"
						zero := "0%Z"
						if id.Name == "bool" {
							kind, zero = "bool", "false"
						}
						fields = append(fields, skelVar{key: varName + "." + nm.Name, kind: kind})
						init[varName+"."+nm.Name] = zero
					}
				}
			}
		}
	}
	if fd == nil || fd.Body == nil {
		return
	}
	found := false
	ast.Inspect(fd.Body, func(n ast.Node) bool {
		as, ok := n.(*ast.AssignStmt)
		if !ok || len(as.Lhs) != 1 || len(as.Rhs) != 1 {
			return true
		}
		id, ok := as.Lhs[0].(*ast.Ident)
		if !ok || id.Name != varName {
			return true
		}
		x := as.Rhs[0]
		if u, ok := x.(*ast.UnaryExpr); ok && u.Op == token.AND {
			x = u.X
		}
		cl, ok := x.(*ast.CompositeLit)
		if !ok {
			return true
		}
		found = true
		for _, el := range cl.Elts {
			kv, ok := el.(*ast.KeyValueExpr)
			if !ok {
				problem("scalar skeleton: positional composite literal for %s", typeName)
				continue
			}
			k := varName + "." + exprString(p.fset, kv.Key)
			if _, tracked := init[k]; !tracked {
				continue
			}
			switch v := kv.Value.(type) {
			case *ast.Ident:
				if v.Name == "true" || v.Name == "false" {
					init[k] = v.Name
					continue
				}
			case *ast.BasicLit:
				if v.Kind == token.INT {
					init[k] = v.Value + "%Z"
					continue
				}
			}
			problem("scalar skeleton: initial value of %s is not a literal", k)
		}
		return false
	})
	if !found {
		problem("scalar skeleton: %s := &%s{..} not found", varName, typeName)
	}
	return
}

func checkOblig(g *exprEnv, name string) {
	for _, o := range g.oblig {
		if strings.Contains(o, "(2%Z =? 0)") || strings.Contains(o, "(10%Z =? 0)") {
			continue // a non-zero literal divisor
		}
		problem("scalar skeleton %s: division by something that is not a non-zero literal: %s", name, o)
	}
}

func genScalar(p *pkgInfo) string {
	var sb strings.Builder
	sb.WriteString("(* GENERATED by tools/go2v from /repo on every run. Do not edit.\n   E2: scalar skeletons - the integer/boolean bookkeeping of selected Go functions, translated\n   statement by statement (tools/go2v/scalar.go). The obligations that the hand-written model\n   computes the same are in coq/Tie. *)\nFrom PV Require Import Lib.Bytes Lib.GoInt.\nOpen Scope Z_scope.\n\n")

	// ---- filterSlice: the index arithmetic between parsing the bounds and in.Slice(from, to)
	slice := &skeleton{
		name:    "go_slice_bounds",
		comment: "filters_builtin.go filterSlice: from/to as handed to in.Slice, from n = in.Len(), the two parsed bounds and whether the second bound is blank",
		block: func(p *pkgInfo) *ast.BlockStmt {
			if fd := p.findFunc("filterSlice"); fd != nil {
				return fd.Body
			}
			return nil
		},
		params: [][2]string{{"v_n", "Z"}, {"v_from0", "Z"}, {"v_vto0", "Z"}, {"b_blank", "bool"}},
		opaque: map[string]string{
			"in.Len()":                           "v_n",
			"AsValue(comp[0]).Integer()":         "v_from0",
			"AsValue(comp[1]).Integer()":         "v_vto0",
			"strings.TrimSpace(comp[1]) == \"\"": "b_blank",
		},
		tracked: []skelVar{{"from", "Z"}, {"to", "Z"}, {"vto", "Z"}},
		stop:    "in.Slice(",
	}
	sb.WriteString(slice.gen(p))

	// ---- the for tag: what one iteration does to the loop information
	forFd := p.findMethod("tagForNode", "Execute")
	fields, init := compositeInit(p, forFd, "loopInfo", "tagForLoopInformation")
	var stParams [][2]string
	initial := map[string]string{}
	var initTuple []string
	for _, f := range fields {
		stParams = append(stParams, [2]string{galName(f) + "_in", f.kind})
		initial[f.key] = galName(f) + "_in"
		initTuple = append(initTuple, init[f.key])
	}
	forStep := &skeleton{
		name:    "go_for_step",
		comment: "tags_for.go tagForNode.Execute: the loop information after the bookkeeping of iteration idx of count, from the loop information before it (fields in declaration order)",
		block: func(p *pkgInfo) *ast.BlockStmt {
			return firstFuncLit(forFd, "idx", "count")
		},
		params:  append(stParams, [2]string{"v_idx", "Z"}, [2]string{"v_count", "Z"}),
		opaque:  map[string]string{"idx": "v_idx", "count": "v_count"},
		tracked: fields,
		initial: initial,
		stop:    "bodyWrapper.Execute(",
	}
	sb.WriteString(forStep.gen(p))
	var fieldNames []string
	for _, f := range fields {
		fieldNames = append(fieldNames, strings.TrimPrefix(f.key, "loopInfo."))
	}
	sb.WriteString("(* the loop information a for tag starts with (the composite literal in tagForNode.Execute);\n   fields: " + strings.Join(fieldNames, ", ") + " *)\n")
	sb.WriteString("Definition go_for_init := (" + strings.Join(initTuple, ", ") + ").\n")
	sb.WriteString("Definition go_for_fields : list (list N) := (" + coqStrList(fieldNames) + ")%N.\n\n")

	// ---- padding filters: how many blanks, on which side, and when the filter gives up
	fbody := func(fn string) func(p *pkgInfo) *ast.BlockStmt {
		return func(p *pkgInfo) *ast.BlockStmt {
			if fd := p.findFunc(fn); fd != nil {
				return fd.Body
			}
			return nil
		}
	}
	center := &skeleton{
		name:    "go_center",
		comment: "filters_builtin.go filterCenter: (returns the input unchanged?, refuses?, blanks on the left, blanks on the right) from the requested width and the length of the input",
		block:   fbody("filterCenter"),
		params:  [][2]string{{"v_width0", "Z"}, {"v_slen0", "Z"}},
		opaque:  map[string]string{"param.Integer()": "v_width0", "in.Len()": "v_slen0"},
		tracked: []skelVar{{"width", "Z"}, {"slen", "Z"}, {"spaces", "Z"}, {"left", "Z"}, {"right", "Z"}},
		stop:    "return AsValue(",
		guards:  true,
	}
	sb.WriteString(center.gen(p))
	ljust := &skeleton{
		name:    "go_ljust",
		comment: "filters_builtin.go filterLjust: (refuses?, blanks appended) from the requested width and the length of the input",
		block:   fbody("filterLjust"),
		params:  [][2]string{{"v_width0", "Z"}, {"v_slen0", "Z"}},
		opaque:  map[string]string{"param.Integer()": "v_width0", "in.Len()": "v_slen0"},
		tracked: []skelVar{{"times", "Z"}},
		stop:    "return AsValue(",
		guards:  true,
	}
	sb.WriteString(ljust.gen(p))
	rjust := &skeleton{
		name:    "go_rjust",
		comment: "filters_builtin.go filterRjust: (refuses?, field width handed to the formatter) from the requested width",
		block:   fbody("filterRjust"),
		params:  [][2]string{{"v_width0", "Z"}},
		opaque:  map[string]string{"param.Integer()": "v_width0"},
		tracked: []skelVar{{"padding", "Z"}},
		stop:    "return AsValue(",
		guards:  true,
	}
	sb.WriteString(rjust.gen(p))
	getdigit := &skeleton{
		name:    "go_get_digit",
		comment: "filters_builtin.go filterGetdigit: (no such position?, no digit there?, position, byte length, byte at the position) from the requested digit, the byte length of the input's text and the byte found",
		block:   fbody("filterGetdigit"),
		params:  [][2]string{{"v_i0", "Z"}, {"v_l0", "Z"}, {"v_c0", "Z"}},
		opaque:  map[string]string{"param.Integer()": "v_i0", "len(in.String())": "v_l0", "in.String()[l-i]": "v_c0"},
		tracked: []skelVar{{"i", "Z"}, {"l", "Z"}, {"c", "Z"}},
		stop:    "return AsValue(",
		guards:  true,
	}
	sb.WriteString(getdigit.gen(p))

	// ---- the macro depth guard
	guard := &skeleton{
		name:    "go_macro_refuses",
		comment: "tags_macro.go tagMacroNode.callGuarded: whether a call made when the context's macro depth is v_depth is refused",
		block: func(p *pkgInfo) *ast.BlockStmt {
			if fd := p.findMethod("tagMacroNode", "callGuarded"); fd != nil {
				return fd.Body
			}
			return nil
		},
		params:  [][2]string{{"v_depth", "Z"}},
		tracked: []skelVar{{"ctx.macroDepth", "Z"}},
		initial: map[string]string{"ctx.macroDepth": "v_depth"},
		resCond: "maxMacroDepth",
	}
	sb.WriteString(guard.gen(p))
	return sb.String()
}
