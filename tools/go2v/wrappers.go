package main

// E3: the entry-point wrappers of template.go (Execute, ExecuteBytes, ExecuteWriter,
// ExecuteWriterUnbuffered and what they are made of), translated statement by statement into
// terms of the small Go fragment of coq/Lib/GoStmt.v:
//
//	x, y := e      GSDefine ["x"; "y"] [e]        x, y = e        GSAssign ..
//	if init; c {A} else {B}   GSIf [init] c A B   return e1, e2   GSReturn [e1; e2]
//	f(x) as a statement       GSExpr
//	x  nil  "s"  e.f  e.m(a)  pkg.f(a)  &T{f: e}  []byte(e)  string(e)  e != nil  e == nil
//	make([]byte, 0, cap)      GEEmptyBytes (the capacity is a hint, not semantics)
//
// Anything else becomes GSUnknown/GEUnknown with its source text AND is reported as a problem:
// coq/Tie/C14w.v proves that the interpretation of these terms equals the specification of
// coq/Spec/SpecWriter.v, and nothing can be proved about a term that is not understood.
// Comments are not part of the syntax tree of a statement and are dropped.
//
// The same translator, with ext set, serves setfuncs.go (E4), which needs a second fragment:
//
//	v, ok := m[k]   GSDefine ["v"; "ok"] [GEIndexOk m k]      m[k] = v     GSMapStore m k v
//	obj.f = v       GSFieldStore obj "f" v                    delete(m, k) GSDelete m k
//	for k, v := range xs { B }   GSRange "k" "v" xs B         defer r.m(a) GSDefer (GEMethod r "m" a)
//	true false 0 1 ..   !a   a && b   a || b   a == b   a != b   len(e)   &e.f
//	make(map[K]V[, hint])        GEMakeMap (hint: a literal or len(field path), dropped)
//
// For the wrappers (ext unset) these stay GSUnknown/GEUnknown + problem, as before.
//
// loaderfuncs.go (E5) switches on a third fragment (ld) on top of the second:
//
//	e[i]                             GEIndex e i  (a panicking index, not the comma-ok form)
//	var a, b T                       GSVar ["a"; "b"] "T"  (no initialiser: the zero value of T)
//	for k, v = range xs { B }        GSRangeSet "k" "v" xs B  (assigns existing variables; a return
//	                                 inside B leaves the function, in both range forms)
//	func f() (a T, b U) { .. }       GSResults [("a", "T"); ("b", "U")] as the first statement of the body
//	return (no operands)             GSReturn [] - in a function with named results: their current values
//
// Named results together with defer stay a problem (a deferred call could change what is returned).
//
// tagfuncs.go (E6) switches on a fourth fragment (tg) on top of the third:
//
//	a + b   GEAdd a b        a > b   GEGt a b        (integers)
//
// The loop of the if tag, for i, condition := range node.conditions, is the GSRange of the second
// fragment: its key is the index.
//
// tagfuncs.go (E7, the tags that keep state) switches on a fifth fragment (st) on top of the fourth:
//
//	v, ok := e.(*T)   GSDefine ["v"; "ok"] [GETypeAssertOk e "T"]   (also with =)
//	append(s, x)      GEAppend s x          make([]T, 0[, hint])   GEEmptySlice "T" (T not byte; hint pure, dropped)
//	a % b             GERem a b             break                  GSBreak (no label)
//	x.f++             GSIncField x "f"

import (
	"fmt"
	"go/ast"
	"go/token"
	"strconv"
	"strings"
)

// the functions translated, by receiver type and name, in the order of emission
var wrapperFuncs = [][2]string{
	{"templateWriter", "WriteString"},
	{"templateWriter", "Write"},
	{"Template", "execute"},
	{"Template", "newTemplateWriterAndExecute"},
	{"Template", "newBufferAndExecute"},
	{"Template", "ExecuteWriter"},
	{"Template", "ExecuteWriterUnbuffered"},
	{"Template", "ExecuteBytes"},
	{"Template", "Execute"},
}

type wrapGen struct {
	p      *pkgInfo
	who    string          // the generator, for problem reports
	fn     string          // for problem reports
	pkgs   map[string]bool // names under which the file imports packages
	locals map[string]bool // receiver, parameters and every name declared in the body
	ext    bool            // the second fragment (setfuncs.go) is translated too; false for the wrappers
	ld     bool            // the third fragment (loaderfuncs.go) on top of the second
	tg     bool            // the fourth fragment (tagfuncs.go) on top of the third: integer + and >
	st     bool            // the fifth fragment (tagfuncs.go, the tags with state) on top of the fourth
}

func (g *wrapGen) src(n ast.Node) string {
	return strings.Join(strings.Fields(nodeString(g.p.fset, n)), " ")
}

func coqString(s string) string {
	return "\"" + strings.ReplaceAll(s, "\"", "\"\"") + "\""
}

func coqStringList(l []string) string {
	q := make([]string, len(l))
	for i, s := range l {
		q[i] = coqString(s)
	}
	return "[" + strings.Join(q, "; ") + "]"
}

func (g *wrapGen) unknownExpr(x ast.Expr, why string) string {
	s := g.src(x)
	problem("%s: %s: expression not understood (%s): %s", g.who, g.fn, why, s)
	return "(GEUnknown " + coqString(s) + ")"
}

func (g *wrapGen) unknownStmt(s ast.Stmt, why string) string {
	t := g.src(s)
	problem("%s: %s: statement not understood (%s): %s", g.who, g.fn, why, t)
	return "GSUnknown " + coqString(t)
}

func isNilIdent(x ast.Expr) bool {
	id, ok := x.(*ast.Ident)
	return ok && id.Name == "nil"
}

func isByteSlice(x ast.Expr) bool {
	at, ok := x.(*ast.ArrayType)
	if !ok || at.Len != nil {
		return false
	}
	id, ok := at.Elt.(*ast.Ident)
	return ok && id.Name == "byte"
}

func (g *wrapGen) exprs(l []ast.Expr) string {
	parts := make([]string, len(l))
	for i, x := range l {
		parts[i] = g.expr(x)
	}
	return "[" + strings.Join(parts, "; ") + "]"
}

// expr translates one expression; the result is parenthesised unless atomic.
func (g *wrapGen) expr(x ast.Expr) string {
	switch t := x.(type) {
	case *ast.ParenExpr:
		return g.expr(t.X)
	case *ast.Ident:
		switch t.Name {
		case "nil":
			return "GENil"
		case "true", "false":
			if g.ext && !g.locals[t.Name] {
				return "(GEBool " + t.Name + ")"
			}
			return g.unknownExpr(x, "identifier outside the fragment")
		case "iota", "_":
			return g.unknownExpr(x, "identifier outside the fragment")
		}
		if g.pkgs[t.Name] && !g.locals[t.Name] {
			return g.unknownExpr(x, "a package name used as a value")
		}
		return "(GEVar " + coqString(t.Name) + ")"
	case *ast.BasicLit:
		if t.Kind == token.STRING {
			if s, err := strconv.Unquote(t.Value); err == nil {
				return "(GEStr " + coqString(s) + ")"
			}
		}
		if g.ext && t.Kind == token.INT {
			// a non-negative decimal literal; anything else (hex, underscores, huge) stays outside
			if n, err := strconv.ParseUint(t.Value, 10, 31); err == nil && strconv.FormatUint(n, 10) == t.Value {
				return "(GEInt " + t.Value + ")"
			}
		}
		return g.unknownExpr(x, "literal")
	case *ast.SelectorExpr:
		if id, ok := t.X.(*ast.Ident); ok && g.pkgs[id.Name] && !g.locals[id.Name] {
			return g.unknownExpr(x, "package member used as a value")
		}
		return "(GEField " + g.expr(t.X) + " " + coqString(t.Sel.Name) + ")"
	case *ast.BinaryExpr:
		if t.Op == token.NEQ || t.Op == token.EQL {
			con := map[token.Token]string{token.NEQ: "GENotNil", token.EQL: "GEIsNil"}[t.Op]
			if isNilIdent(t.Y) && !isNilIdent(t.X) {
				return "(" + con + " " + g.expr(t.X) + ")"
			}
			if isNilIdent(t.X) && !isNilIdent(t.Y) {
				return "(" + con + " " + g.expr(t.Y) + ")"
			}
		}
		if g.ext && !isNilIdent(t.X) && !isNilIdent(t.Y) {
			if con, ok := map[token.Token]string{token.LAND: "GEAnd", token.LOR: "GEOr", token.EQL: "GEEq", token.NEQ: "GENe"}[t.Op]; ok {
				return "(" + con + " " + g.expr(t.X) + " " + g.expr(t.Y) + ")"
			}
		}
		if g.tg && !isNilIdent(t.X) && !isNilIdent(t.Y) {
			// fourth fragment: integer addition and the comparison >
			if con, ok := map[token.Token]string{token.ADD: "GEAdd", token.GTR: "GEGt"}[t.Op]; ok {
				return "(" + con + " " + g.expr(t.X) + " " + g.expr(t.Y) + ")"
			}
			if g.st && t.Op == token.REM {
				return "(GERem " + g.expr(t.X) + " " + g.expr(t.Y) + ")"
			}
		}
		return g.unknownExpr(x, "operator")
	case *ast.UnaryExpr:
		if g.ext && t.Op == token.NOT {
			return "(GENot " + g.expr(t.X) + ")"
		}
		if g.ext && t.Op == token.AND {
			// &e.f : the address of a field (of a variable, not a package member)
			if sel, ok := ast.Unparen(t.X).(*ast.SelectorExpr); ok {
				if id, isID := sel.X.(*ast.Ident); !(isID && g.pkgs[id.Name] && !g.locals[id.Name]) {
					return "(GEAddr " + g.expr(sel) + ")"
				}
			}
		}
		if t.Op == token.AND {
			if cl, ok := t.X.(*ast.CompositeLit); ok {
				if ty, ok := cl.Type.(*ast.Ident); ok {
					var fs []string
					for _, el := range cl.Elts {
						kv, ok := el.(*ast.KeyValueExpr)
						if !ok {
							return g.unknownExpr(x, "struct literal without field names")
						}
						k, ok := kv.Key.(*ast.Ident)
						if !ok {
							return g.unknownExpr(x, "struct literal key")
						}
						fs = append(fs, "("+coqString(k.Name)+", "+g.expr(kv.Value)+")")
					}
					return "(GEAddrStruct " + coqString(ty.Name) + " [" + strings.Join(fs, "; ") + "])"
				}
			}
		}
		return g.unknownExpr(x, "operator")
	case *ast.IndexExpr:
		if g.ld {
			return "(GEIndex " + g.expr(t.X) + " " + g.expr(t.Index) + ")"
		}
		return g.unknownExpr(x, fmt.Sprintf("%T", x))
	case *ast.CallExpr:
		if t.Ellipsis != token.NoPos {
			return g.unknownExpr(x, "variadic call")
		}
		switch f := t.Fun.(type) {
		case *ast.SelectorExpr:
			if id, ok := f.X.(*ast.Ident); ok && g.pkgs[id.Name] && !g.locals[id.Name] {
				return "(GECall " + coqString(id.Name) + " " + coqString(f.Sel.Name) + " " + g.exprs(t.Args) + ")"
			}
			return "(GEMethod " + g.expr(f.X) + " " + coqString(f.Sel.Name) + " " + g.exprs(t.Args) + ")"
		case *ast.ArrayType:
			if isByteSlice(f) && len(t.Args) == 1 {
				return "(GEConv \"[]byte\" " + g.expr(t.Args[0]) + ")"
			}
			return g.unknownExpr(x, "conversion")
		case *ast.Ident:
			if g.locals[f.Name] {
				return g.unknownExpr(x, "call of a local function value")
			}
			switch f.Name {
			case "string":
				if len(t.Args) == 1 {
					return "(GEConv \"string\" " + g.expr(t.Args[0]) + ")"
				}
			case "make":
				// make([]byte, 0) and make([]byte, 0, capacity): an empty slice; the capacity is dropped
				if (len(t.Args) == 2 || len(t.Args) == 3) && isByteSlice(t.Args[0]) {
					if bl, ok := t.Args[1].(*ast.BasicLit); ok && bl.Kind == token.INT && bl.Value == "0" {
						return "GEEmptyBytes"
					}
				}
				// make(map[K]V) and make(map[K]V, hint): a fresh empty map; the hint is dropped, so it
				// must be an expression whose evaluation does nothing (a literal, len of a field path)
				if g.ext && (len(t.Args) == 1 || len(t.Args) == 2) {
					if _, ok := t.Args[0].(*ast.MapType); ok && (len(t.Args) == 1 || pureHint(t.Args[1])) {
						return "GEMakeMap"
					}
				}
				// fifth fragment: make([]T, 0) and make([]T, 0, hint): an empty slice of T; the hint is dropped
				if g.st && (len(t.Args) == 2 || (len(t.Args) == 3 && pureHint(t.Args[2]))) {
					if at, ok := t.Args[0].(*ast.ArrayType); ok && at.Len == nil && !isByteSlice(at) {
						if bl, ok := t.Args[1].(*ast.BasicLit); ok && bl.Kind == token.INT && bl.Value == "0" {
							return "(GEEmptySlice " + coqString(g.src(at.Elt)) + ")"
						}
					}
				}
				return g.unknownExpr(x, "make")
			case "append":
				if g.st && len(t.Args) == 2 {
					return "(GEAppend " + g.expr(t.Args[0]) + " " + g.expr(t.Args[1]) + ")"
				}
				return g.unknownExpr(x, "builtin")
			case "len":
				if g.ext && len(t.Args) == 1 {
					return "(GELen " + g.expr(t.Args[0]) + ")"
				}
				return g.unknownExpr(x, "builtin")
			case "new", "cap", "copy", "panic", "recover", "delete", "print", "println":
				return g.unknownExpr(x, "builtin")
			}
			return "(GECall \"\" " + coqString(f.Name) + " " + g.exprs(t.Args) + ")"
		}
		return g.unknownExpr(x, "call")
	}
	return g.unknownExpr(x, fmt.Sprintf("%T", x))
}

// pureHint: an integer literal, or len(p) for a path p of field selections from a variable.
func pureHint(x ast.Expr) bool {
	switch t := ast.Unparen(x).(type) {
	case *ast.BasicLit:
		return t.Kind == token.INT
	case *ast.CallExpr:
		if id, ok := t.Fun.(*ast.Ident); ok && id.Name == "len" && len(t.Args) == 1 && t.Ellipsis == token.NoPos {
			p := ast.Unparen(t.Args[0])
			for {
				sel, ok := p.(*ast.SelectorExpr)
				if !ok {
					break
				}
				p = ast.Unparen(sel.X)
			}
			_, ok := p.(*ast.Ident)
			return ok
		}
	}
	return false
}

func (g *wrapGen) lhsNames(l []ast.Expr) ([]string, bool) {
	var out []string
	for _, x := range l {
		id, ok := x.(*ast.Ident)
		if !ok {
			return nil, false
		}
		out = append(out, id.Name)
	}
	return out, true
}

func (g *wrapGen) block(l []ast.Stmt, indent string) string {
	if len(l) == 0 {
		return "[]"
	}
	parts := make([]string, len(l))
	for i, s := range l {
		parts[i] = g.stmt(s, indent+"  ")
	}
	return "[ " + strings.Join(parts, ";\n"+indent+"  ") + " ]"
}

func (g *wrapGen) stmt(s ast.Stmt, indent string) string {
	switch t := s.(type) {
	case *ast.AssignStmt:
		if g.ext && t.Tok == token.ASSIGN && len(t.Lhs) == 1 && len(t.Rhs) == 1 {
			switch l := ast.Unparen(t.Lhs[0]).(type) {
			case *ast.IndexExpr: // m[k] = v
				return "GSMapStore " + g.expr(l.X) + " " + g.expr(l.Index) + " " + g.expr(t.Rhs[0])
			case *ast.SelectorExpr: // obj.f = v
				if id, isID := l.X.(*ast.Ident); !(isID && g.pkgs[id.Name] && !g.locals[id.Name]) {
					return "GSFieldStore " + g.expr(l.X) + " " + coqString(l.Sel.Name) + " " + g.expr(t.Rhs[0])
				}
			}
		}
		names, ok := g.lhsNames(t.Lhs)
		if !ok {
			return g.unknownStmt(s, "assignment to something that is not a variable")
		}
		if g.ext && len(t.Lhs) == 2 && len(t.Rhs) == 1 && (t.Tok == token.DEFINE || t.Tok == token.ASSIGN) {
			if ta, ok := ast.Unparen(t.Rhs[0]).(*ast.TypeAssertExpr); ok && g.st && ta.Type != nil { // v, ok := e.(*T)
				if star, ok := ta.Type.(*ast.StarExpr); ok {
					if id, ok := star.X.(*ast.Ident); ok {
						con := map[token.Token]string{token.DEFINE: "GSDefine", token.ASSIGN: "GSAssign"}[t.Tok]
						return con + " " + coqStringList(names) + " [(GETypeAssertOk " + g.expr(ta.X) + " " + coqString(id.Name) + ")]"
					}
				}
			}
			if ix, ok := ast.Unparen(t.Rhs[0]).(*ast.IndexExpr); ok { // v, ok := m[k]
				con := map[token.Token]string{token.DEFINE: "GSDefine", token.ASSIGN: "GSAssign"}[t.Tok]
				return con + " " + coqStringList(names) + " [(GEIndexOk " + g.expr(ix.X) + " " + g.expr(ix.Index) + ")]"
			}
		}
		if len(t.Rhs) != 1 && len(t.Rhs) != len(t.Lhs) {
			return g.unknownStmt(s, "assignment count")
		}
		switch t.Tok {
		case token.DEFINE:
			return "GSDefine " + coqStringList(names) + " " + g.exprs(t.Rhs)
		case token.ASSIGN:
			return "GSAssign " + coqStringList(names) + " " + g.exprs(t.Rhs)
		}
		return g.unknownStmt(s, "assignment operator")
	case *ast.IfStmt:
		init := "[]"
		if t.Init != nil {
			init = "[ " + g.stmt(t.Init, indent+"    ") + " ]"
		}
		els := "[]"
		switch e := t.Else.(type) {
		case nil:
		case *ast.BlockStmt:
			els = g.block(e.List, indent+"    ")
		case *ast.IfStmt:
			els = "[ " + g.stmt(e, indent+"      ") + " ]"
		default:
			els = "[ " + g.unknownStmt(e, "else branch") + " ]"
		}
		return "GSIf " + init + " " + g.expr(t.Cond) + "\n" +
			indent + "    " + g.block(t.Body.List, indent+"    ") + "\n" +
			indent + "    " + els
	case *ast.ReturnStmt:
		return "GSReturn " + g.exprs(t.Results)
	case *ast.ExprStmt:
		if ce, ok := t.X.(*ast.CallExpr); ok {
			if id, isID := ce.Fun.(*ast.Ident); g.ext && isID && id.Name == "delete" && !g.locals["delete"] &&
				len(ce.Args) == 2 && ce.Ellipsis == token.NoPos {
				return "GSDelete " + g.expr(ce.Args[0]) + " " + g.expr(ce.Args[1])
			}
			return "GSExpr " + g.expr(t.X)
		}
		return g.unknownStmt(s, "expression statement that is not a call")
	case *ast.BranchStmt:
		if g.st && t.Tok == token.BREAK && t.Label == nil {
			return "GSBreak"
		}
	case *ast.IncDecStmt:
		if g.st && t.Tok == token.INC {
			if sel, ok := ast.Unparen(t.X).(*ast.SelectorExpr); ok {
				if id, isID := sel.X.(*ast.Ident); !(isID && g.pkgs[id.Name] && !g.locals[id.Name]) {
					return "GSIncField " + g.expr(sel.X) + " " + coqString(sel.Sel.Name)
				}
			}
		}
	case *ast.DeclStmt:
		if !g.ld {
			break
		}
		// var a, b T   (one specification, a type, no initialiser)
		if gd, ok := t.Decl.(*ast.GenDecl); ok && gd.Tok == token.VAR && len(gd.Specs) == 1 {
			if vs, ok := gd.Specs[0].(*ast.ValueSpec); ok && vs.Type != nil && len(vs.Values) == 0 {
				var names []string
				for _, id := range vs.Names {
					names = append(names, id.Name)
				}
				return "GSVar " + coqStringList(names) + " " + coqString(g.src(vs.Type))
			}
		}
		return g.unknownStmt(s, "declaration other than var names T")
	case *ast.DeferStmt:
		if !g.ext {
			break
		}
		// defer recv.m(args): a method call (not a package function, not a function literal)
		if sel, ok := t.Call.Fun.(*ast.SelectorExpr); ok && t.Call.Ellipsis == token.NoPos {
			if id, isID := sel.X.(*ast.Ident); !(isID && g.pkgs[id.Name] && !g.locals[id.Name]) {
				return "GSDefer " + g.expr(t.Call)
			}
		}
		return g.unknownStmt(s, "defer of something that is not a method call")
	case *ast.RangeStmt:
		if !g.ext {
			break
		}
		// for k, v := range coll { body }; break/continue/goto in the body are not in the fragment
		// (they become GSUnknown there)
		con := "GSRange"
		if t.Tok != token.DEFINE && !(t.Key == nil && t.Value == nil) {
			if !(g.ld && t.Tok == token.ASSIGN) {
				return g.unknownStmt(s, "range that assigns to existing variables")
			}
			con = "GSRangeSet"
		}
		names := []string{"_", "_"}
		for i, e := range []ast.Expr{t.Key, t.Value} {
			if e == nil {
				continue
			}
			id, ok := e.(*ast.Ident)
			if !ok {
				return g.unknownStmt(s, "range variable")
			}
			names[i] = id.Name
		}
		return con + " " + coqString(names[0]) + " " + coqString(names[1]) + " " + g.expr(t.X) + "\n" +
			indent + "    " + g.block(t.Body.List, indent+"    ")
	}
	return g.unknownStmt(s, fmt.Sprintf("%T", s))
}

func fieldNames(fl *ast.FieldList) []string {
	var out []string
	if fl == nil {
		return out
	}
	for _, f := range fl.List {
		if len(f.Names) == 0 {
			out = append(out, "_")
			continue
		}
		for _, n := range f.Names {
			out = append(out, n.Name)
		}
	}
	return out
}

func (p *pkgInfo) fileOf(fd *ast.FuncDecl) *ast.File {
	for _, f := range p.sortedFiles() {
		for _, d := range f.Decls {
			if d == ast.Decl(fd) {
				return f
			}
		}
	}
	return nil
}

func importNames(f *ast.File) map[string]bool {
	out := map[string]bool{}
	if f == nil {
		return out
	}
	for _, im := range f.Imports {
		if im.Name != nil {
			if im.Name.Name != "_" && im.Name.Name != "." {
				out[im.Name.Name] = true
			}
			continue
		}
		path, err := strconv.Unquote(im.Path.Value)
		if err != nil {
			continue
		}
		out[path[strings.LastIndex(path, "/")+1:]] = true
	}
	return out
}

func wrapperIdent(recv, name string) string {
	if recv == "Template" {
		return "go_" + name
	}
	return "go_" + recv + "_" + name
}

func (p *pkgInfo) genWrapper(recv, name string) (string, bool) {
	return p.genFunc("wrappers", recv, name, wrapperIdent(recv, name), false)
}

// genFunc translates method recv.name into a Coq definition `ident`; ext selects the second fragment.
func (p *pkgInfo) genFunc(who, recv, name, ident string, ext bool) (string, bool) {
	return p.genFuncFrag(who, recv, name, ident, ext, false)
}

// genFuncFrag: ld selects the third fragment (on top of the second).
func (p *pkgInfo) genFuncFrag(who, recv, name, ident string, ext, ld bool) (string, bool) {
	return p.genFuncFrag4(who, recv, name, ident, ext, ld, false)
}

// genFuncFrag4: tg selects the fourth fragment (on top of the third).
func (p *pkgInfo) genFuncFrag4(who, recv, name, ident string, ext, ld, tg bool) (string, bool) {
	return p.genFuncFrag5(who, recv, name, ident, ext, ld, tg, false)
}

// genFuncFrag5: st selects the fifth fragment (on top of the fourth).
func (p *pkgInfo) genFuncFrag5(who, recv, name, ident string, ext, ld, tg, st bool) (string, bool) {
	fd := p.findMethod(recv, name)
	if fd == nil || fd.Body == nil {
		problem("%s: method %s.%s not found", who, recv, name)
		return fmt.Sprintf("(* %s.%s: NOT FOUND in the source *)\n\n", recv, name), false
	}
	g := &wrapGen{p: p, who: who, fn: recv + "." + name, pkgs: importNames(p.fileOf(fd)), locals: map[string]bool{}, ext: ext, ld: ld, tg: tg, st: st}
	recvName := "_"
	if len(fd.Recv.List[0].Names) > 0 {
		recvName = fd.Recv.List[0].Names[0].Name
	}
	params := fieldNames(fd.Type.Params)
	g.locals[recvName] = true
	for _, n := range params {
		g.locals[n] = true
	}
	if fd.Type.Params != nil {
		for _, f := range fd.Type.Params.List {
			// in the second fragment a variadic parameter is the slice it is inside the function
			if _, ok := f.Type.(*ast.Ellipsis); ok && !ext {
				problem("wrappers: %s: variadic parameter", g.fn)
			}
		}
	}
	results := fieldNames(fd.Type.Results)
	named := ""
	if ld && fd.Type.Results != nil && len(results) > 0 && len(fd.Type.Results.List[0].Names) > 0 {
		// third fragment: the named results are variables of the function's scope, declared with
		// their zero values by a first statement GSResults; a bare return returns their values
		var decls []string
		for _, f := range fd.Type.Results.List {
			for _, n := range f.Names {
				decls = append(decls, "("+coqString(n.Name)+", "+coqString(g.src(f.Type))+")")
				g.locals[n.Name] = true
			}
		}
		named = "GSResults [" + strings.Join(decls, "; ") + "]"
		ast.Inspect(fd.Body, func(n ast.Node) bool {
			switch n.(type) {
			case *ast.DeferStmt:
				problem("%s: %s: named results together with defer", who, g.fn)
			case *ast.FuncLit:
				return false
			}
			return true
		})
	} else {
		for _, n := range results {
			if n != "_" {
				// named results can be assigned and returned by a bare return: not in the fragment
				problem("%s: %s: named result %s", who, g.fn, n)
			}
		}
	}
	ast.Inspect(fd.Body, func(n ast.Node) bool {
		switch t := n.(type) {
		case *ast.AssignStmt:
			if t.Tok == token.DEFINE {
				for _, l := range t.Lhs {
					if id, ok := l.(*ast.Ident); ok {
						g.locals[id.Name] = true
					}
				}
			}
		case *ast.ValueSpec:
			for _, id := range t.Names {
				g.locals[id.Name] = true
			}
		case *ast.RangeStmt:
			if t.Tok == token.DEFINE {
				for _, e := range []ast.Expr{t.Key, t.Value} {
					if id, ok := e.(*ast.Ident); ok {
						g.locals[id.Name] = true
					}
				}
			}
		case *ast.FuncLit:
			return false
		}
		return true
	})
	delete(g.locals, "_")

	sigFd := *fd
	sigFd.Body = nil
	sigFd.Doc = nil
	var sb strings.Builder
	sb.WriteString("(* " + noComment(strings.Join(strings.Fields(nodeString(p.fset, &sigFd)), " ")) + " *)\n")
	sb.WriteString("Definition " + ident + " : gfunc :=\n")
	sb.WriteString(fmt.Sprintf("  mkGF (Some (%s, %s)) %s %s %d\n", coqString(recvName), coqString(recv), coqString(name),
		coqStringList(params), len(results)))
	body := g.block(fd.Body.List, "  ")
	if named != "" {
		if len(fd.Body.List) == 0 {
			body = "[ " + named + " ]"
		} else {
			body = "[ " + named + ";\n    " + strings.TrimPrefix(body, "[ ")
		}
	}
	sb.WriteString("  " + body + ".\n\n")
	return sb.String(), true
}

func genWrappers(p *pkgInfo) string {
	var sb strings.Builder
	sb.WriteString("(* GENERATED by tools/go2v from /repo on every run. Do not edit.\n")
	sb.WriteString("   E3: the entry-point wrappers of template.go, translated statement by statement\n")
	sb.WriteString("   (tools/go2v/wrappers.go) into the Go fragment of Lib/GoStmt.v. Their meaning is in\n")
	sb.WriteString("   Spec/SpecWrappers.v; that it equals the specification of Spec/SpecWriter.v is proved in\n")
	sb.WriteString("   Tie/C14w.v. *)\n")
	sb.WriteString("From PV Require Import Lib.GoStmt.\n")
	sb.WriteString("Open Scope string_scope.\n\n")
	var idents []string
	for _, w := range wrapperFuncs {
		s, ok := p.genWrapper(w[0], w[1])
		sb.WriteString(s)
		if ok {
			idents = append(idents, wrapperIdent(w[0], w[1]))
		}
	}
	sb.WriteString("(* the program: every function above *)\n")
	sb.WriteString("Definition go_wrappers : list gfunc :=\n  [" + strings.Join(idents, ";\n   ") + "].\n")
	return sb.String()
}
