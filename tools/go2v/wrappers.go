package main

// E3: the entry-point wrappers of template.go (Execute, ExecuteBytes, ExecuteWriter,
// ExecuteWriterUnbuffered and what they are made of), translated statement by statement into
// terms of the small Go fragment of coq/Lib/GoStmt.v:
//
//	x, y := e      GSDefine ["x"; "y"] [e]        x, y = e        GSAssign ..
//	if init; c {A} else {B}   GSIf [init] c A B   return e1, e2   GSReturn [e1; e2]
//	f(x) as a statement       GSExpr
//	x  nil  "s"  e.f  e.m(a)  pkg.f(a)  &T{f: e}  []byte(e)  string(e)  e != nil  e == nil
//	make([]byte, 0, cap)      GEEmptyBytes (the capacity is a hint, not semantics)
//
// Anything else becomes GSUnknown/GEUnknown with its source text AND is reported as a problem:
// coq/Tie/C14w.v proves that the interpretation of these terms equals the specification of
// coq/Spec/SpecWriter.v, and nothing can be proved about a term that is not understood.
// Comments are not part of the syntax tree of a statement and are dropped.

import (
	"fmt"
	"go/ast"
	"go/token"
	"strconv"
	"strings"
)

// the functions translated, by receiver type and name, in the order of emission
var wrapperFuncs = [][2]string{
	{"templateWriter", "WriteString"},
	{"templateWriter", "Write"},
	{"Template", "execute"},
	{"Template", "newTemplateWriterAndExecute"},
	{"Template", "newBufferAndExecute"},
	{"Template", "ExecuteWriter"},
	{"Template", "ExecuteWriterUnbuffered"},
	{"Template", "ExecuteBytes"},
	{"Template", "Execute"},
}

type wrapGen struct {
	p      *pkgInfo
	fn     string          // for problem reports
	pkgs   map[string]bool // names under which the file imports packages
	locals map[string]bool // receiver, parameters and every name declared in the body
}

func (g *wrapGen) src(n ast.Node) string {
	return strings.Join(strings.Fields(nodeString(g.p.fset, n)), " ")
}

func coqString(s string) string {
	return "\"" + strings.ReplaceAll(s, "\"", "\"\"") + "\""
}

func coqStringList(l []string) string {
	q := make([]string, len(l))
	for i, s := range l {
		q[i] = coqString(s)
	}
	return "[" + strings.Join(q, "; ") + "]"
}

func (g *wrapGen) unknownExpr(x ast.Expr, why string) string {
	s := g.src(x)
	problem("wrappers: %s: expression not understood (%s): %s", g.fn, why, s)
	return "(GEUnknown " + coqString(s) + ")"
}

func (g *wrapGen) unknownStmt(s ast.Stmt, why string) string {
	t := g.src(s)
	problem("wrappers: %s: statement not understood (%s): %s", g.fn, why, t)
	return "GSUnknown " + coqString(t)
}

func isNilIdent(x ast.Expr) bool {
	id, ok := x.(*ast.Ident)
	return ok && id.Name == "nil"
}

func isByteSlice(x ast.Expr) bool {
	at, ok := x.(*ast.ArrayType)
	if !ok || at.Len != nil {
		return false
	}
	id, ok := at.Elt.(*ast.Ident)
	return ok && id.Name == "byte"
}

func (g *wrapGen) exprs(l []ast.Expr) string {
	parts := make([]string, len(l))
	for i, x := range l {
		parts[i] = g.expr(x)
	}
	return "[" + strings.Join(parts, "; ") + "]"
}

// expr translates one expression; the result is parenthesised unless atomic.
func (g *wrapGen) expr(x ast.Expr) string {
	switch t := x.(type) {
	case *ast.ParenExpr:
		return g.expr(t.X)
	case *ast.Ident:
		switch t.Name {
		case "nil":
			return "GENil"
		case "true", "false", "iota", "_":
			return g.unknownExpr(x, "identifier outside the fragment")
		}
		if g.pkgs[t.Name] && !g.locals[t.Name] {
			return g.unknownExpr(x, "a package name used as a value")
		}
		return "(GEVar " + coqString(t.Name) + ")"
	case *ast.BasicLit:
		if t.Kind == token.STRING {
			if s, err := strconv.Unquote(t.Value); err == nil {
				return "(GEStr " + coqString(s) + ")"
			}
		}
		return g.unknownExpr(x, "literal")
	case *ast.SelectorExpr:
		if id, ok := t.X.(*ast.Ident); ok && g.pkgs[id.Name] && !g.locals[id.Name] {
			return g.unknownExpr(x, "package member used as a value")
		}
		return "(GEField " + g.expr(t.X) + " " + coqString(t.Sel.Name) + ")"
	case *ast.BinaryExpr:
		if t.Op == token.NEQ || t.Op == token.EQL {
			con := map[token.Token]string{token.NEQ: "GENotNil", token.EQL: "GEIsNil"}[t.Op]
			if isNilIdent(t.Y) && !isNilIdent(t.X) {
				return "(" + con + " " + g.expr(t.X) + ")"
			}
			if isNilIdent(t.X) && !isNilIdent(t.Y) {
				return "(" + con + " " + g.expr(t.Y) + ")"
			}
		}
		return g.unknownExpr(x, "operator")
	case *ast.UnaryExpr:
		if t.Op == token.AND {
			if cl, ok := t.X.(*ast.CompositeLit); ok {
				if ty, ok := cl.Type.(*ast.Ident); ok {
					var fs []string
					for _, el := range cl.Elts {
						kv, ok := el.(*ast.KeyValueExpr)
						if !ok {
							return g.unknownExpr(x, "struct literal without field names")
						}
						k, ok := kv.Key.(*ast.Ident)
						if !ok {
							return g.unknownExpr(x, "struct literal key")
						}
						fs = append(fs, "("+coqString(k.Name)+", "+g.expr(kv.Value)+")")
					}
					return "(GEAddrStruct " + coqString(ty.Name) + " [" + strings.Join(fs, "; ") + "])"
				}
			}
		}
		return g.unknownExpr(x, "operator")
	case *ast.CallExpr:
		if t.Ellipsis != token.NoPos {
			return g.unknownExpr(x, "variadic call")
		}
		switch f := t.Fun.(type) {
		case *ast.SelectorExpr:
			if id, ok := f.X.(*ast.Ident); ok && g.pkgs[id.Name] && !g.locals[id.Name] {
				return "(GECall " + coqString(id.Name) + " " + coqString(f.Sel.Name) + " " + g.exprs(t.Args) + ")"
			}
			return "(GEMethod " + g.expr(f.X) + " " + coqString(f.Sel.Name) + " " + g.exprs(t.Args) + ")"
		case *ast.ArrayType:
			if isByteSlice(f) && len(t.Args) == 1 {
				return "(GEConv \"[]byte\" " + g.expr(t.Args[0]) + ")"
			}
			return g.unknownExpr(x, "conversion")
		case *ast.Ident:
			if g.locals[f.Name] {
				return g.unknownExpr(x, "call of a local function value")
			}
			switch f.Name {
			case "string":
				if len(t.Args) == 1 {
					return "(GEConv \"string\" " + g.expr(t.Args[0]) + ")"
				}
			case "make":
				// make([]byte, 0) and make([]byte, 0, capacity): an empty slice; the capacity is dropped
				if (len(t.Args) == 2 || len(t.Args) == 3) && isByteSlice(t.Args[0]) {
					if bl, ok := t.Args[1].(*ast.BasicLit); ok && bl.Kind == token.INT && bl.Value == "0" {
						return "GEEmptyBytes"
					}
				}
				return g.unknownExpr(x, "make")
			case "new", "append", "len", "cap", "copy", "panic", "recover", "delete", "print", "println":
				return g.unknownExpr(x, "builtin")
			}
			return "(GECall \"\" " + coqString(f.Name) + " " + g.exprs(t.Args) + ")"
		}
		return g.unknownExpr(x, "call")
	}
	return g.unknownExpr(x, fmt.Sprintf("%T", x))
}

func (g *wrapGen) lhsNames(l []ast.Expr) ([]string, bool) {
	var out []string
	for _, x := range l {
		id, ok := x.(*ast.Ident)
		if !ok {
			return nil, false
		}
		out = append(out, id.Name)
	}
	return out, true
}

func (g *wrapGen) block(l []ast.Stmt, indent string) string {
	if len(l) == 0 {
		return "[]"
	}
	parts := make([]string, len(l))
	for i, s := range l {
		parts[i] = g.stmt(s, indent+"  ")
	}
	return "[ " + strings.Join(parts, ";\n"+indent+"  ") + " ]"
}

func (g *wrapGen) stmt(s ast.Stmt, indent string) string {
	switch t := s.(type) {
	case *ast.AssignStmt:
		names, ok := g.lhsNames(t.Lhs)
		if !ok {
			return g.unknownStmt(s, "assignment to something that is not a variable")
		}
		if len(t.Rhs) != 1 && len(t.Rhs) != len(t.Lhs) {
			return g.unknownStmt(s, "assignment count")
		}
		switch t.Tok {
		case token.DEFINE:
			return "GSDefine " + coqStringList(names) + " " + g.exprs(t.Rhs)
		case token.ASSIGN:
			return "GSAssign " + coqStringList(names) + " " + g.exprs(t.Rhs)
		}
		return g.unknownStmt(s, "assignment operator")
	case *ast.IfStmt:
		init := "[]"
		if t.Init != nil {
			init = "[ " + g.stmt(t.Init, indent+"    ") + " ]"
		}
		els := "[]"
		switch e := t.Else.(type) {
		case nil:
		case *ast.BlockStmt:
			els = g.block(e.List, indent+"    ")
		case *ast.IfStmt:
			els = "[ " + g.stmt(e, indent+"      ") + " ]"
		default:
			els = "[ " + g.unknownStmt(e, "else branch") + " ]"
		}
		return "GSIf " + init + " " + g.expr(t.Cond) + "\n" +
			indent + "    " + g.block(t.Body.List, indent+"    ") + "\n" +
			indent + "    " + els
	case *ast.ReturnStmt:
		return "GSReturn " + g.exprs(t.Results)
	case *ast.ExprStmt:
		if _, ok := t.X.(*ast.CallExpr); ok {
			return "GSExpr " + g.expr(t.X)
		}
		return g.unknownStmt(s, "expression statement that is not a call")
	}
	return g.unknownStmt(s, fmt.Sprintf("%T", s))
}

func fieldNames(fl *ast.FieldList) []string {
	var out []string
	if fl == nil {
		return out
	}
	for _, f := range fl.List {
		if len(f.Names) == 0 {
			out = append(out, "_")
			continue
		}
		for _, n := range f.Names {
			out = append(out, n.Name)
		}
	}
	return out
}

func (p *pkgInfo) fileOf(fd *ast.FuncDecl) *ast.File {
	for _, f := range p.sortedFiles() {
		for _, d := range f.Decls {
			if d == ast.Decl(fd) {
				return f
			}
		}
	}
	return nil
}

func importNames(f *ast.File) map[string]bool {
	out := map[string]bool{}
	if f == nil {
		return out
	}
	for _, im := range f.Imports {
		if im.Name != nil {
			if im.Name.Name != "_" && im.Name.Name != "." {
				out[im.Name.Name] = true
			}
			continue
		}
		path, err := strconv.Unquote(im.Path.Value)
		if err != nil {
			continue
		}
		out[path[strings.LastIndex(path, "/")+1:]] = true
	}
	return out
}

func wrapperIdent(recv, name string) string {
	if recv == "Template" {
		return "go_" + name
	}
	return "go_" + recv + "_" + name
}

func (p *pkgInfo) genWrapper(recv, name string) (string, bool) {
	fd := p.findMethod(recv, name)
	ident := wrapperIdent(recv, name)
	if fd == nil || fd.Body == nil {
		problem("wrappers: method %s.%s not found", recv, name)
		return fmt.Sprintf("(* %s.%s: NOT FOUND in the source *)\n\n", recv, name), false
	}
	g := &wrapGen{p: p, fn: recv + "." + name, pkgs: importNames(p.fileOf(fd)), locals: map[string]bool{}}
	recvName := "_"
	if len(fd.Recv.List[0].Names) > 0 {
		recvName = fd.Recv.List[0].Names[0].Name
	}
	params := fieldNames(fd.Type.Params)
	g.locals[recvName] = true
	for _, n := range params {
		g.locals[n] = true
	}
	if fd.Type.Params != nil {
		for _, f := range fd.Type.Params.List {
			if _, ok := f.Type.(*ast.Ellipsis); ok {
				problem("wrappers: %s: variadic parameter", g.fn)
			}
		}
	}
	results := fieldNames(fd.Type.Results)
	for _, n := range results {
		if n != "_" {
			// named results can be assigned and returned by a bare return: not in the fragment
			problem("wrappers: %s: named result %s", g.fn, n)
		}
	}
	ast.Inspect(fd.Body, func(n ast.Node) bool {
		switch t := n.(type) {
		case *ast.AssignStmt:
			if t.Tok == token.DEFINE {
				for _, l := range t.Lhs {
					if id, ok := l.(*ast.Ident); ok {
						g.locals[id.Name] = true
					}
				}
			}
		case *ast.ValueSpec:
			for _, id := range t.Names {
				g.locals[id.Name] = true
			}
		case *ast.FuncLit:
			return false
		}
		return true
	})
	delete(g.locals, "_")

	sigFd := *fd
	sigFd.Body = nil
	sigFd.Doc = nil
	var sb strings.Builder
	sb.WriteString("(* " + noComment(strings.Join(strings.Fields(nodeString(p.fset, &sigFd)), " ")) + " *)\n")
	sb.WriteString("Definition " + ident + " : gfunc :=\n")
	sb.WriteString(fmt.Sprintf("  mkGF (Some (%s, %s)) %s %s %d\n", coqString(recvName), coqString(recv), coqString(name),
		coqStringList(params), len(results)))
	sb.WriteString("  " + g.block(fd.Body.List, "  ") + ".\n\n")
	return sb.String(), true
}

func genWrappers(p *pkgInfo) string {
	var sb strings.Builder
	sb.WriteString("(* GENERATED by tools/go2v from /repo on every run. Do not edit.\n")
	sb.WriteString("   E3: the entry-point wrappers of template.go, translated statement by statement\n")
	sb.WriteString("   (tools/go2v/wrappers.go) into the Go fragment of Lib/GoStmt.v. Their meaning is in\n")
	sb.WriteString("   Spec/SpecWrappers.v; that it equals the specification of Spec/SpecWriter.v is proved in\n")
	sb.WriteString("   Tie/C14w.v. *)\n")
	sb.WriteString("From PV Require Import Lib.GoStmt.\n")
	sb.WriteString("Open Scope string_scope.\n\n")
	var idents []string
	for _, w := range wrapperFuncs {
		s, ok := p.genWrapper(w[0], w[1])
		sb.WriteString(s)
		if ok {
			idents = append(idents, wrapperIdent(w[0], w[1]))
		}
	}
	sb.WriteString("(* the program: every function above *)\n")
	sb.WriteString("Definition go_wrappers : list gfunc :=\n  [" + strings.Join(idents, ";\n   ") + "].\n")
	return sb.String()
}
