#!/bin/bash
# usage: seed_run.sh <PROP> <seeded dir name> [tier]
# Applies the seeded change to /repo, runs the property's check, and undoes it straight afterwards.
set -u
PROP=$1; D=/verif/seeded/$2; TIER=${3:-quick}
cd /repo && git apply $D/patch.diff || { echo "patch does not apply"; exit 2; }
cd /verif && ./check $PROP $TIER > /tmp/seedrun.$$ 2>&1; rc=$?
cd /repo && git checkout -- . 
grep -E "^(VIOLATION|OK|KNOWN)" /tmp/seedrun.$$ | cut -c1-220
echo "exit=$rc"
rm -f /tmp/seedrun.$$
