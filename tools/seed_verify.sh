#!/bin/bash
# usage: seed_verify.sh <PROP> <demo_dir (with patch.diff, demo_test.go, meta.json)> <name>
# Confirms, in a scratch worktree of /repo outside /repo and /verif, that the change
# (a) compiles and passes the unedited suite, (b) makes the demonstration fail, while
# (c) the demonstration passes without it. On success copies it to /verif/seeded/<PROP>-<name>/.
set -u
PROP=$1; DIR=$2; NAME=$3
export GOFLAGS=-mod=mod GOPROXY=off GOSUMDB=off GOTOOLCHAIN=local
WT=/tmp/seedwt-$PROP-$NAME
git -C /repo worktree remove --force $WT >/dev/null 2>&1
git -C /repo worktree add -q --detach $WT HEAD 2>&1 | grep -v conda
ok=1
RACE=""; grep -q -- "-race" $DIR/meta.json && RACE="-race"
cd $WT
cp $DIR/demo_test.go ./zz_demo_test.go
if ! go test $RACE -vet=off -count=1 -run TestDemo . >/tmp/sv.$$ 2>&1; then echo "FAIL: demo does not pass on clean HEAD"; tail -5 /tmp/sv.$$; ok=0; fi
rm -f zz_demo_test.go
if ! git apply $DIR/patch.diff; then echo "FAIL: patch does not apply"; ok=0; fi
if ! go build ./... >/tmp/sv.$$ 2>&1; then echo "FAIL: does not build"; ok=0; fi
if ! go test -vet=off -count=1 ./... >/tmp/sv.$$ 2>&1; then echo "FAIL: suite fails with the patch"; tail -5 /tmp/sv.$$; ok=0; fi
cp $DIR/demo_test.go ./zz_demo_test.go
if go test $RACE -vet=off -count=1 -run TestDemo . >/tmp/sv.$$ 2>&1; then echo "FAIL: demo passes with the patch"; ok=0; fi
cd /
git -C /repo worktree remove --force $WT
rm -f /tmp/sv.$$
if [ $ok = 1 ]; then
  D=/verif/seeded/$PROP-$NAME; mkdir -p $D; cp $DIR/patch.diff $DIR/demo_test.go $D/
  python3 - "$DIR/meta.json" "$D/meta.json" "$PROP" <<'PY'
import json,sys
m=json.load(open(sys.argv[1])); m["property"]=sys.argv[3]
m["confirmed"]="tools/seed_verify.sh: demo passes on clean HEAD; with the patch the package builds, the unedited suite passes and the demo fails (scratch worktree under /tmp, removed afterwards)"
json.dump(m,open(sys.argv[2],"w"),indent=1)
PY
  echo "CONFIRMED $PROP-$NAME"
else
  echo "REJECTED $PROP-$NAME"
fi
