#!/usr/bin/env python3
"""Regenerates /verif/MANIFEST.json from lib/props.json and the level texts below."""
import json, os
ROOT = os.path.dirname(os.path.dirname(os.path.abspath(__file__)))
props = json.load(open(os.path.join(ROOT, "lib", "props.json")))
old = json.load(open(os.path.join(ROOT, "MANIFEST.json")))
c17 = [c for c in old["checks"] if c["property_id"] == "C17"][0]

TRUST = ("Trusted: Coq kernel (vm_compute used in table obligations); tools/go2v and tools/go2eff (translators); "
         "ExtrOcamlBasic extraction + OCaml driver; the Go harness and differ. ")
LEVEL = {
 "C01": ("Theorems (Coq, no axioms): the lexer terminates on every byte string within its linear fuel; no built-in filter of the model reaches a panicking operation for any value/argument; following any static path through any data never panics (it is the reference value, the empty value or an execution error). Partial: the parser/executor as a whole is covered by the correspondence run only - every generated (source, context) is compiled and executed in the real engine in a child process under a stack cap and a deadline and compared with the model's outcome class. One open known finding (cyclic template references overflow the stack).",
         "Memory exhaustion and scheduling are outside the model. " ),
 "C03": ("Theorems for all histories and all token lists: a banned tag name never reaches its tag parser at any nesting level; a banned filter is a compile error in expression chains and in the filter tag's chain; once a template exists the ban lists never change under any operation sequence, late bans are refused without effect, every creating operation freezes the set; sub-templates are compiled by the same function under the same configuration. The model computes with the registered tag/filter tables regenerated from /repo; the set state machine is compared with the real TemplateSet after every operation of generated histories through the VerifSetState hook, and every (route, banned name) combination is compiled in both.",
         "The tag argument grammars are hand-modelled; tied by the correspondence run. "),
 "C04": ("Partial. Theorems: (1) on the effect summary regenerated from /repo's SSA on every run, the only stores to compiled/shared state reachable from Execute* are the atomic first-template flag and the one-time mutex-guarded block-option rewrite; (2) unwritten locations keep their value in every run of the abstract heap model; (3) in the executable model every execution of a history equals a fresh execution, so equal contexts give equal results. The correspondence run executes five-step histories (equal, different and failing contexts) on one compiled template in the real engine, compares them with the model and with fresh compilations, and compares the token list before/after.",
         "The precision of (1) is that of go2eff's call graph. "),
 "C05": ("Partial. Theorems about an abstract interleaving model (any number of threads, any schedule, sequentially consistent heap): if no thread writes a location another touches, every thread reads what it reads alone, no schedule has a race, unwritten locations are unchanged. The hypotheses on the code are obligations over the effect summary go2eff regenerates from /repo's SSA (allowed shared writes, lock dominance of guarded fields, no compile-path writes to the set from execution). The harness runs k goroutines on shared templates in a -race build (child processes, halt_on_error) and compares each output with the sequential one and the model.",
         "Go memory model, sync.Mutex and atomics are assumed; the race detector sees only the interleavings that occur. "),
 "C06": ("Theorems for all byte strings: the lexer maps delimiter-free text to a single text token carrying it unchanged, and lexing a concatenation of independent fragments is the concatenation of their token lists (positions shifted) - the lexer half of the property. Render half: for every world, options and context a delimiter-free source renders to itself through the whole pipeline (lexer, parser, executor); lists of text/comment/verbatim fragments render to the concatenation of the texts and bodies; executing a concatenation of node lists writes the concatenation (and a prefix on failure); comment nodes write nothing, templatetag writes exactly the delimiter the regenerated table names. The correspondence run and the implementation-level oracle cover every delimiter-free string up to length 3 over a 9-symbol alphabet and generated fragment lists with variables.",
         ""),
 "C07": ("Theorems for all expression trees of the fragment: parsing the minimal-parentheses print of a tree gives back the tree (so precedence, associativity and unary binding are the documented ones, for any depth); evaluation equals the reference evaluator of the fully parenthesised reading; printing is canonical. Operator symbols/keywords come from tables regenerated from /repo. The correspondence run renders every tree with up to 3 operators (all operator pairs) and random deeper ones in the real engine and compares with the model and with an independent evaluator.",
         "Float formatting and pow follow hand-modelled Go library behaviour. "),
 "C08": ("Partial. Theorems: following static steps (names and integer indexes, paths of any length) through plain data equals the reference written from the property text - value, empty on a missing key / out-of-range index / nil on the way, execution error on a key or index of something that has none - and never panics; the first name is looked up in the tag-set context, then the caller's keys, then the set's globals. Computed subscripts, methods, function calls, pointers and Go-typed maps are checked by the harness's reference resolver on the real engine and (for the modelled value universe) by the correspondence run.",
         ""),
 "C12": ("Theorems for all node lists, states and fuel: evaluating any expression leaves the frame stack unchanged; executing any nodes leaves every frame below the current one and the current frame's public context untouched; with, for and include (and macro calls, Super) leave even the current frame's private bindings exactly as they were - what they bind lives in a child frame that is gone afterwards; set is visible to what follows at its level. One induction over the 17 mutually recursive executor functions. The correspondence run renders generated nestings with colliding names in the real engine, probing each name before/inside/after every construct against the model and a reference environment, and DeepEqual-compares the caller's Context and the set's Globals before/after.",
         ""),
 "C14": ("Theorems over the model's two executors and a specification of the four entry points with a failing writer (Spec/SpecWriter.v): the buffered and unbuffered executors return the same outcome and on success the same bytes (their only difference is that the buffered one hands out nothing on failure); with a sound writer all four variants give the same bytes or the same failure; for ANY writer ExecuteWriter leaves it untouched when execution fails, returns the writer's error exactly when the output does not fit, and otherwise appends exactly the output; what the unbuffered variant wrote on failure is the complete output of the completed leading nodes followed by the failing node's partial output. Partial: the entry-point wrappers are specified, not extracted; the harness runs all four real entry points with failure injection at every call position and writers failing at several limits and checks the same statements on the real engine; the executors underneath are correspondence-checked.",
         ""),
 "C19": ("Theorems for chains of any length: v|f1:a1|...|fn:an is evaluated left to right, each argument in the current state, (v|c1)|c2 = v|(c1 c2), parameterless chains are a fold of the filter function; the filter tag's chain is the same function as the expression chain and the tag writes what the chain gives on the rendered body; an unregistered filter in an expression and an unregistered tag are compile errors (Err 2), in the filter tag an execution error - never silent output (the compile-time claim is refuted for the filter tag with a witness, as the property text allows); the registered tables regenerated from /repo have no duplicates and every name has an implementation. The correspondence run applies chains at every expression position in the real engine and compares with composing the public ApplyFilter and with the model.",
         ""),
 "C16": None,
 "C18": ("Theorems for sequences of any length (lengths below 2^63, as Go guarantees): slice is Python slicing on lists and on strings counted in characters (bounds in a window checked exhaustively through the filter's own text-to-number conversion); length counts; first/last; ljust/rjust/center produce the requested width with spaces on the stated side and the text unchanged; truncatechars shape; divisibleby; no filter panics. The dispatch table name -> Go function is regenerated from /repo. The correspondence run applies every data filter to a value universe x arguments in the real engine and compares with the model and an independent reference. Partial: date/time, stringformat, title, non-ASCII case mapping rest on Go library tables (oracle only).",
         ""),
 "C20": ("Partial. Theorems for all sequential histories of the set state machine: a hit returns the cached template without touching the state; a miss compiles once, returns a fresh template and caches it under the resolved name only; failed loads are not cached; with Debug on nothing is cached or served from the cache; CleanCache removes exactly the named entries (or all); cached stamps are always older than the next fresh one. That every FromCache/CleanCache runs under the set's mutex is an obligation over the effect summary regenerated from /repo's SSA, so concurrent histories are sequential ones. The harness runs every history of length <= 3 and random long ones against the real set (state read through the hook after each step, loader fetches counted) and hits one cache from k goroutines in a -race build.",
         "sync.Mutex mutual exclusion is assumed. "),
}
TECH = "Coq proof over hand-written executable model + tables/effect summaries regenerated from /repo (go2v, go2eff) + model/implementation correspondence check + implementation-level oracle"

checks = []
for pid in sorted(props):
    if pid == "C17":
        checks.append(c17); continue
    if pid == "C16" and LEVEL.get("C16") is None:
        c16 = [c for c in old["checks"] if c["property_id"] == "C16"]
        if c16:
            checks.append(c16[0]); continue
        LEVEL["C16"] = ("Theorems for all byte strings / fragment lists: every token's line and column are those of its first byte in the source (positions computed by an independent reference), a lexer error carries the position where the offending construct starts, inserting text before a document shifts positions exactly, and the lexer is total. Lexer character classes, symbol and keyword tables are regenerated from /repo. The correspondence run lexes every string up to length 4 (quick) / 5 (thorough) over a 16-symbol alphabet plus generated programs in the real lexer (VerifLex hook) and compares token lists; parser and execution error positions and filenames are checked by the implementation-level oracle.", "")
    text, note = LEVEL[pid]
    checks.append({
        "property_id": pid, "quick_cmd": "./check %s quick" % pid, "thorough_cmd": "./check %s thorough" % pid,
        "evidence_file": "evidence/%s.json" % pid, "replay_cmd_template": "./check %s --replay {path}" % pid,
        "engine": "coq-model+correspondence",
        "level_claimed": {"category": "proof", "text": text, "design_ref": "DESIGN.md section 7 " + pid},
        "level_note": TRUST + note + "Details per theorem: coq/Props/%s.v; assumptions: evidence file." % pid,
        "technique": TECH})
claimed = [c["property_id"] for c in checks]
allp = [json.loads(l)["id"] for l in open(os.path.join(ROOT, "properties.jsonl"))]
na = [{"property_id": p, "reason": "not claimed yet: theorems for this property are still being integrated (harness and model exist); see DESIGN.md"} for p in allp if p not in claimed]
m = {"version": 1, "setup_cmd": "./setup.sh",
     "hooks": {"guard": "verif", "enable": old["hooks"]["enable"], "baseline_off_cmd": old["hooks"]["baseline_off_cmd"],
               "source_commits": ["00ce8c2", "6c8a542"], "add_only": True},
     "engines": [{"name": "coq-model+correspondence", "path": "check", "serves_properties": claimed,
                  "kind_free_text": old["engines"][0]["kind_free_text"]}],
     "checks": checks, "not_applicable": na}
json.dump(m, open(os.path.join(ROOT, "MANIFEST.json"), "w"), indent=1)
print("claimed:", " ".join(claimed))
