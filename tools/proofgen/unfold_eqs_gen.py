import re
src = open('/tmp/pfT1/coq/Model/Exec.v').read().split('\n')
# lines 217..985 (1-based) = indices 216..984
lines = src[216:985]
funs = []
cur = None
for ln in lines:
    m = re.match(r'^  (Fixpoint|with) (\w+) \(fuel : nat\)(.*)$', ln)
    if m:
        cur = [m.group(2), [m.group(3)]]
        funs.append(cur)
    else:
        cur[1].append(ln)
out = []
names = []
for name, ls in funs:
    txt = '\n'.join(ls)
    hdr, body = txt.split(':=', 1)
    binders = hdr.split('{struct fuel}')[0].strip()
    # binder names
    bn = []
    for g in re.findall(r'\(([^()]*?) : [^()]*(?:\([^()]*\)[^()]*)*\)', binders):
        bn += g.split()
    body = body.rstrip()
    if body.endswith('.'): body = body[:-1]
    # strip trailing comment lines
    while True:
        b2 = body.rstrip()
        if b2.endswith('*)'):
            i = b2.rfind('(*')
            body = b2[:i]
        else:
            body = b2; break
    i = body.index('| O =>'); j = body.index('| S f =>')
    zero = body[i+6:j].strip()
    k = body.rindex('end')
    sbody = body[j+8:k].rstrip()
    names.append(name)
    args = ' '.join(bn)
    out.append(f"Lemma {name}_0 : forall {binders}, {name} 0 {args} = {zero}.\nProof. reflexivity. Qed.\n")
    out.append(f"Lemma {name}_S : forall (f : nat) {binders}, {name} (S f) {args} =\n{sbody}.\nProof. reflexivity. Qed.\n")
print("(* names: %s *)" % ' '.join(names))
print('\n'.join(out))
