import re,sys
src=open('/tmp/pfT7/coq/Model/Exec.v').read().split('\n')
# locate
start=[i for i,l in enumerate(src) if l.startswith('  Fixpoint eval ')][0]
end=[i for i,l in enumerate(src) if l.startswith('End Exec.')][0]
lines=src[start:end]
# split into chunks
chunks=[];cur=None
for l in lines:
    if l.startswith('  Fixpoint ') or re.match(r'  with [a-z_]+ \(fuel : nat\)',l):
        if cur: chunks.append(cur)
        cur=[l]
    else:
        cur.append(l)
chunks.append(cur)
names=[]
parsed=[]
for ch in chunks:
    # drop leading comment lines attached to end of previous chunk: comments "  (* ... *)" at indentation 2 at the end
    while ch and (ch[-1].strip()=='' or re.match(r'  \(\*.*\*\)\s*$',ch[-1])):
        ch.pop()
    text='\n'.join(ch)
    m=re.match(r'  (?:Fixpoint|with) ([a-z_]+) \(fuel : nat\)(.*?)\{struct fuel\}\s*:?\s*(.*?):=\s*\n    match fuel with\n    \| O => (.*?)\n    \| S f =>\n(.*)\n    end\.?$',text,re.S)
    assert m,text[:200]
    name,binders,rty,zero,body=m.groups()
    rty=rty.strip().rstrip(':').strip()
    names.append(name)
    parsed.append((name,binders,rty,body))
out=[]
pat=re.compile(r'\b('+'|'.join(sorted(names,key=len,reverse=True))+r')(\s+)f\b')
for name,binders,rty,body in parsed:
    bs=re.findall(r'\(([^()]*?) : ([^()]*(?:\([^()]*\)[^()]*)*)\)',binders)
    vars_=[]
    for vs,ty in bs: vars_+=vs.split()
    body2=pat.sub(lambda m:m.group(1)+' se globals f',body)
    body2=body2.replace('apply_filter_se ','apply_filter_se se ').replace('root_frame ','root_frame globals ')
    binders1=' '.join(binders.split())
    out.append('  Lemma %s_S : forall (f : nat) %s,\n    %s se globals (S f) %s =\n%s.\n  Proof. reflexivity. Qed.\n' % (name,binders1,name,' '.join(vars_),body2))
hdr='''(* One-step unfolding equations of the mutual fixpoint of Model/Exec.v (fuel [S f]), proved by
   conversion.  GENERATED from Model/Exec.v by a script: the right-hand sides are the bodies
   of the functions with every recursive call written with its section arguments. *)
From PV Require Import Model.Exec.
From PV Require Import gen.Tables.
Open Scope N_scope.

Section Unfold.
  Variable se : senv.
  Variable globals : list (str * cval).

'''
open('/tmp/pfT7/coq/Proofs/TaintUnfold.v','w').write(hdr+'\n'.join(out)+'End Unfold.\n')
print(names)
