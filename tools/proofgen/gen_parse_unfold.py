# Prints the "Section ParseUnfold" of Proofs/Compose.v from the text of Model/ParseDoc.v.
# Run from the coq/ directory:  python3 Proofs/gen_parse_unfold.py
import re
src = open('Model/ParseDoc.v').read().split('\n')
# locate function headers
def find(prefix, start=0):
    for i in range(start, len(src)):
        if src[i].lstrip().startswith(prefix):
            return i
    raise Exception(prefix)
funs = [("parse_elem", "Fixpoint parse_elem", "(fuel : nat) (level : nat) (st : pst) (ts : list atok)", "level st ts"),
        ("wrap_until", "with wrap_until", None, "level names st ts"),
        ("parse_tag", "with parse_tag", None, "level st ts"),
        ("tag_parser", "with tag_parser", None, "level impl args st ts"),
        ("if_branches", "with if_branches", None, "level conds wrappers st ts"),
        ("parse_doc", "with parse_doc", None, "st ts"),
        ("compile_src", "with compile_src", None, "name isstr src g"),
        ("compile_file", "with compile_file", None, "path g")]
starts = [find(p) for (_, p, _, _) in funs]
ends = starts[1:] + [find("End Compile.")]
out = []
for (name, _, _, args), s, e in zip(funs, starts, ends):
    block = src[s:e]
    # find '| S f =>' line
    k = next(i for i, l in enumerate(block) if l.strip().startswith("| S f =>"))
    body = block[k:]
    # strip trailing comment lines / blank and the final 'end' of match fuel
    while body and (body[-1].strip() == "" or body[-1].strip().startswith("(*")):
        body.pop()
    last = body[-1]
    assert last.strip() in ("end", "end."), (name, last)
    body = body[:-1]
    first = body[0].split("| S f =>", 1)[1]
    body = ([first] if first.strip() else []) + body[1:]
    out.append((name, args, "\n".join(body)))
txt = """
(* ---- one-step unfoldings of the document parser (text of Model/ParseDoc.v, by conversion) ---- *)
Section ParseUnfold.
  Variable se : senv.
  Local Notation cfg := (se_cfg se).
  Local Notation parse_elem := (PV.Model.ParseDoc.parse_elem se).
  Local Notation wrap_until := (PV.Model.ParseDoc.wrap_until se).
  Local Notation parse_tag := (PV.Model.ParseDoc.parse_tag se).
  Local Notation tag_parser := (PV.Model.ParseDoc.tag_parser se).
  Local Notation if_branches := (PV.Model.ParseDoc.if_branches se).
  Local Notation parse_doc := (PV.Model.ParseDoc.parse_doc se).
  Local Notation compile_src := (PV.Model.ParseDoc.compile_src se).
  Local Notation compile_file := (PV.Model.ParseDoc.compile_file se).
  Local Notation fetch := (PV.Model.ParseDoc.fetch se).
"""
for name, args, body in out:
    txt += "  Lemma %s_unfold : forall f %s,\n    %s (S f) %s =\n%s.\n  Proof. reflexivity. Qed.\n" % (name, args, name, args, body)
txt += "End ParseUnfold.\n"
print(txt)
