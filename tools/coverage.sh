#!/bin/bash
# usage: tools/coverage.sh [PROP...] : statement coverage of /repo's package reached by the harness
# generators (quick tier). Writes build/cover/profile.txt and prints the least covered functions.
# A statement no generated case reaches is a place where a change cannot be seen by the
# correspondence run or the oracles: this report drives widening the generators.
set -u
export GOFLAGS=-mod=mod GOPROXY=off GOSUMDB=off GOTOOLCHAIN=local
cd /verif/harness
D=/verif/build/cover; rm -rf $D; mkdir -p $D/raw $D/out
go build -tags verif -cover -coverpkg=github.com/flosch/pongo2/v6,verifharness -o $D/harness_cover . || exit 2
PROPS=${@:-C01 C02 C03 C04 C05 C06 C07 C08 C09 C10 C11 C12 C13 C14 C15 C16 C17 C18 C19 C20}
for p in $PROPS; do
  VERIF_SKIP_CRASHING=1 GOCOVERDIR=$D/raw $D/harness_cover -prop $p -tier quick -seed 1 -out $D/out/$p >/dev/null 2>&1
  echo "$p done"
done
go tool covdata textfmt -i=$D/raw -o $D/profile.txt
cd /repo && grep -v "^verifharness/" $D/profile.txt > $D/profile_repo.txt; go tool cover -func=$D/profile_repo.txt | grep -v "verif_hooks.go" | sort -k3 -n | head -${TOPN:-70}
go tool cover -func=$D/profile_repo.txt | tail -1
