// go2eff (E3): extracts from /repo's current source, through SSA, every store to a struct
// field or package variable, every map update, every sync.Mutex / sync/atomic call and every
// go statement of package pongo2, together with a class-hierarchy call graph, and emits
// coq/gen/Effects.v: the writes to *compiled/shared* types that are reachable from the
// execution entry points, outside the compile sub-graph.
//
// A static over-approximation with a type-based alias assumption: a store through a value
// of per-execution type does not reach an object of the compiled tree.
package main

import (
	"bytes"
	"flag"
	"fmt"
	"go/token"
	"go/types"
	"os"
	"path/filepath"
	"sort"
	"strings"

	"golang.org/x/tools/go/callgraph"
	"golang.org/x/tools/go/callgraph/cha"
	"golang.org/x/tools/go/packages"
	"golang.org/x/tools/go/ssa"
	"golang.org/x/tools/go/ssa/ssautil"
)

// types whose instances live for one execution only
var perExecution = map[string]bool{
	"ExecutionContext": true, "Error": true, "Value": true, "tagForLoopInformation": true,
	"tagBlockInformation": true, "tagCycleValue": true, "tagCycleState": true, "tagIfchangedState": true,
	"templateWriter": true, "Context": true,
}

type effect struct {
	fn    string
	kind  string // store | mapupdate | global | atomic | lock | unlock | go
	typ   string
	field string
	fresh bool
	pos   string
}

func namedOf(t types.Type) string {
	for {
		switch u := t.(type) {
		case *types.Pointer:
			t = u.Elem()
			continue
		case *types.Named:
			return u.Obj().Name()
		}
		return t.String()
	}
}

// freshBase: the address is a field of an object allocated in this function and never
// merged with another pointer
func freshBase(v ssa.Value) bool {
	switch x := v.(type) {
	case *ssa.Alloc:
		return true
	case *ssa.FieldAddr:
		return freshBase(x.X)
	case *ssa.IndexAddr:
		return freshBase(x.X)
	case *ssa.MakeMap, *ssa.MakeSlice:
		return true
	}
	return false
}

func main() {
	repo := flag.String("repo", "/repo", "pongo2 source directory")
	out := flag.String("out", "/verif/coq/gen", "output directory")
	flag.Parse()

	cfg := &packages.Config{Mode: packages.LoadAllSyntax, Dir: *repo, Env: append(os.Environ(), "GOFLAGS=-mod=mod")}
	pkgs, err := packages.Load(cfg, ".")
	if err != nil || len(pkgs) != 1 || len(pkgs[0].Errors) > 0 {
		fmt.Fprintln(os.Stderr, "go2eff: cannot load package:", err, pkgs)
		os.Exit(2)
	}
	prog, spkgs := ssautil.AllPackages(pkgs, ssa.InstantiateGenerics)
	prog.Build()
	pkg := spkgs[0]
	fset := prog.Fset

	// all functions of the package, including methods and closures
	funcs := map[*ssa.Function]bool{}
	for fn := range ssautil.AllFunctions(prog) {
		if fn.Pkg == pkg || (fn.Parent() != nil && fn.Parent().Pkg == pkg) {
			funcs[fn] = true
		}
	}

	effects := map[*ssa.Function][]effect{}
	for fn := range funcs {
		for _, b := range fn.Blocks {
			for _, ins := range b.Instrs {
				pos := func(p token.Pos) string {
					pp := fset.Position(p)
					return fmt.Sprintf("%s:%d", filepath.Base(pp.Filename), pp.Line)
				}
				switch x := ins.(type) {
				case *ssa.Store:
					switch a := x.Addr.(type) {
					case *ssa.FieldAddr:
						st := a.X.Type().Underlying().(*types.Pointer).Elem()
						fname := st.Underlying().(*types.Struct).Field(a.Field).Name()
						effects[fn] = append(effects[fn], effect{fn.String(), "store", namedOf(st), fname, freshBase(a.X), pos(x.Pos())})
					case *ssa.Global:
						effects[fn] = append(effects[fn], effect{fn.String(), "global", a.Name(), "", false, pos(x.Pos())})
					case *ssa.IndexAddr:
						// element of a slice/array reached through a field: attribute to the field's owner
						if fa, ok := a.X.(*ssa.UnOp); ok {
							if f2, ok := fa.X.(*ssa.FieldAddr); ok {
								st := f2.X.Type().Underlying().(*types.Pointer).Elem()
								fname := st.Underlying().(*types.Struct).Field(f2.Field).Name()
								effects[fn] = append(effects[fn], effect{fn.String(), "store", namedOf(st), fname + "[]", freshBase(f2.X), pos(x.Pos())})
							}
						}
					}
				case *ssa.MapUpdate:
					owner, field := "", ""
					if u, ok := x.Map.(*ssa.UnOp); ok {
						if fa, ok := u.X.(*ssa.FieldAddr); ok {
							st := fa.X.Type().Underlying().(*types.Pointer).Elem()
							owner = namedOf(st)
							field = st.Underlying().(*types.Struct).Field(fa.Field).Name()
						}
						if g, ok := u.X.(*ssa.Global); ok {
							owner, field = "package", g.Name()
						}
					}
					if p, ok := x.Map.(*ssa.Parameter); ok {
						owner, field = "param", p.Name()
						if fn.Name() == "Update" {
							owner = "fresh" // accounted for at the call sites of Context.Update
						}
					}
					if _, ok := x.Map.(*ssa.MakeMap); ok {
						owner, field = "fresh", ""
					}
					effects[fn] = append(effects[fn], effect{fn.String(), "mapupdate", owner, field, owner == "fresh", pos(x.Pos())})
				case *ssa.Go:
					effects[fn] = append(effects[fn], effect{fn.String(), "go", "", "", false, pos(x.Pos())})
				case ssa.CallInstruction:
					c := x.Common()
					if callee := c.StaticCallee(); callee != nil && callee.Pkg != nil {
						pp := callee.Pkg.Pkg.Path()
						if pp == "sync/atomic" && strings.HasPrefix(callee.Name(), "Store") || pp == "sync/atomic" && strings.HasPrefix(callee.Name(), "Add") || pp == "sync/atomic" && strings.HasPrefix(callee.Name(), "CompareAndSwap") {
							owner, field := "", ""
							if len(c.Args) > 0 {
								if fa, ok := c.Args[0].(*ssa.FieldAddr); ok {
									st := fa.X.Type().Underlying().(*types.Pointer).Elem()
									owner = namedOf(st)
									field = st.Underlying().(*types.Struct).Field(fa.Field).Name()
								}
							}
							effects[fn] = append(effects[fn], effect{fn.String(), "atomic", owner, field, false, pos(ins.Pos())})
						}
						if callee.Name() == "Update" && callee.Signature.Recv() != nil && namedOf(callee.Signature.Recv().Type()) == "Context" && len(c.Args) > 0 {
							// Context.Update writes into its receiver: which map is that?
							owner, field := "fresh-or-local", ""
							if u, ok := c.Args[0].(*ssa.UnOp); ok {
								if fa, ok := u.X.(*ssa.FieldAddr); ok {
									st := fa.X.Type().Underlying().(*types.Pointer).Elem()
									owner = namedOf(st)
									field = st.Underlying().(*types.Struct).Field(fa.Field).Name()
								}
							}
							if p, ok := c.Args[0].(*ssa.Parameter); ok {
								owner, field = "param", p.Name()
							}
							if owner != "fresh-or-local" && !(owner == "ExecutionContext" && field == "Private") {
								effects[fn] = append(effects[fn], effect{fn.String(), "mapupdate", "Update:" + owner, field, false, pos(ins.Pos())})
							}
						}
						if pp == "sync" && (callee.Name() == "Lock" || callee.Name() == "Unlock") {
							owner, field := "", ""
							if len(c.Args) > 0 {
								if fa, ok := c.Args[0].(*ssa.FieldAddr); ok {
									st := fa.X.Type().Underlying().(*types.Pointer).Elem()
									owner = namedOf(st)
									field = st.Underlying().(*types.Struct).Field(fa.Field).Name()
								}
							}
							effects[fn] = append(effects[fn], effect{fn.String(), strings.ToLower(callee.Name()), owner, field, false, pos(ins.Pos())})
						}
					}
				}
			}
		}
	}

	cg := cha.CallGraph(prog)
	reach := func(roots []*ssa.Function, stop func(*ssa.Function) bool) map[*ssa.Function]bool {
		seen := map[*ssa.Function]bool{}
		var visit func(f *ssa.Function)
		visit = func(f *ssa.Function) {
			if f == nil || seen[f] || !funcs[f] {
				return
			}
			if stop != nil && stop(f) {
				return
			}
			seen[f] = true
			if n := cg.Nodes[f]; n != nil {
				for _, e := range n.Out {
					callee := e.Callee.Func
					if e.Site != nil {
						c := e.Site.Common()
						if c.StaticCallee() == nil && !c.IsInvoke() {
							// a call through a func value: CHA would add every function of that
							// signature. Closures are linked to the function that creates them
							// (below); the only table-driven dispatch at execution time is the
							// filter table.
							if !(strings.HasPrefix(callee.Name(), "filter") && callee.Signature.Recv() == nil && callee.Parent() == nil) {
								continue
							}
						}
					}
					visit(callee)
				}
			}
			// closures are assumed to be invoked by whoever creates them (callbacks, deferred
			// functions, macro closures called through reflection)
			for _, af := range f.AnonFuncs {
				visit(af)
			}
		}
		for _, r := range roots {
			visit(r)
		}
		return seen
	}
	_ = callgraph.Edge{}

	byName := func(pred func(f *ssa.Function) bool) []*ssa.Function {
		var out []*ssa.Function
		for f := range funcs {
			if pred(f) {
				out = append(out, f)
			}
		}
		return out
	}
	recvName := func(f *ssa.Function) string {
		if f.Signature.Recv() == nil {
			return ""
		}
		return namedOf(f.Signature.Recv().Type())
	}
	// execution entry points: the four Execute* methods of Template, ExecuteBlocks, and every
	// Execute / Evaluate method and filter function (they are called through interfaces / maps)
	execRoots := byName(func(f *ssa.Function) bool {
		n := f.Name()
		if recvName(f) == "Template" && (strings.HasPrefix(n, "Execute") || n == "execute") {
			return true
		}
		if recvName(f) != "" && (n == "Execute" || n == "Evaluate" || n == "FilterApplied") {
			return true
		}
		return strings.HasPrefix(n, "filter") && recvName(f) == "" && f.Parent() == nil
	})
	// the compile sub-graph (lazy include re-enters it at run time): it builds a fresh template
	compileRoots := byName(func(f *ssa.Function) bool { return f.Name() == "newTemplate" && recvName(f) == "" })
	compileReach := reach(compileRoots, nil)
	execReach := reach(execRoots, func(f *ssa.Function) bool { return compileReach[f] && f.Name() == "newTemplate" })
	// functions reachable from execution only through newTemplate are reported separately
	execAll := reach(execRoots, nil)

	type row struct{ kind, typ, field, fn, pos string }
	var shared, compileSet []row
	seenRow := map[string]bool{}
	add := func(dst *[]row, e effect) {
		k := e.kind + "|" + e.typ + "|" + e.field + "|" + e.fn
		if seenRow[k] {
			return
		}
		seenRow[k] = true
		*dst = append(*dst, row{e.kind, e.typ, e.field, e.fn, e.pos})
	}
	for fn := range execAll {
		inCompile := !execReach[fn]
		for _, e := range effects[fn] {
			switch e.kind {
			case "store", "atomic":
				if perExecution[e.typ] || e.fresh || e.typ == "" {
					continue
				}
				if inCompile {
					// writes to the template under construction are writes to a fresh object;
					// only set-level state matters
					if e.typ == "TemplateSet" {
						add(&compileSet, e)
					}
					continue
				}
				add(&shared, e)
			case "global":
				add(&shared, e)
			case "mapupdate":
				if e.fresh || (perExecution[e.typ] && !(e.typ == "ExecutionContext" && e.field == "Public")) {
					continue
				}
				if inCompile && e.typ != "TemplateSet" && e.typ != "package" {
					continue
				}
				if inCompile {
					add(&compileSet, e)
				} else {
					add(&shared, e)
				}
			case "go":
				add(&shared, e)
			}
		}
	}
	sortRows := func(r []row) {
		sort.Slice(r, func(i, j int) bool {
			a, b := r[i], r[j]
			return a.kind+a.typ+a.field+a.fn < b.kind+b.typ+b.field+b.fn
		})
	}
	sortRows(shared)
	sortRows(compileSet)

	// lock discipline: every function that touches TemplateSet.templateCache
	var cacheTouch []row
	for fn := range funcs {
		touches, locks := false, false
		for _, b := range fn.Blocks {
			for _, ins := range b.Instrs {
				if fa, ok := ins.(*ssa.FieldAddr); ok {
					st := fa.X.Type().Underlying().(*types.Pointer).Elem()
					if namedOf(st) == "TemplateSet" && st.Underlying().(*types.Struct).Field(fa.Field).Name() == "templateCache" {
						touches = true
					}
				}
			}
		}
		for _, e := range effects[fn] {
			if e.kind == "lock" && e.typ == "TemplateSet" && e.field == "templateCacheMutex" {
				locks = true
			}
		}
		if touches {
			cacheTouch = append(cacheTouch, row{kind: map[bool]string{true: "locked", false: "unlocked"}[locks], fn: fn.String()})
		}
	}
	sortRows(cacheTouch)

	// lock discipline by dominance: every access to a guarded field must be dominated by a
	// Lock of its mutex and must not be dominated by a (non-deferred) Unlock of it
	guarded := map[string]string{ // "Type.field" -> "Type.mutexField"
		"TemplateSet.templateCache": "TemplateSet.templateCacheMutex",
		"Template.trimBlocksDone":   "Template.blockOptionsMutex",
		"Template.lstripBlocksDone": "Template.blockOptionsMutex",
	}
	type site struct {
		b   *ssa.BasicBlock
		idx int
	}
	var unguarded []row
	for fn := range funcs {
		if fn.Name() == "NewSet" || fn.Name() == "newTemplate" || strings.HasPrefix(fn.Name(), "Verif") {
			continue // constructors: the object is not shared yet; verification hooks are not part of the package
		}
		locks := map[string][]site{}
		unlocks := map[string][]site{}
		type acc struct {
			key string
			s   site
			pos token.Pos
		}
		var accs []acc
		for _, blk := range fn.Blocks {
			for i, ins := range blk.Instrs {
				if fa, ok := ins.(*ssa.FieldAddr); ok {
					st := fa.X.Type().Underlying().(*types.Pointer).Elem()
					key := namedOf(st) + "." + st.Underlying().(*types.Struct).Field(fa.Field).Name()
					if _, ok := guarded[key]; ok {
						accs = append(accs, acc{key, site{blk, i}, fa.Pos()})
					}
				}
				if ci, ok := ins.(ssa.CallInstruction); ok {
					c := ci.Common()
					if callee := c.StaticCallee(); callee != nil && callee.Pkg != nil && callee.Pkg.Pkg.Path() == "sync" && len(c.Args) > 0 {
						if fa, ok := c.Args[0].(*ssa.FieldAddr); ok {
							st := fa.X.Type().Underlying().(*types.Pointer).Elem()
							key := namedOf(st) + "." + st.Underlying().(*types.Struct).Field(fa.Field).Name()
							_, isDefer := ins.(*ssa.Defer)
							if callee.Name() == "Lock" {
								locks[key] = append(locks[key], site{blk, i})
							}
							if callee.Name() == "Unlock" && !isDefer {
								unlocks[key] = append(unlocks[key], site{blk, i})
							}
						}
					}
				}
			}
		}
		before := func(a, b site) bool { // a executes before b on every path to b
			if a.b == b.b {
				return a.idx < b.idx
			}
			return a.b.Dominates(b.b)
		}
		for _, a := range accs {
			m := guarded[a.key]
			okLock := false
			for _, l := range locks[m] {
				if before(l, a.s) {
					okLock = true
				}
			}
			for _, u := range unlocks[m] {
				if before(u, a.s) {
					// released before the access on every path - unless re-acquired in between
					re := false
					for _, l := range locks[m] {
						if before(u, l) && before(l, a.s) {
							re = true
						}
					}
					if !re {
						okLock = false
					}
				}
			}
			if !okLock {
				pp := fset.Position(a.pos)
				unguarded = append(unguarded, row{kind: "store", typ: a.key, field: "", fn: fn.String(), pos: fmt.Sprintf("%s:%d", filepath.Base(pp.Filename), pp.Line)})
			}
		}
	}
	sortRows(unguarded)

	var b bytes.Buffer
	b.WriteString("(* GENERATED by tools/go2eff from /repo on every run (SSA + CHA call graph). Do not edit. *)\n")
	b.WriteString("From PV Require Import Lib.Bytes.\nOpen Scope N_scope.\n\n")
	b.WriteString("(* (kind, type, field): kind 1 store, 2 map update, 3 package variable, 4 atomic, 5 go statement *)\n")
	kindN := map[string]int{"store": 1, "mapupdate": 2, "global": 3, "atomic": 4, "go": 5}
	emit := func(name string, rows []row) {
		fmt.Fprintf(&b, "Definition %s : list (N * str * str) :=\n  [", name)
		seen := map[string]bool{}
		first := true
		for _, r := range rows {
			k := fmt.Sprintf("%d|%s|%s", kindN[r.kind], r.typ, r.field)
			if seen[k] {
				continue
			}
			seen[k] = true
			if !first {
				b.WriteString(";\n   ")
			}
			first = false
			fmt.Fprintf(&b, "(%d, %s, %s) (* %s %s.%s in %s *)", kindN[r.kind], coqStr(r.typ), coqStr(r.field), r.kind, r.typ, r.field, noComment(r.fn))
		}
		b.WriteString("].\n\n")
	}
	emit("exec_shared_writes", shared)
	emit("exec_compile_set_writes", compileSet)
	b.WriteString("(* accesses to mutex-guarded fields that are not dominated by a Lock of their mutex *)\n")
	emit("unguarded_accesses", unguarded)
	fmt.Fprintf(&b, "(* functions touching TemplateSet.templateCache: (1 = takes templateCacheMutex, 0 = does not) *)\nDefinition cache_touch : list (N * str) :=\n  [")
	for i, r := range cacheTouch {
		if i > 0 {
			b.WriteString(";\n   ")
		}
		v := 0
		if r.kind == "locked" {
			v = 1
		}
		fmt.Fprintf(&b, "(%d, %s) (* %s *)", v, coqStr(r.fn), noComment(r.fn))
	}
	b.WriteString("].\n")

	path := filepath.Join(*out, "Effects.v")
	old, _ := os.ReadFile(path)
	if bytes.Equal(old, b.Bytes()) {
		fmt.Println("go2eff: Effects.v unchanged")
		return
	}
	if err := os.WriteFile(path, b.Bytes(), 0o644); err != nil {
		fmt.Fprintln(os.Stderr, "go2eff:", err)
		os.Exit(2)
	}
	fmt.Println("go2eff: Effects.v rewritten")
}

func noComment(s string) string {
	return strings.NewReplacer("(*", "( *", "*)", "* )").Replace(s)
}

func coqStr(s string) string {
	var sb strings.Builder
	sb.WriteString("[")
	for i := 0; i < len(s); i++ {
		if i > 0 {
			sb.WriteString("; ")
		}
		fmt.Fprintf(&sb, "%d", s[i])
	}
	sb.WriteString("]")
	return sb.String()
}
