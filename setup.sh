#!/bin/sh
# MANIFEST.setup_cmd: build the framework from files on disk only (offline).
set -e
cd "$(dirname "$0")"
export GOFLAGS=-mod=mod GOPROXY=off GOSUMDB=off GOTOOLCHAIN=local
mkdir -p build evidence
(cd tools/go2v && go build -o ../../build/go2v .)
./build/go2v -repo "${VERIF_REPO:-/repo}" -out coq/gen || echo "setup: go2v reported problems (checks will report them)"
(cd tools/go2eff && go build -o ../../build/go2eff .)
./build/go2eff -repo "${VERIF_REPO:-/repo}" -out coq/gen || echo "setup: go2eff reported problems (checks will report them)"
(cd coq && coq_makefile -f _CoqProject -o Makefile >/dev/null && timeout 3000 make -j16 2>&1 | grep -v conda | tail -5)
python3 - <<'PY'
import sys, os
sys.path.insert(0, os.path.join(os.getcwd(), "lib"))
import vcheck
st = {"tie_errors": [], "proof_errors": []}
ok = vcheck.step_driver(os.getcwd(), st) and vcheck.step_harness_build(os.getcwd(), st)
print("setup: driver+harness", "ok" if ok else ("FAILED " + str(st)))
sys.exit(0 if ok else 1)
PY
