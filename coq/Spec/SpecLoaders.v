(* What "templates come from the set's loaders and from nowhere else" means (property C11):
   which loader answers, what the fetch log must contain, and what an included template sees. *)
From PV Require Import Model.Exec.
Open Scope N_scope.

(* the name a loader is asked for: the requested path, taken from the loader's root *)
Definition loader_name (path : str) : str := fsloader_abs [] path.

Definition loader_has (name : str) (l : loader) : bool :=
  match assoc_get name (l_files l) with Some _ => true | None => false end.

(* the attempts a fetch of [name] makes on the loaders [ls] (numbered from [idx]), oldest first:
   a miss on every loader before the first one that has the name, then one hit *)
Fixpoint attempts (name : str) (idx : nat) (ls : list loader) : list logent :=
  match ls with
  | [] => []
  | l :: rest => if loader_has name l then [LGet idx name true]
                 else LGet idx name false :: attempts name (S idx) rest
  end.

Definition attempt_name (e : logent) : str := match e with LGet _ n _ => n end.
Definition attempt_loader (e : logent) : nat := match e with LGet i _ _ => i end.
Definition attempt_hit (e : logent) : bool := match e with LGet _ _ h => h end.

(* the log is kept newest first *)
Definition log_grows_by (old new : gstate) (added : list logent) : Prop :=
  g_log new = rev added ++ g_log old /\ g_nid new = g_nid old.

(* ---------- what an included template sees ---------- *)

(* the includer's variables: its private bindings over its public ones *)
Definition includer_vars (fr : frame) : list (str * cval) := ctx_update (f_pub fr) (f_priv fr).
(* the context handed to the included template *)
Definition include_ctx (only : bool) (fr : frame) (withs : list (str * cval)) : list (str * cval) :=
  ctx_update (if only then [] else includer_vars fr) withs.

(* in a list of bindings applied in order, the last one for a key counts *)
Definition last_binding (k : str) (l : list (str * cval)) : option cval := ctx_get k (rev l).
Definition or_else {A} (a b : option A) : option A := match a with Some _ => a | None => b end.

(* ---------- paths ---------- *)
Definition no_slash (s : str) : bool := forallb (fun c => negb (c =? slash)) s.

(* ---------- the referring template ---------- *)
(* two parser states belong to the same template: same id, same name, same kind (file / string) *)
Definition same_ident (st st' : tstate * gstate) : Prop :=
  t_id (fst st') = t_id (fst st) /\ t_name (fst st') = t_name (fst st) /\ t_isstr (fst st') = t_isstr (fst st).
