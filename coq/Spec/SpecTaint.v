(* Vocabulary for property C02 (autoescape): what "HTML-escaped form" means for an output
   fragment, which filter names are the property's opt-outs, and what it means for an
   execution state to hold only unmarked caller data.  Small and independent of the
   evaluator (it only mentions the record fields of a frame and of a value). *)
From PV Require Import Lib.Bytes Model.Value Model.EscFilters Model.Doc Model.Exec Spec.SpecEsc.
Open Scope N_scope.

(* ---------- escaped form ---------- *)
(* An output fragment is in escaped form when it contains none of the bytes 60 62 34 39 (less-than, greater-than, double and single quote) and every & in it
   starts one of the five entities &amp; &lt; &gt; &quot; &#39; ([dangerous], [amp_ok] are
   the definitions of Spec/SpecEsc.v used by C17). *)
Definition html_clean (s : str) : bool :=
  forallb (fun b => negb (dangerous b)) s && amp_ok s.

(* a byte that needs no escaping at all *)
Definition inert_byte (b : N) : bool := negb (dangerous b) && negb (b =? 38).

(* What an output site writes for an unmarked value [v] whose Value.String() is [s] while
   autoescape is on: pongo2 escapes strings; other kinds are written as they are. *)
Definition autoescaped (v : val) (s : str) : str := if is_string v then filter_escape s else s.

(* What an output site may write while autoescape is on and `safe` is not applied: text in
   escaped form, or the rendering of a value that carries the safe mark. *)
Definition escaped_or_marked (o : str) (v : value) : Prop :=
  html_clean o = true \/ (vsafe v = true /\ to_string (vv v) = Some o).

(* ---------- names ---------- *)
Definition n_safe : str := [115; 97; 102; 101].                      (* safe *)
Definition n_escape : str := [101; 115; 99; 97; 112; 101].           (* escape *)
Definition n_e : str := [101].                                       (* e *)

(* Filters that are registered in pongo2 but have no model: [apply_filter] answers Unmod for
   them, so nothing below speaks about them.  Two of them are opt-outs named by the property
   (truncatechars_html, truncatewords_html: they return HTML on purpose); urlize/urlizetrunc
   build <a> elements (escaping the text when autoescape is on); date/time/random/stringformat
   rest on library code. *)
Definition unmodelled_filters : list str :=
  [ [100; 97; 116; 101]                                                         (* date *)
  ; [116; 105; 109; 101]                                                        (* time *)
  ; [114; 97; 110; 100; 111; 109]                                               (* random *)
  ; [115; 116; 114; 105; 110; 103; 102; 111; 114; 109; 97; 116]                 (* stringformat *)
  ; [116; 114; 117; 110; 99; 97; 116; 101; 99; 104; 97; 114; 115; 95; 104; 116; 109; 108]  (* truncatechars_html *)
  ; [116; 114; 117; 110; 99; 97; 116; 101; 119; 111; 114; 100; 115; 95; 104; 116; 109; 108]  (* truncatewords_html *)
  ; [117; 114; 108; 105; 122; 101]                                              (* urlize *)
  ; [117; 114; 108; 105; 122; 101; 116; 114; 117; 110; 99] ].                   (* urlizetrunc *)

(* The modelled filters that return a value marked safe although neither their input nor
   their parameter is: there is none.  (`safe` returns its input as it is - the opt-out works
   through FilterApplied(safe) at the output site, not through the mark; `escape` returns
   an unmarked string.) *)
Definition marking_filters : list str := [].

(* ---------- states ---------- *)
(* autoescape is on in the current ExecutionContext *)
Definition auto_on (st : mstate) : Prop :=
  exists fr, top_frame st = Ok fr /\ f_auto fr = true.

(* the autoescape flags of the whole stack of contexts, innermost first *)
Definition auto_flags (st : mstate) : list bool := map f_auto (ms_frames st).

(* A context entry is plain when it is caller data (or a loop/with/set binding) that is not
   marked safe.  Macros and block handles are not plain: calling them yields template output,
   which is marked safe on purpose.  A cycle handle cannot be used in an expression at all
   (the model answers Unmod). *)
Definition entry_plain (kv : str * cval) : bool :=
  match snd kv with
  | CV v => negb (vsafe v)
  | CCycle _ _ _ _ => true
  | CMacro _ _ | CBlock _ _ => false
  end.
Definition frame_plain (fr : frame) : bool :=
  forallb entry_plain (f_priv fr) && forallb entry_plain (f_pub fr).

(* the current context holds plain entries only *)
Definition plain_state (st : mstate) : Prop :=
  exists fr, top_frame st = Ok fr /\ frame_plain fr = true.

(* no `safe` in any of the expressions *)
Definition none_safe (es : list expr) : bool :=
  forallb (fun e => negb (filter_applied n_safe e)) es.

(* every cycle handle bound in the frame cycles over expressions without `safe` *)
Definition cycles_none_safe (fr : frame) : Prop :=
  forall nm cid cargs cs cv,
    ctx_get nm (f_priv fr) = Some (CCycle cid cargs cs cv) -> none_safe cargs = true.

(* ---------- a template fragment without opt-outs ---------- *)
(* Nodes whose own text needs no escaping and that contain no opt-out and no construct that
   produces marked values: text, {{ e }} without `safe`, if, for, with, set, firstof without
   `safe`, ifequal, ifchanged, widthratio, comments, templatetag, autoescape on. *)
Fixpoint frag_node (n : node) : bool :=
  let frag_opt (o : option (list node)) :=
    match o with Some l => forallb frag_node l | None => true end in
  match n with
  | NHtml _ val _ _ _ _ => forallb inert_byte val
  | NVar e => negb (filter_applied n_safe e)
  | NIf _ wrappers => forallb (forallb frag_node) wrappers
  | NFor _ _ _ _ _ body empty => forallb frag_node body && frag_opt empty
  | NWith _ body => forallb frag_node body
  | NSet _ _ => true
  | NFirstof args => none_safe args
  | NIfequal _ _ _ thenb elseb => forallb frag_node thenb && frag_opt elseb
  | NIfchanged _ _ thenb elseb => forallb frag_node thenb && frag_opt elseb
  | NWidthratio _ _ _ _ => true
  | NComment => true
  | NTemplatetag content => forallb inert_byte content
  | NAutoescape on body => on && forallb frag_node body
  | _ => false
  end.
Definition frag_nodes (ns : list node) : bool := forallb frag_node ns.

(* ---------- a small concrete world for the witnesses of Props/C02.v ---------- *)
Definition w_se : senv := mkSenv [] (mkCfg [] [] [] []) false false.
Definition w_x : str := [120].                                        (* x *)
Definition w_text : str := [60; 98; 62; 38].                          (* <b>& *)
Definition w_ctx : list (str * cval) := [(w_x, CV (as_value (VStr w_text)))].
Definition w_frame : frame := mkF w_ctx [] true 0 1 [].
Definition w_state : mstate := mkM [w_frame] [] (mkG 1 []).
Definition w_var : expr := EFilt (EVar [PIdent w_x None]) [].          (* x *)
Definition w_var_safe : expr := EFilt (EVar [PIdent w_x None]) [FCall n_safe None].   (* x|safe *)
Definition w_escaped : str := [38; 108; 116; 59; 98; 38; 103; 116; 59; 38; 97; 109; 112; 59].  (* &lt;b&gt;&amp; *)
Definition n_add : str := [97; 100; 100].                             (* add *)
(* a fragment: text, {% set y = x + "<i>" %}, {% for c in y %}{{ c }}{% endfor %}, {% with z = y %}{{ z|upper }}{% endwith %} *)
Definition w_y : str := [121].
Definition w_c : str := [99].
Definition w_z : str := [122].
Definition w_fragment : list node :=
  [ NHtml 0 [97; 32; 98; 10] false false false false;
    NSet w_y (ESimple false false w_var (Some (43, EStr [60; 105; 62])));
    NFor w_c [] (EFilt (EVar [PIdent w_y None]) []) false false
         [NVar (EFilt (EVar [PIdent w_c None]) [])] None;
    NWith [(w_z, EFilt (EVar [PIdent w_y None]) [])]
          [NVar (EFilt (EVar [PIdent w_z None]) [FCall [117; 112; 112; 101; 114] None])] ].
