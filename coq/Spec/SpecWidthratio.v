(* Definitions for the law of {% widthratio current max width [as name] %} on a maximum of
   zero (property C18, third part).  Django computes current / max * width and answers "0"
   when max is 0; the tag's three arguments are converted to floats the way [to_float] says
   (integers and floats are themselves, nil and booleans count as 0, a text has to parse). *)
From PV Require Import Lib.GoFloat Model.Value Model.Doc Model.Exec.
Open Scope N_scope.

(* v converts to a number (every value but a text that is not a number does) *)
Definition numeric (v : val) : Prop := to_float v <> None.

(* v converts to a zero: the integer 0, the floats 0.0 and -0.0, nil, ... *)
Definition zero_number (v : val) : Prop := exists f, to_float v = Some f /\ f_is_zero f = true.

(* the text of the integer 0 *)
Definition text_zero : str := [48].                                         (* 0 *)

(* what the tag does with its result 0 when it has "as name": it binds name to the integer 0
   in the private context of the current frame and writes nothing *)
Definition bind_zero (st : mstate) (name : str) : xres :=
  match set_priv st name (CV (as_value (VInt 0))) with
  | Ok st' => xok [] st'
  | other => xfail [] other
  end.

(* an environment for the examples: one frame, no variables *)
Definition wr_se : senv := mkSenv [] (mkCfg [] [] [] []) false false.
Definition wr_frame : frame := mkF [] [] true 0 1 [].
Definition wr_state : mstate := mkM [wr_frame] [] (mkG 1 []).
Definition wr_r : str := [114].                                             (* r *)
