(* Meaning of the Go fragment of Lib/GoStmt.v, for the loader lookup of template_sets.go
   (gen/LoaderFuncs.v is its translation, regenerated from the Go source on every run):
   resolveFilename, resolveFilenameForLoader, resolveTemplate, isMissing, FromFile, fromFileRelative.

   The interpretation runs over a world that holds
     - set.loaders: the model's loaders (Model/ParseDoc.v, loader), in the set's order;
     - the compile-wide state of the model (gstate): the loaders' access log and the fresh ids;
     - the flag firstTemplateCreated.
   What the functions call and do not define themselves is primitive, and given by the model:
     loader.Abs(base, name)     = [labs i l base name] for the i-th loader l, a parameter of the
                                  interpretation: every loader has an Abs of its own, so the ties
                                  see which loader's Abs is called.  Every loader of the MODEL has
                                  FSLoader's (Lib/Path.v, fsloader_abs): [model_abs]
     loader.Get(name)           = the content the loader's file list holds under exactly [name], as an
                                  io.Reader, with a nil error - or nil and an error when there is none;
                                  either way the access is logged (g_logget: loader index, name, hit/miss)
     io.ReadAll(fd)             = the content of the reader, with a nil error
     newTemplate(set, name, isTplString, buf)
                                = [compile name isTplString buf g], a parameter of the interpretation
                                  (Tie/C11w.v puts the model's compile_src there): a compiled template and
                                  the state afterwards, or a failure; a failure is returned as a non-nil
                                  error whose fields Sender and Filename are given by a second parameter
                                  [fail_ident] (the model's errors carry no file name)
     atomic.StoreUint32(&set.firstTemplateCreated, n)
     fmt.Errorf(...)            = an opaque non-nil error
     &Error{Filename: f, Sender: s, OrigError: e}   = an error value of which Sender and Filename can be read
   A referring template (the tpl argument) is a value of which isTplString and name can be read.

   Third fragment (Lib/GoStmt.v): e[i] on set.loaders panics when i is out of range (LPanic);
   var x T declares x with the zero value of T; for k, v = range set.loaders assigns existing
   variables; a return inside a loop body leaves the function (the interpretation is in
   continuation-passing style: the body simply calls the function's return continuation);
   GSResults declares the named results, and GSReturn [] in such a function returns their
   current values.  There is no defer here (it is stuck), so "assign the results, run the deferred
   calls, return" is just "return".

   A method call is looked up in the translated program first (by receiver type and name), then
   among the primitives.  GEUnknown/GSUnknown give LNotUnderstood; what the meaning does not cover
   is LStuck; a run-time panic of the Go code is LPanic; [d] bounds the call depth (LDepth). *)
From PV Require Import Model.ParseDoc Lib.GoStmt.
From Coq Require Import String Ascii.
Open Scope string_scope.

(* ---------- what the lookup asks the loaders, said without the Go code ---------- *)
(* Ask the loaders, in order and numbered from [idx], for the one name [name]; stop at the first
   that has it.  Every attempt is logged.  The answer: which loader, and the content. *)
Fixpoint ask_all (ls : list loader) (idx : nat) (name : str) (g : gstate)
  : option (nat * loader * str) * gstate :=
  match ls with
  | [] => (None, g)
  | l :: rest =>
      match assoc_get name (l_files l) with
      | Some content => (Some (idx, l, content), g_logget g idx name true)
      | None => ask_all rest (S idx) name (g_logget g idx name false)
      end
  end.

(* The same, when every loader is asked for a name of its own: [nm i l] for the i-th loader l. *)
Fixpoint ask_each (nm : nat -> loader -> str) (ls : list loader) (idx : nat) (g : gstate)
  : option (nat * loader * str) * gstate :=
  match ls with
  | [] => (None, g)
  | l :: rest =>
      match assoc_get (nm idx l) (l_files l) with
      | Some content => (Some (idx, l, content), g_logget g idx (nm idx l) true)
      | None => ask_each nm rest (S idx) (g_logget g idx (nm idx l) false)
      end
  end.

(* the content, when a loader answered *)
Definition content_of (found : option (nat * loader * str)) : option str :=
  match found with Some (_, _, c) => Some c | None => None end.

(* the referring template of a lookup: none (nil), or a template, of which the lookup reads
   isTplString and name *)
Definition referrer := option (bool * str).
Definition ref_isstr (r : referrer) : bool := match r with Some (b, _) => b | None => false end.
Definition ref_name (r : referrer) : str := match r with Some (_, n) => n | None => [] end.
(* what fromFileRelative and isMissing make of it first: a string template counts as no template *)
Definition ref_file_only (r : referrer) : referrer :=
  match r with Some (true, _) => None | _ => r end.

(* what a loader whose Abs is [abs] makes of the name [path] that [r] refers to
   (resolveFilenameForLoader): a string template keeps it, otherwise Abs(the referrer's name, path) *)
Definition resolved_by (abs : str -> str -> str) (r : referrer) (path : str) : str :=
  if ref_isstr r then path else abs (ref_name r) path.
(* every loader of the model has FSLoader's Abs *)
Definition model_abs : nat -> loader -> str -> str -> str := fun _ _ => fsloader_abs.

(* the name the MODEL gives the file that [r] refers to as [fname] (Model/ParseDoc.v: iname, pname) *)
Definition model_name (r : referrer) (fname : str) : str :=
  resolve_filename (ref_isstr r) (ref_name r) fname.
(* the name the GO code asks every loader for, and compiles the file under, in fromFileRelative *)
Definition asked_name (r : referrer) (fname : str) : str :=
  fsloader_abs (ref_name (ref_file_only r)) fname.
(* the name a model fetch of [path] asks every loader for (as Spec/SpecLoaders.v, loader_name) *)
Definition root_name (path : str) : str := fsloader_abs [] path.

(* The model asks the loaders for the same name as the Go code ... *)
Definition same_lookup (r : referrer) (fname : str) : Prop :=
  root_name (model_name r fname) = asked_name r fname.
(* ... and compiles what it finds under the same name *)
Definition same_name (r : referrer) (fname : str) : Prop :=
  model_name r fname = asked_name r fname.
Definition same_lookupb (r : referrer) (fname : str) : bool :=
  str_eqb (root_name (model_name r fname)) (asked_name r fname).
Definition same_nameb (r : referrer) (fname : str) : bool :=
  str_eqb (model_name r fname) (asked_name r fname).

(* ---------- values, world, results ---------- *)
Inductive fail := FErr (kind : N) | FUnmod | FFuel | FPanic (site : N).

Inductive lval :=
| LVNil
| LVBool (b : bool)
| LVInt (n : nat)
| LVStr (s : str)                          (* string or []byte *)
| LVTplRef (isstr : bool) (name : str)     (* a *Template that refers to another one *)
| LVTpl (t : template)                     (* the *Template newTemplate returns *)
| LVLoader (idx : nat) (l : loader)        (* a TemplateLoader: the idx-th loader of the set *)
| LVLoaders (ls : list loader)             (* set.loaders *)
| LVReader (content : str)                 (* the io.Reader a Get returns *)
| LVErr                                    (* a non-nil error of which nothing is read *)
| LVError (sender filename : str)          (* &Error{Sender: .., Filename: .., OrigError: ..} *)
| LVFail (sender filename : str) (why : fail)   (* the error newTemplate returned *)
| LVSet                                    (* the *TemplateSet *)
| LVFlagRef.                               (* &set.firstTemplateCreated *)

Record lworld := mkLW { lw_loaders : list loader; lw_g : gstate; lw_created : bool }.

Inductive lf_res (A : Type) :=
| LOk (a : A)
| LStuck (why : string)
| LPanic (why : string)
| LNotUnderstood (src : string)
| LDepth.
Arguments LOk {A} a. Arguments LStuck {A} why. Arguments LPanic {A} why.
Arguments LNotUnderstood {A} src. Arguments LDepth {A}.

Definition lans := lf_res (list lval * lworld).
Definition lkont := list lval -> lworld -> lans.

Definition lone (k : lval -> lworld -> lans) : lkont :=
  fun vs w => match vs with [v] => k v w | _ => LStuck "single value expected" end.

Fixpoint str_of (s : string) : str :=
  match s with EmptyString => [] | String a r => N_of_ascii a :: str_of r end.

Definition l_is_nil (v : lval) : bool := match v with LVNil => true | _ => false end.

Definition ref_val (r : referrer) : lval :=
  match r with None => LVNil | Some (b, n) => LVTplRef b n end.

Definition set_g (w : lworld) (g : gstate) : lworld := mkLW (lw_loaders w) g (lw_created w).
Definition set_created (w : lworld) (b : bool) : lworld := mkLW (lw_loaders w) (lw_g w) b.

Definition fail_of {A} (r : res A) : fail :=
  match r with Ok _ => FUnmod | Err k => FErr k | Unmod => FUnmod | Fuel => FFuel | Panic s => FPanic s end.
Definition res_of_fail {A} (f : fail) : res A :=
  match f with FErr k => Err k | FUnmod => Unmod | FFuel => Fuel | FPanic s => Panic s end.

(* ---------- variables: a stack of scopes, innermost first (as in Spec/SpecSetFuncs.v) ---------- *)
Definition lscope := list (string * lval).
Definition lenv := list lscope.

Fixpoint lscope_get (x : string) (s : lscope) : option lval :=
  match s with
  | [] => None
  | (y, v) :: r => if String.eqb x y then Some v else lscope_get x r
  end.
Fixpoint lenv_get (x : string) (e : lenv) : option lval :=
  match e with
  | [] => None
  | s :: r => match lscope_get x s with Some v => Some v | None => lenv_get x r end
  end.
Fixpoint lscope_set (x : string) (v : lval) (s : lscope) : option lscope :=
  match s with
  | [] => None
  | (y, u) :: r =>
      if String.eqb x y then Some ((y, v) :: r)
      else match lscope_set x v r with Some r' => Some ((y, u) :: r') | None => None end
  end.
Fixpoint lenv_set (x : string) (v : lval) (e : lenv) : option lenv :=
  match e with
  | [] => None
  | s :: r =>
      match lscope_set x v s with
      | Some s' => Some (s' :: r)
      | None => match lenv_set x v r with Some r' => Some (s :: r') | None => None end
      end
  end.
(* x := v : a variable of the innermost scope is assigned, otherwise declared there *)
Definition lenv_define (x : string) (v : lval) (e : lenv) : option lenv :=
  if String.eqb x "_" then Some e else
  match e with
  | [] => None
  | s :: r => match lscope_set x v s with Some s' => Some (s' :: r) | None => Some (((x, v) :: s) :: r) end
  end.
(* var x T : declared in the innermost scope (a second declaration there does not compile in Go) *)
Definition lenv_declare (x : string) (v : lval) (e : lenv) : option lenv :=
  if String.eqb x "_" then Some e else
  match e with
  | [] => None
  | s :: r => match lscope_get x s with Some _ => None | None => Some (((x, v) :: s) :: r) end
  end.
(* x = v : the innermost declaration of x is assigned *)
Definition lenv_assign (x : string) (v : lval) (e : lenv) : option lenv :=
  if String.eqb x "_" then Some e else lenv_set x v e.
Fixpoint lall_lhs (f : string -> lval -> lenv -> option lenv) (xs : list string) (vs : list lval) (e : lenv)
  : option lenv :=
  match xs, vs with
  | [], [] => Some e
  | x :: xs', v :: vs' => match f x v e with Some e' => lall_lhs f xs' vs' e' | None => None end
  | _, _ => None
  end.
Fixpoint lzip_params (xs : list string) (vs : list lval) : option lscope :=
  match xs, vs with
  | [], [] => Some []
  | x :: xs', v :: vs' => match lzip_params xs' vs' with Some s => Some ((x, v) :: s) | None => None end
  | _, _ => None
  end.
Fixpoint lenv_get_all (xs : list string) (e : lenv) : option (list lval) :=
  match xs with
  | [] => Some []
  | x :: r => match lenv_get x e, lenv_get_all r e with
              | Some v, Some vs => Some (v :: vs)
              | _, _ => None
              end
  end.

(* the zero value of a type, by its source text *)
Definition zero_of (ty : string) : option lval :=
  if String.eqb ty "string" then Some (LVStr [])
  else if String.eqb ty "bool" then Some (LVBool false)
  else if String.eqb ty "int" then Some (LVInt 0)
  else if (String.eqb ty "error" || String.eqb ty "io.Reader" || String.eqb ty "TemplateLoader"
           || String.eqb ty "[]byte" || String.eqb ty "*Template" || String.eqb ty "*Error")%bool then Some LVNil
  else None.
Fixpoint declare_all (decls : list (string * string)) (e : lenv) : option lenv :=
  match decls with
  | [] => Some e
  | (x, ty) :: r =>
      match zero_of ty with
      | Some z => match lenv_declare x z e with Some e' => declare_all r e' | None => None end
      | None => None
      end
  end.

(* ---------- comparable values ---------- *)
Definition lval_eqb (a b : lval) : option bool :=
  match a, b with
  | LVBool x, LVBool y => Some (Bool.eqb x y)
  | LVInt x, LVInt y => Some (Nat.eqb x y)
  | LVStr x, LVStr y => Some (str_eqb x y)
  | _, _ => None
  end.

(* the fields Sender and Filename of an error value *)
Definition err_fields (v : lval) : option (str * str) :=
  match v with
  | LVError s f => Some (s, f)
  | LVFail s f _ => Some (s, f)
  | _ => None
  end.

(* ---------- interpretation ---------- *)
(* the next statement: variables, world *)
Definition lnkont := lenv -> lworld -> lans.

Definition ltype_of (v : lval) : option string :=
  match v with
  | LVSet => Some "TemplateSet"
  | _ => None
  end.
Fixpoint lfind_method (ty m : string) (prog : list gfunc) : option gfunc :=
  match prog with
  | [] => None
  | fn :: r =>
      match gf_recv fn with
      | Some (_, ty') => if (String.eqb ty ty' && String.eqb m (gf_name fn))%bool then Some fn else lfind_method ty m r
      | None => lfind_method ty m r
      end
  end.

(* for k, v := range ls / for k, v = range ls, over the set's loaders; [bind] declares or assigns
   k and v ([fresh]: in a scope of their own, which ends with the iteration, as the block's does).
   The body gets the continuation of the next iteration; a return in it does not call it. *)
Fixpoint loaders_loop (bodyf : lenv -> lworld -> lnkont -> lans) (fresh : bool) (key val : string)
                      (ls : list loader) (i : nat) (env : lenv) (w : lworld) (kn : lnkont) {struct ls} : lans :=
  match ls with
  | [] => kn env w
  | l :: r =>
      if fresh then
        match lall_lhs lenv_define [key; val] [LVInt i; LVLoader i l] ([] :: env) with
        | Some env1 =>
            bodyf ([] :: env1) w (fun env2 w2 => loaders_loop bodyf fresh key val r (S i) (tl (tl env2)) w2 kn)
        | None => LStuck "range variables"
        end
      else
        match lall_lhs lenv_assign [key; val] [LVInt i; LVLoader i l] env with
        | Some env1 =>
            bodyf ([] :: env1) w (fun env2 w2 => loaders_loop bodyf fresh key val r (S i) (tl env2) w2 kn)
        | None => LStuck "range assigns a variable that is not declared"
        end
  end.

(* what a translated function starts with: the names of its named results, the statements after
   their declaration, and the one scope that holds the receiver, the parameters and the named
   results (with their zero values) *)
Definition lf_call_env (fn : gfunc) (recv : lval) (args : list lval) : option (list string * list gstmt * lenv) :=
  match lzip_params (gf_params fn) args with
  | None => None
  | Some sc =>
      let sc' := match gf_recv fn with Some (r, _) => (r, recv) :: sc | None => sc end in
      let '(decls, body) := match gf_body fn with GSResults d :: b => (d, b) | b => ([], b) end in
      match declare_all decls [sc'] with
      | Some env0 => Some (map fst decls, body, env0)
      | None => None
      end
  end.

Section Interp.
  Variable prog : list gfunc.                     (* the translated functions *)
  (* loader.Abs(base, name) of the i-th loader l *)
  Variable labs : nat -> loader -> str -> str -> str.
  (* newTemplate(set, name, isTplString, buf) in state g *)
  Variable compile : str -> bool -> str -> gstate -> res (template * gstate).
  (* Sender and Filename of the error a failing newTemplate(set, name, _, buf) in state g returns *)
  Variable fail_ident : str -> str -> gstate -> str * str.

  Section Body.
    (* a method call one level down *)
    Variable callr : lval -> string -> list lval -> lworld -> lkont -> lans.

    Definition lfield_of (v : lval) (f : string) (w : lworld) : lf_res lval :=
      match v with
      | LVSet =>
          if String.eqb f "loaders" then LOk (LVLoaders (lw_loaders w))
          else if String.eqb f "firstTemplateCreated" then LStuck "firstTemplateCreated is accessed atomically"
          else LStuck "a field of TemplateSet that the world does not hold"
      | LVTplRef b n =>
          if String.eqb f "isTplString" then LOk (LVBool b)
          else if String.eqb f "name" then LOk (LVStr n)
          else LStuck "a field of Template that a referring template does not show"
      | LVError s fn | LVFail s fn _ =>
          if String.eqb f "Sender" then LOk (LVStr s)
          else if String.eqb f "Filename" then LOk (LVStr fn)
          else LStuck "a field of Error other than Sender and Filename"
      | LVNil => LPanic "nil pointer dereference"
      | _ => LStuck "field of a value without fields"
      end.

    Definition lpkg_call (pkg fn : string) (args : list lval) (w : lworld) (k : lkont) : lans :=
      if (String.eqb pkg "atomic" && String.eqb fn "StoreUint32")%bool then
        match args with
        | [LVFlagRef; LVInt n] => k [] (set_created w (negb (Nat.eqb n 0)))
        | _ => LStuck "atomic.StoreUint32: arguments"
        end
      else if (String.eqb pkg "fmt" && String.eqb fn "Errorf")%bool then
        match args with
        | LVStr _ :: _ => k [LVErr] w
        | _ => LStuck "fmt.Errorf: arguments"
        end
      else if (String.eqb pkg "io" && String.eqb fn "ReadAll")%bool then
        match args with
        | [LVReader c] => k [LVStr c; LVNil] w
        | _ => LStuck "io.ReadAll: argument"
        end
      else if (String.eqb pkg "" && String.eqb fn "newTemplate")%bool then
        match args with
        | [LVSet; LVStr name; LVBool isstr; LVStr buf] =>
            match compile name isstr buf (lw_g w) with
            | Ok (t, g') => k [LVTpl t; LVNil] (set_g w g')
            | r => let id := fail_ident name buf (lw_g w) in k [LVNil; LVFail (fst id) (snd id) (fail_of r)] w
            end
        | _ => LStuck "newTemplate: arguments"
        end
      else LStuck "a function that is neither translated nor a primitive".

    (* an expression: its values (a call may give several) and the world afterwards go to k *)
    Fixpoint lf_eval (e : gexpr) (env : lenv) (w : lworld) (k : lkont) {struct e} : lans :=
      match e with
      | GEVar x =>
          match lenv_get x env with
          | Some v => k [v] w
          | None => LStuck "unbound variable"
          end
      | GENil => k [LVNil] w
      | GEStr s => k [LVStr (str_of s)] w
      | GEBool b => k [LVBool b] w
      | GEInt n => k [LVInt n] w
      | GEField e1 f =>
          lf_eval e1 env w (lone (fun v w1 =>
            match lfield_of v f w1 with
            | LOk x => k [x] w1 | LStuck s => LStuck s | LPanic s => LPanic s
            | LNotUnderstood s => LNotUnderstood s | LDepth => LDepth
            end))
      | GEAddr e1 =>
          match e1 with
          | GEField e2 f =>
              lf_eval e2 env w (lone (fun v w1 =>
                match v with
                | LVSet => if String.eqb f "firstTemplateCreated" then k [LVFlagRef] w1
                           else LStuck "address of a field other than firstTemplateCreated"
                | _ => LStuck "address of a field of something that is not the set"
                end))
          | _ => LStuck "address of something that is not a field"
          end
      | GEIndex e1 i =>
          lf_eval e1 env w (lone (fun v w1 => lf_eval i env w1 (lone (fun iv w2 =>
            match v, iv with
            | LVLoaders ls, LVInt n =>
                match nth_error ls n with
                | Some l => k [LVLoader n l] w2
                | None => LPanic "index out of range"
                end
            | _, _ => LStuck "index of something that is not set.loaders"
            end))))
      | GEMethod r m args =>
          lf_eval r env w (lone (fun v w1 =>
            (fix evl (l : list gexpr) (w : lworld) (k' : lkont) {struct l} : lans :=
               match l with
               | [] => k' [] w
               | a :: rest => lf_eval a env w (lone (fun x w2 => evl rest w2 (fun xs w3 => k' (x :: xs) w3)))
               end) args w1 (fun vs w2 => callr v m vs w2 k)))
      | GECall pkg fn args =>
          (fix evl (l : list gexpr) (w : lworld) (k' : lkont) {struct l} : lans :=
             match l with
             | [] => k' [] w
             | a :: rest => lf_eval a env w (lone (fun x w2 => evl rest w2 (fun xs w3 => k' (x :: xs) w3)))
             end) args w (fun vs w1 => lpkg_call pkg fn vs w1 k)
      | GEAddrStruct ty fields =>
          (* the field values in source order; Sender and Filename are kept (absent: the zero value "") *)
          (fix evf (l : list (string * gexpr)) (s fn : str) (w : lworld) (k' : str -> str -> lworld -> lans) {struct l} : lans :=
             match l with
             | [] => k' s fn w
             | (f, a) :: rest =>
                 lf_eval a env w (lone (fun x w2 =>
                   if String.eqb f "Sender" then
                     match x with LVStr y => evf rest y fn w2 k' | _ => LStuck "Error.Sender is a string" end
                   else if String.eqb f "Filename" then
                     match x with LVStr y => evf rest s y w2 k' | _ => LStuck "Error.Filename is a string" end
                   else evf rest s fn w2 k'))
             end) fields [] [] w (fun s fn w1 => if String.eqb ty "Error" then k [LVError s fn] w1
                                                 else LStuck "a struct other than Error")
      | GENotNil e1 => lf_eval e1 env w (lone (fun v w1 => k [LVBool (negb (l_is_nil v))] w1))
      | GEIsNil e1 => lf_eval e1 env w (lone (fun v w1 => k [LVBool (l_is_nil v)] w1))
      | GENot e1 =>
          lf_eval e1 env w (lone (fun v w1 =>
            match v with LVBool b => k [LVBool (negb b)] w1 | _ => LStuck "! of a value that is not a boolean" end))
      | GEAnd a b =>
          lf_eval a env w (lone (fun v w1 =>
            match v with
            | LVBool true => lf_eval b env w1 (lone (fun u w2 =>
                               match u with LVBool _ => k [u] w2 | _ => LStuck "&& of a value that is not a boolean" end))
            | LVBool false => k [LVBool false] w1
            | _ => LStuck "&& of a value that is not a boolean"
            end))
      | GEOr a b =>
          lf_eval a env w (lone (fun v w1 =>
            match v with
            | LVBool false => lf_eval b env w1 (lone (fun u w2 =>
                                match u with LVBool _ => k [u] w2 | _ => LStuck "|| of a value that is not a boolean" end))
            | LVBool true => k [LVBool true] w1
            | _ => LStuck "|| of a value that is not a boolean"
            end))
      | GEEq a b =>
          lf_eval a env w (lone (fun x w1 => lf_eval b env w1 (lone (fun y w2 =>
            match lval_eqb x y with Some r => k [LVBool r] w2 | None => LStuck "== of values that are not comparable here" end))))
      | GENe a b =>
          lf_eval a env w (lone (fun x w1 => lf_eval b env w1 (lone (fun y w2 =>
            match lval_eqb x y with Some r => k [LVBool (negb r)] w2 | None => LStuck "!= of values that are not comparable here" end))))
      | GEConv ty e1 =>
          lf_eval e1 env w (lone (fun v w1 =>
            match v with
            | LVStr _ => if (String.eqb ty "[]byte" || String.eqb ty "string")%bool then k [v] w1
                         else LStuck "unknown conversion"
            | _ => LStuck "conversion of a value that is not a string or []byte"
            end))
      | GEEmptyBytes => k [LVStr []] w
      | GELen _ | GEIndexOk _ _ | GEMakeMap | GEAdd _ _ | GEGt _ _
      | GETypeAssertOk _ _ | GEAppend _ _ | GEEmptySlice _ | GERem _ _ => LStuck "an expression that the loader lookup has no meaning for"
      | GEUnknown src => LNotUnderstood src
      end.

    Fixpoint lf_eval_each (es : list gexpr) (env : lenv) (w : lworld) (k : lkont) : lans :=
      match es with
      | [] => k [] w
      | a :: rest => lf_eval a env w (lone (fun x w2 => lf_eval_each rest env w2 (fun xs w3 => k (x :: xs) w3)))
      end.
    (* the right-hand side of an assignment / the operands of return: one expression that gives all
       the values (a call), or one value per expression *)
    Definition lf_eval_rhs (es : list gexpr) (env : lenv) (w : lworld) (k : lkont) : lans :=
      match es with
      | [e] => lf_eval e env w k
      | _ => lf_eval_each es env w k
      end.

    (* a statement: kn continues with the next statement, kr returns from the function;
       [rn]: the names of the function's named results *)
    Fixpoint lf_exec (rn : list string) (s : gstmt) (env : lenv) (w : lworld) (kn : lnkont) (kr : lkont) {struct s} : lans :=
      let exl := fix exl (l : list gstmt) (env : lenv) (w : lworld) (kn' : lnkont) {struct l} : lans :=
        match l with
        | [] => kn' env w
        | s1 :: r => lf_exec rn s1 env w (fun env1 w1 => exl r env1 w1 kn') kr
        end in
      match s with
      | GSDefine lhs rhs =>
          lf_eval_rhs rhs env w (fun vs w1 =>
            match lall_lhs lenv_define lhs vs env with
            | Some env1 => kn env1 w1
            | None => LStuck "assignment mismatch"
            end)
      | GSAssign lhs rhs =>
          lf_eval_rhs rhs env w (fun vs w1 =>
            match lall_lhs lenv_assign lhs vs env with
            | Some env1 => kn env1 w1
            | None => LStuck "assignment mismatch or undeclared variable"
            end)
      | GSVar names ty =>
          match zero_of ty with
          | Some z =>
              match lall_lhs lenv_declare names (map (fun _ => z) names) env with
              | Some env1 => kn env1 w
              | None => LStuck "a variable declared twice in one scope"
              end
          | None => LStuck "var of a type whose zero value is not given"
          end
      | GSIf init c thn els =>
          (* one scope for the init statement, one for the chosen block; both end with the if *)
          exl init ([] :: env) w (fun env1 w1 =>
            lf_eval c env1 w1 (lone (fun v w2 =>
              match v with
              | LVBool b =>
                  if b then exl thn ([] :: env1) w2 (fun env2 w3 => kn (tl (tl env2)) w3)
                  else exl els ([] :: env1) w2 (fun env2 w3 => kn (tl (tl env2)) w3)
              | _ => LStuck "condition is not a boolean"
              end)))
      | GSReturn es =>
          match es, rn with
          | [], _ :: _ =>                              (* a bare return: the named results, as they are now *)
              match lenv_get_all rn env with
              | Some vs => kr vs w
              | None => LStuck "a named result is not in scope"
              end
          | _, _ => lf_eval_rhs es env w (fun vs w1 => kr vs w1)
          end
      | GSExpr e => lf_eval e env w (fun _ w1 => kn env w1)
      | GSRange key val coll body =>
          lf_eval coll env w (lone (fun v w1 =>
            match v with
            | LVLoaders ls => loaders_loop (fun env' w' kn' => exl body env' w' kn') true key val ls 0 env w1 kn
            | _ => LStuck "range over a value that is not set.loaders"
            end))
      | GSRangeSet key val coll body =>
          lf_eval coll env w (lone (fun v w1 =>
            match v with
            | LVLoaders ls => loaders_loop (fun env' w' kn' => exl body env' w' kn') false key val ls 0 env w1 kn
            | _ => LStuck "range over a value that is not set.loaders"
            end))
      | GSResults _ => LStuck "the named results are declared by the first statement of a body only"
      | GSMapStore _ _ _ | GSFieldStore _ _ _ | GSDelete _ _ | GSDefer _ | GSBreak | GSIncField _ _ =>
          LStuck "a statement that the loader lookup has no meaning for"
      | GSUnknown src => LNotUnderstood src
      end.

    Fixpoint lf_exec_list (rn : list string) (l : list gstmt) (env : lenv) (w : lworld) (kn : lnkont) (kr : lkont) : lans :=
      match l with
      | [] => kn env w
      | s1 :: r => lf_exec rn s1 env w (fun env1 w1 => lf_exec_list rn r env1 w1 kn kr) kr
      end.

    (* a translated function: receiver and parameters bound, the named results declared in the same
       scope, the body run, the result count checked *)
    Definition lf_call_func (fn : gfunc) (recv : lval) (args : list lval) (w : lworld) (k : lkont) : lans :=
      match lf_call_env fn recv args with
      | None => LStuck "argument count mismatch, or named results that cannot be declared"
      | Some (rn, body, env0) =>
          lf_exec_list rn body env0 w
            (fun _ w1 => if Nat.eqb (gf_nres fn) 0 then k [] w1 else LStuck "missing return")
            (fun vs w1 => if Nat.eqb (List.length vs) (gf_nres fn) then k vs w1 else LStuck "result count mismatch")
      end.

    (* the primitives: the interface methods of a loader *)
    Definition lbuiltin (recv : lval) (m : string) (args : list lval) (w : lworld) (k : lkont) : lans :=
      match recv with
      | LVLoader i l =>
          if String.eqb m "Abs" then
            match args with
            | [LVStr base; LVStr name] => k [LVStr (labs i l base name)] w
            | _ => LStuck "Abs: arguments"
            end
          else if String.eqb m "Get" then
            match args with
            | [LVStr name] =>
                match assoc_get name (l_files l) with
                | Some c => k [LVReader c; LVNil] (set_g w (g_logget (lw_g w) i name true))
                | None => k [LVNil; LVErr] (set_g w (g_logget (lw_g w) i name false))
                end
            | _ => LStuck "Get: argument"
            end
          else LStuck "unknown method of TemplateLoader"
      | LVNil => LPanic "method call on nil"
      | _ => LStuck "a method that is neither translated nor a primitive"
      end.
  End Body.

  (* recv.m(args) in world w; the results and the world afterwards go to k.  [deeper] runs the calls
     that the called function makes. *)
  Definition lcallT := lval -> string -> list lval -> lworld -> lkont -> lans.
  Definition lf_call_step (deeper : lcallT) : lcallT :=
    fun recv m args w k =>
      match match ltype_of recv with Some ty => lfind_method ty m prog | None => None end with
      | Some fn => lf_call_func deeper fn recv args w k
      | None => lbuiltin recv m args w k
      end.
  Fixpoint lf_call (d : nat) : lcallT :=
    match d with
    | O => fun _ _ _ _ _ => LDepth
    | S d' => lf_call_step (lf_call d')
    end.

  (* the whole run of set.m(args) *)
  Definition loader_call (d : nat) (m : string) (args : list lval) (w : lworld) : lans :=
    lf_call d LVSet m args w (fun vs w' => LOk (vs, w')).
End Interp.

(* ---------- "fetch, then the compile primitive", said without the Go code ---------- *)
(* Ask every loader for its name [nm i l]; compile what the first holder (j, l) has under the name
   [cname j l]; if nobody has it, the error is a "fromfile" error about [ename].  The flag
   firstTemplateCreated is set. *)
Definition lookup_then_compile (compile : str -> bool -> str -> gstate -> res (template * gstate))
                               (fail_ident : str -> str -> gstate -> str * str)
                               (all : list loader) (nm cname : nat -> loader -> str) (ename : str) (g : gstate) : lans :=
  match ask_each nm all 0 g with
  | (Some (j, l, content), g1) =>
      match compile (cname j l) false content g1 with
      | Ok (t, g2) => LOk ([LVTpl t; LVNil], mkLW all g2 true)
      | r => LOk ([LVNil; LVFail (fst (fail_ident (cname j l) content g1)) (snd (fail_ident (cname j l) content g1)) (fail_of r)],
                 mkLW all g1 true)
      end
  | (None, g1) => LOk ([LVNil; LVError (str_of "fromfile") ename], mkLW all g1 true)
  end.

(* the same when every loader is asked for the one name [asked] and the compile name is fixed *)
Definition fetch_then_compile (compile : str -> bool -> str -> gstate -> res (template * gstate))
                              (fail_ident : str -> str -> gstate -> str * str)
                              (all : list loader) (asked cname ename : str) (g : gstate) : lans :=
  lookup_then_compile compile fail_ident all (fun _ _ => asked) (fun _ _ => cname) ename g.

(* the four values resolveTemplate returns, from what the loaders answered *)
Definition lookup_values (nm : nat -> loader -> str) (path : str) (found : option (nat * loader * str)) : list lval :=
  match found with
  | Some (j, l, content) => [LVStr (nm j l); LVLoader j l; LVReader content; LVNil]
  | None => [LVStr path; LVNil; LVNil; LVErr]
  end.

(* ---------- reading a run back ---------- *)
(* resolveTemplate: (name, loader, fd, err) - the content found (or none), and the state afterwards *)
Definition read_lookup (r : lans) : option (option str * gstate) :=
  match r with
  | LOk ([LVStr _; LVLoader _ _; LVReader c; LVNil], w) => Some (Some c, lw_g w)
  | LOk ([LVStr _; LVNil; LVNil; LVErr], w) => Some (None, lw_g w)
  | _ => None
  end.

(* FromFile, fromFileRelative: ( *Template, error) as an outcome of the model's compile_file; the
   error with Sender "fromfile" that the functions make themselves is the model's error 4 *)
Definition read_compiled (r : lans) : option (res (template * gstate)) :=
  match r with
  | LOk ([LVTpl t; LVNil], w) => Some (Ok (t, lw_g w))
  | LOk ([LVNil; LVError s _], w) => if str_eqb s (str_of "fromfile") then Some (Err 4) else None
  | LOk ([LVNil; LVFail _ _ f], w) => Some (res_of_fail f)
  | _ => None
  end.

(* the error of a failed FromFile / fromFileRelative, and the state it leaves *)
Definition read_error_value (r : lans) : option (lval * gstate) :=
  match r with
  | LOk ([LVNil; e], w) => if l_is_nil e then None else Some (e, lw_g w)
  | _ => None
  end.

(* a bool *)
Definition read_bool (r : lans) : option bool :=
  match r with LOk ([LVBool b], _) => Some b | _ => None end.

(* a [fail_ident] for examples: the errors of newTemplate are parse errors of the file itself *)
Definition parser_ident : str -> str -> gstate -> str * str := fun name _ _ => (str_of "parser", name).

(* ---------- for examples ---------- *)
Definition c11w_loader (fs : list (string * string)) : loader :=
  mkLoader (map (fun p => (str_of (fst p), str_of (snd p))) fs).
(* a compile primitive that compiles nothing *)
Definition c11w_no_compile : str -> bool -> str -> gstate -> res (template * gstate) := fun _ _ _ _ => Unmod.
Definition c11w_g0 : gstate := mkG 1 [].
(* the template loaded as FromFile("/r/a.tpl"); a string template *)
Definition c11w_rooted : referrer := Some (false, str_of "/r/a.tpl").
Definition c11w_string : referrer := Some (true, str_of "<string>").
