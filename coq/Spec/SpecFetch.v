(* What "no name is fetched that the templates involved do not reference" means (property C11,
   whole compilation).  Three notions, none of which mentions the parser:

   1. The names a template source NAMES: the literal strings that directly follow the tag name
      of an include / extends / import / ssi tag, read off the token list the lexer produces:
      "{%", then the identifier include / extends / import / ssi, then a string token.  This is
      a reading of the SOURCE TEXT (what a person sees in the file), deliberately generous: a
      tag inside a {% comment %} block, or one the parser later rejects, still counts as
      naming its file - the theorem is an upper bound on what is fetched, so a generous
      "names" only asks less of the reader's trust in the parser, never more of the loaders.
      A name computed at run time ({% include somevar %}) is NOT named by the source: nothing
      is fetched for it during compilation.
   2. The file a name refers to: the name as the first loader resolves it relative to the
      referring template ([resolved_from] = resolve_filename for a file template).
   3. [reach se entry]: the least set of file names containing [entry] and closed under
      "p is in the set, the loaders hold a source for p, that source names n  =>
      resolved_from p n is in the set".  "The source the loaders hold for p" is the content of
      the first loader, in list order, that has the loader name of p. *)
From PV Require Import Model.ParseDoc Spec.SpecLoaders.
Open Scope N_scope.

(* ---------- 1. the names a source names ---------- *)
Definition kw_include : str := [105; 110; 99; 108; 117; 100; 101] (* include *).
Definition kw_extends : str := [101; 120; 116; 101; 110; 100; 115] (* extends *).
Definition kw_import : str := [105; 109; 112; 111; 114; 116] (* import *).
Definition kw_ssi : str := [115; 115; 105] (* ssi *).
Definition ref_tags : list str := [kw_include; kw_extends; kw_import; kw_ssi].

Definition is_tag_open (t : token) : bool := is_sym t [123; 37] (* {% *).

(* [ts] are the tokens that follow a "{%": a referring tag name followed by a string *)
Definition names_here (ts : list token) : list str :=
  match ts with
  | nm :: s :: _ =>
      if is_typ nm TIdentifier && str_in (tval nm) ref_tags && is_typ s TString then [tval s] else []
  | _ => []
  end.

Fixpoint names_in_tokens (ts : list token) : list str :=
  match ts with
  | [] => []
  | t :: r => (if is_tag_open t then names_here r else []) ++ names_in_tokens r
  end.

Definition names_in_source (src : str) : list str :=
  match lex src with
  | LexOk toks => names_in_tokens toks
  | _ => []
  end.

(* ---------- 2. the file a name refers to ---------- *)
Definition resolved_from (referrer name : str) : str := resolve_filename false referrer name.

(* ---------- 3. the files reachable from an entry file through literal references ---------- *)
Fixpoint first_holding (ls : list loader) (n : str) : option str :=
  match ls with
  | [] => None
  | l :: rest => match assoc_get n (l_files l) with
                 | Some c => Some c
                 | None => first_holding rest n
                 end
  end.
Definition source_of (se : senv) (p : str) : option str := first_holding (se_loaders se) (loader_name p).

Inductive reach (se : senv) (entry : str) : str -> Prop :=
| reach_entry : reach se entry entry
| reach_ref : forall p src n,
    reach se entry p -> source_of se p = Some src -> In n (names_in_source src) ->
    reach se entry (resolved_from p n).

(* the same set, computed level by level (for examples and for checking a concrete world) *)
Definition refs_of (se : senv) (p : str) : list str :=
  match source_of se p with
  | Some src => map (resolved_from p) (names_in_source src)
  | None => []
  end.
Fixpoint reach_upto (se : senv) (k : nat) (entry : str) : list str :=
  match k with
  | O => [entry]
  | S k' => let l := reach_upto se k' entry in l ++ flat_map (refs_of se) l
  end.

(* ---------- the log ---------- *)
(* the entries [g'] has in addition to [g] (the log is kept newest first) *)
Definition log_added (g g' : gstate) (added : list logent) : Prop := g_log g' = added ++ g_log g.
(* a log entry is an attempt for the file name [p] *)
Definition attempt_for (p : str) (e : logent) : Prop := attempt_name e = loader_name p.

(* ---------- a 3-file world (plus one file nobody references) ---------- *)
Definition fx_files : list (str * str) :=
  [([109; 97; 105; 110] (* main *),
    [123; 37; 32; 101; 120; 116; 101; 110; 100; 115; 32; 34; 98; 97; 115; 101; 34; 32; 37; 125; 123; 37; 32; 105; 110; 99; 108; 117; 100; 101; 32; 34; 115; 117; 98; 47; 112; 97; 114; 116; 34; 32; 37; 125; 123; 37; 32; 105; 110; 99; 108; 117; 100; 101; 32; 119; 104; 111; 32; 37; 125]
    (* {% extends "base" %}{% include "sub/part" %}{% include who %} *));
   ([115; 117; 98; 47; 112; 97; 114; 116] (* sub/part *),
    [123; 37; 32; 115; 115; 105; 32; 34; 100; 101; 101; 112; 34; 32; 37; 125; 123; 37; 32; 105; 110; 99; 108; 117; 100; 101; 32; 34; 103; 111; 110; 101; 34; 32; 105; 102; 95; 101; 120; 105; 115; 116; 115; 32; 37; 125]
    (* {% ssi "deep" %}{% include "gone" if_exists %} *));
   ([98; 97; 115; 101] (* base *),
    [123; 37; 32; 98; 108; 111; 99; 107; 32; 98; 32; 37; 125; 123; 37; 32; 101; 110; 100; 98; 108; 111; 99; 107; 32; 37; 125]
    (* {% block b %}{% endblock %} *));
   ([117; 110; 117; 115; 101; 100] (* unused *),
    [85]
    (* U *))].
Definition fx_files2 : list (str * str) :=
  [([115; 117; 98; 47; 100; 101; 101; 112] (* sub/deep *),
    [68]
    (* D *));
   ([98; 97; 115; 101] (* base *),
    [83; 72; 65; 68; 79; 87; 69; 68]
    (* SHADOWED *))].
Definition fx_cfg : pcfg := mkCfg Tables.registered_filters Tables.registered_tags [] [].
Definition fx_se : senv := mkSenv [mkLoader fx_files; mkLoader fx_files2] fx_cfg false false.
Definition fx_main : str := [109; 97; 105; 110] (* main *).
Definition fx_g0 : gstate := mkG 1 [].
Definition fx_base : str := [98; 97; 115; 101] (* base *).
Definition fx_part : str := [115; 117; 98; 47; 112; 97; 114; 116] (* sub/part *).
Definition fx_deep : str := [115; 117; 98; 47; 100; 101; 101; 112] (* sub/deep *).
Definition fx_gone : str := [115; 117; 98; 47; 103; 111; 110; 101] (* sub/gone *).
Definition fx_unused : str := [117; 110; 117; 115; 101; 100] (* unused *).
(* everything reachable from main: main itself, what it extends and includes (not the include
   of the variable "who"), and what sub/part refers to, resolved against sub/ *)
Definition fx_reachable : list str := [fx_main; fx_base; fx_part; fx_deep; fx_gone].

(* the access log, oldest first, of compiling a file from an empty log *)
Definition compile_log (se : senv) (name : str) : option (list logent) :=
  match compile_file se 1000 name fx_g0 with
  | Ok (_, g) => Some (rev (g_log g))
  | _ => None
  end.

(* a 2-file world for the example about if_exists and an inner error in Props/C11.v (fix D41):
   m = {% include "a" if_exists %},  a = {% include "nope" %}  (nope is nowhere) *)
Definition fy_files : list (str * str) :=
  [([109] (* m *),
    [123; 37; 32; 105; 110; 99; 108; 117; 100; 101; 32; 34; 97; 34; 32; 105; 102; 95; 101; 120; 105; 115; 116; 115; 32; 37; 125]
    (* {% include "a" if_exists %} *));
   ([97] (* a *),
    [123; 37; 32; 105; 110; 99; 108; 117; 100; 101; 32; 34; 110; 111; 112; 101; 34; 32; 37; 125]
    (* {% include "nope" %} *))].
Definition fy_se : senv := mkSenv [mkLoader fy_files] fx_cfg false false.
