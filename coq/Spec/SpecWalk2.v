(* Reference semantics of a dotted AND subscripted name (property C08, second part), written
   from the property text and independent of Model/Exec.v's [walk]/[resolve].  It extends
   Spec/SpecWalk.v's [follow] with the step  a[e] , carrying the value the key expression e
   evaluated to:

     on a list or a string   an integer key indexes; out of range (negative included) is empty;
                             a key that is not an integer (string, float, bool, nil, list...)
                             is empty;
     on a map                a string key looks up; a missing key, or a key that is not a
                             string (nil included), is empty;
     on a struct             the key's text names the field; no such field is empty;
     on anything else        (nil, bool, number) an execution error;
     a nil found on the way  is empty, whatever follows.

   Only an integer is an index ([index_of_key]): no other key is converted to one (pongo2
   used to convert the key with Value.Integer(), so that a["x"] read element 0; repaired,
   fix D38).  The "text" of a key on a struct is Value.String() ([to_string]); where this
   conversion is outside the modelled fragment (the text of a list/map/struct, which contains
   Go type names) the reference answers [NotModelled]. *)
(* Model/Exec.v is imported for the LAST section only (the state type and the names of the
   functions the theorems speak about); the reference above it uses values and contexts alone. *)
From PV Require Import Model.Exec Spec.SpecWalk.
Open Scope N_scope.

Inductive step2 :=
| SName (k : str)      (* a.name *)
| SIndex (i : Z)       (* a.3    *)
| SSub (k : val).      (* a[e], e evaluated to k *)

Inductive outcome := Found (v : val) | Empty | ExecError | NotModelled.

Definition index_of_key (k : val) : option Z :=
  match k with
  | VInt i => Some i                 (* an integer key *)
  | _ => None                        (* any other key is not an index *)
  end.

Definition text_of_key (k : val) : option str :=
  match k with
  | VStr s => Some s
  | _ => to_string k                 (* Value.String() *)
  end.

(* what one step yields: the next value; nothing (the empty value ends the walk); Bad (the step
   does not apply to this kind of value); Outside (the key's reading is not modelled) *)
Inductive step_result := Next (v : val) | Nothing | Bad | Outside.

Definition elem_or_nothing (o : option val) : step_result :=
  match o with None | Some VNil => Nothing | Some v => Next v end.

Definition sub_step (cur k : val) : step_result :=
  match cur with
  | VList _ | VStr _ =>
      match index_of_key k with
      | None => Nothing
      | Some i => match nth_of cur i with Some o => elem_or_nothing o | None => Bad end
      end
  | VMap m =>
      match k with
      | VStr key => elem_or_nothing (assoc_get key m)
      | _ => Nothing
      end
  | VStruct m =>
      match text_of_key k with
      | None => Outside
      | Some name => elem_or_nothing (assoc_get name m)
      end
  | _ => Bad
  end.

Definition one_step (cur : val) (s : step2) : step_result :=
  match s with
  | SName k => match keyed cur with Some m => elem_or_nothing (assoc_get k m) | None => Bad end
  | SIndex i => match nth_of cur i with Some o => elem_or_nothing o | None => Bad end
  | SSub k => sub_step cur k
  end.

Fixpoint follow2 (cur : val) (steps : list step2) : outcome :=
  match steps with
  | [] => Found cur
  | s :: rest =>
      match one_step cur s with
      | Next v => follow2 v rest
      | Nothing => Empty
      | Bad => ExecError
      | Outside => NotModelled
      end
  end.

Definition is_seq (v : val) : bool := match v with VList _ | VStr _ => true | _ => false end.

(* the static steps of Spec/SpecWalk.v, embedded *)
Definition lift_step (s : step) : step2 := match s with SKey k => SName k | SIdx i => SIndex i end.
Definition lift_found (r : found) : outcome :=
  match r with FVal v => Found v | FEmpty => Empty | FError => ExecError end.

(* which step a part of a variable denotes, given what "the key expression e evaluates purely
   to k" means ([keyval], supplied by the theorem: Model/Exec.v's eval, leaving the state as it
   was).  Parts with a call have no step. *)
Section Denotes.
  Variable keyval : expr -> val -> Prop.
  Inductive denotes : part -> step2 -> Prop :=
  | DName : forall k, denotes (PIdent k None) (SName k)
  | DIndex : forall i, denotes (PInt i None) (SIndex i)
  | DSub : forall e k, keyval e k -> denotes (PSub e None) (SSub k).
End Denotes.

(* the lookup order of the first name: private bindings (set, with, for, macro arguments),
   then the public context *)
Definition lookup_name (name : str) (priv pub : list (str * cval)) : option cval :=
  match ctx_get name priv with Some c => Some c | None => ctx_get name pub end.

(* the three levels, for a frame whose public context was built from the caller's context
   [ctx] (a Go map: later entries of the list win) over the set's [globals] *)
Definition lookup_3 (name : str) (priv ctx globals : list (str * cval)) : option cval :=
  match ctx_get name priv with
  | Some c => Some c
  | None => match ctx_get name (rev ctx) with Some c => Some c | None => ctx_get name globals end
  end.

(* what the for tag binds in an iteration over the item (k, vo): the loop information under
   "forloop", the value name (when the item has a value), the key name; the later binding wins
   when names coincide *)
Definition forloop_name : str := [102; 111; 114; 108; 111; 111; 112].
Definition for_binding (name key value : str) (k : val) (vo : option val) (info : val) : option val :=
  if str_eqb name forloop_name then Some info
  else match vo with
       | Some v => if str_eqb name value then Some v else if str_eqb name key then Some k else None
       | None => if str_eqb name key then Some k else None
       end.

(* ---------- reading the model: the vocabulary of the theorems in Props/C08b.v ---------- *)

(* how the reference's outcome shows as a result of the model, in state st *)
Definition answer (safe : bool) (st : mstate) (o : outcome) : res (value * mstate) :=
  match o with
  | Found v => Ok (mkV v safe, st)
  | Empty => Ok (as_value VNil, st)
  | ExecError => Err 3
  | NotModelled => Unmod
  end.

Section Reading.
  Variable se : senv.
  Variable globals : list (str * cval).

  (* "e evaluates purely to the key k in st": with any fuel from f0 on, eval yields k (with
     some safe bit) and leaves the state as it was *)
  Definition pure_key (f0 : nat) (st : mstate) (e : expr) (k : val) : Prop :=
    exists s, forall f, (f0 <= f)%nat -> eval se globals f st e = Ok (mkV k s, st).

  (* the parts of a variable (no calls) denote these steps in st *)
  Definition path_denotes (f0 : nat) (st : mstate) (parts : list part) (steps : list step2) : Prop :=
    Forall2 (denotes (pure_key f0 st)) parts steps.

  (* "in st the name denotes the data x": looking the name up and following any path from it
     gives what the reference gives from x (a nil x is empty whatever follows) *)
  Definition denotes_value (st : mstate) (name : str) (x : value) : Prop :=
    forall f0 g parts steps,
      path_denotes f0 st parts steps -> (length steps + f0 < g)%nat ->
      resolve se globals (S g) st (PIdent name None :: parts) =
      match vv x with
      | VNil => Ok (as_value VNil, st)
      | _ => answer (vsafe x) st (follow2 (vv x) steps)
      end.
End Reading.

(* the for tag: the enclosing loop's information (nil when there is none), and the state in
   which the tag evaluates the object it iterates over - a child frame whose "forloop" is an
   empty loop information *)
Definition for_parent (fr : frame) : val :=
  match ctx_get forloop_name (f_priv fr) with
  | Some (CV v) => if is_loop_struct (vv v) then vv v else VNil
  | _ => VNil
  end.
Definition for_entry_state (st : mstate) (fr : frame) : mstate :=
  push_frame st (with_priv (child_of fr)
    (ctx_set forloop_name (CV (as_value (loop_struct_empty (for_parent fr)))) (f_priv fr))).
