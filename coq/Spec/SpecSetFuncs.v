(* Meaning of the Go fragment of Lib/GoStmt.v, for the template set's functions of
   template_sets.go (gen/SetFuncs.v is their translation, regenerated from the Go source on every
   run): BanTag, BanFilter, CleanCache, FromCache, and the functions that create a template.

   The interpretation runs over a world that holds
     - the set's fields, as the state of the set state machine (Model/SetModel.v, sstate):
         templateCache         s_cache     association list  resolved name -> stamp of the *Template
         bannedTags            s_btags     the keys (every entry of the Go map is true)
         bannedFilters         s_bfilters
         Debug                 s_debug
         firstTemplateCreated  s_created   (0 / 1)
       and what the loader and the compiler need (files, next stamp, fetch counter);
     - the mutex templateCacheMutex as a flag held / not held;
     - the trace of what was done to the mutex and to the cache map, in order.
   What the functions call and do not define themselves is primitive:
     set.FromFile(name)              = fresh_tpl s (s_compile_file s name)   (the model's OFromFile)
     set.resolveFilename(nil, name)  = fsloader_abs [] name                  (the first loader's Abs)
     tags[name], filters[name]       = membership in the tables of registered names (parameters
                                       of the interpretation; Tie/C03w.v puts gen/Tables.v there)
     mu.Lock() / mu.Unlock()         the flag; locking a held mutex and unlocking a free one are
                                       stuck (Go: blocks for ever / fatal error)
     atomic.LoadUint32 / StoreUint32 on &set.firstTemplateCreated
     fmt.Errorf, errors.New, &Error{...}   an opaque non-nil error
     m[k] with comma-ok, m[k] = v, delete(m, k), make(map...), set.f = v on the fields above
   Anything else a function calls goes to the parameter [ext] (an arbitrary function of the name,
   the arguments and the world); the ties of the four state-machine functions hold for every [ext]
   because they never reach it.

   Maps are not first-class here: the value of set.templateCache is "the map the field holds now".
   That is what Go means as long as nothing holds on to a map across an assignment to its field, so
   such an assignment is stuck when a variable holds the map.

   defer: the receiver and the arguments are evaluated when the defer statement runs; the calls run
   last-in-first-out when the function returns (after the operands of return are evaluated) or
   falls off its end.
   for k, v := range xs: xs a []string; no break/continue (the translator leaves them GSUnknown).

   A method call is looked up in the translated program first (by receiver type and name), then
   among the primitives.  GEUnknown/GSUnknown give GNotUnderstood; what the meaning does not cover
   is GStuck; [d] bounds the call depth (GDepth when exceeded). *)
From PV Require Import Model.SetModel Lib.GoStmt.
From Coq Require Import String Ascii.
Open Scope string_scope.

(* ---------- values, world, results ---------- *)
Inductive mapname := MCache | MBannedTags | MBannedFilters | MTags | MFilters.

Inductive sval :=
| SVNil
| SVBool (b : bool)
| SVInt (n : nat)
| SVStr (s : str)                 (* string or []byte *)
| SVStrs (l : list str)           (* []string *)
| SVErr (unmodelled : bool)       (* a non-nil error; true: the model's own RUnmod outcome (out of fuel, ...) *)
| SVTpl (stamp : N)               (* *Template, by the stamp of the object *)
| SVSet                           (* the *TemplateSet *)
| SVMutex                         (* set.templateCacheMutex *)
| SVMap (which : mapname)         (* the map a field of the set holds now / a registry *)
| SVFreshMap                      (* make(map...) *)
| SVFlagRef                       (* &set.firstTemplateCreated *)
| SVOpaque.                       (* anything of which only the presence matters *)

Inductive sevent := EvLock | EvUnlock | EvCacheRead | EvCacheWrite.

Record sworld := mkSW { sw_state : sstate; sw_locked : bool; sw_trace : list sevent }.

Inductive sf_res (A : Type) :=
| GOk (a : A)
| GStuck (why : string)
| GNotUnderstood (src : string)
| GDepth.
Arguments GOk {A} a. Arguments GStuck {A} why. Arguments GNotUnderstood {A} src. Arguments GDepth {A}.

Definition sans := sf_res (list sval * sworld).
Definition skont := list sval -> sworld -> sans.

Definition one (k : sval -> sworld -> sans) : skont :=
  fun vs w => match vs with [v] => k v w | _ => GStuck "single value expected" end.

Fixpoint bytes_of_string (s : string) : str :=
  match s with EmptyString => [] | String a r => N_of_ascii a :: bytes_of_string r end.

Definition is_nil (v : sval) : bool := match v with SVNil => true | _ => false end.

(* ---------- the world: the set's fields ---------- *)
Definition upd_state (w : sworld) (s : sstate) : sworld := mkSW s (sw_locked w) (sw_trace w).
Definition log_event (e : sevent) (w : sworld) : sworld := mkSW (sw_state w) (sw_locked w) (sw_trace w ++ [e]).
Definition set_locked (b : bool) (w : sworld) : sworld := mkSW (sw_state w) b (sw_trace w).

Definition st_set_cache (s : sstate) (c : list (str * N)) : sstate :=
  mkS (s_files s) (s_created s) (s_btags s) (s_bfilters s) c (s_debug s) (s_stamp s) (s_fetches s).
Definition st_set_btags (s : sstate) (l : list str) : sstate :=
  mkS (s_files s) (s_created s) l (s_bfilters s) (s_cache s) (s_debug s) (s_stamp s) (s_fetches s).
Definition st_set_bfilters (s : sstate) (l : list str) : sstate :=
  mkS (s_files s) (s_created s) (s_btags s) l (s_cache s) (s_debug s) (s_stamp s) (s_fetches s).
Definition st_set_debug (s : sstate) (b : bool) : sstate :=
  mkS (s_files s) (s_created s) (s_btags s) (s_bfilters s) (s_cache s) b (s_stamp s) (s_fetches s).
Definition st_set_created (s : sstate) (b : bool) : sstate :=
  mkS (s_files s) b (s_btags s) (s_bfilters s) (s_cache s) (s_debug s) (s_stamp s) (s_fetches s).

(* Go maps as association lists / key lists *)
Definition cache_store (k : str) (st : N) (c : list (str * N)) : list (str * N) :=
  match assoc_get k c with
  | None => (k, st) :: c
  | Some _ => map (fun kv => if str_eqb (fst kv) k then (k, st) else kv) c
  end.
Definition cache_delete (k : str) (c : list (str * N)) : list (str * N) :=
  filter (fun kv => negb (str_eqb (fst kv) k)) c.
Definition keys_store (k : str) (l : list str) : list str := if str_in k l then l else k :: l.
Definition keys_delete (k : str) (l : list str) : list str := filter (fun x => negb (str_eqb x k)) l.

(* ---------- variables: a stack of scopes, innermost first (as in Spec/SpecWrappers.v) ---------- *)
Definition scope := list (string * sval).
Definition venv := list scope.

Fixpoint scope_get (x : string) (s : scope) : option sval :=
  match s with
  | [] => None
  | (y, v) :: r => if String.eqb x y then Some v else scope_get x r
  end.
Fixpoint env_get (x : string) (e : venv) : option sval :=
  match e with
  | [] => None
  | s :: r => match scope_get x s with Some v => Some v | None => env_get x r end
  end.
Fixpoint scope_set (x : string) (v : sval) (s : scope) : option scope :=
  match s with
  | [] => None
  | (y, u) :: r =>
      if String.eqb x y then Some ((y, v) :: r)
      else match scope_set x v r with Some r' => Some ((y, u) :: r') | None => None end
  end.
Fixpoint env_set (x : string) (v : sval) (e : venv) : option venv :=
  match e with
  | [] => None
  | s :: r =>
      match scope_set x v s with
      | Some s' => Some (s' :: r)
      | None => match env_set x v r with Some r' => Some (s :: r') | None => None end
      end
  end.
(* x := v : a variable of the innermost scope is assigned, otherwise declared there *)
Definition env_define (x : string) (v : sval) (e : venv) : option venv :=
  if String.eqb x "_" then Some e else
  match e with
  | [] => None
  | s :: r => match scope_set x v s with Some s' => Some (s' :: r) | None => Some (((x, v) :: s) :: r) end
  end.
(* x = v : the innermost declaration of x is assigned *)
Definition env_assign (x : string) (v : sval) (e : venv) : option venv :=
  if String.eqb x "_" then Some e else env_set x v e.
Fixpoint all_lhs (f : string -> sval -> venv -> option venv) (xs : list string) (vs : list sval) (e : venv)
  : option venv :=
  match xs, vs with
  | [], [] => Some e
  | x :: xs', v :: vs' => match f x v e with Some e' => all_lhs f xs' vs' e' | None => None end
  | _, _ => None
  end.
Fixpoint zip_params (xs : list string) (vs : list sval) : option scope :=
  match xs, vs with
  | [], [] => Some []
  | x :: xs', v :: vs' => match zip_params xs' vs' with Some s => Some ((x, v) :: s) | None => None end
  | _, _ => None
  end.
(* some variable holds the map of field [which] *)
Definition holds_map (which : mapname) (e : venv) : bool :=
  existsb (existsb (fun xv => match snd xv with
                              | SVMap m => match m, which with
                                           | MCache, MCache | MBannedTags, MBannedTags | MBannedFilters, MBannedFilters
                                           | MTags, MTags | MFilters, MFilters => true
                                           | _, _ => false
                                           end
                              | _ => false
                              end)) e.

(* ---------- comparable values ---------- *)
Definition sval_eqb (a b : sval) : option bool :=
  match a, b with
  | SVBool x, SVBool y => Some (Bool.eqb x y)
  | SVInt x, SVInt y => Some (Nat.eqb x y)
  | SVStr x, SVStr y => Some (str_eqb x y)
  | _, _ => None
  end.

(* ---------- the model primitive: set.FromFile ---------- *)
(* ( *Template, error) of the model's FromFile; RUnmod (out of fuel, unmodelled) is carried as an error *)
Definition from_file_values (r : sres) : option (list sval) :=
  match r with
  | RTpl st => Some [SVTpl st; SVNil]
  | RErr => Some [SVNil; SVErr false]
  | RUnmod => Some [SVNil; SVErr true]
  | _ => None
  end.

(* ---------- interpretation ---------- *)
Inductive deferred := DCall (recv : sval) (m : string) (args : list sval).
Definition dstack := list deferred.
(* the next statement: variables, pending defers, world *)
Definition nkont := venv -> dstack -> sworld -> sans.
(* return: values, pending defers, world *)
Definition rkont := list sval -> dstack -> sworld -> sans.

Definition type_of (v : sval) : option string :=
  match v with
  | SVSet => Some "TemplateSet"
  | _ => None
  end.
Fixpoint find_method (ty m : string) (prog : list gfunc) : option gfunc :=
  match prog with
  | [] => None
  | fn :: r =>
      match gf_recv fn with
      | Some (_, ty') => if (String.eqb ty ty' && String.eqb m (gf_name fn))%bool then Some fn else find_method ty m r
      | None => find_method ty m r
      end
  end.

(* for k, v := range l { body }: one scope for k and v, one for the block; both end with the iteration *)
Fixpoint range_loop (bodyf : venv -> dstack -> sworld -> nkont -> sans) (key val : string)
                    (l : list str) (i : nat) (env : venv) (ds : dstack) (w : sworld) (kn : nkont) {struct l} : sans :=
  match l with
  | [] => kn env ds w
  | x :: r =>
      match all_lhs env_define [key; val] [SVInt i; SVStr x] ([] :: env) with
      | Some env1 =>
          bodyf ([] :: env1) ds w (fun env2 ds2 w2 => range_loop bodyf key val r (S i) (tl (tl env2)) ds2 w2 kn)
      | None => GStuck "range variables"
      end
  end.

Section Interp.
  Variable prog : list gfunc.                     (* the translated functions *)
  Variable reg_tags reg_filters : list str.       (* the keys of the registries tags, filters *)
  Variable ext : string -> list sval -> sworld -> list sval * sworld.   (* every other function *)

  Section Body.
    (* a method call one level down *)
    Variable callr : sval -> string -> list sval -> sworld -> skont -> sans.

    Definition field_of (v : sval) (f : string) (w : sworld) : sf_res sval :=
      match v with
      | SVSet =>
          if String.eqb f "Debug" then GOk (SVBool (s_debug (sw_state w)))
          else if String.eqb f "templateCache" then GOk (SVMap MCache)
          else if String.eqb f "bannedTags" then GOk (SVMap MBannedTags)
          else if String.eqb f "bannedFilters" then GOk (SVMap MBannedFilters)
          else if String.eqb f "templateCacheMutex" then GOk SVMutex
          else if String.eqb f "firstTemplateCreated" then GStuck "firstTemplateCreated is read with atomic.LoadUint32"
          else GStuck "a field of TemplateSet that the world does not hold"
      | _ => GStuck "field of a value without fields"
      end.

    Definition pkg_call (pkg fn : string) (args : list sval) (w : sworld) (k : skont) : sans :=
      if (String.eqb pkg "atomic" && String.eqb fn "LoadUint32")%bool then
        match args with
        | [SVFlagRef] => k [SVInt (if s_created (sw_state w) then 1 else 0)] w
        | _ => GStuck "atomic.LoadUint32: argument"
        end
      else if (String.eqb pkg "atomic" && String.eqb fn "StoreUint32")%bool then
        match args with
        | [SVFlagRef; SVInt n] => k [] (upd_state w (st_set_created (sw_state w) (negb (Nat.eqb n 0))))
        | _ => GStuck "atomic.StoreUint32: arguments"
        end
      else if (String.eqb pkg "fmt" && String.eqb fn "Errorf")%bool then
        match args with
        | SVStr _ :: _ => k [SVErr false] w
        | _ => GStuck "fmt.Errorf: arguments"
        end
      else if (String.eqb pkg "errors" && String.eqb fn "New")%bool then
        match args with
        | [SVStr _] => k [SVErr false] w
        | _ => GStuck "errors.New: argument"
        end
      else let '(vs, w') := ext (pkg ++ "." ++ fn) args w in k vs w'.

    (* v, ok := m[key] *)
    Definition index_ok (m : mapname) (key : str) (w : sworld) (k : skont) : sans :=
      match m with
      | MCache =>
          match assoc_get key (s_cache (sw_state w)) with
          | Some st => k [SVTpl st; SVBool true] (log_event EvCacheRead w)
          | None => k [SVNil; SVBool false] (log_event EvCacheRead w)
          end
      | MBannedTags => let b := str_in key (s_btags (sw_state w)) in k [SVBool b; SVBool b] w
      | MBannedFilters => let b := str_in key (s_bfilters (sw_state w)) in k [SVBool b; SVBool b] w
      | MTags => let b := str_in key reg_tags in k [(if b then SVOpaque else SVNil); SVBool b] w
      | MFilters => let b := str_in key reg_filters in k [(if b then SVOpaque else SVNil); SVBool b] w
      end.

    (* an expression: its values (a call may give several) and the world afterwards go to k *)
    Fixpoint sf_eval (e : gexpr) (env : venv) (w : sworld) (k : skont) {struct e} : sans :=
      match e with
      | GEVar x =>
          match env_get x env with
          | Some v => k [v] w
          | None =>                                    (* package-level variables: the registries *)
              if String.eqb x "tags" then k [SVMap MTags] w
              else if String.eqb x "filters" then k [SVMap MFilters] w
              else GStuck "unbound variable"
          end
      | GENil => k [SVNil] w
      | GEStr s => k [SVStr (bytes_of_string s)] w
      | GEBool b => k [SVBool b] w
      | GEInt n => k [SVInt n] w
      | GEField e1 f =>
          sf_eval e1 env w (one (fun v w1 =>
            match field_of v f w1 with GOk x => k [x] w1 | GStuck s => GStuck s
                                     | GNotUnderstood s => GNotUnderstood s | GDepth => GDepth end))
      | GEAddr e1 =>
          match e1 with
          | GEField e2 f =>
              sf_eval e2 env w (one (fun v w1 =>
                match v with
                | SVSet => if String.eqb f "firstTemplateCreated" then k [SVFlagRef] w1
                           else GStuck "address of a field other than firstTemplateCreated"
                | _ => GStuck "address of a field of something that is not the set"
                end))
          | _ => GStuck "address of something that is not a field"
          end
      | GEMethod r m args =>
          sf_eval r env w (one (fun v w1 =>
            (fix evl (l : list gexpr) (w : sworld) (k' : skont) {struct l} : sans :=
               match l with
               | [] => k' [] w
               | a :: rest => sf_eval a env w (one (fun x w2 => evl rest w2 (fun xs w3 => k' (x :: xs) w3)))
               end) args w1 (fun vs w2 => callr v m vs w2 k)))
      | GECall pkg fn args =>
          (fix evl (l : list gexpr) (w : sworld) (k' : skont) {struct l} : sans :=
             match l with
             | [] => k' [] w
             | a :: rest => sf_eval a env w (one (fun x w2 => evl rest w2 (fun xs w3 => k' (x :: xs) w3)))
             end) args w (fun vs w1 => pkg_call pkg fn vs w1 k)
      | GEAddrStruct ty fields =>
          (fix evf (l : list (string * gexpr)) (w : sworld) (k' : sworld -> sans) {struct l} : sans :=
             match l with
             | [] => k' w
             | (_, a) :: rest => sf_eval a env w (one (fun _ w2 => evf rest w2 k'))
             end) fields w (fun w1 => if String.eqb ty "Error" then k [SVErr false] w1
                                      else GStuck "a struct other than Error")
      | GEConv ty e1 =>
          sf_eval e1 env w (one (fun v w1 =>
            match v with
            | SVStr _ => if (String.eqb ty "[]byte" || String.eqb ty "string")%bool then k [v] w1
                         else GStuck "unknown conversion"
            | _ => GStuck "conversion of a value that is not a string or []byte"
            end))
      | GEEmptyBytes => k [SVStr []] w
      | GENotNil e1 => sf_eval e1 env w (one (fun v w1 => k [SVBool (negb (is_nil v))] w1))
      | GEIsNil e1 => sf_eval e1 env w (one (fun v w1 => k [SVBool (is_nil v)] w1))
      | GENot e1 =>
          sf_eval e1 env w (one (fun v w1 =>
            match v with SVBool b => k [SVBool (negb b)] w1 | _ => GStuck "! of a value that is not a boolean" end))
      | GEAnd a b =>
          sf_eval a env w (one (fun v w1 =>
            match v with
            | SVBool true => sf_eval b env w1 (one (fun u w2 =>
                               match u with SVBool _ => k [u] w2 | _ => GStuck "&& of a value that is not a boolean" end))
            | SVBool false => k [SVBool false] w1
            | _ => GStuck "&& of a value that is not a boolean"
            end))
      | GEOr a b =>
          sf_eval a env w (one (fun v w1 =>
            match v with
            | SVBool false => sf_eval b env w1 (one (fun u w2 =>
                                match u with SVBool _ => k [u] w2 | _ => GStuck "|| of a value that is not a boolean" end))
            | SVBool true => k [SVBool true] w1
            | _ => GStuck "|| of a value that is not a boolean"
            end))
      | GEEq a b =>
          sf_eval a env w (one (fun x w1 => sf_eval b env w1 (one (fun y w2 =>
            match sval_eqb x y with Some r => k [SVBool r] w2 | None => GStuck "== of values that are not comparable here" end))))
      | GENe a b =>
          sf_eval a env w (one (fun x w1 => sf_eval b env w1 (one (fun y w2 =>
            match sval_eqb x y with Some r => k [SVBool (negb r)] w2 | None => GStuck "!= of values that are not comparable here" end))))
      | GELen e1 =>
          sf_eval e1 env w (one (fun v w1 =>
            match v with
            | SVStr s => k [SVInt (List.length s)] w1
            | SVStrs l => k [SVInt (List.length l)] w1
            | _ => GStuck "len of a value that is not a string or a []string"
            end))
      | GEIndexOk m key =>
          sf_eval m env w (one (fun mv w1 => sf_eval key env w1 (one (fun kv w2 =>
            match mv, kv with
            | SVMap which, SVStr s => index_ok which s w2 k
            | _, _ => GStuck "index of something that is not a map with string keys"
            end))))
      | GEMakeMap => k [SVFreshMap] w
      | GEIndex _ _ => GStuck "an expression of the third fragment (Lib/GoStmt.v): no meaning for the set's state machine"
      | GEAdd _ _ | GEGt _ _ => GStuck "an expression of the fourth fragment (Lib/GoStmt.v): no meaning for the set's state machine"
      | GETypeAssertOk _ _ | GEAppend _ _ | GEEmptySlice _ | GERem _ _ =>
          GStuck "an expression of the fifth fragment (Lib/GoStmt.v): no meaning for the set's state machine"
      | GEUnknown src => GNotUnderstood src
      end.

    Fixpoint sf_eval_each (es : list gexpr) (env : venv) (w : sworld) (k : skont) : sans :=
      match es with
      | [] => k [] w
      | a :: rest => sf_eval a env w (one (fun x w2 => sf_eval_each rest env w2 (fun xs w3 => k (x :: xs) w3)))
      end.
    (* the right-hand side of an assignment / the operands of return: one expression that gives all
       the values (a call, a comma-ok index), or one value per expression *)
    Definition sf_eval_rhs (es : list gexpr) (env : venv) (w : sworld) (k : skont) : sans :=
      match es with
      | [e] => sf_eval e env w k
      | _ => sf_eval_each es env w k
      end.

    (* m[key] = v *)
    Definition map_store (m : mapname) (key : str) (v : sval) (w : sworld) : sf_res sworld :=
      let s := sw_state w in
      match m, v with
      | MCache, SVTpl st => GOk (log_event EvCacheWrite (upd_state w (st_set_cache s (cache_store key st (s_cache s)))))
      | MCache, _ => GStuck "the cache holds templates only"
      | MBannedTags, SVBool true => GOk (upd_state w (st_set_btags s (keys_store key (s_btags s))))
      | MBannedFilters, SVBool true => GOk (upd_state w (st_set_bfilters s (keys_store key (s_bfilters s))))
      | (MBannedTags | MBannedFilters), _ => GStuck "a ban map holds true only"
      | (MTags | MFilters), _ => GStuck "store into a registry"
      end.
    (* delete(m, key) *)
    Definition map_delete (m : mapname) (key : str) (w : sworld) : sf_res sworld :=
      let s := sw_state w in
      match m with
      | MCache => GOk (log_event EvCacheWrite (upd_state w (st_set_cache s (cache_delete key (s_cache s)))))
      | MBannedTags => GOk (upd_state w (st_set_btags s (keys_delete key (s_btags s))))
      | MBannedFilters => GOk (upd_state w (st_set_bfilters s (keys_delete key (s_bfilters s))))
      | MTags | MFilters => GStuck "delete from a registry"
      end.
    (* set.f = v *)
    Definition field_store (obj : sval) (f : string) (v : sval) (env : venv) (w : sworld) : sf_res sworld :=
      let s := sw_state w in
      match obj with
      | SVSet =>
          if String.eqb f "templateCache" then
            match v with
            | SVFreshMap => if holds_map MCache env then GStuck "a variable holds the map that is replaced"
                            else GOk (log_event EvCacheWrite (upd_state w (st_set_cache s [])))
            | _ => GStuck "templateCache is assigned a fresh map only"
            end
          else if String.eqb f "bannedTags" then
            match v with
            | SVFreshMap => if holds_map MBannedTags env then GStuck "a variable holds the map that is replaced"
                            else GOk (upd_state w (st_set_btags s []))
            | _ => GStuck "bannedTags is assigned a fresh map only"
            end
          else if String.eqb f "bannedFilters" then
            match v with
            | SVFreshMap => if holds_map MBannedFilters env then GStuck "a variable holds the map that is replaced"
                            else GOk (upd_state w (st_set_bfilters s []))
            | _ => GStuck "bannedFilters is assigned a fresh map only"
            end
          else if String.eqb f "Debug" then
            match v with
            | SVBool b => GOk (upd_state w (st_set_debug s b))
            | _ => GStuck "Debug is a boolean"
            end
          else GStuck "assignment to a field of TemplateSet that the world does not hold"
      | _ => GStuck "assignment to a field of something that is not the set"
      end.

    Definition lift_world (r : sf_res sworld) (k : sworld -> sans) : sans :=
      match r with GOk w => k w | GStuck s => GStuck s | GNotUnderstood s => GNotUnderstood s | GDepth => GDepth end.

    (* a statement: kn continues with the next statement, kr returns from the function *)
    Fixpoint sf_exec (s : gstmt) (env : venv) (ds : dstack) (w : sworld) (kn : nkont) (kr : rkont) {struct s} : sans :=
      let exl := fix exl (l : list gstmt) (env : venv) (ds : dstack) (w : sworld) (kn' : nkont) {struct l} : sans :=
        match l with
        | [] => kn' env ds w
        | s1 :: r => sf_exec s1 env ds w (fun env1 ds1 w1 => exl r env1 ds1 w1 kn') kr
        end in
      match s with
      | GSDefine lhs rhs =>
          sf_eval_rhs rhs env w (fun vs w1 =>
            match all_lhs env_define lhs vs env with
            | Some env1 => kn env1 ds w1
            | None => GStuck "assignment mismatch"
            end)
      | GSAssign lhs rhs =>
          sf_eval_rhs rhs env w (fun vs w1 =>
            match all_lhs env_assign lhs vs env with
            | Some env1 => kn env1 ds w1
            | None => GStuck "assignment mismatch or undeclared variable"
            end)
      | GSIf init c thn els =>
          (* one scope for the init statement, one for the chosen block; both end with the if *)
          exl init ([] :: env) ds w (fun env1 ds1 w1 =>
            sf_eval c env1 w1 (one (fun v w2 =>
              match v with
              | SVBool b =>
                  if b then exl thn ([] :: env1) ds1 w2 (fun env2 ds2 w3 => kn (tl (tl env2)) ds2 w3)
                  else exl els ([] :: env1) ds1 w2 (fun env2 ds2 w3 => kn (tl (tl env2)) ds2 w3)
              | _ => GStuck "condition is not a boolean"
              end)))
      | GSReturn es => sf_eval_rhs es env w (fun vs w1 => kr vs ds w1)
      | GSExpr e => sf_eval e env w (fun _ w1 => kn env ds w1)
      | GSMapStore m key v =>
          sf_eval m env w (one (fun mv w1 => sf_eval key env w1 (one (fun kv w2 => sf_eval v env w2 (one (fun x w3 =>
            match mv, kv with
            | SVMap which, SVStr k => lift_world (map_store which k x w3) (fun w4 => kn env ds w4)
            | _, _ => GStuck "store into something that is not a map with string keys"
            end))))))
      | GSFieldStore obj f v =>
          sf_eval obj env w (one (fun ov w1 => sf_eval v env w1 (one (fun x w2 =>
            lift_world (field_store ov f x env w2) (fun w3 => kn env ds w3)))))
      | GSDelete m key =>
          sf_eval m env w (one (fun mv w1 => sf_eval key env w1 (one (fun kv w2 =>
            match mv, kv with
            | SVMap which, SVStr k => lift_world (map_delete which k w2) (fun w3 => kn env ds w3)
            | _, _ => GStuck "delete from something that is not a map with string keys"
            end))))
      | GSRange key val coll body =>
          sf_eval coll env w (one (fun v w1 =>
            match v with
            | SVStrs l => range_loop (fun env' ds' w' kn' => exl body env' ds' w' kn') key val l 0 env ds w1 kn
            | _ => GStuck "range over a value that is not a []string"
            end))
      | GSDefer c =>
          match c with
          | GEMethod r m args =>
              sf_eval r env w (one (fun rv w1 => sf_eval_each args env w1 (fun vs w2 => kn env (DCall rv m vs :: ds) w2)))
          | _ => GStuck "defer of something that is not a method call"
          end
      | GSVar _ _ | GSRangeSet _ _ _ _ | GSResults _ =>
          GStuck "a statement of the third fragment (Lib/GoStmt.v): no meaning for the set's state machine"
      | GSBreak | GSIncField _ _ =>
          GStuck "a statement of the fifth fragment (Lib/GoStmt.v): no meaning for the set's state machine"
      | GSUnknown src => GNotUnderstood src
      end.

    Fixpoint sf_exec_list (l : list gstmt) (env : venv) (ds : dstack) (w : sworld) (kn : nkont) (kr : rkont) : sans :=
      match l with
      | [] => kn env ds w
      | s1 :: r => sf_exec s1 env ds w (fun env1 ds1 w1 => sf_exec_list r env1 ds1 w1 kn kr) kr
      end.

    (* the deferred calls, last in first out; their results are dropped *)
    Fixpoint run_defers (ds : dstack) (w : sworld) (k : sworld -> sans) : sans :=
      match ds with
      | [] => k w
      | DCall r m args :: rest => callr r m args w (fun _ w1 => run_defers rest w1 k)
      end.

    (* a translated function: receiver and parameters bound, the body run, the deferred calls run,
       the result count checked *)
    Definition sf_call_func (fn : gfunc) (recv : sval) (args : list sval) (w : sworld) (k : skont) : sans :=
      match zip_params (gf_params fn) args with
      | None => GStuck "argument count mismatch"
      | Some sc =>
          let sc' := match gf_recv fn with Some (r, _) => (r, recv) :: sc | None => sc end in
          sf_exec_list (gf_body fn) [sc'] [] w
            (fun _ ds w1 => run_defers ds w1 (fun w2 =>
               if Nat.eqb (gf_nres fn) 0 then k [] w2 else GStuck "missing return"))
            (fun vs ds w1 => run_defers ds w1 (fun w2 =>
               if Nat.eqb (List.length vs) (gf_nres fn) then k vs w2 else GStuck "result count mismatch"))
      end.

    (* the primitives *)
    Definition builtin (recv : sval) (m : string) (args : list sval) (w : sworld) (k : skont) : sans :=
      match recv with
      | SVMutex =>
          if String.eqb m "Lock" then
            match args with
            | [] => if sw_locked w then GStuck "Lock of a mutex that is held: the call blocks for ever"
                    else k [] (log_event EvLock (set_locked true w))
            | _ => GStuck "Lock: arguments"
            end
          else if String.eqb m "Unlock" then
            match args with
            | [] => if sw_locked w then k [] (log_event EvUnlock (set_locked false w))
                    else GStuck "Unlock of a mutex that is not held: fatal error"
            | _ => GStuck "Unlock: arguments"
            end
          else GStuck "unknown method of sync.Mutex"
      | SVSet =>
          if String.eqb m "FromFile" then
            match args with
            | [SVStr name] =>
                let '(s1, r) := fresh_tpl (sw_state w) (s_compile_file (sw_state w) name) in
                match from_file_values r with
                | Some vs => k vs (upd_state w s1)
                | None => GStuck "FromFile: outcome"
                end
            | _ => GStuck "FromFile: argument"
            end
          else if String.eqb m "resolveFilename" then
            match args with
            | [SVNil; SVStr name] => k [SVStr (fsloader_abs [] name)] w
            | _ => GStuck "resolveFilename: only with a nil template"
            end
          else let '(vs, w') := ext ("TemplateSet." ++ m) args w in k vs w'
      | SVNil => GStuck "method call on nil"
      | _ => let '(vs, w') := ext m (recv :: args) w in k vs w'
      end.
  End Body.

  (* recv.m(args) in world w; the results and the world afterwards go to k.  [deeper] runs the calls
     that the called function makes. *)
  Definition callT := sval -> string -> list sval -> sworld -> skont -> sans.
  Definition sf_call_step (deeper : callT) : callT :=
    fun recv m args w k =>
      match match type_of recv with Some ty => find_method ty m prog | None => None end with
      | Some fn => sf_call_func deeper fn recv args w k
      | None => builtin recv m args w k
      end.
  Fixpoint sf_call (d : nat) : callT :=
    match d with
    | O => fun _ _ _ _ _ => GDepth
    | S d' => sf_call_step (sf_call d')
    end.

  (* the whole run of set.m(args) *)
  Definition set_call (d : nat) (m : string) (args : list sval) (w : sworld) : sans :=
    sf_call d SVSet m args w (fun vs w' => GOk (vs, w')).
End Interp.

(* ---------- the abstraction of a state of the set state machine, and reading a run back ---------- *)
(* the world a call starts in: the set's fields as the state has them, the mutex free *)
Definition world_of (s : sstate) : sworld := mkSW s false [].

(* func(...) error *)
Definition read_error (vs : list sval) : option sres :=
  match vs with
  | [SVNil] => Some ROk
  | [SVErr false] => Some RErr
  | [SVErr true] => Some RUnmod
  | _ => None
  end.
(* func(...) *)
Definition read_nothing (vs : list sval) : option sres :=
  match vs with [] => Some ROk | _ => None end.
(* func(...) ( *Template, error): the template with a nil error, or nil with the error *)
Definition read_template (vs : list sval) : option sres :=
  match vs with
  | [SVTpl st; SVNil] => Some (RTpl st)
  | [SVNil; SVErr false] => Some RErr
  | [SVNil; SVErr true] => Some RUnmod
  | _ => None
  end.

(* the next state and the result of a run, as s_step gives them; only for a run that ends with
   the mutex free *)
Definition observe (read : list sval -> option sres) (r : sans) : option (sstate * sres) :=
  match r with
  | GOk (vs, w) =>
      match read vs with
      | Some x => if sw_locked w then None else Some (sw_state w, x)
      | None => None
      end
  | _ => None
  end.

(* the trace of a run that ends *)
Definition trace_of (r : sans) : option (list sevent) :=
  match r with GOk (_, w) => Some (sw_trace w) | _ => None end.

(* The lock discipline of a trace, starting with the mutex free ([held] = false): Lock only when
   free, Unlock only when held, the cache map read and written only when held; the answer is
   whether the mutex is held at the end, None when the discipline is broken. *)
Fixpoint lock_scan (held : bool) (tr : list sevent) : option bool :=
  match tr with
  | [] => Some held
  | EvLock :: r => if held then None else lock_scan true r
  | EvUnlock :: r => if held then lock_scan false r else None
  | (EvCacheRead | EvCacheWrite) :: r => if held then lock_scan held r else None
  end.
(* every access of the cache lies between a Lock and the Unlock that follows it, and the mutex is
   free at the end *)
Definition cache_guarded (tr : list sevent) : bool :=
  match lock_scan false tr with Some false => true | _ => false end.

(* ---------- the functions that create a template ---------- *)
(* [ext] never clears the firstTemplateCreated flag *)
Definition keeps_flag (ext : string -> list sval -> sworld -> list sval * sworld) : Prop :=
  forall m args w, s_created (sw_state w) = true -> s_created (sw_state (snd (ext m args w))) = true.
(* a run that ends, ends with the flag set *)
Definition flag_set (r : sans) : Prop :=
  match r with GOk (_, w) => s_created (sw_state w) = true | _ => True end.

(* an [ext] for examples: every other function returns nothing and does nothing *)
Definition no_ext : string -> list sval -> sworld -> list sval * sworld := fun _ _ w => ([], w).
