(* Well-formedness as the compiler guarantees it (property C01, what links the compile half
   to the execution half).

   Spec/SpecWf.v's [wf_node] asks of an if node that it has as many bodies as conditions, or
   exactly one more.  The compiler (as pongo2's tagIfParser) does NOT guarantee the upper
   bound: "else" may be repeated, {% if a %}x{% else %}y{% else %}z{% endif %} compiles to one
   condition with three bodies (Props/C01c.v, C01_compiler_wf_is_false).  What the executor
   needs, and what the compiler does guarantee, is only the lower bound: at least as many
   bodies as conditions.  [cwf_node / cwf_macro / cwf_template] are [wf_node / wf_macro /
   wf_template] of Spec/SpecWf.v with exactly that one clause changed (expressions, parts and
   filter calls are Spec/SpecWf.v's [wf_expr / wf_part / wf_fcall], unchanged), and the state
   invariant below is Spec/SpecWf.v's with [cwf_] code in the closures.  Every [wf_] document
   is a [cwf_] document (Proofs/WfParse.v, wf_template_cwf). *)
From PV Require Import Model.Exec Model.Api.
From PV Require Export Spec.SpecWf.
Open Scope N_scope.

(* ---- nodes, macros, templates ---- *)
Fixpoint cwf_node (n : node) : bool :=
  match n with
  | NHtml _ _ _ _ _ _ | NBlock _ | NExtends | NIncludeEmpty | NTemplatetag _ | NComment | NUnmod => true
  | NVar e | NSet _ e => wf_expr e
  | NIf conds wrappers =>
      forallb wf_expr conds && forallb (forallb cwf_node) wrappers &&
      Nat.leb (length conds) (length wrappers)            (* the only difference with wf_node *)
  | NFor _ _ obj _ _ body empty =>
      wf_expr obj && forallb cwf_node body && opt_all (forallb cwf_node) empty
  | NWith pairs body => wf_pairs pairs && forallb cwf_node body
  | NMacro m => cwf_macro m
  | NImport ms => forallb (fun am => cwf_macro (snd am)) ms
  | NInclude tplo fname pairs _ _ =>
      (match tplo, fname with None, None => false | _, _ => true end) &&
      opt_all cwf_template tplo && opt_all wf_expr fname && wf_pairs pairs
  | NAutoescape _ body | NSpaceless body => forallb cwf_node body
  | NFilterTag chain body => wf_oparams chain && forallb cwf_node body
  | NFirstof args | NCycle _ args _ _ => forallb wf_expr args
  | NIfchanged _ watched thenb elseb =>
      forallb wf_expr watched && forallb cwf_node thenb && opt_all (forallb cwf_node) elseb
  | NIfequal _ a b thenb elseb =>
      wf_expr a && wf_expr b && forallb cwf_node thenb && opt_all (forallb cwf_node) elseb
  | NWidthratio a b c _ => wf_expr a && wf_expr b && wf_expr c
  | NSsi _ tplo => opt_all cwf_template tplo
  end
with cwf_macro (m : macro) : bool :=
  match m with
  | Macro _ params body _ => wf_oparams params && forallb cwf_node body
  end
with cwf_template (t : template) : bool :=
  match t with
  | Tpl _ _ _ root blocks exported parent _ _ =>
      forallb cwf_node root &&
      forallb (fun b => forallb cwf_node (snd b)) blocks &&
      forallb (fun m => cwf_macro (snd m)) exported &&
      opt_all cwf_template parent
  end.

(* ---- context entries, frames, states: as in Spec/SpecWf.v, over cwf_ code ---- *)
Definition cwf_cval (p : nat) (c : cval) : Prop :=
  match c with
  | CV _ => True
  | CMacro m i => (i <= p)%nat /\ cwf_macro m = true
  | CBlock i ws => (i <= p)%nat /\ forallb (forallb cwf_node) ws = true
  | CCycle _ args _ _ => forallb wf_expr args = true
  end.
Definition cwf_ctx (p : nat) (ctx : list (str * cval)) : Prop :=
  forall k c, In (k, c) ctx -> cwf_cval p c.
Definition cwf_frame (p : nat) (fr : frame) : Prop :=
  cwf_ctx p (f_priv fr) /\ cwf_ctx p (f_pub fr) /\ forallb cwf_template (f_chain fr) = true.
Fixpoint cwf_frames (l : list frame) : Prop :=
  match l with
  | [] => True
  | fr :: below => cwf_frame (length below) fr /\ cwf_frames below
  end.
Definition cwf_state (st : mstate) : Prop := cwf_frames (ms_frames st).
Definition cexec_inv (st : mstate) : Prop := ms_frames st <> [] /\ cwf_frames (ms_frames st).

(* ---- the parser's side: the per-template state the tag parsers write (blocks, exported
        macros, parent) holds cwf_ code; [pst] pairs it with the compile-wide counters ---- *)
Definition wf_tst (tst : tstate) : Prop :=
  forallb (fun b => forallb cwf_node (snd b)) (t_blocks tst) = true /\
  forallb (fun m => cwf_macro (snd m)) (t_exported tst) = true /\
  opt_all cwf_template (t_parent tst) = true.
Definition wf_pst (st : tstate * gstate) : Prop := wf_tst (fst st).

(* what is true of the compiler (and proved outright, for every set environment) *)
Definition compiler_cwf (se : senv) : Prop :=
  forall f name g t g', compile_file se f name g = Ok (t, g') -> cwf_template t = true.

(* ---- vocabulary of the counterexample to Spec/SpecWf.v's [compiler_wf] (Props/C01c.v):
        a set with one loader holding one file "t" whose content repeats "else" ---- *)
(* {% if a %}x{% else %}y{% else %}z{% endif %} *)
Definition cx_src : str :=
  [123; 37; 32; 105; 102; 32; 97; 32; 37; 125; 120; 123; 37; 32; 101; 108; 115; 101; 32; 37;
   125; 121; 123; 37; 32; 101; 108; 115; 101; 32; 37; 125; 122; 123; 37; 32; 101; 110; 100;
   105; 102; 32; 37; 125].
Definition cx_name : str := [116].   (* t *)
Definition cx_world : world := mkWorld [mkLoader [(cx_name, cx_src)]] false false [] [] [] [] [].

(* ---- vocabulary of the non-vacuity example (Props/C01c.v): a set with one loader and three
        files; "t" extends "base", calls block.Super, includes "inc" (an if with two else)
        and loops over a list of lists ---- *)
(* <{% block b %}B{% endblock %}> *)
Definition wfx_base : str :=
  [60; 123; 37; 32; 98; 108; 111; 99; 107; 32; 98; 32; 37; 125; 66; 123; 37; 32; 101; 110; 100;
   98; 108; 111; 99; 107; 32; 37; 125; 62].
(* {% if a %}x{% else %}y{% else %}z{% endif %} *)
Definition wfx_inc : str :=
  [123; 37; 32; 105; 102; 32; 97; 32; 37; 125; 120; 123; 37; 32; 101; 108; 115; 101; 32; 37;
   125; 121; 123; 37; 32; 101; 108; 115; 101; 32; 37; 125; 122; 123; 37; 32; 101; 110; 100;
   105; 102; 32; 37; 125].
(* {% extends "base" %}{% block b %}{{ block.Super }}{% include "inc" %}{% for i in l %}{{ i.0|add:n[0] }}{% endfor %}{% endblock %} *)
Definition wfx_t : str :=
  [123; 37; 32; 101; 120; 116; 101; 110; 100; 115; 32; 34; 98; 97; 115; 101; 34; 32; 37; 125;
   123; 37; 32; 98; 108; 111; 99; 107; 32; 98; 32; 37; 125; 123; 123; 32; 98; 108; 111; 99;
   107; 46; 83; 117; 112; 101; 114; 32; 125; 125; 123; 37; 32; 105; 110; 99; 108; 117; 100;
   101; 32; 34; 105; 110; 99; 34; 32; 37; 125; 123; 37; 32; 102; 111; 114; 32; 105; 32; 105;
   110; 32; 108; 32; 37; 125; 123; 123; 32; 105; 46; 48; 124; 97; 100; 100; 58; 110; 91; 48;
   93; 32; 125; 125; 123; 37; 32; 101; 110; 100; 102; 111; 114; 32; 37; 125; 123; 37; 32; 101;
   110; 100; 98; 108; 111; 99; 107; 32; 37; 125].
Definition wfx_name : str := [116].   (* t *)
Definition wfx_world : world :=
  mkWorld [mkLoader [([98; 97; 115; 101] (* base *), wfx_base); ([105; 110; 99] (* inc *), wfx_inc); (wfx_name, wfx_t)]]
          false false [] [] [] [] [].
(* l = [[1], [5]], n = [10] *)
Definition wfx_ctx : list (str * cval) :=
  [ ([108] (* l *), CV (as_value (VList [VList [VInt 1]; VList [VInt 5]])));
    ([110] (* n *), CV (as_value (VList [VInt 10]))) ].
