(* Reference semantics of following a dotted name through plain data (property C08), written
   from the property text and independent of Model/Exec.v's [walk]:
     map key, struct field, slice/array/string index; a missing key, an out-of-range index or a
     nil along the way yields the empty value; a key on something that has no keys, or an index
     on something that cannot be indexed, is an execution error. *)
From PV Require Import Model.Value.
Open Scope N_scope.

Inductive step := SKey (k : str) | SIdx (i : Z).

Inductive found := FVal (v : val) | FEmpty | FError.

Definition keyed (v : val) : option (list (str * val)) :=
  match v with VMap m | VStruct m => Some m | _ => None end.

Definition nth_of (v : val) (i : Z) : option (option val) :=   (* None: not indexable *)
  match v with
  | VList l => Some (if ((0 <=? i) && (i <? Z.of_nat (length l)))%Z then nth_error l (Z.to_nat i) else None)
  | VStr s => Some (if ((0 <=? i) && (i <? Z.of_nat (length s)))%Z
                    then option_map (fun b => VInt (Z.of_N b)) (nth_error s (Z.to_nat i)) else None)
  | _ => None
  end.

Fixpoint follow (cur : val) (steps : list step) : found :=
  match steps with
  | [] => FVal cur
  | SKey k :: rest =>
      match keyed cur with
      | None => FError
      | Some m => match assoc_get k m with
                  | None | Some VNil => FEmpty
                  | Some v => follow v rest
                  end
      end
  | SIdx i :: rest =>
      match nth_of cur i with
      | None => FError
      | Some None | Some (Some VNil) => FEmpty
      | Some (Some v) => follow v rest
      end
  end.
