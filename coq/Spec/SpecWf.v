(* Well-formedness of documents and of execution states (property C01, execution half).
   Syntactic well-formedness is boolean (decidable, checkable by computation on any compiled
   template); the state invariant is a proposition about the frame stack. *)
From PV Require Import Model.Exec.
Open Scope N_scope.

Definition opt_all {A} (f : A -> bool) (o : option A) : bool :=
  match o with Some a => f a | None => true end.

(* ---- expressions: every variable starts with an identifier (all the way down) ---- *)
Fixpoint wf_expr (e : expr) : bool :=
  match e with
  | EInt _ | EFloat _ | EStr _ | EBool _ => true
  | EVar parts =>
      match parts with PIdent _ _ :: _ => forallb wf_part parts | _ => false end
  | EArray items => forallb wf_expr items
  | EFilt e0 chain => wf_expr e0 && forallb wf_fcall chain
  | EPow a b | ETerm _ a b | ERel _ a b | ELogic _ a b => wf_expr a && wf_expr b
  | ESimple _ _ a rest =>
      wf_expr a && match rest with Some (_, b) => wf_expr b | None => true end
  end
with wf_part (p : part) : bool :=
  match p with
  | PIdent _ call | PInt _ call => opt_all (forallb wf_expr) call
  | PSub e call => wf_expr e && opt_all (forallb wf_expr) call
  end
with wf_fcall (c : fcall) : bool :=
  match c with FCall _ param => opt_all wf_expr param end.

Definition wf_pairs (ps : list (str * expr)) : bool := forallb (fun kv => wf_expr (snd kv)) ps.
Definition wf_oparams (ps : list (str * option expr)) : bool :=
  forallb (fun kv => opt_all wf_expr (snd kv)) ps.

(* ---- nodes, macros, templates ---- *)
Fixpoint wf_node (n : node) : bool :=
  match n with
  | NHtml _ _ _ _ _ _ | NBlock _ | NExtends | NIncludeEmpty | NTemplatetag _ | NComment | NUnmod => true
  | NVar e | NSet _ e => wf_expr e
  | NIf conds wrappers =>
      forallb wf_expr conds && forallb (forallb wf_node) wrappers &&
      (Nat.eqb (length wrappers) (length conds) || Nat.eqb (length wrappers) (S (length conds)))
  | NFor _ _ obj _ _ body empty =>
      wf_expr obj && forallb wf_node body && opt_all (forallb wf_node) empty
  | NWith pairs body => wf_pairs pairs && forallb wf_node body
  | NMacro m => wf_macro m
  | NImport ms => forallb (fun am => wf_macro (snd am)) ms
  | NInclude tplo fname pairs _ _ =>
      (match tplo, fname with None, None => false | _, _ => true end) &&
      opt_all wf_template tplo && opt_all wf_expr fname && wf_pairs pairs
  | NAutoescape _ body | NSpaceless body => forallb wf_node body
  | NFilterTag chain body => wf_oparams chain && forallb wf_node body
  | NFirstof args | NCycle _ args _ _ => forallb wf_expr args
  | NIfchanged _ watched thenb elseb =>
      forallb wf_expr watched && forallb wf_node thenb && opt_all (forallb wf_node) elseb
  | NIfequal _ a b thenb elseb =>
      wf_expr a && wf_expr b && forallb wf_node thenb && opt_all (forallb wf_node) elseb
  | NWidthratio a b c _ => wf_expr a && wf_expr b && wf_expr c
  | NSsi _ tplo => opt_all wf_template tplo
  end
with wf_macro (m : macro) : bool :=
  match m with
  | Macro _ params body _ => wf_oparams params && forallb wf_node body
  end
with wf_template (t : template) : bool :=
  match t with
  | Tpl _ _ _ root blocks exported parent _ _ =>
      forallb wf_node root &&
      forallb (fun b => forallb wf_node (snd b)) blocks &&
      forallb (fun m => wf_macro (snd m)) exported &&
      opt_all wf_template parent
  end.

(* ---- context entries; [p] is the position (from the bottom of the stack, as [frame_at]
        and [cur_index] count) of the frame that holds the entry ---- *)
Definition wf_cval (p : nat) (c : cval) : Prop :=
  match c with
  | CV _ => True
  | CMacro m i => (i <= p)%nat /\ wf_macro m = true
  | CBlock i ws => (i <= p)%nat /\ forallb (forallb wf_node) ws = true
  | CCycle _ args _ _ => forallb wf_expr args = true
  end.
Definition wf_ctx (p : nat) (ctx : list (str * cval)) : Prop :=
  forall k c, In (k, c) ctx -> wf_cval p c.
Definition wf_frame (p : nat) (fr : frame) : Prop :=
  wf_ctx p (f_priv fr) /\ wf_ctx p (f_pub fr) /\ forallb wf_template (f_chain fr) = true.
(* frames are kept innermost first: the head of [fr :: below] sits at position [length below] *)
Fixpoint wf_frames (l : list frame) : Prop :=
  match l with
  | [] => True
  | fr :: below => wf_frame (length below) fr /\ wf_frames below
  end.
Definition wf_state (st : mstate) : Prop := wf_frames (ms_frames st).
(* the invariant of a running execution: there is a current frame, and the stack is well-formed *)
Definition exec_inv (st : mstate) : Prop := ms_frames st <> [] /\ wf_frames (ms_frames st).

(* what a caller can pass: plain values only *)
Definition plain_ctx (ctx : list (str * cval)) : Prop :=
  forall k c, In (k, c) ctx -> exists v, c = CV v.

(* the two facts about the compiler (Model/ParseDoc.v) the execution theorems are relative to:
   templates compiled at run time (lazy include) are well-formed, and compiling does not panic *)
Definition compiler_wf (se : senv) : Prop :=
  forall f name g t g', compile_file se f name g = Ok (t, g') -> wf_template t = true.
Definition compiler_no_panic (se : senv) : Prop :=
  forall f name g s, compile_file se f name g <> Panic s.
