(* Vocabulary for the statements of properties C09 (if / ifequal / firstof / for / cycle /
   ifchanged) and C13 (macros).  Small definitions only: which branch is "the first true one",
   what a for loop binds at an iteration, what the loop information fields are, which
   argument a cycle is at, when ifchanged fires, what a macro call binds.  Nothing here looks
   inside the executor; [evals_pure] and [exec_times] only *mention* it to phrase hypotheses. *)
From PV Require Import Model.Exec.
From PV Require Import gen.Tables.
Open Scope N_scope.

(* ---------- names ---------- *)
Definition n_forloop : str := [102; 111; 114; 108; 111; 111; 112].             (* forloop *)
Definition n_Counter : str := [67; 111; 117; 110; 116; 101; 114].              (* Counter *)
Definition n_Counter0 : str := [67; 111; 117; 110; 116; 101; 114; 48].         (* Counter0 *)
Definition n_Revcounter : str := [82; 101; 118; 99; 111; 117; 110; 116; 101; 114].       (* Revcounter *)
Definition n_Revcounter0 : str := [82; 101; 118; 99; 111; 117; 110; 116; 101; 114; 48].  (* Revcounter0 *)
Definition n_First : str := [70; 105; 114; 115; 116].                          (* First *)
Definition n_Last : str := [76; 97; 115; 116].                                 (* Last *)
Definition n_Parentloop : str := [80; 97; 114; 101; 110; 116; 108; 111; 111; 112].       (* Parentloop *)
Definition n_safe : str := [115; 97; 102; 101].                                (* safe *)

(* ---------- branching ---------- *)
(* index of the first true entry *)
Fixpoint first_true (bs : list bool) : option nat :=
  match bs with
  | [] => None
  | true :: _ => Some 0%nat
  | false :: r => option_map S (first_true r)
  end.

(* the truth value pongo2 gives a value (Value.IsTrue) *)
Definition truth (v : value) : bool := is_true (vv v).

(* what firstof prints for an argument [a] whose string form is [s] *)
Definition firstof_text (auto : bool) (a : expr) (s : str) : str :=
  if auto && negb (filter_applied n_safe a) then filter_escape s else s.

(* ---------- for ---------- *)
(* one thing to iterate over: a key and, for maps, a value *)
Definition item := (val * option val)%type.
Definition plain_item (x : val) : item := (x, None).
Definition kv_item (kv : str * val) : item := (VStr (fst kv), Some (snd kv)).

(* the private context of the loop frame at iteration [idx] of [count], over item [x] *)
Definition for_bind (key value : str) (x : item) (idx count : Z) (parent : val)
                    (priv : list (str * cval)) : list (str * cval) :=
  let p1 := ctx_set key (CV (as_value (fst x))) priv in
  let p2 := match snd x with Some v => ctx_set value (CV (as_value v)) p1 | None => p1 end in
  ctx_set n_forloop (CV (as_value (loop_struct idx count parent))) p2.

(* ... and the state in which the body runs: only the top frame's private context differs *)
Definition for_state (st : mstate) (fr : frame) (key value : str) (x : item) (idx count : Z)
                     (parent : val) : mstate :=
  set_top st (with_priv fr (for_bind key value x idx count parent (f_priv fr))).

(* the loop information of the enclosing loop, as seen from frame [fr] (nil outside a loop) *)
Definition for_parent (fr : frame) : val :=
  match ctx_get n_forloop (f_priv fr) with
  | Some (CV v) => if is_loop_struct (vv v) then vv v else VNil
  | _ => VNil
  end.

(* the frame a for tag pushes for the whole loop *)
Definition for_frame (fr : frame) : frame :=
  with_priv (child_of fr) (ctx_set n_forloop (CV (as_value (loop_struct_empty (for_parent fr)))) (f_priv fr)).

(* outputs of the iterations, in order; [g idx x] is what iteration [idx] over [x] prints *)
Fixpoint for_output (g : Z -> item -> str) (idx : Z) (items : list item) : str :=
  match items with
  | [] => []
  | x :: r => g idx x ++ for_output g (idx + 1)%Z r
  end.

(* the documented meaning of the forloop fields at (zero-based) position idx of count *)
Definition loop_field (fld : str) (idx count : Z) (parent : val) : option val :=
  if str_eqb fld n_Counter then Some (VInt (idx + 1))
  else if str_eqb fld n_Counter0 then Some (VInt idx)
  else if str_eqb fld n_Revcounter then Some (VInt (count - idx))
  else if str_eqb fld n_Revcounter0 then Some (VInt (count - idx - 1))
  else if str_eqb fld n_First then Some (VBool (idx =? 0)%Z)
  else if str_eqb fld n_Last then Some (VBool (idx =? count - 1)%Z)
  else if str_eqb fld n_Parentloop then Some parent
  else None.

(* ---------- cycle ---------- *)
(* the position a cycle node is at in execution [e] (0 in a fresh render) *)
Definition cycle_pos (st : mstate) (e id : N) : Z :=
  match ns_get e id (ms_nodes st) with Some (NSCycle i) => i | _ => 0%Z end.

(* an argument that is the bare name of a variable holding a cycle value advances that
   cycle instead of being printed: excluded from the round-robin statements *)
Definition refers_to_cycle (priv : list (str * cval)) (a : expr) : bool :=
  match a with
  | EFilt (EVar [PIdent nm None]) [] =>
      match ctx_get nm priv with Some (CCycle _ _ _ _) => true | _ => false end
  | _ => false
  end.

(* what cycle prints for argument [a] with value [v] whose string form is [s] *)
Definition cycle_text (auto : bool) (a : expr) (v : value) (s : str) : str :=
  if auto && negb (vsafe v) && negb (filter_applied n_safe a) && is_string (vv v)
  then filter_escape s else s.

(* [k] successive outputs of a cycle over [n] arguments that stands at position [pos];
   [out j] is what argument number [j] prints *)
Fixpoint round_robin (out : nat -> str) (n pos k : nat) : str :=
  match k with
  | O => []
  | S k' => out (pos mod n)%nat ++ round_robin out n (S pos) k'
  end.

(* ---------- ifchanged ---------- *)
Definition stored_vals (p : option nstate) : list value :=
  match p with Some (NSIfchanged l _) => l | _ => [] end.
Definition stored_content (p : option nstate) : option str :=
  match p with Some (NSIfchanged _ (Some c)) => Some c | _ => None end.

(* pointwise equality of the remembered and the current values (None: not comparable) *)
Fixpoint all_equal (last now : list value) : option bool :=
  match last, now with
  | x :: l, y :: n =>
      match equal_value_to (vv x) (vv y), all_equal l n with
      | Some e, Some r => Some (e && r)
      | _, _ => None
      end
  | _, _ => Some true
  end.
(* ifchanged prints its body: nothing remembered yet, or some value differs *)
Definition ifchanged_fires (last now : list value) : option bool :=
  match last with
  | [] => Some true
  | _ => option_map negb (all_equal last now)
  end.

(* ---------- macros ---------- *)
Definition macro_name (m : macro) : str := match m with Macro n _ _ _ => n end.
Definition macro_params (m : macro) : list (str * option expr) := match m with Macro _ p _ _ => p end.
Definition macro_body (m : macro) : list node := match m with Macro _ _ b _ => b end.

(* arguments bound to parameters, position by position *)
Definition arg_bindings (params : list (str * option expr)) (args : list value) : list (str * cval) :=
  map (fun pa => (fst (fst pa), CV (as_value (vv (snd pa))))) (combine params args).
(* defaults bound to parameters *)
Definition default_bindings (params : list (str * option expr)) (ds : list value) : list (str * cval) :=
  combine (map fst params) (map CV ds).
(* the private context of a macro call: the defining context, then every default, then the
   arguments that were given *)
Definition macro_ctx (defctx dvals : list (str * cval)) (params : list (str * option expr))
                     (args : list value) : list (str * cval) :=
  ctx_update (ctx_update defctx dvals) (arg_bindings params args).

(* the stack as the defining frame [fidx] (counted from the bottom) sees it, and the rest *)
Definition frames_above (st : mstate) (fidx : nat) : list frame :=
  firstn (length (ms_frames st) - S fidx) (ms_frames st).
Definition below_view (st : mstate) (fidx : nat) : mstate :=
  mkM (skipn (length (ms_frames st) - S fidx) (ms_frames st)) (ms_nodes st) (ms_g st).
Definition rejoin (above : list frame) (st_d : mstate) : mstate :=
  mkM (above ++ ms_frames st_d) (ms_nodes st_d) (ms_g st_d).
(* entering a call counts one level on the defining frame; leaving pops the call's frame
   and counts the level back *)
Definition enter_macro (st : mstate) (fidx : nat) (dfr : frame) : mstate :=
  set_frame_at st fidx (with_depth dfr (f_depth dfr + 1)).
Definition leave_macro (st : mstate) (fidx : nat) : mstate :=
  match frame_at (pop_frame st) fidx with
  | Some fr' => set_frame_at (pop_frame st) fidx (with_depth fr' (f_depth fr' - 1))
  | None => pop_frame st
  end.
(* the frame a macro call pushes *)
Definition macro_frame (dfr : frame) (dvals : list (str * cval)) (params : list (str * option expr))
                       (args : list value) : frame :=
  with_priv (child_of dfr) (macro_ctx (f_priv dfr) dvals params args).

(* a node that is nothing but the call  {{ name() }} *)
Definition call_node (name : str) : node := NVar (EVar [PIdent name (Some [])]).

(* a family P of looping macros bound in frame [fidx]: each has no parameters and a body that
   is one call of a name which the frame's private context [priv] binds to a closure, over
   that same frame, of a macro of the family (P = one macro: direct recursion; two: mutual) *)
Definition loops_in (priv : list (str * cval)) (fidx : nat) (P : macro -> Prop) : Prop :=
  forall m, P m -> exists name callee ex m',
    m = Macro name [] [call_node callee] ex /\ ctx_get callee priv = Some (CMacro m' fidx) /\ P m'.

(* the state after binding [name], in the current frame [fr], to the closure of [m] over the
   current frame *)
Definition bind_macro (st : mstate) (fr : frame) (name : str) (m : macro) : mstate :=
  set_top st (with_priv fr (ctx_set name (CMacro m (cur_index st)) (f_priv fr))).

Section WithEnv.
  Variable se : senv.
  Variable globals : list (str * cval).

  (* [e] evaluates to [v] in [st] without changing [st], for all sufficiently large fuel *)
  Definition evals_pure (st : mstate) (e : expr) (v : value) : Prop :=
    exists f0, forall f, (f0 <= f)%nat -> eval se globals f st e = Ok (v, st).

  (* the first [length vs] expressions of [es] evaluate so, to [vs] *)
  Definition prefix_evals (st : mstate) (es : list expr) (vs : list value) : Prop :=
    Forall2 (evals_pure st) (firstn (length vs) es) vs.

  (* a parameter's default: nil when none is written *)
  Definition default_evals (st : mstate) (p : str * option expr) (v : value) : Prop :=
    match snd p with
    | None => v = as_value VNil
    | Some e => evals_pure st e v
    end.

  (* executing the same node [k] times in a row (as a loop body does), outputs concatenated *)
  Fixpoint exec_times (f : nat) (st : mstate) (n : node) (k : nat) : xres :=
    match k with
    | O => xok [] st
    | S k' =>
        match exec_node se globals f st n with
        | (o1, Ok st1) => let '(o2, r) := exec_times f st1 n k' in (o1 ++ o2, r)
        | other => other
        end
    end.
End WithEnv.
