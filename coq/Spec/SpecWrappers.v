(* Meaning of the Go fragment of Lib/GoStmt.v, for the entry-point wrappers of template.go
   (gen/Wrappers.v is their translation, regenerated from the Go source on every run).

   The interpretation runs over a world that holds
     - the caller's io.Writer (SpecWriter.writer, written with w_write),
     - the private *bytes.Buffer values created by bytes.NewBuffer (a list, a buffer is its index),
     - the model fuel and the model state the execution starts from.
   What the wrappers call and do not define themselves is primitive:
     tpl.newContextForExecution(context)   = [new_context]: the context checks of the model's
                                             exec_template_unbuffered, and the state with the
                                             execution's root frame pushed;
     parent.root.Execute(ctx, writer)      = [root_execute]: the model's exec_nodes on the root
                                             node list; its output-so-far is handed to the
                                             TemplateWriter by ONE call of its Write or WriteString
                                             method (which of the two is a parameter, [stream_via]),
                                             whose error is ignored, as pongo2's nodes ignore it;
     bytes.NewBuffer, bytes.Buffer methods Write/WriteString/String/Bytes/WriteTo,
     io.Writer.Write of the caller's writer (w_write), &T{...}, field selection, []byte(x)/string(x).
   The two model primitives are the two halves of the model's exec_template_unbuffered
   (C14w_execute_is_model in Props/C14w.v says so); they are NOT a second model.

   Simplifications, none of which a wrapper can observe: Buffer.WriteTo hands the whole
   content to w.Write in one call also when the buffer is empty (Go makes no call then) and leaves
   the buffer empty also after a short write; strings and byte slices are the same values.

   A method call is looked up in the translated program first (by receiver type and name), then
   among the primitives; anything else is GStuck.  GEUnknown/GSUnknown give GNotUnderstood.
   [d] bounds the call depth (GDepth when exceeded). *)
From PV Require Import Model.Exec Spec.SpecWriter Lib.GoStmt.
From Coq Require Import String Ascii.
Open Scope string_scope.

(* ---------- values, world, results ---------- *)
Inductive gerror := GExecErr (x : failure) | GWriteErr.

Inductive gval :=
| GVNil
| GVBool (b : bool)
| GVInt (n : nat)
| GVBytes (s : str)                         (* string or []byte *)
| GVErr (e : gerror)                        (* a non-nil error *)
| GVTemplate (t : template)                 (* *Template *)
| GVContext (c : list (str * cval))         (* Context *)
| GVDocument (t : template)                 (* t.root *)
| GVExecCtx (fuel : nat) (st : mstate)      (* *ExecutionContext: fuel left, state with the root frame pushed *)
| GVWriter                                  (* the caller's io.Writer *)
| GVBuffer (i : nat)                        (* *bytes.Buffer number i of the world *)
| GVStructPtr (ty : string) (fields : list (string * gval)).   (* &ty{...} *)

Record gworld := mkGW { gw_out : writer; gw_bufs : list str; gw_fuel : nat; gw_st : mstate }.

Inductive gres (A : Type) :=
| GOk (a : A)
| GStuck (why : string)            (* the fragment's meaning does not cover this (wrong type, unknown method, ...) *)
| GNotUnderstood (src : string)    (* a GEUnknown / GSUnknown node was reached *)
| GDepth.                          (* call depth exceeded *)
Arguments GOk {A} a. Arguments GStuck {A} why. Arguments GNotUnderstood {A} src. Arguments GDepth {A}.

(* The interpretation is written with continuations: every function hands its results and the
   world afterwards to [k].  (A case split on the outcome of a primitive is then the outermost
   thing of what remains to be computed, which is what the proof script of Tie/C14w.v needs.) *)
Definition gans := gres (list gval * gworld).
Definition kont := list gval -> gworld -> gans.

(* exactly one value *)
Definition one (k : gval -> gworld -> gans) : kont :=
  fun vs w => match vs with [v] => k v w | _ => GStuck "single value expected" end.

Fixpoint bytes_of_string (s : string) : str :=
  match s with EmptyString => [] | String a r => N_of_ascii a :: bytes_of_string r end.

Definition is_nil (v : gval) : bool := match v with GVNil => true | _ => false end.

Definition err_of_res {A} (r : res A) : gval :=
  match failure_of r with None => GVNil | Some x => GVErr (GExecErr x) end.

(* ---------- variables: a stack of scopes, innermost first ---------- *)
Definition scope := list (string * gval).
Definition genv := list scope.

Fixpoint scope_get {V} (x : string) (s : list (string * V)) : option V :=
  match s with
  | [] => None
  | (y, v) :: r => if String.eqb x y then Some v else scope_get x r
  end.
Fixpoint env_get (x : string) (e : genv) : option gval :=
  match e with
  | [] => None
  | s :: r => match scope_get x s with Some v => Some v | None => env_get x r end
  end.
Fixpoint scope_set (x : string) (v : gval) (s : scope) : option scope :=
  match s with
  | [] => None
  | (y, u) :: r =>
      if String.eqb x y then Some ((y, v) :: r)
      else match scope_set x v r with Some r' => Some ((y, u) :: r') | None => None end
  end.
Fixpoint env_set (x : string) (v : gval) (e : genv) : option genv :=
  match e with
  | [] => None
  | s :: r =>
      match scope_set x v s with
      | Some s' => Some (s' :: r)
      | None => match env_set x v r with Some r' => Some (s :: r') | None => None end
      end
  end.
(* x := v : a variable of the innermost scope is assigned, otherwise declared there *)
Definition env_define (x : string) (v : gval) (e : genv) : option genv :=
  if String.eqb x "_" then Some e else
  match e with
  | [] => None
  | s :: r => match scope_set x v s with Some s' => Some (s' :: r) | None => Some (((x, v) :: s) :: r) end
  end.
(* x = v : the innermost declaration of x is assigned *)
Definition env_assign (x : string) (v : gval) (e : genv) : option genv :=
  if String.eqb x "_" then Some e else env_set x v e.
Fixpoint all_lhs (f : string -> gval -> genv -> option genv) (xs : list string) (vs : list gval) (e : genv)
  : option genv :=
  match xs, vs with
  | [], [] => Some e
  | x :: xs', v :: vs' => match f x v e with Some e' => all_lhs f xs' vs' e' | None => None end
  | _, _ => None
  end.
Fixpoint zip_params (xs : list string) (vs : list gval) : option scope :=
  match xs, vs with
  | [], [] => Some []
  | x :: xs', v :: vs' => match zip_params xs' vs' with Some s => Some ((x, v) :: s) | None => None end
  | _, _ => None
  end.

(* ---------- world access ---------- *)
Definition set_out (w : gworld) (o : writer) : gworld := mkGW o (gw_bufs w) (gw_fuel w) (gw_st w).
Definition set_st (w : gworld) (st : mstate) : gworld := mkGW (gw_out w) (gw_bufs w) (gw_fuel w) st.
Fixpoint list_set {A} (i : nat) (a : A) (l : list A) : list A :=
  match l, i with
  | [], _ => []
  | _ :: r, O => a :: r
  | b :: r, S j => b :: list_set j a r
  end.
Definition buf_set (i : nat) (b : str) (w : gworld) : gworld :=
  mkGW (gw_out w) (list_set i b (gw_bufs w)) (gw_fuel w) (gw_st w).
Definition buf_new (b : str) (w : gworld) : gworld :=
  mkGW (gw_out w) (gw_bufs w ++ [b])%list (gw_fuel w) (gw_st w).

(* ---------- the two model primitives: the halves of the model's exec_template_unbuffered ---------- *)
(* newContextForExecution: fuel left, the template whose root runs, and the state with the
   execution's root frame pushed; Err 3 when the context is rejected *)
Definition new_context (globals : list (str * cval)) (fuel : nat) (st : mstate) (t : template)
                       (ctx : list (str * cval)) : res (template * nat * mstate) :=
  match fuel with
  | O => Fuel
  | S f =>
      let merged := ctx_update globals ctx in
      if negb (forallb (fun kv => is_ident_key (fst kv)) merged) then Err 3%N
      else if existsb (fun kv => match assoc_get (fst kv) (tpl_exported t) with Some _ => true | None => false end)
                      merged then Err 3%N
      else
        let '(execid, g') := g_fresh (ms_g st) in
        Ok (hd t (tpl_chain t), f, mkM (root_frame globals t ctx execid :: ms_frames st) (ms_nodes st) g')
  end.
(* parent.root.Execute: output-so-far and outcome; the root frame is popped on success *)
Definition root_execute (se : senv) (globals : list (str * cval)) (f : nat) (st : mstate) (parent : template)
  : xres :=
  match exec_nodes se globals f st (tpl_root parent) with
  | (o, Ok st1) => xok o (pop_frame st1)
  | other => other
  end.

(* ---------- interpretation ---------- *)
Inductive flow := FNext (env : genv) | FRet (vs : list gval).

Definition type_of (v : gval) : option string :=
  match v with
  | GVTemplate _ => Some "Template"
  | GVStructPtr ty _ => Some ty
  | _ => None
  end.
Fixpoint find_method (ty m : string) (prog : list gfunc) : option gfunc :=
  match prog with
  | [] => None
  | fn :: r =>
      match gf_recv fn with
      | Some (_, ty') => if (String.eqb ty ty' && String.eqb m (gf_name fn))%bool then Some fn else find_method ty m r
      | None => find_method ty m r
      end
  end.

Section Interp.
  Variable prog : list gfunc.          (* the translated functions *)
  Variable stream_via : string.        (* the TemplateWriter method the nodes write with *)
  Variable se : senv.
  Variable globals : list (str * cval).

  Section Body.
    (* a method call one level down *)
    Variable callr : gval -> string -> list gval -> gworld -> kont -> gans.

    Definition field_of (v : gval) (f : string) : gres gval :=
      match v with
      | GVStructPtr _ fs => match scope_get f fs with Some x => GOk x | None => GStuck "no such field" end
      | GVTemplate t => if String.eqb f "root" then GOk (GVDocument t) else GStuck "unknown field of Template"
      | _ => GStuck "field of a value without fields"
      end.

    Definition pkg_call (pkg fn : string) (args : list gval) (w : gworld) (k : kont) : gans :=
      if (String.eqb pkg "bytes" && String.eqb fn "NewBuffer")%bool then
        match args with
        | [GVBytes s] => k [GVBuffer (List.length (gw_bufs w))] (buf_new s w)
        | _ => GStuck "bytes.NewBuffer: argument"
        end
      else GStuck "unknown function".

    (* an expression: its values (a call may give several) and the world afterwards go to k *)
    Fixpoint eval (e : gexpr) (env : genv) (w : gworld) (k : kont) {struct e} : gans :=
      match e with
      | GEVar x => match env_get x env with Some v => k [v] w | None => GStuck "unbound variable" end
      | GENil => k [GVNil] w
      | GEStr s => k [GVBytes (bytes_of_string s)] w
      | GEField e1 f =>
          eval e1 env w (one (fun v w1 =>
            match field_of v f with GOk x => k [x] w1 | GStuck s => GStuck s
                                  | GNotUnderstood s => GNotUnderstood s | GDepth => GDepth end))
      | GEMethod r m args =>
          eval r env w (one (fun v w1 =>
            (fix evl (l : list gexpr) (w : gworld) (k' : kont) {struct l} : gans :=
               match l with
               | [] => k' [] w
               | a :: rest => eval a env w (one (fun x w2 => evl rest w2 (fun xs w3 => k' (x :: xs) w3)))
               end) args w1 (fun vs w2 => callr v m vs w2 k)))
      | GECall pkg fn args =>
          (fix evl (l : list gexpr) (w : gworld) (k' : kont) {struct l} : gans :=
             match l with
             | [] => k' [] w
             | a :: rest => eval a env w (one (fun x w2 => evl rest w2 (fun xs w3 => k' (x :: xs) w3)))
             end) args w (fun vs w1 => pkg_call pkg fn vs w1 k)
      | GEAddrStruct ty fields =>
          (fix evf (l : list (string * gexpr)) (w : gworld) (k' : list (string * gval) -> gworld -> gans)
               {struct l} : gans :=
             match l with
             | [] => k' [] w
             | (f, a) :: rest => eval a env w (one (fun x w2 => evf rest w2 (fun xs w3 => k' ((f, x) :: xs) w3)))
             end) fields w (fun fs w1 => k [GVStructPtr ty fs] w1)
      | GEConv ty e1 =>
          eval e1 env w (one (fun v w1 =>
            match v with
            | GVBytes _ => if (String.eqb ty "[]byte" || String.eqb ty "string")%bool then k [v] w1
                           else GStuck "unknown conversion"
            | _ => GStuck "conversion of a value that is not a string or []byte"
            end))
      | GEEmptyBytes => k [GVBytes []] w
      | GENotNil e1 => eval e1 env w (one (fun v w1 => k [GVBool (negb (is_nil v))] w1))
      | GEIsNil e1 => eval e1 env w (one (fun v w1 => k [GVBool (is_nil v)] w1))
      | GEUnknown src => GNotUnderstood src
      | _ => GStuck "an expression of the second fragment (Lib/GoStmt.v): no meaning for a wrapper"
      end.

    Fixpoint eval_each (es : list gexpr) (env : genv) (w : gworld) (k : kont) : gans :=
      match es with
      | [] => k [] w
      | a :: rest => eval a env w (one (fun x w2 => eval_each rest env w2 (fun xs w3 => k (x :: xs) w3)))
      end.
    (* the right-hand side of an assignment / the operands of return: one expression that gives all
       the values (a call), or one value per expression *)
    Definition eval_rhs (es : list gexpr) (env : genv) (w : gworld) (k : kont) : gans :=
      match es with
      | [e] => eval e env w k
      | _ => eval_each es env w k
      end.

    (* a statement: kn continues with the next statement, kr returns from the function *)
    Fixpoint exec (s : gstmt) (env : genv) (w : gworld) (kn : genv -> gworld -> gans) (kr : kont) {struct s} : gans :=
      match s with
      | GSDefine lhs rhs =>
          eval_rhs rhs env w (fun vs w1 =>
            match all_lhs env_define lhs vs env with
            | Some env1 => kn env1 w1
            | None => GStuck "assignment mismatch"
            end)
      | GSAssign lhs rhs =>
          eval_rhs rhs env w (fun vs w1 =>
            match all_lhs env_assign lhs vs env with
            | Some env1 => kn env1 w1
            | None => GStuck "assignment mismatch or undeclared variable"
            end)
      | GSIf init c thn els =>
          let exl := fix exl (l : list gstmt) (env : genv) (w : gworld) (kn' : genv -> gworld -> gans)
                         {struct l} : gans :=
            match l with
            | [] => kn' env w
            | s1 :: r => exec s1 env w (fun env1 w1 => exl r env1 w1 kn') kr
            end in
          (* one scope for the init statement, one for the chosen block; both end with the if *)
          exl init ([] :: env) w (fun env1 w1 =>
            eval c env1 w1 (one (fun v w2 =>
              match v with
              | GVBool b =>
                  if b then exl thn ([] :: env1) w2 (fun env2 w3 => kn (tl (tl env2)) w3)
                  else exl els ([] :: env1) w2 (fun env2 w3 => kn (tl (tl env2)) w3)
              | _ => GStuck "condition is not a boolean"
              end)))
      | GSReturn es => eval_rhs es env w kr
      | GSExpr e => eval e env w (fun _ w1 => kn env w1)
      | GSUnknown src => GNotUnderstood src
      | _ => GStuck "a statement of the second fragment (Lib/GoStmt.v): no meaning for a wrapper"
      end.

    Fixpoint exec_list (l : list gstmt) (env : genv) (w : gworld) (kn : genv -> gworld -> gans) (kr : kont) : gans :=
      match l with
      | [] => kn env w
      | s1 :: r => exec s1 env w (fun env1 w1 => exec_list r env1 w1 kn kr) kr
      end.

    (* a translated function: receiver and parameters bound, the body run, the result count checked *)
    Definition call_func (fn : gfunc) (recv : gval) (args : list gval) (w : gworld) (k : kont) : gans :=
      match zip_params (gf_params fn) args with
      | None => GStuck "argument count mismatch"
      | Some sc =>
          let sc' := match gf_recv fn with Some (r, _) => (r, recv) :: sc | None => sc end in
          exec_list (gf_body fn) [sc'] w
            (fun _ w1 => if Nat.eqb (gf_nres fn) 0 then k [] w1 else GStuck "missing return")
            (fun vs w1 => if Nat.eqb (List.length vs) (gf_nres fn) then k vs w1 else GStuck "result count mismatch")
      end.

    (* the primitives *)
    Definition builtin (recv : gval) (m : string) (args : list gval) (w : gworld) (k : kont) : gans :=
      match recv with
      | GVWriter =>                                   (* the caller's io.Writer *)
          if String.eqb m "Write" then
            match args with
            | [GVBytes s] =>
                let '(o', ok) := w_write (gw_out w) s in
                let n := GVInt (List.length (w_buf o') - List.length (w_buf (gw_out w))) in
                if ok then k [n; GVNil] (set_out w o') else k [n; GVErr GWriteErr] (set_out w o')
            | _ => GStuck "Write: argument"
            end
          else GStuck "unknown method of io.Writer"
      | GVBuffer i =>                                 (* *bytes.Buffer *)
          match nth_error (gw_bufs w) i with
          | None => GStuck "no such buffer"
          | Some b =>
              if (String.eqb m "Write" || String.eqb m "WriteString")%bool then
                match args with
                | [GVBytes s] => k [GVInt (List.length s); GVNil] (buf_set i (b ++ s)%list w)
                | _ => GStuck "Buffer.Write: argument"
                end
              else if (String.eqb m "String" || String.eqb m "Bytes")%bool then
                match args with
                | [] => k [GVBytes b] w
                | _ => GStuck "Buffer.String: argument"
                end
              else if String.eqb m "WriteTo" then
                match args with
                | [wr] => callr wr "Write" [GVBytes b] w (fun vs w1 =>
                            match vs with
                            | [n; err] => k [n; err] (buf_set i [] w1)
                            | _ => GStuck "Write: result count"
                            end)
                | _ => GStuck "Buffer.WriteTo: argument"
                end
              else GStuck "unknown method of bytes.Buffer"
          end
      | GVTemplate t =>
          if String.eqb m "newContextForExecution" then
            match args with
            | [GVContext c] =>
                match new_context globals (gw_fuel w) (gw_st w) t c with
                | Ok (p, f, st') => k [GVTemplate p; GVExecCtx f st'; GVNil] w
                | other => k [GVTemplate (hd t (tpl_chain t)); GVNil; err_of_res other] w
                end
            | _ => GStuck "newContextForExecution: argument"
            end
          else GStuck "unknown method of Template"
      | GVDocument p =>
          if String.eqb m "Execute" then
            match args with
            | [GVExecCtx f st'; wr] =>
                let '(o, r) := root_execute se globals f st' p in
                callr wr stream_via [GVBytes o] w (fun _ w1 =>
                  match r with
                  | Ok st1 => k [GVNil] (set_st w1 st1)
                  | other => k [err_of_res other] w1
                  end)
            | _ => GStuck "Execute: arguments"
            end
          else GStuck "unknown method of nodeDocument"
      | _ => GStuck "method call on a value without methods"
      end.
  End Body.

  (* recv.m(args) in world w; the results and the world afterwards go to k *)
  Fixpoint call (d : nat) (recv : gval) (m : string) (args : list gval) (w : gworld) (k : kont) {struct d} : gans :=
    match d with
    | O => GDepth
    | S d' =>
        match match type_of recv with Some ty => find_method ty m prog | None => None end with
        | Some fn => call_func (call d') fn recv args w k
        | None => builtin (call d') recv m args w k
        end
    end.

  (* the whole run of recv.m(args) *)
  Definition go_call (d : nat) (recv : gval) (m : string) (args : list gval) (w : gworld) : gans :=
    call d recv m args w (fun vs w' => GOk (vs, w')).
End Interp.

(* ---------- reading a result as what the specification of Spec/SpecWriter.v speaks about ---------- *)
(* func(...) error, with the caller's writer afterwards *)
Definition as_writer_result (r : gans) : option (writer * wres) :=
  match r with
  | GOk ([GVNil], w) => Some (gw_out w, WOk)
  | GOk ([GVErr (GExecErr x)], w) => Some (gw_out w, WExecFail x)
  | GOk ([GVErr GWriteErr], w) => Some (gw_out w, WWriteErr)
  | _ => None
  end.
(* func(...) (string, error) / ([]byte, error): the value with a nil error, or exactly the zero
   value [zero] with an execution error *)
Definition as_value_result (zero : gval) (r : gans) : option (str + failure) :=
  match r with
  | GOk ([GVBytes s; GVNil], _) => Some (inl s)
  | GOk ([z; GVErr (GExecErr x)], _) =>
      match zero, z with
      | GVNil, GVNil => Some (inr x)
      | GVBytes [], GVBytes [] => Some (inr x)
      | _, _ => None
      end
  | _ => None
  end.
(* func(...) ( *bytes.Buffer, error): the buffer's content with a nil error, or a nil buffer with
   an execution error *)
Definition as_buffer_result (r : gans) : option (str + failure) :=
  match r with
  | GOk ([GVBuffer i; GVNil], w) => match nth_error (gw_bufs w) i with Some b => Some (inl b) | None => None end
  | GOk ([GVNil; GVErr (GExecErr x)], _) => Some (inr x)
  | _ => None
  end.
(* Write / WriteString: (int, error) with the caller's writer afterwards; true = nil error *)
Definition as_write_result (r : gans) : option (writer * bool) :=
  match r with
  | GOk ([GVInt _; GVNil], w) => Some (gw_out w, true)
  | GOk ([GVInt _; GVErr GWriteErr], w) => Some (gw_out w, false)
  | _ => None
  end.
(* func(...) error, with buffer number 0 afterwards (execute into a *bytes.Buffer) *)
Definition as_buffer0_result (r : gans) : option (str * option failure) :=
  match r with
  | GOk ([GVNil], w) => match gw_bufs w with b :: _ => Some (b, None) | [] => None end
  | GOk ([GVErr (GExecErr x)], w) => match gw_bufs w with b :: _ => Some (b, Some x) | [] => None end
  | _ => None
  end.

(* the world an entry point starts in: the caller's writer, no buffer yet *)
Definition world0 (w : writer) (fuel : nat) (st : mstate) : gworld := mkGW w [] fuel st.
(* &templateWriter{w: writer} for the caller's writer *)
Definition tw_value : gval := GVStructPtr "templateWriter" [("w", GVWriter)].
(* the methods of TemplateWriter a node may write with *)
Definition stream_methods : list string := ["Write"; "WriteString"].
