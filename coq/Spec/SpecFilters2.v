(* Reference definitions for more data filters (property C18, second part), written from the
   wording of the Django documentation / the Python operations it names, not from the filter
   code: sep.join(parts), str.split() on white space, str.replace(x, ""), Python truthiness,
   64-bit addition, decimal digits, line numbering, the ASCII alphabets.
   They only use the value universe (Model/Value.v: [val], [to_string]), byte strings, UTF-8
   characters ([runes], [encode_rune], [of_runes] of Lib/Utf8.v) and the decimal text of an
   integer ([itoa] of Lib/GoInt.v); nothing of Model/Filters.v. *)
From PV Require Import Model.Value.
Open Scope N_scope.

(* ---- join / split ------------------------------------------------------------------ *)

(* Python's sep.join(parts): the parts with a separator in front of every part but the first *)
Definition py_join (sep : str) (parts : list str) : str :=
  match parts with
  | [] => []
  | x :: rest => x ++ flat_map (fun y => sep ++ y) rest
  end.

(* x occurs in s (as a contiguous substring) *)
Definition occurs (x s : str) : Prop := exists a b, s = a ++ x ++ b.
Definition starts_with (x s : str) : Prop := exists t, s = x ++ t.
Definition lacks (c : N) (s : str) : Prop := ~ In c s.

(* Python's s.split(sep) for a non-empty sep: the FIRST occurrence of sep ends the first
   piece (in piece ++ sep the separator occurs at the very end only), and so on behind it;
   the last piece is what has no occurrence left *)
Definition sep_first_at_end (sep piece : str) : Prop :=
  forall a b, piece ++ sep = a ++ sep ++ b -> b = [].
Inductive split_rel (sep : str) : str -> list str -> Prop :=
| split_last : forall s, ~ occurs sep s -> split_rel sep s [s]
| split_more : forall piece rest parts, sep_first_at_end sep piece -> split_rel sep rest parts ->
    split_rel sep (piece ++ sep ++ rest) (piece :: parts).

(* the characters of a string, each as its own string *)
Definition chars (s : str) : list str := map encode_rune (runes s).

(* the rendering of the scalars of a list: [strs] are the texts of [l], item by item *)
Definition rendered (l : list val) (strs : list str) : Prop :=
  Forall2 (fun v s => to_string v = Some s) l strs.

(* ---- cut: Python's s.replace(x, "") ------------------------------------------------- *)
(* scanning from the left; at an occurrence of x drop it and go on behind it (occurrences
   do not overlap), otherwise keep the byte *)
Inductive cut_rel (x : str) : str -> str -> Prop :=
| cut_done : cut_rel x [] []
| cut_hit : forall rest r, cut_rel x rest r -> cut_rel x (x ++ rest) r
| cut_keep : forall c s r, ~ starts_with x (c :: s) -> cut_rel x s r -> cut_rel x (c :: s) (c :: r).

(* ---- add ---------------------------------------------------------------------------- *)
(* the sum of two 64-bit integers as a 64-bit machine holds it *)
Definition int64_add (a b : Z) : Z :=
  let s := (a + b)%Z in
  if (9223372036854775807 <? s)%Z then (s - 18446744073709551616)%Z
  else if (s <? -9223372036854775808)%Z then (s + 18446744073709551616)%Z
  else s.
Definition is_int64 (z : Z) : Prop := (-9223372036854775808 <= z <= 9223372036854775807)%Z.

(* ---- default, yesno: Python truthiness over the value universe ----------------------- *)
Definition py_falsy (v : val) : bool :=
  match v with
  | VNil => true
  | VBool b => negb b
  | VInt z => (z =? 0)%Z
  | VFloat f => match f with S754_zero _ => true | _ => false end
  | VStr [] | VList [] | VMap [] => true
  | _ => false
  end.

Inductive tri := TriTrue | TriFalse | TriNone.
Definition tri_of (v : val) : tri :=
  match v with VNil => TriNone | _ => if py_falsy v then TriFalse else TriTrue end.
Definition tri_pick (t : tri) (yes no maybe : str) : str :=
  match t with TriTrue => yes | TriFalse => no | TriNone => maybe end.

Definition s_yes : str := [121; 101; 115].             (* "yes" *)
Definition s_no : str := [110; 111].                   (* "no" *)
Definition s_maybe : str := [109; 97; 121; 98; 101].   (* "maybe" *)

(* the answer for a comma-separated argument with the given parts; None = the filter refuses.
   pongo2, unlike Django, keeps "maybe" for nil when only two parts are given, and refuses a
   one-part argument instead of returning the input *)
Definition yesno_ref (v : val) (parts : list str) : option str :=
  match parts with
  | [y; n] => Some (tri_pick (tri_of v) y n s_maybe)
  | [y; n; m] => Some (tri_pick (tri_of v) y n m)
  | _ => None
  end.

(* ---- pluralize ---------------------------------------------------------------------- *)
(* the suffix for count n: no argument ([] parts) means "s"; one part is the plural suffix;
   two parts are singular,plural *)
Definition pluralize_ref (n : Z) (parts : list str) : option str :=
  match parts with
  | [] => Some (if (n =? 1)%Z then [] else [115])
  | [pl] => Some (if (n =? 1)%Z then [] else pl)
  | [sg; pl] => Some (if (n =? 1)%Z then sg else pl)
  | _ => None
  end.

(* ---- wordcount: Python's str.split() without argument -------------------------------- *)
(* the pieces between separator elements (always at least one piece) *)
Fixpoint split_on {A} (p : A -> bool) (l : list A) : list (list A) :=
  match l with
  | [] => [[]]
  | c :: r =>
      if p c then [] :: split_on p r
      else match split_on p r with
           | piece :: rest => (c :: piece) :: rest
           | [] => [[c]]
           end
  end.
Definition nonempty {A} (l : list A) : bool := match l with [] => false | _ => true end.
(* white-space separated fields: the non-empty pieces *)
Definition ws_fields {A} (p : A -> bool) (l : list A) : list (list A) := filter nonempty (split_on p l).

(* ---- upper / lower / capfirst on ASCII ----------------------------------------------- *)
Definition lower_alphabet : str := map N.of_nat (seq 97 26).   (* a .. z *)
Definition upper_alphabet : str := map N.of_nat (seq 65 26).   (* A .. Z *)
Fixpoint index_of (b : N) (l : str) : option nat :=
  match l with
  | [] => None
  | c :: r => if b =? c then Some 0%nat else option_map S (index_of b r)
  end.
(* the letter at the same place of the other alphabet; everything else stays *)
Definition ascii_upper (b : N) : N :=
  match index_of b lower_alphabet with Some i => nth i upper_alphabet b | None => b end.
Definition ascii_lower (b : N) : N :=
  match index_of b upper_alphabet with Some i => nth i lower_alphabet b | None => b end.
Definition is_ascii (s : str) : Prop := Forall (fun b => b < 128) s.

(* ---- get_digit ---------------------------------------------------------------------- *)
(* the i-th decimal digit of z counted from the right, the right-most being number 1 *)
Definition digit_from_right (z i : Z) : Z := ((z / 10 ^ (i - 1)) mod 10)%Z.

(* ---- linenumbers -------------------------------------------------------------------- *)
(* line number k (counting from 0) gets the prefix "<k+1>. " *)
Definition numbered (lines : list str) : list str :=
  map (fun '(k, l) => itoa (Z.of_nat k + 1) ++ [46; 32] ++ l) (combine (seq 0 (length lines)) lines).

(* ---- truncatechars / truncatewords ---------------------------------------------------- *)
Definition dots : str := [46; 46; 46].   (* "..." *)
(* pongo2's truncatechars on a list of characters: n <= 0 leaves the text alone (Django would
   return just the ellipsis); text that fits is kept; otherwise n characters in all, the last
   three of which are "..." when n >= 3 *)
Definition truncchars_ref (cs : list N) (n : Z) : list N :=
  if (n <=? 0)%Z then cs
  else if (Z.of_nat (length cs) <=? n)%Z then cs
  else if (3 <=? n)%Z then firstn (Z.to_nat (n - 3)) cs ++ dots
  else firstn (Z.to_nat n) cs.
(* truncatewords: the first n words, and "..." as one more word when words were dropped *)
Definition truncwords_ref (words : list str) (n : Z) : list str :=
  if (n <=? 0)%Z then []
  else if (Z.of_nat (length words) <=? n)%Z then words
  else firstn (Z.to_nat n) words ++ [dots].

(* ---- wordwrap (pongo2 wraps after w WORDS, not after w characters as Django does) ------ *)
(* [lines] cuts [words] into lines of w words, the last one possibly shorter *)
Fixpoint wrapped {A} (w : nat) (words : list A) (lines : list (list A)) : Prop :=
  match lines with
  | [] => words = []
  | [last] => words = last /\ (1 <= length last <= w)%nat
  | line :: more => length line = w /\ exists rest, words = line ++ rest /\ wrapped w rest more
  end.

(* ---- well-formed UTF-8 ---------------------------------------------------------------- *)
(* a Unicode scalar value: what a character of a well-formed UTF-8 text decodes to *)
Definition scalar (r : N) : Prop := r < 55296 \/ (57343 < r /\ r <= 1114111).

(* ---- the filter names, as the bytes of their ASCII spelling ---------------------------- *)
Definition n_join : str := [106; 111; 105; 110].                                   (* "join" *)
Definition n_split : str := [115; 112; 108; 105; 116].                             (* "split" *)
Definition n_first : str := [102; 105; 114; 115; 116].                             (* "first" *)
Definition n_last : str := [108; 97; 115; 116].                                    (* "last" *)
Definition n_add : str := [97; 100; 100].                                          (* "add" *)
Definition n_default : str := [100; 101; 102; 97; 117; 108; 116].                  (* "default" *)
Definition n_default_if_none : str :=
  [100; 101; 102; 97; 117; 108; 116; 95; 105; 102; 95; 110; 111; 110; 101].        (* "default_if_none" *)
Definition n_yesno : str := [121; 101; 115; 110; 111].                             (* "yesno" *)
Definition n_pluralize : str := [112; 108; 117; 114; 97; 108; 105; 122; 101].      (* "pluralize" *)
Definition n_wordcount : str := [119; 111; 114; 100; 99; 111; 117; 110; 116].      (* "wordcount" *)
Definition n_cut : str := [99; 117; 116].                                          (* "cut" *)
Definition n_capfirst : str := [99; 97; 112; 102; 105; 114; 115; 116].             (* "capfirst" *)
Definition n_upper : str := [117; 112; 112; 101; 114].                             (* "upper" *)
Definition n_lower : str := [108; 111; 119; 101; 114].                             (* "lower" *)
Definition n_make_list : str := [109; 97; 107; 101; 95; 108; 105; 115; 116].       (* "make_list" *)
Definition n_length_is : str := [108; 101; 110; 103; 116; 104; 95; 105; 115].      (* "length_is" *)
Definition n_get_digit : str := [103; 101; 116; 95; 100; 105; 103; 105; 116].      (* "get_digit" *)
Definition n_truncatechars : str :=
  [116; 114; 117; 110; 99; 97; 116; 101; 99; 104; 97; 114; 115].                   (* "truncatechars" *)
Definition n_truncatewords : str :=
  [116; 114; 117; 110; 99; 97; 116; 101; 119; 111; 114; 100; 115].                 (* "truncatewords" *)
Definition n_linenumbers : str := [108; 105; 110; 101; 110; 117; 109; 98; 101; 114; 115]. (* "linenumbers" *)
Definition n_wordwrap : str := [119; 111; 114; 100; 119; 114; 97; 112].            (* "wordwrap" *)
