(* Specification for property C07: expression trees of the documented grammar, their
   printing with minimal parentheses, the tree pongo2's parser is expected to build for
   them, and a direct evaluator of the tree (the "fully parenthesised reading"). *)
From PV Require Import Model.Exec.
Open Scope N_scope.

Inductive sx :=
| SInt (z : Z)                    (* a non-negative integer literal *)
| SFloat (ip fp : str)            (* digits "." digits *)
| SStr (s : str)
| SBool (b : bool)
| SVar (name : str)
| SNeg (e : sx)
| SNot (e : sx)
| SPow (a b : sx)
| SMul (op : N) (a b : sx)        (* op is the byte of  * / %  *)
| SAdd (op : N) (a b : sx)        (* op is the byte of  + -  *)
| SRel (op : relop) (a b : sx)    (* == != < <= > >= in *)
| SLogic (is_and : bool) (a b : sx).

(* precedence levels: 0 and/or, 1 comparisons and in, 2 + - and the unary operators,
   3 * / %, 4 ^, 5 atoms *)
Definition sprec (e : sx) : nat :=
  match e with
  | SLogic _ _ _ => 0
  | SRel _ _ _ => 1
  | SAdd _ _ _ | SNeg _ | SNot _ => 2
  | SMul _ _ _ => 3
  | SPow _ _ => 4
  | _ => 5
  end.

(* tokens as the lexer produces them (positions do not matter to the parser) *)
Definition tsym (s : str) : token := mkTok TSymbol s 0 0 false.
Definition tkw (s : str) : token := mkTok TKeyword s 0 0 false.
Definition tnum (s : str) : token := mkTok TNumber s 0 0 false.
Definition tstr (s : str) : token := mkTok TString s 0 0 false.
Definition tid (s : str) : token := mkTok TIdentifier s 0 0 false.

Definition relop_tok (op : relop) : token :=
  match op with
  | REq => tsym [61; 61] | RNe => tsym [33; 61] | RLt => tsym [60] | RLe => tsym [60; 61]
  | RGt => tsym [62] | RGe => tsym [62; 61] | RIn => tkw k_in
  end.

(* print with parentheses exactly where the precedence of the context requires them *)
Fixpoint sprint (level : nat) (e : sx) : list token :=
  let body :=
    match e with
    | SInt z => [tnum (itoa z)]
    | SFloat ip fp => [tnum ip; tsym y_dot; tnum fp]
    | SStr s => [tstr s]
    | SBool b => [tkw (if b then k_true else k_false)]
    | SVar n => [tid n]
    | SNeg a => tsym y_minus :: sprint 3 a
    | SNot a => tkw k_not :: sprint 5 a
    | SPow a b => sprint 5 a ++ tsym y_caret :: sprint 4 b
    | SMul op a b => sprint 3 a ++ tsym [op] :: sprint 4 b
    | SAdd op a b => sprint 2 a ++ tsym [op] :: sprint 3 b
    | SRel op a b => sprint 2 a ++ relop_tok op :: sprint 2 b
    | SLogic is_and a b =>
        sprint 1 a ++ tkw (if is_and then k_and else k_or) ::
        (match b with
         | SLogic is_and' _ _ => if Bool.eqb is_and is_and' then sprint 0 b else sprint 1 b
         | _ => sprint 1 b
         end)
    end in
  if Nat.ltb (sprec e) level then tsym y_lpar :: body ++ [tsym y_rpar] else body.

(* the node pongo2 builds for  l op r  at the additive level: a leading sign / not of the
   first term lives in the same node *)
Definition mk_simple (l : expr) (op : N) (r : expr) : expr :=
  match l with
  | ESimple ns ng a None => ESimple ns ng a (Some (op, r))
  | _ => ESimple false false l (Some (op, r))
  end.

Definition atom (e : expr) : expr := EFilt e [].

(* the tree the parser is expected to build; None if a literal is outside the modelled range *)
Fixpoint elab (e : sx) : option expr :=
  match e with
  | SInt z => Some (atom (EInt z))
  | SFloat ip fp => option_map (fun f => atom (EFloat f)) (parse_decimal ip fp)
  | SStr s => Some (atom (EStr s))
  | SBool b => Some (atom (EBool b))
  | SVar n => Some (atom (EVar [PIdent n None]))
  | SNeg a => option_map (fun x => ESimple true false x None) (elab a)
  | SNot a => option_map (fun x => ESimple false true x None) (elab a)
  | SPow a b => match elab a, elab b with Some x, Some y => Some (EPow x y) | _, _ => None end
  | SMul op a b => match elab a, elab b with Some x, Some y => Some (ETerm op x y) | _, _ => None end
  | SAdd op a b => match elab a, elab b with Some x, Some y => Some (mk_simple x op y) | _, _ => None end
  | SRel op a b => match elab a, elab b with Some x, Some y => Some (ERel op x y) | _, _ => None end
  | SLogic is_and a b => match elab a, elab b with Some x, Some y => Some (ELogic is_and x y) | _, _ => None end
  end.

(* well-formed trees: literals the lexer can produce, operators the grammar knows, and the
   fragment's restrictions that concern parsing (a unary operator is never the operand of
   another unary operator without parentheses - the printer takes care of that; [not]
   applies to an atom or a parenthesised expression, which [sprint 5] enforces) *)
Definition is_ident_str (s : str) : bool :=
  match s with
  | c :: r => (is_alpha c || (c =? 95)) && forallb (fun b => is_alpha b || is_digit b || (b =? 95)) r
  | [] => false
  end.
Definition not_keyword (s : str) : bool :=
  negb (existsb (str_eqb s) [k_in; k_and; k_or; k_not; k_true; k_false; [97; 115]; [101; 120; 112; 111; 114; 116]]).
Definition digits_str (s : str) : bool := negb (Nat.eqb (length s) 0) && forallb is_digit s.

Fixpoint swf (e : sx) : bool :=
  match e with
  | SInt z => ((0 <=? z) && (z <=? max_int))%Z
  | SFloat ip fp => digits_str ip && digits_str fp && match parse_decimal ip fp with Some _ => true | None => false end
  | SStr _ | SBool _ => true
  | SVar n => is_ident_str n && not_keyword n
  | SNeg a | SNot a => swf a
  | SPow a b => swf a && swf b
  | SMul op a b => ((op =? 42) || (op =? 47) || (op =? 37)) && swf a && swf b
  | SAdd op a b => ((op =? 43) || (op =? 45)) && swf a && swf b
  | SRel _ a b => swf a && swf b
  | SLogic _ a b => swf a && swf b
  end.

(* what may follow an expression printed at a given level without being absorbed by it:
   the next token is not an operator of that level or a tighter one *)
Definition is_binop_tok (t : token) : bool :=
  match logic_of t, relop_of t, add_op t, term_op t with
  | None, None, None, None => negb (is_kw t k_in) && negb (is_sym t y_caret) && negb (is_sym t y_pipe)
                              && negb (is_sym t y_dot) && negb (is_sym t y_lbr) && negb (is_sym t y_lpar)
  | _, _, _, _ => false
  end.
Definition follow_ok (rest : list token) : bool :=
  match rest with [] => true | t :: _ => is_binop_tok t end.

(* ---------- the direct evaluator: the fully parenthesised reading ---------- *)
Section Seval.
  Variable lookup : str -> value.     (* the value of a name; nil if unbound *)

  Definition num_bin (op : N) (x y : value) : res value :=
    let fl := is_float (vv x) || is_float (vv y) in
    if op =? 42 then
      if fl then do a <- float_of x; do b <- float_of y; Ok (as_value (VFloat (f_mul a b)))
      else do a <- int_of x; do b <- int_of y; Ok (as_value (VInt (wrap64 (a * b))))
    else if op =? 47 then
      if fl then do b <- float_of y; if f_is_zero b then Err 3 else do a <- float_of x; Ok (as_value (VFloat (f_div a b)))
      else do b <- int_of y; if (b =? 0)%Z then Err 3 else do a <- int_of x; Ok (as_value (VInt (wrap64 (Z.quot a b))))
    else if op =? 37 then
      do b <- int_of y; if (b =? 0)%Z then Err 3 else do a <- int_of x; Ok (as_value (VInt (Z.rem a b)))
    else if op =? 43 then
      if is_string (vv x) || is_string (vv y) then do a <- str_of x; do b <- str_of y; Ok (as_value (VStr (a ++ b)))
      else if fl then do a <- float_of x; do b <- float_of y; Ok (as_value (VFloat (f_add a b)))
      else do a <- int_of x; do b <- int_of y; Ok (as_value (VInt (wrap64 (a + b))))
    else
      if fl then do a <- float_of x; do b <- float_of y; Ok (as_value (VFloat (f_sub a b)))
      else do a <- int_of x; do b <- int_of y; Ok (as_value (VInt (wrap64 (a - b)))).

  Definition rel_bin (op : relop) (x y : value) : res value :=
    let fl := is_float (vv x) || is_float (vv y) in
    let cmp (fi : Z -> Z -> bool) (ff : float -> float -> bool) : res value :=
      if fl then do a <- float_of x; do b <- float_of y; Ok (as_value (VBool (ff a b)))
      else do a <- int_of x; do b <- int_of y; Ok (as_value (VBool (fi a b))) in
    match op with
    | RLe => cmp Z.leb f_leb
    | RGe => cmp (fun p q => Z.leb q p) (fun p q => f_leb q p)
    | RGt => cmp (fun p q => Z.ltb q p) (fun p q => f_ltb q p)
    | RLt => cmp Z.ltb f_ltb
    | REq => do b <- of_opt (equal_value_to (vv x) (vv y)); Ok (as_value (VBool b))
    | RNe => do b <- of_opt (equal_value_to (vv x) (vv y)); Ok (as_value (VBool (negb b)))
    | RIn => do b <- of_opt (val_contains (vv y) (vv x)); Ok (as_value (VBool b))
    end.

  Definition neg_val (x : value) : res value :=
    if is_number (vv x) then
      if is_float (vv x) then do a <- float_of x; Ok (as_value (VFloat (f_neg a)))
      else do a <- int_of x; Ok (as_value (VInt (wrap64 (- a))))
    else Err 3.

  Fixpoint seval (e : sx) : res value :=
    match e with
    | SInt z => Ok (as_value (VInt z))
    | SFloat ip fp => match parse_decimal ip fp with Some f => Ok (as_value (VFloat f)) | None => Unmod end
    | SStr s => Ok (as_value (VStr s))
    | SBool b => Ok (as_value (VBool b))
    | SVar n => Ok (lookup n)
    | SNeg a => do x <- seval a; neg_val x
    | SNot a => do x <- seval a; Ok (as_value (negate (vv x)))
    | SPow a b =>
        do x <- seval a; do y <- seval b;
        do fx <- float_of x; do fy <- float_of y;
        do r <- of_opt (f_pow fx fy); Ok (as_value (VFloat r))
    | SMul op a b => do x <- seval a; do y <- seval b; num_bin op x y
    | SAdd op a b => do x <- seval a; do y <- seval b; num_bin op x y
    | SRel op a b => do x <- seval a; do y <- seval b; rel_bin op x y
    | SLogic is_and a b =>
        do x <- seval a;
        if is_and then
          if negb (is_true (vv x)) then Ok (as_value (VBool false))
          else do y <- seval b; Ok (as_value (VBool (is_true (vv y))))
        else
          if is_true (vv x) then Ok (as_value (VBool true))
          else do y <- seval b; Ok (as_value (VBool (is_true (vv y))))
    end.
End Seval.
