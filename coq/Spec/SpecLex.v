(* Specifications for the lexer properties (C06, C15, C16): positions, spellings,
   delimiter-free text, independent fragments. *)
From PV Require Import Lib.Bytes Lib.GoInt gen.Tables Model.Lexer.
Open Scope N_scope.

(* ---------- positions (C16) ---------- *)
(* line/column of the byte that follows a prefix: a newline starts line+1 at column 1,
   every other byte advances the column by one (columns are byte-based) *)
Definition adv (p : Z * Z) (b : N) : Z * Z :=
  if b =? 10 then (fst p + 1, 1)%Z else (fst p, snd p + 1)%Z.
Definition advs (p : Z * Z) (s : str) : Z * Z := fold_left adv s p.
Definition pos_at (src : str) (off : nat) : Z * Z := advs (1, 1)%Z (firstn off src).

(* the source spelling of a token: a trimming delimiter is recorded without its dash *)
Definition sym_spelling (t : token) : str :=
  if ttrim t then (if is_prefix [123] (tval t) then tval t ++ [45] else 45 :: tval t)
  else tval t.

(* [spelled t s]: the source text [s] starts with the spelling of token [t] *)
Inductive spelled (t : token) : str -> Prop :=
| sp_string q raw rest :
    ttyp t = TString -> (q = 34 \/ q = 39) -> unescape_string raw = tval t ->
    spelled t (q :: raw ++ q :: rest)
| sp_symbol rest : ttyp t = TSymbol -> spelled t (sym_spelling t ++ rest)
| sp_other rest : ttyp t <> TString -> ttyp t <> TSymbol -> spelled t (tval t ++ rest).

(* the token records the line and column at which its text really starts *)
Definition tok_at (src : str) (t : token) : Prop :=
  exists off, (off <= length src)%nat /\
              pos_at src off = (tline t, tcol t) /\ spelled t (skipn off src).

(* ---------- literal text (C06) ---------- *)
(* no opening delimiter  {{  {%  {#  starts anywhere in s *)
Fixpoint delim_free (s : str) : bool :=
  match s with
  | [] => true
  | b :: s' =>
      negb ((b =? 123) && match s' with d :: _ => (d =? 123) || (d =? 37) || (d =? 35) | [] => false end)
      && delim_free s'
  end.

Definition html_tokens (s : str) (p : Z * Z) : list token :=
  match s with [] => [] | _ => [mkTok THTML s (fst p) (snd p) false] end.

(* ---------- fragments (C06 composition, C16 shift) ---------- *)
Inductive frag :=
| FText (t : str)          (* literal text *)
| FVerbatim (body : str)   (* {% verbatim %}body{% endverbatim %} *)
| FComment (c : str)       (* {#c#} *)
| FCode (src : str) (toks : Z -> Z -> list token).
                           (* a {{..}} / {%..%} construct and the tokens it lexes to at (line, col) *)

Definition frag_src (f : frag) : str :=
  match f with
  | FText t => t
  | FVerbatim b => s_verbatim_start ++ b ++ s_verbatim_end
  | FComment c => s_comment_open ++ c ++ s_comment_close
  | FCode src _ => src
  end.
Definition frags_src (l : list frag) : str := flat_map frag_src l.

(* tokens of a fragment list, threading the position *)
Fixpoint frags_toks (l : list frag) (p : Z * Z) : list token :=
  match l with
  | [] => []
  | f :: l' =>
      let p' := advs p (frag_src f) in
      match f with
      | FText t => html_tokens t p ++ frags_toks l' p'
      | FVerbatim b => html_tokens b (advs p s_verbatim_start) ++ frags_toks l' p'
      | FComment _ => frags_toks l' p'
      | FCode _ toks => toks (fst p) (snd p) ++ frags_toks l' p'
      end
  end.

(* A code fragment is a self-contained construct: started anywhere, the tokenizer produces
   exactly its tokens, consumes exactly its source and returns to the text state. *)
Definition reloc (l c : Z) (t : token) : token :=
  mkTok (ttyp t) (tval t) l (c + tcol t - 1)%Z (ttrim t).
Definition code_ok (src : str) (toks : Z -> Z -> list token) : Prop :=
  (forall l c, toks l c = map (reloc l c) (toks 1 1)%Z) /\
  (is_prefix s_var_open src = true \/ is_prefix s_tag_open src = true) /\
  is_prefix s_verbatim_start src = false /\
  existsb (N.eqb 10) src = false /\
  forall rest l c acc f, (length src < f)%nat ->
    code_go f (src ++ rest) l c acc = CodeOk rest (c + zlen src)%Z (rev (toks l c) ++ acc).

Fixpoint no_infix (pat s : str) : bool :=
  match s with
  | [] => negb (is_prefix pat [])
  | _ :: s' => negb (is_prefix pat s) && no_infix pat s'
  end.

(* The boundary conditions the word "independent" stands for. [next] is the source that
   follows the fragment. *)
Definition frag_ok (f : frag) (next : str) : Prop :=
  match f with
  | FText t =>
      (* no construct starts inside t, also not across its end *)
      t <> [] /\ delim_free (t ++ firstn 1 next) = true
  | FVerbatim b => no_infix s_verbatim_end (b ++ firstn 16 s_verbatim_end) = true
  | FComment c => existsb (N.eqb 10) c = false /\ no_infix s_comment_close (c ++ [35]) = true
  | FCode src toks => code_ok src toks
  end.

Fixpoint frags_ok (l : list frag) : Prop :=
  match l with
  | [] => True
  | f :: l' =>
      frag_ok f (frags_src l') /\ frags_ok l' /\
      (* two text fragments are never adjacent (they would be one text) *)
      match f, l' with FText _, FText _ :: _ => False | _, _ => True end
  end.

(* inserting text in front shifts positions by exactly the inserted lines and columns:
   tokens on the first line move right by the width of the prefix's last line, all tokens
   move down by its number of newlines *)
Definition shift_tok (p : Z * Z) (t : token) : token :=
  mkTok (ttyp t) (tval t) (tline t + fst p - 1)%Z
        (if (tline t =? 1)%Z then (tcol t + snd p - 1)%Z else tcol t) (ttrim t).
