(* What "a child's text outside its blocks is ignored" means (property C10, second part):
   templates that differ only in the root node lists of chain members that extend something,
   and states that differ only in such templates. *)
From PV Require Import Model.Exec Spec.SpecInherit.
Open Scope N_scope.

(* t1 and t2 are the same template except for the root node lists of the members of their
   chains that have a parent: same id, name, kind, block table, exported macros and options at
   every level, the base (the member that extends nothing) identical. *)
Inductive same_but_root : template -> template -> Prop :=
| sbr_same : forall t, same_but_root t t
| sbr_child : forall i n s r1 r2 b e p1 p2 tr ls,
    same_but_root p1 p2 ->
    same_but_root (Tpl i n s r1 b e (Some p1) tr ls) (Tpl i n s r2 b e (Some p2) tr ls).

(* t with the root nodes of EVERY chain member that has a parent replaced by nothing *)
Fixpoint drop_child_roots (t : template) : template :=
  match t with
  | Tpl i n s _ b e (Some p) tr ls => Tpl i n s [] b e (Some (drop_child_roots p)) tr ls
  | Tpl _ _ _ _ _ _ None _ _ => t
  end.

(* t with the root nodes of ONE chain member, the one k levels above t (0: t itself), replaced
   by r - unless that member is the base, which is left alone *)
Fixpoint with_root_at (k : nat) (r : list node) (t : template) : template :=
  match t with
  | Tpl i n s r0 b e (Some p) tr ls =>
      match k with
      | O => Tpl i n s r b e (Some p) tr ls
      | S k' => Tpl i n s r0 b e (Some (with_root_at k' r p)) tr ls
      end
  | Tpl _ _ _ _ _ _ None _ _ => t
  end.

(* ---- states that differ only in the parts of chain members the executor never reads ---- *)
(* what the executor reads of a member of a frame's chain: the block table (block lookup),
   id (of every member: which text nodes the options cover) and the two trim options (of the
   last member: text nodes), name and kind (of the first member: lazy include paths).  Neither the root nodes, nor the parent, nor the macros. *)
Definition tpl_alike (t1 t2 : template) : Prop :=
  tpl_id t1 = tpl_id t2 /\ tpl_name t1 = tpl_name t2 /\ tpl_is_string t1 = tpl_is_string t2 /\
  tpl_blocks t1 = tpl_blocks t2 /\ tpl_trim t1 = tpl_trim t2 /\ tpl_lstrip t1 = tpl_lstrip t2.
Definition frame_alike (a b : frame) : Prop :=
  f_priv a = f_priv b /\ f_pub a = f_pub b /\ f_auto a = f_auto b /\ f_depth a = f_depth b /\
  f_exec a = f_exec b /\ Forall2 tpl_alike (f_chain a) (f_chain b).
Definition state_alike (a b : mstate) : Prop :=
  Forall2 frame_alike (ms_frames a) (ms_frames b) /\ ms_nodes a = ms_nodes b /\ ms_g a = ms_g b.

(* two outcomes of the same kind whose states (if any) are alike *)
Definition res_alike {A} (R : A -> A -> Prop) (x y : res A) : Prop :=
  match x, y with
  | Ok a, Ok b => R a b
  | Err j, Err k => j = k
  | Unmod, Unmod => True
  | Fuel, Fuel => True
  | Panic s, Panic s' => s = s'
  | _, _ => False
  end.
(* executor results: the same output, alike outcomes *)
Definition xres_alike (x y : xres) : Prop :=
  fst x = fst y /\ res_alike state_alike (snd x) (snd y).
(* evaluator results: the same value, alike states *)
Definition vres_alike {A} (x y : res (A * mstate)) : Prop :=
  res_alike (fun p q => fst p = fst q /\ state_alike (snd p) (snd q)) x y.

(* a tower of n children on top of t, each with root nodes r and nothing else; the template
   used to show that the depth bound of the theorems cannot be dropped *)
Fixpoint tower (n : nat) (r : list node) (t : template) : template :=
  match n with
  | O => t
  | S k => Tpl 0 [] true r [] [] (Some (tower k r t)) false false
  end.
