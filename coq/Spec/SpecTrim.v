(* What whitespace control means (property C15), written from the documentation, not from the
   executor: which bytes of a literal text a "-" marker, TrimBlocks, LStripBlocks and the
   spaceless tag are allowed to delete. *)
From PV Require Import Lib.Bytes Model.Lexer.
Open Scope N_scope.

(* ---------- literal text next to a delimiter ---------- *)

(* the whitespace a "-" marker eats: space, newline, carriage return, tab *)
Definition is_tpl_space (b : N) : bool := (b =? 32) || (b =? 10) || (b =? 13) || (b =? 9).
(* what LStripBlocks eats: spaces and tabs *)
Definition is_blank (b : N) : bool := (b =? 32) || (b =? 9).

(* delete the longest prefix / suffix of bytes satisfying [p] *)
Fixpoint drop_leading (p : N -> bool) (s : str) : str :=
  match s with
  | [] => []
  | b :: r => if p b then drop_leading p r else s
  end.
Fixpoint drop_trailing (p : N -> bool) (s : str) : str :=
  match s with
  | [] => []
  | b :: r => match drop_trailing p r with
              | [] => if p b then [] else [b]
              | r' => b :: r'
              end
  end.
(* TrimBlocks: exactly one newline, and only if it is the very first byte *)
Definition drop_one_newline (s : str) : str :=
  match s with
  | [] => []
  | b :: r => if b =? 10 then r else s
  end.

(* The text a literal [val] contributes to the output.
   [trimblocks]/[lstrip]: the options are in force for this text;
   [after]/[before]: the text directly follows / precedes a block tag;
   [trimL]/[trimR]: the delimiter before / after the text carries a "-". *)
Definition trim_spec (trimblocks lstrip trimL trimR after before : bool) (val : str) : str :=
  let v1 := if lstrip && before then drop_trailing is_blank val else val in
  let v2 := if trimblocks && after then drop_one_newline v1 else v1 in
  let v3 := if trimL then drop_leading is_tpl_space v2 else v2 in
  if trimR then drop_trailing is_tpl_space v3 else v3.

(* The block options are those of the template that is executed (the last one of a chain
   base <- ... <- child of "extends"); they are in force for a text iff the text belongs to one
   of the templates of that chain: the executed template itself or any template it extends,
   directly or not (pongo2 after fix D42; before, only the executed template's own texts).
   [ids]: the identities of the templates of the chain; [owner]: the template the text is from. *)
Definition owned_by_chain (ids : list N) (owner : N) : bool := existsb (fun i => i =? owner) ids.

(* ---------- what the neighbours of a token say about it ---------- *)

(* a delimiter written with the "-" marker ({{-, -}}, {%-, -%}) *)
Definition carries_dash (t : token) : bool :=
  match ttyp t with TSymbol => ttrim t | _ => false end.
Definition is_text (t : token) : bool := match ttyp t with THTML => true | _ => false end.
(* the closing / opening delimiter of a block tag *)
Definition closes_tag (t : token) : bool := negb (is_text t) && str_eqb (tval t) [37; 125] (* %} *).
Definition opens_tag (t : token) : bool := negb (is_text t) && str_eqb (tval t) [123; 37] (* {% *).

(* the token before position i of [ts] ([prev] is what precedes the whole list) and after it *)
Definition tok_before (prev : option token) (ts : list token) (i : nat) : option token :=
  match i with O => prev | S j => nth_error ts j end.
Definition tok_after (ts : list token) (i : nat) : option token := nth_error ts (S i).
Definition holds (p : token -> bool) (o : option token) : bool :=
  match o with Some t => p t | None => false end.

(* ---------- spaceless ---------- *)

(* the white space of the regular expression class [\t\n\v\f\r ] *)
Definition is_html_space (b : N) : bool := ((9 <=? b) && (b <=? 13)) || (b =? 32).

(* [deleted_ws s o]: o is s with some white-space bytes deleted, every other byte kept in place *)
Inductive deleted_ws : str -> str -> Prop :=
| dw_nil : deleted_ws [] []
| dw_keep : forall c s o, deleted_ws s o -> deleted_ws (c :: s) (c :: o)
| dw_drop : forall c s o, is_html_space c = true -> deleted_ws s o -> deleted_ws (c :: s) o.

Definition visible (s : str) : str := filter (fun b => negb (is_html_space b)) s.
