(* Reference definitions for the data filters (property C18): Python slicing, padding
   shapes, truncation shape.  Small and independent of the filter code. *)
From PV Require Import Model.Filters.
Open Scope N_scope.

(* Python's normalisation of a slice bound against a sequence of length n *)
Definition py_bound (n x : Z) : Z :=
  let y := if (x <? 0)%Z then Z.max (n + x) 0 else x in Z.min y n.

(* s[a:b] with optional bounds *)
Definition py_slice {A} (l : list A) (a b : option Z) : list A :=
  let n := Z.of_nat (length l) in
  let i := match a with Some x => py_bound n x | None => 0%Z end in
  let j := match b with Some y => py_bound n y | None => n end in
  slice_list l (Z.to_nat i) (Z.to_nat (Z.max i j)).

(* the text of a slice argument *)
Definition bound_text (b : option Z) : str := match b with Some z => itoa z | None => [] end.
Definition slice_arg (a b : option Z) : str := bound_text a ++ [58] ++ bound_text b.

Definition all_spaces (s : str) : bool := forallb (N.eqb 32) s.
Definition rune_len (s : str) : nat := length (runes s).

(* the slice bounds covered exhaustively by the window check of Tie/C18.v *)
Definition in_window (z : Z) : Prop := (-64 <= z <= 64)%Z.
Definition opt_in_window (o : option Z) : Prop := match o with Some z => in_window z | None => True end.
