(* What "the rest of the stack is untouched" means (property C12). *)
From PV Require Import Model.Exec.
Open Scope N_scope.

(* the frames below the current one are identical, and of the current frame everything but
   its private bindings is *)
Definition same_below (st st' : mstate) : Prop :=
  tl (ms_frames st') = tl (ms_frames st) /\
  match ms_frames st, ms_frames st' with
  | fr :: _, fr' :: _ =>
      f_pub fr' = f_pub fr /\ f_auto fr' = f_auto fr /\ f_depth fr' = f_depth fr /\
      f_exec fr' = f_exec fr /\ f_chain fr' = f_chain fr
  | [], [] => True
  | _, _ => False
  end.
