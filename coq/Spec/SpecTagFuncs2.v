(* Meaning of the Go fragment of Lib/GoStmt.v, for the Execute methods of the tags that keep state
   (the second half of gen/TagFuncs.v, go_statefuncs, regenerated from the Go source on every run):
   tagSetNode.Execute (tags_set.go), tagAutoescapeNode.Execute (tags_autoescape.go),
   tagIfchangedNode.Execute and its helper tagIfchangedNode.state (tags_ifchanged.go).

   Same design as Spec/SpecTagFuncs.v (continuation-passing interpretation; what the methods call
   and do not define is primitive and given by the model; an outcome of the model that is no Go
   value ends the run: UStop).  The world holds, besides what the writer was handed (uw_out), the
   model's execution state (uw_st) and the model's fuel (uw_fuel), a HEAP (uw_heap) for what the
   methods allocate: the bytes.Buffer of the ifchanged tag and a fresh state object.

   How the Go data the methods touch is seen in the model's state (Model/Exec.v):
     ctx                    the top frame of uw_st (no frame: no context, the model's Panic 90)
     ctx.Autoescape         f_auto of the top frame; the store is set_top .. (with_auto ..)
     ctx.Private[k] = v     [set_priv] .. k (CV v)
     ctx.nodeState          the model's ms_nodes, for the execution f_exec of the top frame.  The Go
                            map goes from a node to a POINTER to its state object; the model's list
                            goes from (execution, node id) to the state itself.  So a pointer to a
                            state object that the map holds IS its key (UVStateKey e n), reading a
                            field through it is [ns_get], storing a field through it is [ns_set]
                            (the other field kept).  ctx.nodeState is never nil (context.go makes the
                            map with the context), so "ctx.nodeState = make(..)" has no meaning here.
     &tagIfchangedState{}   a fresh object on the heap (HFresh); ctx.nodeState[node] = st BINDS it to
                            the key (HBound e n) and writes nothing: the model does not record a
                            state object that still holds its zero value - a key without an entry
                            and a zero state are the same (lastValues empty, lastContent nil).
     v, ok := x.( *tagIfchangedState)   ok when the entry under the key is an NSIfchanged
     bytes.NewBuffer(b)     a buffer on the heap (HBuf); wrapper.Execute(ctx, buf) appends the output
                            of [exec_nodes] to it; buf.Bytes() reads it; bytes.Equal(a, b) is
                            [str_eqb], nil being the empty slice
     []*Value               a list of the model's values (append, len, index - which panics out of
                            range -, range)

   FUEL.  As in Spec/SpecTagFuncs.v the interpretation spends the model's fuel where the model does,
   so that the tie is an equality for EVERY fuel: the call of an Execute method takes one unit
   (exec_node (S f) runs the tag's code with f); a helper method (state) runs on its caller's fuel;
   a range loop over EXPRESSIONS takes one unit at every test of its head and hands the rest to the
   body (the model's eval_list), and when the loop is left at its end the fuel is what it was when
   the loop was entered (the model's fuel bounds the nesting, not the number of steps: what follows
   the loop runs with the tag's fuel again); a range loop over VALUES calls nothing of the model
   that needs fuel and takes none.

   Fifth fragment (Lib/GoStmt.v): GETypeAssertOk, GEAppend, GEEmptySlice, GSBreak (GERem and
   GSIncField are syntax only so far: UStuck).  break leaves the innermost range loop: a statement
   has three continuations - next statement, return, break. *)
From PV Require Import Model.Exec Lib.GoStmt Spec.SpecTagFuncs.
From Coq Require Import String Ascii.
Open Scope string_scope.

(* ---------- values, heap, world, results ---------- *)
Inductive uval :=
| UVNil
| UVBool (b : bool)
| UVInt (n : nat)
| UVStr (s : str)
| UVBytes (s : str)                        (* a non-nil []byte *)
| UVValue (v : value)                      (* a *Value *)
| UVValues (vs : list value)               (* []*Value *)
| UVExpr (e : expr)                        (* an IEvaluator *)
| UVExprs (es : list expr)                 (* []IEvaluator *)
| UVWrapper (ns : list node)               (* a *NodeWrapper: its nodes *)
| UVErr (kind : N)                         (* a non-nil *Error: the model's Err kind *)
| UVCtx                                    (* the *ExecutionContext: its state is the world's *)
| UVWriter                                 (* the TemplateWriter: what it holds is the world's *)
| UVPrivate                                (* the map ctx.Private *)
| UVNodeState (e : N)                      (* the map ctx.nodeState of execution e *)
| UVStateKey (e n : N)                     (* a pointer to the state object ctx.nodeState holds for node n *)
| UVPtr (a : nat)                          (* a pointer to a heap object *)
| UVSetNode (name : str) (e : expr)                                             (* *tagSetNode *)
| UVAutoescapeNode (body : list node) (on : bool)                               (* *tagAutoescapeNode *)
| UVIfchangedNode (id : N) (watched : list expr) (thenb : list node) (elseb : option (list node)).
                                                                                (* *tagIfchangedNode *)

Inductive hobj :=
| HBuf (s : str)                           (* a bytes.Buffer *)
| HFresh                                   (* a state object with its zero value that no map holds yet *)
| HBound (e n : N).                        (* a state object that ctx.nodeState holds under (e, n) *)

Record uworld := mkUW { uw_out : str; uw_st : mstate; uw_fuel : nat; uw_heap : list hobj }.

Inductive uf_res (A : Type) :=
| UOk (a : A)
| UStop (why : stop) (w : uworld)      (* a primitive left the model, ran out of fuel, or panicked *)
| UPanic (why : string) (w : uworld)   (* a run-time panic of the translated code itself *)
| UStuck (why : string)
| UNotUnderstood (src : string)
| UDepth.
Arguments UOk {A} a. Arguments UStop {A} why w. Arguments UPanic {A} why w. Arguments UStuck {A} why.
Arguments UNotUnderstood {A} src. Arguments UDepth {A}.

Definition uans := uf_res (list uval * uworld).
Definition ukont := list uval -> uworld -> uans.
Definition uone (k : uval -> uworld -> uans) : ukont :=
  fun vs w => match vs with [v] => k v w | _ => UStuck "single value expected" end.

Definition u_is_nil (v : uval) : bool := match v with UVNil => true | _ => false end.

Definition uset_st (w : uworld) (st : mstate) : uworld := mkUW (uw_out w) st (uw_fuel w) (uw_heap w).
Definition uset_fuel (w : uworld) (f : nat) : uworld := mkUW (uw_out w) (uw_st w) f (uw_heap w).
Definition uset_heap (w : uworld) (h : list hobj) : uworld := mkUW (uw_out w) (uw_st w) (uw_fuel w) h.
Definition uadd_out (w : uworld) (s : str) : uworld := mkUW (out_app (uw_out w) s) (uw_st w) (uw_fuel w) (uw_heap w).

(* the heap: allocation at the end, so that addresses stay *)
Definition heap_alloc (h : list hobj) (o : hobj) : nat * list hobj := (List.length h, (h ++ [o])%list).
Definition heap_get (h : list hobj) (a : nat) : option hobj := nth_error h a.
Fixpoint heap_set (h : list hobj) (a : nat) (o : hobj) : list hobj :=
  match h, a with
  | [], _ => []
  | _ :: r, O => o :: r
  | x :: r, S a' => x :: heap_set r a' o
  end.

(* the state object of the ifchanged tag under a key: no entry (or an entry of another tag) is the zero value *)
Definition ifch_vals (st : mstate) (e n : N) : list value :=
  match ns_get e n (ms_nodes st) with Some (NSIfchanged l _) => l | _ => [] end.
Definition ifch_content (st : mstate) (e n : N) : option str :=
  match ns_get e n (ms_nodes st) with Some (NSIfchanged _ c) => c | _ => None end.
Definition slice_append {A} (l : list A) (x : A) : list A := (l ++ [x])%list.
Definition bytes_of (o : option str) : str := match o with Some s => s | None => [] end.

(* ---------- variables: a stack of scopes, innermost first ---------- *)
Definition uscope := list (string * uval).
Definition uenv := list uscope.
Fixpoint uscope_get (x : string) (s : uscope) : option uval :=
  match s with
  | [] => None
  | (y, v) :: r => if String.eqb x y then Some v else uscope_get x r
  end.
Fixpoint uenv_get (x : string) (e : uenv) : option uval :=
  match e with
  | [] => None
  | s :: r => match uscope_get x s with Some v => Some v | None => uenv_get x r end
  end.
Fixpoint uscope_set (x : string) (v : uval) (s : uscope) : option uscope :=
  match s with
  | [] => None
  | (y, u) :: r =>
      if String.eqb x y then Some ((y, v) :: r)
      else match uscope_set x v r with Some r' => Some ((y, u) :: r') | None => None end
  end.
Fixpoint uenv_set (x : string) (v : uval) (e : uenv) : option uenv :=
  match e with
  | [] => None
  | s :: r =>
      match uscope_set x v s with
      | Some s' => Some (s' :: r)
      | None => match uenv_set x v r with Some r' => Some (s :: r') | None => None end
      end
  end.
Definition uenv_define (x : string) (v : uval) (e : uenv) : option uenv :=
  if String.eqb x "_" then Some e else
  match e with
  | [] => None
  | s :: r => match uscope_set x v s with Some s' => Some (s' :: r) | None => Some (((x, v) :: s) :: r) end
  end.
Definition uenv_assign (x : string) (v : uval) (e : uenv) : option uenv :=
  if String.eqb x "_" then Some e else uenv_set x v e.
Fixpoint uall_lhs (f : string -> uval -> uenv -> option uenv) (xs : list string) (vs : list uval) (e : uenv)
  : option uenv :=
  match xs, vs with
  | [], [] => Some e
  | x :: xs', v :: vs' => match f x v e with Some e' => uall_lhs f xs' vs' e' | None => None end
  | _, _ => None
  end.
Fixpoint uzip_params (xs : list string) (vs : list uval) : option uscope :=
  match xs, vs with
  | [], [] => Some []
  | x :: xs', v :: vs' => match uzip_params xs' vs' with Some s => Some ((x, v) :: s) | None => None end
  | _, _ => None
  end.

Definition uval_eqb (a b : uval) : option bool :=
  match a, b with
  | UVBool x, UVBool y => Some (Bool.eqb x y)
  | UVInt x, UVInt y => Some (int_eq x y)
  | _, _ => None
  end.

(* the next statement / break: variables, world *)
Definition unkont := uenv -> uworld -> uans.

Definition utype_of (v : uval) : option string :=
  match v with
  | UVSetNode _ _ => Some "tagSetNode"
  | UVAutoescapeNode _ _ => Some "tagAutoescapeNode"
  | UVIfchangedNode _ _ _ _ => Some "tagIfchangedNode"
  | _ => None
  end.

(* for key, val := range es, over a slice of expressions: one unit of fuel at every test of the head;
   at the end of the loop the fuel is [f0] again, what it was when the loop was entered *)
Fixpoint uexprs_loop (bodyf : uenv -> uworld -> unkont -> unkont -> uans) (key val : string)
                     (es : list expr) (i : nat) (f0 : nat) (env : uenv) (w : uworld) (kn : unkont) {struct es} : uans :=
  match uw_fuel w with
  | O => UStop SFuel w
  | S f =>
      match es with
      | [] => kn env (uset_fuel w f0)
      | e :: r =>
          match uall_lhs uenv_define [key; val] [UVInt i; UVExpr e] ([] :: env) with
          | Some env1 =>
              bodyf ([] :: env1) (uset_fuel w f)
                    (fun env2 w2 => uexprs_loop bodyf key val r (S i) f0 (tl (tl env2)) w2 kn)
                    (fun env2 w2 => kn (tl (tl env2)) (uset_fuel w2 f0))
          | None => UStuck "range variables"
          end
      end
  end.

(* for key, val := range vs, over a slice of values: no fuel *)
Fixpoint uvalues_loop (bodyf : uenv -> uworld -> unkont -> unkont -> uans) (key val : string)
                      (vs : list value) (i : nat) (env : uenv) (w : uworld) (kn : unkont) {struct vs} : uans :=
  match vs with
  | [] => kn env w
  | v :: r =>
      match uall_lhs uenv_define [key; val] [UVInt i; UVValue v] ([] :: env) with
      | Some env1 =>
          bodyf ([] :: env1) w
                (fun env2 w2 => uvalues_loop bodyf key val r (S i) (tl (tl env2)) w2 kn)
                (fun env2 w2 => kn (tl (tl env2)) w2)
      | None => UStuck "range variables"
      end
  end.

Definition uf_call_env (fn : gfunc) (recv : uval) (args : list uval) : option uenv :=
  match uzip_params (gf_params fn) args with
  | None => None
  | Some sc => Some [match gf_recv fn with Some (r, _) => (r, recv) :: sc | None => sc end]
  end.

(* the key a pointer to a state object stands for: Some (Some key), Some None for a fresh object *)
Definition ustate_key (v : uval) (w : uworld) : option (option (N * N)) :=
  match v with
  | UVStateKey e n => Some (Some (e, n))
  | UVPtr a => match heap_get (uw_heap w) a with
               | Some (HBound e n) => Some (Some (e, n))
               | Some HFresh => Some None
               | _ => None
               end
  | _ => None
  end.

Section Interp.
  Variable se : senv.
  Variable globals : list (str * cval).
  Variable prog : list gfunc.

  Section Body.
    Variable callr : uval -> string -> list uval -> uworld -> ukont -> uans.

    Definition ufield_of (v : uval) (f : string) (w : uworld) : uf_res uval :=
      match v with
      | UVSetNode name e =>
          if String.eqb f "name" then UOk (UVStr name)
          else if String.eqb f "expression" then UOk (UVExpr e)
          else UStuck "a field that tagSetNode does not have"
      | UVAutoescapeNode body on =>
          if String.eqb f "wrapper" then UOk (UVWrapper body)
          else if String.eqb f "autoescape" then UOk (UVBool on)
          else UStuck "a field that tagAutoescapeNode does not have"
      | UVIfchangedNode id watched t e =>
          if String.eqb f "watchedExpr" then UOk (UVExprs watched)
          else if String.eqb f "thenWrapper" then UOk (UVWrapper t)
          else if String.eqb f "elseWrapper" then UOk (match e with Some eb => UVWrapper eb | None => UVNil end)
          else UStuck "a field that tagIfchangedNode does not have"
      | UVCtx =>
          match top_frame (uw_st w) with
          | Ok fr =>
              if String.eqb f "Autoescape" then UOk (UVBool (f_auto fr))
              else if String.eqb f "Private" then UOk UVPrivate
              else if String.eqb f "nodeState" then UOk (UVNodeState (f_exec fr))
              else UStuck "a field of ExecutionContext that the tags do not use"
          | other => UStop (stop_of other) w
          end
      | UVNil => UPanic "nil pointer dereference" w
      | _ =>
          match ustate_key v w with
          | Some key =>
              if String.eqb f "lastValues" then
                UOk (UVValues (match key with Some (e, n) => ifch_vals (uw_st w) e n | None => [] end))
              else if String.eqb f "lastContent" then
                UOk (match match key with Some (e, n) => ifch_content (uw_st w) e n | None => None end with
                     | Some c => UVBytes c | None => UVNil end)
              else UStuck "a field that tagIfchangedState does not have"
          | None => UStuck "field of a value without fields"
          end
      end.

    (* obj.f = v *)
    Definition ufield_store (obj : uval) (f : string) (v : uval) (w : uworld) : uf_res uworld :=
      match obj with
      | UVCtx =>
          if String.eqb f "Autoescape" then
            match v with
            | UVBool b =>
                match top_frame (uw_st w) with
                | Ok fr => UOk (uset_st w (set_top (uw_st w) (with_auto fr b)))
                | other => UStop (stop_of other) w
                end
            | _ => UStuck "ctx.Autoescape = a value that is not a boolean"
            end
          else UStuck "a store to a field of ExecutionContext other than Autoescape (nodeState is never nil)"
      | UVNil => UPanic "nil pointer dereference" w
      | _ =>
          match ustate_key obj w with
          | Some (Some (e, n)) =>
              if String.eqb f "lastValues" then
                match v with
                | UVValues l => UOk (uset_st w (ns_set (uw_st w) e n (NSIfchanged l (ifch_content (uw_st w) e n))))
                | _ => UStuck "lastValues = a value that is not a slice of values"
                end
              else if String.eqb f "lastContent" then
                match v with
                | UVBytes c => UOk (uset_st w (ns_set (uw_st w) e n (NSIfchanged (ifch_vals (uw_st w) e n) (Some c))))
                | _ => UStuck "lastContent = a value that is not a byte slice"
                end
              else UStuck "a field that tagIfchangedState does not have"
          | Some None => UStuck "a store to a state object that no map holds"
          | None => UStuck "a store to a field of a value without fields"
          end
      end.

    (* m[k] = v *)
    Definition umap_store (m k v : uval) (w : uworld) : uf_res uworld :=
      match m, k, v with
      | UVPrivate, UVStr name, UVValue x =>
          match set_priv (uw_st w) name (CV x) with
          | Ok st1 => UOk (uset_st w st1)
          | other => UStop (stop_of other) w
          end
      | UVNodeState e, UVIfchangedNode id _ _ _, UVPtr a =>
          match heap_get (uw_heap w) a with
          | Some HFresh => UOk (uset_heap w (heap_set (uw_heap w) a (HBound e id)))
          | _ => UStuck "ctx.nodeState[node] = something that is not a fresh state object"
          end
      | _, _, _ => UStuck "a map store that the tags' execution has no meaning for"
      end.

    Definition upkg_call (pkg fn : string) (args : list uval) (w : uworld) (k : ukont) : uans :=
      if (String.eqb pkg "bytes" && String.eqb fn "NewBuffer")%bool then
        match args with
        | [UVBytes s] => let '(a, h) := heap_alloc (uw_heap w) (HBuf s) in k [UVPtr a] (uset_heap w h)
        | _ => UStuck "bytes.NewBuffer: argument"
        end
      else if (String.eqb pkg "bytes" && String.eqb fn "Equal")%bool then
        match args with
        | [a; b] =>
            match match a with UVBytes s => Some (Some s) | UVNil => Some None | _ => None end,
                  match b with UVBytes s => Some (Some s) | UVNil => Some None | _ => None end with
            | Some x, Some y => k [UVBool (str_eqb (bytes_of x) (bytes_of y))] w
            | _, _ => UStuck "bytes.Equal: arguments"
            end
        | _ => UStuck "bytes.Equal: arguments"
        end
      else UStuck "a function that is neither translated nor a primitive".

    Fixpoint uf_eval (e : gexpr) (env : uenv) (w : uworld) (k : ukont) {struct e} : uans :=
      match e with
      | GEVar x =>
          match uenv_get x env with
          | Some v => k [v] w
          | None => UStuck "unbound variable"
          end
      | GENil => k [UVNil] w
      | GEStr s => k [UVStr (tstr_of s)] w
      | GEBool b => k [UVBool b] w
      | GEInt n => k [UVInt n] w
      | GEEmptyBytes => k [UVBytes []] w
      | GEEmptySlice ty => if String.eqb ty "*Value" then k [UVValues []] w else UStuck "make of a slice of another type"
      | GEField e1 f =>
          uf_eval e1 env w (uone (fun v w1 =>
            match ufield_of v f w1 with
            | UOk x => k [x] w1 | UStop s w2 => UStop s w2 | UPanic s w2 => UPanic s w2 | UStuck s => UStuck s
            | UNotUnderstood s => UNotUnderstood s | UDepth => UDepth
            end))
      | GEIndex e1 i =>
          uf_eval e1 env w (uone (fun v w1 => uf_eval i env w1 (uone (fun iv w2 =>
            match v, iv with
            | UVValues vs, UVInt n =>
                match seq_index vs n with
                | Some x => k [UVValue x] w2
                | None => UPanic "index out of range" w2
                end
            | UVNodeState ex, UVIfchangedNode id _ _ _ =>
                (* the map gives the pointer it holds for the node, or nil *)
                match ns_get ex id (ms_nodes (uw_st w2)) with
                | Some _ => k [UVStateKey ex id] w2
                | None => k [UVNil] w2
                end
            | _, _ => UStuck "index of something that is neither a slice of values nor ctx.nodeState"
            end))))
      | GETypeAssertOk e1 ty =>
          uf_eval e1 env w (uone (fun v w1 =>
            if String.eqb ty "tagIfchangedState" then
              match v with
              | UVNil => k [UVNil; UVBool false] w1
              | UVStateKey ex id =>
                  match ns_get ex id (ms_nodes (uw_st w1)) with
                  | Some (NSIfchanged _ _) => k [v; UVBool true] w1
                  | _ => k [UVNil; UVBool false] w1
                  end
              | _ => UStuck "type assertion on a value that is not an entry of ctx.nodeState"
              end
            else UStuck "type assertion to another type"))
      | GEAppend a b =>
          uf_eval a env w (uone (fun x w1 => uf_eval b env w1 (uone (fun y w2 =>
            match x, y with
            | UVValues l, UVValue v => k [UVValues (slice_append l v)] w2
            | _, _ => UStuck "append to something that is not a slice of values"
            end))))
      | GEAddrStruct ty fields =>
          if String.eqb ty "tagIfchangedState" then
            match fields with
            | [] => let '(a, h) := heap_alloc (uw_heap w) HFresh in k [UVPtr a] (uset_heap w h)
            | _ => UStuck "a state object with initial values"
            end
          else UStuck "a struct of another type"
      | GELen e1 =>
          uf_eval e1 env w (uone (fun v w1 =>
            match v with
            | UVValues vs => k [UVInt (seq_len vs)] w1
            | UVExprs es => k [UVInt (seq_len es)] w1
            | _ => UStuck "len of something that is not a slice of the node or of values"
            end))
      | GEMethod r m args =>
          uf_eval r env w (uone (fun v w1 =>
            (fix evl (l : list gexpr) (w : uworld) (k' : ukont) {struct l} : uans :=
               match l with
               | [] => k' [] w
               | a :: rest => uf_eval a env w (uone (fun x w2 => evl rest w2 (fun xs w3 => k' (x :: xs) w3)))
               end) args w1 (fun vs w2 => callr v m vs w2 k)))
      | GECall pkg fn args =>
          (fix evl (l : list gexpr) (w : uworld) (k' : ukont) {struct l} : uans :=
             match l with
             | [] => k' [] w
             | a :: rest => uf_eval a env w (uone (fun x w2 => evl rest w2 (fun xs w3 => k' (x :: xs) w3)))
             end) args w (fun vs w1 => upkg_call pkg fn vs w1 k)
      | GENotNil e1 => uf_eval e1 env w (uone (fun v w1 => k [UVBool (negb (u_is_nil v))] w1))
      | GEIsNil e1 => uf_eval e1 env w (uone (fun v w1 => k [UVBool (u_is_nil v)] w1))
      | GENot e1 =>
          uf_eval e1 env w (uone (fun v w1 =>
            match v with UVBool b => k [UVBool (negb b)] w1 | _ => UStuck "! of a value that is not a boolean" end))
      | GEAnd a b =>
          uf_eval a env w (uone (fun v w1 =>
            match v with
            | UVBool true => uf_eval b env w1 (uone (fun u w2 =>
                               match u with UVBool _ => k [u] w2 | _ => UStuck "&& of a value that is not a boolean" end))
            | UVBool false => k [UVBool false] w1
            | _ => UStuck "&& of a value that is not a boolean"
            end))
      | GEOr a b =>
          uf_eval a env w (uone (fun v w1 =>
            match v with
            | UVBool false => uf_eval b env w1 (uone (fun u w2 =>
                                match u with UVBool _ => k [u] w2 | _ => UStuck "|| of a value that is not a boolean" end))
            | UVBool true => k [UVBool true] w1
            | _ => UStuck "|| of a value that is not a boolean"
            end))
      | GEEq a b =>
          uf_eval a env w (uone (fun x w1 => uf_eval b env w1 (uone (fun y w2 =>
            match uval_eqb x y with Some r => k [UVBool r] w2 | None => UStuck "== of values that are not comparable here" end))))
      | GENe a b =>
          uf_eval a env w (uone (fun x w1 => uf_eval b env w1 (uone (fun y w2 =>
            match uval_eqb x y with Some r => k [UVBool (negb r)] w2 | None => UStuck "!= of values that are not comparable here" end))))
      | GEConv _ _ | GEIndexOk _ _ | GEMakeMap | GEAddr _ | GEAdd _ _ | GEGt _ _ | GERem _ _ =>
          UStuck "an expression that the execution of the tags with state has no meaning for"
      | GEUnknown src => UNotUnderstood src
      end.

    Fixpoint uf_eval_each (es : list gexpr) (env : uenv) (w : uworld) (k : ukont) : uans :=
      match es with
      | [] => k [] w
      | a :: rest => uf_eval a env w (uone (fun x w2 => uf_eval_each rest env w2 (fun xs w3 => k (x :: xs) w3)))
      end.
    Definition uf_eval_rhs (es : list gexpr) (env : uenv) (w : uworld) (k : ukont) : uans :=
      match es with
      | [e] => uf_eval e env w k
      | _ => uf_eval_each es env w k
      end.

    Definition ulift_store (r : uf_res uworld) (k : uworld -> uans) : uans :=
      match r with
      | UOk w1 => k w1 | UStop s w2 => UStop s w2 | UPanic s w2 => UPanic s w2 | UStuck s => UStuck s
      | UNotUnderstood s => UNotUnderstood s | UDepth => UDepth
      end.

    (* a statement: kn continues with the next statement, kr returns from the function, kb leaves the
       innermost range loop *)
    Fixpoint uf_exec (s : gstmt) (env : uenv) (w : uworld) (kn : unkont) (kr : ukont) (kb : unkont) {struct s} : uans :=
      let exl := fix exl (l : list gstmt) (env : uenv) (w : uworld) (kn' : unkont) (kb' : unkont) {struct l} : uans :=
        match l with
        | [] => kn' env w
        | s1 :: r => uf_exec s1 env w (fun env1 w1 => exl r env1 w1 kn' kb') kr kb'
        end in
      match s with
      | GSDefine lhs rhs =>
          uf_eval_rhs rhs env w (fun vs w1 =>
            match uall_lhs uenv_define lhs vs env with
            | Some env1 => kn env1 w1
            | None => UStuck "assignment mismatch"
            end)
      | GSAssign lhs rhs =>
          uf_eval_rhs rhs env w (fun vs w1 =>
            match uall_lhs uenv_assign lhs vs env with
            | Some env1 => kn env1 w1
            | None => UStuck "assignment mismatch or undeclared variable"
            end)
      | GSIf init c thn els =>
          (* one scope for the init statement, one for the chosen block; both end with the if (also
             when the block is left by break) *)
          exl init ([] :: env) w (fun env1 w1 =>
            uf_eval c env1 w1 (uone (fun v w2 =>
              match v with
              | UVBool b =>
                  if b then exl thn ([] :: env1) w2 (fun env2 w3 => kn (tl (tl env2)) w3) (fun env2 w3 => kb (tl (tl env2)) w3)
                  else exl els ([] :: env1) w2 (fun env2 w3 => kn (tl (tl env2)) w3) (fun env2 w3 => kb (tl (tl env2)) w3)
              | _ => UStuck "condition is not a boolean"
              end))) (fun env1 w1 => kb (tl env1) w1)
      | GSReturn es => uf_eval_rhs es env w (fun vs w1 => kr vs w1)
      | GSExpr e => uf_eval e env w (fun _ w1 => kn env w1)
      | GSBreak => kb env w
      | GSRange key val coll body =>
          uf_eval coll env w (uone (fun v w1 =>
            match v with
            | UVExprs es => uexprs_loop (fun env' w' kn' kb' => exl body env' w' kn' kb') key val es 0 (uw_fuel w1) env w1 kn
            | UVValues vs => uvalues_loop (fun env' w' kn' kb' => exl body env' w' kn' kb') key val vs 0 env w1 kn
            | _ => UStuck "range over a value that is not a slice of expressions or of values"
            end))
      | GSFieldStore obj f e =>
          uf_eval obj env w (uone (fun o w1 => uf_eval e env w1 (uone (fun v w2 =>
            ulift_store (ufield_store o f v w2) (fun w3 => kn env w3)))))
      | GSMapStore m k e =>
          uf_eval m env w (uone (fun mv w1 => uf_eval k env w1 (uone (fun kv w2 => uf_eval e env w2 (uone (fun v w3 =>
            ulift_store (umap_store mv kv v w3) (fun w4 => kn env w4)))))))
      | GSDelete _ _ | GSDefer _ | GSVar _ _ | GSRangeSet _ _ _ _ | GSResults _ | GSIncField _ _ =>
          UStuck "a statement that the execution of the tags with state has no meaning for"
      | GSUnknown src => UNotUnderstood src
      end.

    Fixpoint uf_exec_list (l : list gstmt) (env : uenv) (w : uworld) (kn : unkont) (kr : ukont) (kb : unkont) : uans :=
      match l with
      | [] => kn env w
      | s1 :: r => uf_exec s1 env w (fun env1 w1 => uf_exec_list r env1 w1 kn kr kb) kr kb
      end.

    (* a translated function: an Execute method takes one unit of fuel, a helper none *)
    Definition uf_call_func (fn : gfunc) (recv : uval) (args : list uval) (w : uworld) (k : ukont) : uans :=
      match uf_call_env fn recv args with
      | None => UStuck "argument count mismatch"
      | Some env0 =>
          let run := fun w0 =>
            uf_exec_list (gf_body fn) env0 w0
              (fun _ w1 => if Nat.eqb (gf_nres fn) 0 then k [] w1 else UStuck "missing return")
              (fun vs w1 => if Nat.eqb (List.length vs) (gf_nres fn) then k vs w1 else UStuck "result count mismatch")
              (fun _ _ => UStuck "break outside a loop") in
          if String.eqb (gf_name fn) "Execute" then
            match uw_fuel w with
            | O => UStop SFuel w
            | S f => run (uset_fuel w f)
            end
          else run w
      end.

    (* the primitives *)
    Definition ubuiltin (recv : uval) (m : string) (args : list uval) (w : uworld) (k : ukont) : uans :=
      match recv with
      | UVExpr e =>
          if String.eqb m "Evaluate" then
            match args with
            | [UVCtx] =>
                match eval se globals (uw_fuel w) (uw_st w) e with
                | Ok (v, st1) => k [UVValue v; UVNil] (uset_st w st1)
                | Err kind => k [UVNil; UVErr kind] w
                | other => UStop (stop_of other) w
                end
            | _ => UStuck "Evaluate: argument"
            end
          else UStuck "unknown method of IEvaluator"
      | UVValue v =>
          if String.eqb m "EqualValueTo" then
            match args with
            | [UVValue u] => match equal_value_to (vv v) (vv u) with
                             | Some b => k [UVBool b] w
                             | None => UStop SUnmod w
                             end
            | _ => UStuck "EqualValueTo: argument"
            end
          else UStuck "unknown method of Value"
      | UVWrapper ns =>
          if String.eqb m "Execute" then
            match args with
            | [UVCtx; UVWriter] =>
                let '(o, r) := exec_nodes se globals (uw_fuel w) (uw_st w) ns in
                match r with
                | Ok st1 => k [UVNil] (uset_st (uadd_out w o) st1)
                | Err kind => k [UVErr kind] (uadd_out w o)
                | other => UStop (stop_of other) (uadd_out w o)
                end
            | [UVCtx; UVPtr a] =>
                (* the writer is a buffer: the output goes there *)
                match heap_get (uw_heap w) a with
                | Some (HBuf s) =>
                    let '(o, r) := exec_nodes se globals (uw_fuel w) (uw_st w) ns in
                    let w' := uset_heap w (heap_set (uw_heap w) a (HBuf (s ++ o)%list)) in
                    match r with
                    | Ok st1 => k [UVNil] (uset_st w' st1)
                    | Err kind => k [UVErr kind] w'
                    | other => UStop (stop_of other) w'
                    end
                | _ => UStuck "NodeWrapper.Execute: the writer is not a buffer"
                end
            | _ => UStuck "NodeWrapper.Execute: arguments"
            end
          else UStuck "unknown method of NodeWrapper"
      | UVWriter =>
          if String.eqb m "WriteString" then
            match args with
            | [UVStr s] => k [UVInt (List.length s); UVNil] (uadd_out w s)
            | _ => UStuck "WriteString: argument"
            end
          else if String.eqb m "Write" then
            match args with
            | [UVBytes s] => k [UVInt (List.length s); UVNil] (uadd_out w s)
            | _ => UStuck "Write: argument"
            end
          else UStuck "unknown method of TemplateWriter"
      | UVPtr a =>
          if String.eqb m "Bytes" then
            match args, heap_get (uw_heap w) a with
            | [], Some (HBuf s) => k [UVBytes s] w
            | _, _ => UStuck "Bytes: not a buffer"
            end
          else UStuck "unknown method of a heap object"
      | UVNil => UPanic "method call on nil" w
      | _ => UStuck "a method that is neither translated nor a primitive"
      end.
  End Body.

  Definition ucallT := uval -> string -> list uval -> uworld -> ukont -> uans.
  Definition uf_call_step (deeper : ucallT) : ucallT :=
    fun recv m args w k =>
      match match utype_of recv with Some ty => tfind_method ty m prog | None => None end with
      | Some fn => uf_call_func deeper fn recv args w k
      | None => ubuiltin recv m args w k
      end.
  Fixpoint uf_call (d : nat) : ucallT :=
    match d with
    | O => fun _ _ _ _ _ => UDepth
    | S d' => uf_call_step (uf_call d')
    end.

  (* the whole run of node.Execute(ctx, writer): the writer holds [o0], the state is [st], the fuel
     [fuel], the heap is empty *)
  Definition state_tag_execute (d : nat) (node : uval) (o0 : str) (st : mstate) (fuel : nat) : uans :=
    uf_call d node "Execute" [UVCtx; UVWriter] (mkUW o0 st fuel []) (fun vs w' => UOk (vs, w')).
End Interp.

(* ---------- reading a run back (as read_exec of Spec/SpecTagFuncs.v) ---------- *)
Definition uread_exec (site : N) (r : uans) : option xres :=
  match r with
  | UOk ([UVNil], w) => Some (uw_out w, Ok (uw_st w))
  | UOk ([UVErr kind], w) => Some (uw_out w, Err kind)
  | UStop s w => Some (uw_out w, res_of_stop s)
  | UPanic _ w => Some (uw_out w, Panic site)
  | _ => None
  end.
Definition ugo_panics (r : uans) : bool := match r with UPanic _ _ => true | _ => false end.

(* the tag nodes as values of the interpretation *)
Definition state_tag_value (n : node) : option uval :=
  match n with
  | NSet name e => Some (UVSetNode name e)
  | NAutoescape on body => Some (UVAutoescapeNode body on)
  | NIfchanged id watched thenb elseb => Some (UVIfchangedNode id watched thenb elseb)
  | _ => None
  end.

(* ---------- the hypotheses of the ifchanged tie ---------- *)
(* The entry of the node holds what the node's own mode writes: a node without watched expressions
   never has last values, one with watched expressions never has a last content (every node has
   its own id, and its list of watched expressions never changes). *)
Definition ifch_entry_fits (watched : list expr) (st : mstate) (e id : N) : Prop :=
  match watched with
  | [] => ifch_vals st e id = []
  | _ => ifch_content st e id = None
  end.
(* there are not more remembered values than watched expressions *)
Definition ifch_entry_short (watched : list expr) (st : mstate) (e id : N) : Prop :=
  (List.length (ifch_vals st e id) <= List.length watched)%nat.
