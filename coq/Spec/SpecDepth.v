(* Vocabulary for property C13, second part: recursion through macros is bounded for ALL
   macros, templates and contexts.

   - [depths_ok st]: every frame of the stack has its macro depth counter within
     0 .. max_macro_depth.
   - [call]: one invocation of one of the 17 mutually recursive functions of the executor
     (Model/Exec.v), with its fuel, the state it starts in and its other arguments.
   - [run c]: what the invocation returns, reduced to "finished in state st'", "out of fuel",
     "anything else" (error, unmodelled, panic).
   - [sub c c']: invocation [c] makes the direct recursive call [c'].  This is a transcript of
     the call sites of Model/Exec.v, one constructor per call site (function by function, in
     the order of the source).  The premises say which earlier sibling calls have returned
     what (this is what determines the state of [c']) and repeat the branch conditions.
     That the transcript is faithful is a pair of theorems (Props/C13b.v) which use running
     out of fuel as a probe (it starts in a call at fuel 0 and every caller hands it up):
     C13_every_call_listed - no call site is forgotten: an invocation with fuel left runs out
     of fuel only if one of the calls listed here does (or the template compiler run by a
     lazy include does); C13_listed_calls_happen - no call is listed that is not made: if a
     listed call runs out of fuel, so does its caller.
   - [path c0 callers c]: [c] is reached from [c0] by a chain of direct calls; [callers] is
     the chain of invocations that are active (have made a call and wait for its result)
     when [c] starts, outermost first: the call stack.
   - [macro_calls_on i callers]: how many of the active invocations are calls of a macro
     bound in frame number [i] (counted from the bottom of the frame stack).

   Nothing is proved here. *)
From Coq Require Import List NArith ZArith Bool.
From PV Require Import Model.Exec Spec.SpecFlow.
From PV Require Import gen.Tables.
Import ListNotations.
Open Scope N_scope.

(* ---------- the invariant ---------- *)
Definition depth_ok (fr : frame) : Prop := (0 <= f_depth fr <= max_macro_depth)%Z.
Definition depths_ok (st : mstate) : Prop := forall fr, In fr (ms_frames st) -> depth_ok fr.

(* the depth counters of the stack, innermost frame first *)
Definition depths (st : mstate) : list Z := map f_depth (ms_frames st).
(* the depth counter of frame number i from the bottom *)
Definition depth_at (st : mstate) (i : nat) : option Z := option_map f_depth (frame_at st i).
Definition height (st : mstate) : nat := length (ms_frames st).

(* ---------- invocations ---------- *)
Inductive call :=
| KEval (f : nat) (st : mstate) (e : expr)
| KEvalList (f : nat) (st : mstate) (es : list expr)
| KApplyChain (f : nat) (st : mstate) (v : value) (chain : list fcall)
| KResolve (f : nat) (st : mstate) (parts : list part)
| KWalk (f : nat) (st : mstate) (cur : val) (safe : bool) (parts : list part)
| KCallMacro (f : nat) (st : mstate) (m : macro) (fidx : nat) (args : list value)
| KMacroDefaults (f : nat) (st : mstate) (params : list (str * option expr))
| KCallSuper (f : nat) (st : mstate) (fidx : nat) (wrappers : list (list node))
| KExecNodes (f : nat) (st : mstate) (ns : list node)
| KExecNode (f : nat) (st : mstate) (n : node)
| KExecIf (f : nat) (st : mstate) (conds : list expr) (wrappers : list (list node)) (i : nat)
| KExecFor (f : nat) (st : mstate) (key value : str) (parent : val) (body : list node)
           (items : list (val * option val)) (idx count : Z)
| KExecFirstof (f : nat) (st : mstate) (args : list expr)
| KEvalPairs (f : nat) (st : mstate) (pairs : list (str * expr))
| KApplyTagChain (f : nat) (st : mstate) (v : value) (chain : list (str * option expr))
| KExecTemplate (f : nat) (st : mstate) (t : template) (ctx : list (str * cval))
| KExecTemplateUnbuffered (f : nat) (st : mstate) (t : template) (ctx : list (str * cval)).

Definition call_fuel (c : call) : nat :=
  match c with
  | KEval f _ _ | KEvalList f _ _ | KApplyChain f _ _ _ | KResolve f _ _ | KWalk f _ _ _ _
  | KCallMacro f _ _ _ _ | KMacroDefaults f _ _ | KCallSuper f _ _ _ | KExecNodes f _ _
  | KExecNode f _ _ | KExecIf f _ _ _ _ | KExecFor f _ _ _ _ _ _ _ _ | KExecFirstof f _ _
  | KEvalPairs f _ _ | KApplyTagChain f _ _ _ | KExecTemplate f _ _ _
  | KExecTemplateUnbuffered f _ _ _ => f
  end.

(* the state in which the invocation starts *)
Definition call_state (c : call) : mstate :=
  match c with
  | KEval _ st _ | KEvalList _ st _ | KApplyChain _ st _ _ | KResolve _ st _ | KWalk _ st _ _ _
  | KCallMacro _ st _ _ _ | KMacroDefaults _ st _ | KCallSuper _ st _ _ | KExecNodes _ st _
  | KExecNode _ st _ | KExecIf _ st _ _ _ | KExecFor _ st _ _ _ _ _ _ _ | KExecFirstof _ st _
  | KEvalPairs _ st _ | KApplyTagChain _ st _ _ | KExecTemplate _ st _ _
  | KExecTemplateUnbuffered _ st _ _ => st
  end.

(* 1 when [c] is a call of a macro bound in frame number i *)
Definition enters (c : call) (i : nat) : nat :=
  match c with
  | KCallMacro _ _ _ fidx _ => if Nat.eqb fidx i then 1%nat else 0%nat
  | _ => 0%nat
  end.
Fixpoint macro_calls_on (i : nat) (callers : list call) : nat :=
  match callers with
  | [] => 0%nat
  | c :: r => (enters c i + macro_calls_on i r)%nat
  end.

(* the invocations that push a frame for their callee: a macro call (for the body), Super,
   the for and with tags, and the entry into a template (root frame of the execution) *)
Definition pushes_frame (c : call) : bool :=
  match c with
  | KCallMacro _ _ _ _ _ | KCallSuper _ _ _ _ | KExecTemplateUnbuffered _ _ _ _
  | KExecNode _ _ (NFor _ _ _ _ _ _ _) | KExecNode _ _ (NWith _ _) => true
  | _ => false
  end.

(* ---------- what an invocation returns ---------- *)
Inductive returned := RDone (st' : mstate) | ROutOfFuel | RFailed.
Definition view {A} (r : res (A * mstate)) : returned :=
  match r with Ok (_, s) => RDone s | Fuel => ROutOfFuel | _ => RFailed end.
Definition xview (r : xres) : returned :=
  match snd r with Ok s => RDone s | Fuel => ROutOfFuel | _ => RFailed end.

(* ---------- small pieces of the executor's vocabulary the call sites mention ---------- *)
Definition n_block : str := [98; 108; 111; 99; 107].     (* block *)
Definition n_Super : str := [83; 117; 112; 101; 114].     (* Super *)

(* the first operand of a sum, negated ("not x") and sign-changed ("-x") as written *)
Definition signed_operand (negsign neg : bool) (t1 : value) : res value :=
  let r1 := if neg then as_value (negate (vv t1)) else t1 in
  if negsign then
    if is_number (vv r1) then
      if is_float (vv r1) then do x <- float_of r1; Ok (as_value (VFloat (f_neg x)))
      else do i <- int_of r1; Ok (as_value (VInt (wrap64 (- i))))
    else xerr
  else Ok r1.
(* a name is looked up in the private, then in the public context of the current frame *)
Definition lookup (fr : frame) (name : str) : option cval :=
  match ctx_get name (f_priv fr) with
  | Some c => Some c
  | None => ctx_get name (f_pub fr)
  end.
Definition call_args (call : option (list expr)) : list expr :=
  match call with Some a => a | None => [] end.
(* x[sv] *)
Definition subscriptable (cur : val) : bool :=
  match cur with VStr _ | VList _ | VStruct _ | VMap _ => true | _ => false end.
Definition subscript (cur : val) (sv : value) : option val :=
  match cur with
  | VStr _ | VList _ => match vv sv with VInt si => index_val cur si | _ => None end
  | VStruct m => match str_of sv with Ok k => assoc_get k m | _ => None end
  | VMap m => match vv sv with VStr k => assoc_get k m | _ => None end
  | _ => None
  end.
Definition field (cur : val) (name : str) : option val :=
  match cur with VStruct m | VMap m => assoc_get name m | _ => None end.
(* the bodies of block [bname] along the inheritance chain of the frame's template *)
Definition block_chain (bname : str) (fr : frame) : list (list node) :=
  flat_map (fun t => match assoc_get bname (tpl_blocks t) with Some w => [w] | None => [] end) (f_chain fr).
(* the frame Super pushes *)
Definition super_frame (bfr : frame) (fidx : nat) (before : list (list node)) : frame :=
  with_priv (child_of bfr) (ctx_set n_block (CBlock fidx before) (f_priv bfr)).
(* the frame with pushes *)
Definition with_frame (fr : frame) (vals : list (str * cval)) : frame :=
  with_priv (child_of fr) (ctx_update (f_priv fr) vals).
(* the context handed to an included template *)
Definition include_ctx (fr : frame) (only : bool) (vals : list (str * cval)) : list (str * cval) :=
  ctx_update (if only then [] else ctx_update (f_pub fr) (f_priv fr)) vals.
Definition include_name (fr : frame) (fn : str) : str :=
  let root := hd (Tpl 0 [] true [] [] [] None false false) (f_chain fr) in
  resolve_filename (tpl_is_string root) (tpl_name root) fn.
(* the cycle tag: the state (node counters advanced) and the argument it evaluates *)
Definition cycle_site (st : mstate) (fr : frame) (id : N) (args : list expr) : mstate * expr :=
  let idx := cycle_pos st (f_exec fr) id in
  let item := nth (Z.to_nat (Z.rem idx (Z.of_nat (length args)))) args (EBool false) in
  let st0 := ns_set st (f_exec fr) id (NSCycle (idx + 1)) in
  match item with
  | EFilt (EVar [PIdent nm None]) [] =>
      match ctx_get nm (f_priv fr) with
      | Some (CCycle cid cargs _ _) =>
          let cidx := cycle_pos st0 (f_exec fr) cid in
          (ns_set st0 (f_exec fr) cid (NSCycle (cidx + 1)),
           nth (Z.to_nat (Z.rem cidx (Z.of_nat (length cargs)))) cargs (EBool false))
      | _ => (st0, item)
      end
  | _ => (st0, item)
  end.
(* ifchanged with watched expressions: did a value change? (None: not comparable) *)
Definition watched_changed (lastv now : list value) : option bool :=
  match lastv with
  | [] => Some true
  | _ => fold_right (fun pr acc =>
                       match acc, equal_value_to (vv (fst pr)) (vv (snd pr)) with
                       | None, _ | _, None => None
                       | Some a, Some eq => Some (a || negb eq)
                       end) (Some false) (combine lastv now)
  end.
(* the first argument of a filter call, when there is one *)
Definition param_result (ev : mstate -> expr -> res (value * mstate)) (st : mstate)
                        (param : option expr) : res (value * mstate) :=
  match param with Some pe => ev st pe | None => Ok (as_value VNil, st) end.
(* the template's own context keys are acceptable (Template.execute's checks) *)
Definition ctx_accepted (globals : list (str * cval)) (t : template) (ctx : list (str * cval)) : bool :=
  let merged := ctx_update globals ctx in
  forallb (fun kv => is_ident_key (fst kv)) merged &&
  negb (existsb (fun kv => match assoc_get (fst kv) (tpl_exported t) with Some _ => true | None => false end) merged).

Section WithEnv.
  Variable se : senv.
  Variable globals : list (str * cval).

  Local Notation eval := (eval se globals).
  Local Notation eval_list := (eval_list se globals).
  Local Notation apply_chain := (apply_chain se globals).
  Local Notation resolve := (resolve se globals).
  Local Notation walk := (walk se globals).
  Local Notation call_macro := (call_macro se globals).
  Local Notation macro_defaults := (macro_defaults se globals).
  Local Notation call_super := (call_super se globals).
  Local Notation exec_nodes := (exec_nodes se globals).
  Local Notation exec_node := (exec_node se globals).
  Local Notation exec_if := (exec_if se globals).
  Local Notation exec_for := (exec_for se globals).
  Local Notation exec_firstof := (exec_firstof se globals).
  Local Notation eval_pairs := (eval_pairs se globals).
  Local Notation apply_tag_chain := (apply_tag_chain se globals).
  Local Notation exec_template := (exec_template se globals).
  Local Notation exec_template_unbuffered := (exec_template_unbuffered se globals).

  Definition run (c : call) : returned :=
    match c with
    | KEval f st e => view (eval f st e)
    | KEvalList f st es => view (eval_list f st es)
    | KApplyChain f st v chain => view (apply_chain f st v chain)
    | KResolve f st parts => view (resolve f st parts)
    | KWalk f st cur safe parts => view (walk f st cur safe parts)
    | KCallMacro f st m fidx args => view (call_macro f st m fidx args)
    | KMacroDefaults f st params => view (macro_defaults f st params)
    | KCallSuper f st fidx wrappers => view (call_super f st fidx wrappers)
    | KExecNodes f st ns => xview (exec_nodes f st ns)
    | KExecNode f st n => xview (exec_node f st n)
    | KExecIf f st conds wrappers i => xview (exec_if f st conds wrappers i)
    | KExecFor f st key value parent body items idx count =>
        xview (exec_for f st key value parent body items idx count)
    | KExecFirstof f st args => xview (exec_firstof f st args)
    | KEvalPairs f st pairs => view (eval_pairs f st pairs)
    | KApplyTagChain f st v chain => view (apply_tag_chain f st v chain)
    | KExecTemplate f st t ctx => xview (exec_template f st t ctx)
    | KExecTemplateUnbuffered f st t ctx => xview (exec_template_unbuffered f st t ctx)
    end.

  (* ---------- the call sites ---------- *)
  Inductive sub : call -> call -> Prop :=
  (* eval *)
  | sub_array : forall f st items,
      sub (KEval (S f) st (EArray items)) (KEvalList f st items)
  | sub_var : forall f st parts,
      sub (KEval (S f) st (EVar parts)) (KResolve f st parts)
  | sub_filt_1 : forall f st e0 chain,
      sub (KEval (S f) st (EFilt e0 chain)) (KEval f st e0)
  | sub_filt_2 : forall f st e0 chain v st1,
      eval f st e0 = Ok (v, st1) ->
      sub (KEval (S f) st (EFilt e0 chain)) (KApplyChain f st1 v chain)
  | sub_pow_1 : forall f st a b,
      sub (KEval (S f) st (EPow a b)) (KEval f st a)
  | sub_pow_2 : forall f st a b x st1,
      eval f st a = Ok (x, st1) ->
      sub (KEval (S f) st (EPow a b)) (KEval f st1 b)
  | sub_term_1 : forall f st op a b,
      sub (KEval (S f) st (ETerm op a b)) (KEval f st a)
  | sub_term_2 : forall f st op a b x st1,
      eval f st a = Ok (x, st1) ->
      sub (KEval (S f) st (ETerm op a b)) (KEval f st1 b)
  | sub_simple_1 : forall f st negsign neg a rest,
      sub (KEval (S f) st (ESimple negsign neg a rest)) (KEval f st a)
  | sub_simple_2 : forall f st negsign neg a op b t1 st1 r2,
      eval f st a = Ok (t1, st1) -> signed_operand negsign neg t1 = Ok r2 ->
      sub (KEval (S f) st (ESimple negsign neg a (Some (op, b)))) (KEval f st1 b)
  | sub_rel_1 : forall f st op a b,
      sub (KEval (S f) st (ERel op a b)) (KEval f st a)
  | sub_rel_2 : forall f st op a b x st1,
      eval f st a = Ok (x, st1) ->
      sub (KEval (S f) st (ERel op a b)) (KEval f st1 b)
  | sub_logic_1 : forall f st is_and a b,
      sub (KEval (S f) st (ELogic is_and a b)) (KEval f st a)
  | sub_logic_2 : forall f st is_and a b x st1,            (* and: first operand true; or: false *)
      eval f st a = Ok (x, st1) -> is_true (vv x) = is_and ->
      sub (KEval (S f) st (ELogic is_and a b)) (KEval f st1 b)
  (* eval_list *)
  | sub_list_1 : forall f st e r,
      sub (KEvalList (S f) st (e :: r)) (KEval f st e)
  | sub_list_2 : forall f st e r v st1,
      eval f st e = Ok (v, st1) ->
      sub (KEvalList (S f) st (e :: r)) (KEvalList f st1 r)
  (* apply_chain *)
  | sub_chain_1 : forall f st v name pe rest,
      sub (KApplyChain (S f) st v (FCall name (Some pe) :: rest)) (KEval f st pe)
  | sub_chain_2 : forall f st v name param rest p st1 r,
      param_result (eval f) st param = Ok (p, st1) ->
      apply_filter_se se name v p = Ok r ->
      sub (KApplyChain (S f) st v (FCall name param :: rest)) (KApplyChain f st1 r rest)
  (* resolve *)
  | sub_resolve_value : forall f st name rest fr v cur,
      top_frame st = Ok fr -> lookup fr name = Some (CV v) -> vv v = cur -> cur <> VNil ->
      sub (KResolve (S f) st (PIdent name None :: rest)) (KWalk f st cur (vsafe v) rest)
  | sub_resolve_args : forall f st name call rest fr m fidx,
      top_frame st = Ok fr -> lookup fr name = Some (CMacro m fidx) ->
      sub (KResolve (S f) st (PIdent name call :: rest)) (KEvalList f st (call_args call))
  | sub_resolve_macro : forall f st name call rest fr m fidx args st1,
      top_frame st = Ok fr -> lookup fr name = Some (CMacro m fidx) ->
      eval_list f st (call_args call) = Ok (args, st1) ->
      sub (KResolve (S f) st (PIdent name call :: rest)) (KCallMacro f st1 m fidx args)
  | sub_resolve_result : forall f st name call rest fr m fidx args st1 r st2,
      top_frame st = Ok fr -> lookup fr name = Some (CMacro m fidx) ->
      eval_list f st (call_args call) = Ok (args, st1) ->
      call_macro f st1 m fidx args = Ok (r, st2) ->
      sub (KResolve (S f) st (PIdent name call :: rest)) (KWalk f st2 (vv r) (vsafe r) rest)
  | sub_resolve_super : forall f st name call meth mcall fr fidx wrappers,
      top_frame st = Ok fr -> lookup fr name = Some (CBlock fidx wrappers) ->
      str_eqb meth n_Super = true -> call_args mcall = [] ->
      sub (KResolve (S f) st [PIdent name call; PIdent meth mcall]) (KCallSuper f st fidx wrappers)
  (* walk *)
  | sub_walk_int : forall f st cur safe i rest v,
      indexable cur = true -> index_val cur i = Some v -> v <> VNil ->
      sub (KWalk (S f) st cur safe (PInt i None :: rest)) (KWalk f st v safe rest)
  | sub_walk_field : forall f st cur safe name rest v,
      field cur name = Some v -> v <> VNil ->
      sub (KWalk (S f) st cur safe (PIdent name None :: rest)) (KWalk f st v safe rest)
  | sub_walk_sub_1 : forall f st cur safe e call rest,
      subscriptable cur = true ->
      sub (KWalk (S f) st cur safe (PSub e call :: rest)) (KEval f st e)
  | sub_walk_sub_2 : forall f st cur safe e rest sv st1 v,
      eval f st e = Ok (sv, st1) -> subscript cur sv = Some v -> v <> VNil ->
      sub (KWalk (S f) st cur safe (PSub e None :: rest)) (KWalk f st1 v safe rest)
  (* call_macro: the defaults in the view of the stack up to the defining frame, then the
     body in a new frame on top of the whole stack; the defining frame counts one level more *)
  | sub_macro_defaults : forall f st mname params body ex fidx args dfr,
      frame_at st fidx = Some dfr ->
      (max_macro_depth <? f_depth dfr + 1)%Z = false ->
      sub (KCallMacro (S f) st (Macro mname params body ex) fidx args)
          (KMacroDefaults f (below_view (enter_macro st fidx dfr) fidx) params)
  | sub_macro_body : forall f st mname params body ex fidx args dfr dvals st_d dfr1,
      frame_at st fidx = Some dfr ->
      (max_macro_depth <? f_depth dfr + 1)%Z = false ->
      macro_defaults f (below_view (enter_macro st fidx dfr) fidx) params = Ok (dvals, st_d) ->
      Nat.ltb (length params) (length args) = false ->
      frame_at (rejoin (frames_above (enter_macro st fidx dfr) fidx) st_d) fidx = Some dfr1 ->
      sub (KCallMacro (S f) st (Macro mname params body ex) fidx args)
          (KExecNodes f (push_frame (rejoin (frames_above (enter_macro st fidx dfr) fidx) st_d)
                                    (macro_frame dfr1 dvals params args)) body)
  (* macro_defaults *)
  | sub_defaults_none : forall f st name rest,
      sub (KMacroDefaults (S f) st ((name, None) :: rest)) (KMacroDefaults f st rest)
  | sub_defaults_1 : forall f st name e rest,
      sub (KMacroDefaults (S f) st ((name, Some e) :: rest)) (KEval f st e)
  | sub_defaults_2 : forall f st name e rest v st1,
      eval f st e = Ok (v, st1) ->
      sub (KMacroDefaults (S f) st ((name, Some e) :: rest)) (KMacroDefaults f st1 rest)
  (* call_super *)
  | sub_super : forall f st fidx wrappers last before_rev bfr,
      rev wrappers = last :: before_rev -> frame_at st fidx = Some bfr ->
      sub (KCallSuper (S f) st fidx wrappers)
          (KExecNodes f (push_frame st (super_frame bfr fidx (rev before_rev))) last)
  (* exec_nodes *)
  | sub_nodes_1 : forall f st n rest,
      sub (KExecNodes (S f) st (n :: rest)) (KExecNode f st n)
  | sub_nodes_2 : forall f st n rest o1 st1,
      exec_node f st n = (o1, Ok st1) ->
      sub (KExecNodes (S f) st (n :: rest)) (KExecNodes f st1 rest)
  (* exec_node *)
  | sub_nvar : forall f st e,
      sub (KExecNode (S f) st (NVar e)) (KEval f st e)
  | sub_nif : forall f st conds wrappers,
      sub (KExecNode (S f) st (NIf conds wrappers)) (KExecIf f st conds wrappers 0)
  | sub_for_obj : forall f st key value obj reversed sorted body empty fr,
      top_frame st = Ok fr ->
      sub (KExecNode (S f) st (NFor key value obj reversed sorted body empty))
          (KEval f (push_frame st (for_frame fr)) obj)
  | sub_for_loop : forall f st key value obj reversed sorted body empty fr ov st1 it items,
      top_frame st = Ok fr ->
      eval f (push_frame st (for_frame fr)) obj = Ok (ov, st1) ->
      iter_items (vv ov) reversed sorted = Ok (Some (it :: items)) ->
      sub (KExecNode (S f) st (NFor key value obj reversed sorted body empty))
          (KExecFor f st1 key value (for_parent fr) body (it :: items) 0 (Z.of_nat (length (it :: items))))
  | sub_for_empty : forall f st key value obj reversed sorted body eb fr ov st1 r,
      top_frame st = Ok fr ->
      eval f (push_frame st (for_frame fr)) obj = Ok (ov, st1) ->
      iter_items (vv ov) reversed sorted = Ok r ->
      match r with Some (_ :: _) => False | _ => True end ->
      sub (KExecNode (S f) st (NFor key value obj reversed sorted body (Some eb)))
          (KExecNodes f st1 eb)
  | sub_with_pairs : forall f st pairs body fr,
      top_frame st = Ok fr ->
      sub (KExecNode (S f) st (NWith pairs body)) (KEvalPairs f st pairs)
  | sub_with_body : forall f st pairs body fr vals st1 fr1,
      top_frame st = Ok fr -> eval_pairs f st pairs = Ok (vals, st1) -> top_frame st1 = Ok fr1 ->
      sub (KExecNode (S f) st (NWith pairs body))
          (KExecNodes f (push_frame st1 (with_frame fr1 vals)) body)
  | sub_nset : forall f st name e,
      sub (KExecNode (S f) st (NSet name e)) (KEval f st e)
  | sub_nblock : forall f st bname fr last before_rev st1,
      top_frame st = Ok fr -> rev (block_chain bname fr) = last :: before_rev ->
      set_priv st n_block (CBlock (cur_index st) (rev before_rev)) = Ok st1 ->
      sub (KExecNode (S f) st (NBlock bname)) (KExecNodes f st1 last)
  | sub_include_pairs : forall f st tplo fname pairs only ifexists fr,
      top_frame st = Ok fr ->
      sub (KExecNode (S f) st (NInclude tplo fname pairs only ifexists)) (KEvalPairs f st pairs)
  | sub_include_static : forall f st t fname pairs only ifexists fr vals st1,
      top_frame st = Ok fr -> eval_pairs f st pairs = Ok (vals, st1) ->
      sub (KExecNode (S f) st (NInclude (Some t) fname pairs only ifexists))
          (KExecTemplate f st1 t (include_ctx fr only vals))
  | sub_include_name : forall f st fe pairs only ifexists fr vals st1,
      top_frame st = Ok fr -> eval_pairs f st pairs = Ok (vals, st1) ->
      sub (KExecNode (S f) st (NInclude None (Some fe) pairs only ifexists)) (KEval f st1 fe)
  | sub_include_lazy : forall f st fe pairs only ifexists fr vals st1 fv st2 fn t g',
      top_frame st = Ok fr -> eval_pairs f st pairs = Ok (vals, st1) ->
      eval f st1 fe = Ok (fv, st2) -> to_string (vv fv) = Some fn -> fn <> [] ->
      compile_file se f (include_name fr fn) (ms_g st2) = Ok (t, g') ->
      sub (KExecNode (S f) st (NInclude None (Some fe) pairs only ifexists))
          (KExecTemplate f (mkM (ms_frames st2) (ms_nodes st2) g') t (include_ctx fr only vals))
  | sub_autoescape : forall f st on body fr,
      top_frame st = Ok fr ->
      sub (KExecNode (S f) st (NAutoescape on body)) (KExecNodes f (set_top st (with_auto fr on)) body)
  | sub_filtertag_body : forall f st chain body,
      sub (KExecNode (S f) st (NFilterTag chain body)) (KExecNodes f st body)
  | sub_filtertag_chain : forall f st chain body o st1,
      exec_nodes f st body = (o, Ok st1) ->
      sub (KExecNode (S f) st (NFilterTag chain body)) (KApplyTagChain f st1 (as_value (VStr o)) chain)
  | sub_nfirstof : forall f st args,
      sub (KExecNode (S f) st (NFirstof args)) (KExecFirstof f st args)
  | sub_ncycle : forall f st id args asname silent fr st' e,
      top_frame st = Ok fr -> cycle_site st fr id args = (st', e) ->
      sub (KExecNode (S f) st (NCycle id args asname silent)) (KEval f st' e)
  | sub_ifchanged_content : forall f st id thenb elseb fr,
      top_frame st = Ok fr ->
      sub (KExecNode (S f) st (NIfchanged id [] thenb elseb)) (KExecNodes f st thenb)
  | sub_ifchanged_watched : forall f st id w watched thenb elseb fr,
      top_frame st = Ok fr ->
      sub (KExecNode (S f) st (NIfchanged id (w :: watched) thenb elseb)) (KEvalList f st (w :: watched))
  | sub_ifchanged_then : forall f st id w watched thenb elseb fr now st1,
      top_frame st = Ok fr -> eval_list f st (w :: watched) = Ok (now, st1) ->
      watched_changed (stored_vals (ns_get (f_exec fr) id (ms_nodes st))) now = Some true ->
      sub (KExecNode (S f) st (NIfchanged id (w :: watched) thenb elseb))
          (KExecNodes f (ns_set st1 (f_exec fr) id (NSIfchanged now None)) thenb)
  | sub_ifchanged_else : forall f st id w watched thenb eb fr now st1,
      top_frame st = Ok fr -> eval_list f st (w :: watched) = Ok (now, st1) ->
      watched_changed (stored_vals (ns_get (f_exec fr) id (ms_nodes st))) now = Some false ->
      sub (KExecNode (S f) st (NIfchanged id (w :: watched) thenb (Some eb)))
          (KExecNodes f (ns_set st1 (f_exec fr) id (NSIfchanged now None)) eb)
  | sub_ifequal_1 : forall f st negated a b thenb elseb,
      sub (KExecNode (S f) st (NIfequal negated a b thenb elseb)) (KEval f st a)
  | sub_ifequal_2 : forall f st negated a b thenb elseb x st1,
      eval f st a = Ok (x, st1) ->
      sub (KExecNode (S f) st (NIfequal negated a b thenb elseb)) (KEval f st1 b)
  | sub_ifequal_then : forall f st negated a b thenb elseb x st1 y st2 eq,
      eval f st a = Ok (x, st1) -> eval f st1 b = Ok (y, st2) ->
      equal_value_to (vv x) (vv y) = Some eq -> Bool.eqb eq (negb negated) = true ->
      sub (KExecNode (S f) st (NIfequal negated a b thenb elseb)) (KExecNodes f st2 thenb)
  | sub_ifequal_else : forall f st negated a b thenb eb x st1 y st2 eq,
      eval f st a = Ok (x, st1) -> eval f st1 b = Ok (y, st2) ->
      equal_value_to (vv x) (vv y) = Some eq -> Bool.eqb eq (negb negated) = false ->
      sub (KExecNode (S f) st (NIfequal negated a b thenb (Some eb))) (KExecNodes f st2 eb)
  | sub_spaceless : forall f st body,
      sub (KExecNode (S f) st (NSpaceless body)) (KExecNodes f st body)
  | sub_widthratio_1 : forall f st cur mx width ctxname,
      sub (KExecNode (S f) st (NWidthratio cur mx width ctxname)) (KEval f st cur)
  | sub_widthratio_2 : forall f st cur mx width ctxname c st1,
      eval f st cur = Ok (c, st1) ->
      sub (KExecNode (S f) st (NWidthratio cur mx width ctxname)) (KEval f st1 mx)
  | sub_widthratio_3 : forall f st cur mx width ctxname c st1 m st2,
      eval f st cur = Ok (c, st1) -> eval f st1 mx = Ok (m, st2) ->
      sub (KExecNode (S f) st (NWidthratio cur mx width ctxname)) (KEval f st2 width)
  | sub_ssi : forall f st content t fr,
      top_frame st = Ok fr ->
      sub (KExecNode (S f) st (NSsi content (Some t)))
          (KExecTemplateUnbuffered f st t (ctx_update (f_pub fr) (f_priv fr)))
  (* exec_if *)
  | sub_if_cond : forall f st conds wrappers i c,
      nth_error conds i = Some c ->
      sub (KExecIf (S f) st conds wrappers i) (KEval f st c)
  | sub_if_then : forall f st conds wrappers i c v st1 w,
      nth_error conds i = Some c -> eval f st c = Ok (v, st1) -> is_true (vv v) = true ->
      nth_error wrappers i = Some w ->
      sub (KExecIf (S f) st conds wrappers i) (KExecNodes f st1 w)
  | sub_if_else : forall f st conds wrappers i c v st1 w,
      nth_error conds i = Some c -> eval f st c = Ok (v, st1) -> is_true (vv v) = false ->
      Nat.eqb (length conds) (S i) && Nat.ltb (S i) (length wrappers) = true ->
      nth_error wrappers (S i) = Some w ->
      sub (KExecIf (S f) st conds wrappers i) (KExecNodes f st1 w)
  | sub_if_next : forall f st conds wrappers i c v st1,
      nth_error conds i = Some c -> eval f st c = Ok (v, st1) -> is_true (vv v) = false ->
      Nat.eqb (length conds) (S i) && Nat.ltb (S i) (length wrappers) = false ->
      sub (KExecIf (S f) st conds wrappers i) (KExecIf f st1 conds wrappers (S i))
  (* exec_for *)
  | sub_iter_body : forall f st key value parent body x rest idx count fr,
      top_frame st = Ok fr ->
      sub (KExecFor (S f) st key value parent body (x :: rest) idx count)
          (KExecNodes f (for_state st fr key value x idx count parent) body)
  | sub_iter_next : forall f st key value parent body x rest idx count fr o1 st1,
      top_frame st = Ok fr ->
      exec_nodes f (for_state st fr key value x idx count parent) body = (o1, Ok st1) ->
      sub (KExecFor (S f) st key value parent body (x :: rest) idx count)
          (KExecFor f st1 key value parent body rest (idx + 1) count)
  (* exec_firstof *)
  | sub_firstof_1 : forall f st a rest,
      sub (KExecFirstof (S f) st (a :: rest)) (KEval f st a)
  | sub_firstof_2 : forall f st a rest v st1,
      eval f st a = Ok (v, st1) -> is_true (vv v) = false ->
      sub (KExecFirstof (S f) st (a :: rest)) (KExecFirstof f st1 rest)
  (* eval_pairs *)
  | sub_pairs_1 : forall f st k e rest,
      sub (KEvalPairs (S f) st ((k, e) :: rest)) (KEval f st e)
  | sub_pairs_2 : forall f st k e rest v st1,
      eval f st e = Ok (v, st1) ->
      sub (KEvalPairs (S f) st ((k, e) :: rest)) (KEvalPairs f st1 rest)
  (* apply_tag_chain *)
  | sub_tagchain_1 : forall f st v name pe rest,
      sub (KApplyTagChain (S f) st v ((name, Some pe) :: rest)) (KEval f st pe)
  | sub_tagchain_2 : forall f st v name param rest p st1 r,
      param_result (eval f) st param = Ok (p, st1) ->
      apply_filter_se se name v p = Ok r ->
      sub (KApplyTagChain (S f) st v ((name, param) :: rest)) (KApplyTagChain f st1 r rest)
  (* exec_template *)
  | sub_template : forall f st t ctx,
      sub (KExecTemplate (S f) st t ctx) (KExecTemplateUnbuffered f st t ctx)
  (* exec_template_unbuffered: the root frame of the new execution goes on top *)
  | sub_template_root : forall f st t ctx,
      ctx_accepted globals t ctx = true ->
      sub (KExecTemplateUnbuffered (S f) st t ctx)
          (KExecNodes f (mkM (root_frame globals t ctx (fst (g_fresh (ms_g st))) :: ms_frames st)
                             (ms_nodes st) (snd (g_fresh (ms_g st))))
                      (tpl_root (hd t (tpl_chain t)))).

  (* the one place where the executor runs something fuelled that is not one of its 17
     functions: a lazy include compiles the template it names (Model/ParseDoc.v) *)
  Definition compiler_out_of_fuel (c : call) : Prop :=
    exists f st fe pairs only ifexists name g,
      c = KExecNode (S f) st (NInclude None (Some fe) pairs only ifexists) /\
      compile_file se f name g = Fuel.

  (* ---------- chains of calls ---------- *)
  (* [path c0 callers c]: c0 = callers_0 calls callers_1 calls ... calls c *)
  Inductive path : call -> list call -> call -> Prop :=
  | path_here : forall c, path c [] c
  | path_call : forall c c1 callers c', sub c c1 -> path c1 callers c' -> path c (c :: callers) c'.

  Definition reaches (c0 c : call) : Prop := exists callers, path c0 callers c.

  (* the executions: a template is run on an empty frame stack *)
  Definition root_call (c : call) : Prop :=
    exists f g t ctx, c = KExecTemplate f (mkM [] [] g) t ctx \/
                      c = KExecTemplateUnbuffered f (mkM [] [] g) t ctx.
  (* [c] happens in some execution *)
  Definition reachable (c : call) : Prop := exists c0, root_call c0 /\ reaches c0 c.
End WithEnv.

(* ---------- a tree the parser never builds ----------
   The executor model accepts any syntax tree.  In this one the table of blocks says that the
   body of block "a" is  {% with %}{% block a %}{% endwith %} : a block that contains itself
   (the parser builds the table from the nesting of the source text, where that cannot
   happen).  Used to show that the HEIGHT of the frame stack has no bound that holds for all
   trees (C13_height_unbounded_for_arbitrary_trees). *)
Definition self_block_template : template :=
  Tpl 1 [] true [NBlock [97]] [([97], [NWith [] [NBlock [97]]])] [] None false false.

(* ---------- example data ----------
   {% macro m() %}{{ m() }}{% endmacro %}{{ m() }}  as a tree, run without loaders or globals *)
Definition ex_env : senv := mkSenv [] (mkCfg [] [] [] []) false false.
Definition ex_macro : macro := Macro [109] [] [call_node [109]] false.
Definition ex_template : template :=
  Tpl 1 [] true [NMacro ex_macro; call_node [109]] [] [] None false false.
