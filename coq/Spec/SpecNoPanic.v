(* Vocabulary of the non-vacuity example of property C01 (compile half): a world with one
   empty loader and the default registrations, the compiler run on a string template at
   fuel 100, and "the outcome is a template". The theorems of Props/C01a.v themselves need
   no definition beyond the outcome type of Lib/Outcome.v. *)
From PV Require Import Lib.Outcome Model.ParseDoc Model.Api.
Import ListNotations.
Open Scope N_scope.

Definition np_world : world := mkWorld [mkLoader []] false false [] [] [] [] [].
Definition np_name : str := [60; 115; 116; 114; 105; 110; 103; 62].   (* <string> *)
Definition np_compile (src : str) : res (template * gstate) :=
  compile_src (world_senv np_world) 100 np_name true src g0.
Definition is_ok {A : Type} (r : res A) : bool := match r with Ok _ => true | _ => false end.
