(* The hypotheses of the general tie of the translated tagIfchangedNode.Execute (Props/C09y.v).
   They say, with the model's own runs, that the entry ctx.nodeState holds for the node is one that
   this node wrote in its own mode, and stays so while the node's body / watched expressions run.

   Why they are needed (where the hand-written model and the Go code differ on states that executing
   templates never reaches):
   - the model's store writes BOTH fields of the entry (content mode: no values; watched mode: no
     content), the Go code writes one field and keeps the other;
   - the Go code indexes the new values with the position of a remembered one (panics when more are
     remembered than watched), the model pairs them up and drops the rest;
   - the Go code stops comparing at the first unequal pair, the model folds over every pair, so a
     later pair whose comparison the model does not cover (a struct: Unmod) is seen by the model only. *)
From PV Require Import Model.Exec Spec.SpecFlow Spec.SpecTagFuncs Spec.SpecTagFuncs2.

(* content mode: when the body has run, the entry (still) holds no remembered values *)
Definition ifch_body_keeps_mode (se : senv) (globals : list (str * cval)) (fuel : nat) (st : mstate)
                                (id : N) (thenb : list node) : Prop :=
  forall fr, top_frame st = Ok fr -> forall o st1,
    exec_nodes se globals (pred fuel) st thenb = (o, Ok st1) -> ifch_vals st1 (f_exec fr) id = [].

(* watched mode: not more remembered values than watched expressions; when the expressions have run the
   entry (still) holds no content, and comparing what was remembered with the new values is covered by
   the model *)
Definition ifch_watched_keeps_mode (se : senv) (globals : list (str * cval)) (fuel : nat) (st : mstate)
                                   (id : N) (watched : list expr) : Prop :=
  forall fr, top_frame st = Ok fr ->
    ifch_entry_short watched st (f_exec fr) id /\
    forall now st1, eval_list se globals (pred fuel) st watched = Ok (now, st1) ->
      ifch_content st1 (f_exec fr) id = None /\
      ifchanged_fires (ifch_vals st (f_exec fr) id) now <> None.

Definition ifch_tie_hyps (se : senv) (globals : list (str * cval)) (fuel : nat) (st : mstate)
                         (id : N) (watched : list expr) (thenb : list node) : Prop :=
  match watched with
  | [] => ifch_body_keeps_mode se globals fuel st id thenb
  | _ => ifch_watched_keeps_mode se globals fuel st id watched
  end.
