(* Specification for property C09, syntax half: a small document language with literal text,
   variables  {{ name }},  if / elif / else / endif  and  for / empty / endfor  (arbitrary
   nesting), its source text, and the node list pongo2's parser is expected to build from that
   source.  Nothing here mentions the lexer's or the parser's functions; the node type of
   Model/Doc.v is only used to write down the expected tree. *)
From PV Require Import Lib.Bytes Model.Doc Spec.SpecLex Spec.SpecDash.
Open Scope N_scope.

(* ---------- documents ---------- *)
(* a condition: a name, or "not" name *)
Inductive cond := CName (n : str) | CNot (n : str).

Inductive dnode :=
| DText (s : str)                       (* literal text *)
| DVar (n : str)                        (* {{ n }} *)
| DIf (c : cond) (body : list dnode)    (* {% if c %} body                      *)
      (elifs : list (cond * list dnode))(* {% elif c_i %} body_i ...            *)
      (els : option (list dnode))       (* {% else %} body            (optional) *)
                                        (* {% endif %}                           *)
| DFor (x seq : str) (reversed sorted : bool)  (* {% for x in seq [reversed] [sorted] %} *)
       (body : list dnode)                     (* body                                    *)
       (empty : option (list dnode)).          (* {% empty %} body  (optional) {% endfor %} *)

(* ---------- the source text ---------- *)
Definition w_if : str := [105; 102].
Definition w_elif : str := [101; 108; 105; 102].
Definition w_else : str := [101; 108; 115; 101].
Definition w_endif : str := [101; 110; 100; 105; 102].
Definition w_for : str := [102; 111; 114].
Definition w_in : str := [105; 110].
Definition w_empty : str := [101; 109; 112; 116; 121].
Definition w_endfor : str := [101; 110; 100; 102; 111; 114].
Definition w_reversed : str := [114; 101; 118; 101; 114; 115; 101; 100].
Definition w_sorted : str := [115; 111; 114; 116; 101; 100].
Definition w_not : str := [110; 111; 116].

(* a tag:  "{% " word " " word " " ... "%}"  *)
Definition tag_src (words : list str) : str :=
  [123; 37; 32] ++ flat_map (fun w => w ++ [32]) words ++ [37; 125].

Definition cond_words (c : cond) : list str :=
  match c with CName n => [n] | CNot n => [w_not; n] end.

Definition for_words (x seq : str) (reversed sorted : bool) : list str :=
  [w_for; x; w_in; seq] ++ (if reversed then [w_reversed] else []) ++ (if sorted then [w_sorted] else []).

Fixpoint print_node (d : dnode) : str :=
  match d with
  | DText s => s
  | DVar n => var_src n false false           (* "{{ n }}" *)
  | DIf c body elifs els =>
      tag_src (w_if :: cond_words c) ++ flat_map print_node body ++
      flat_map (fun cb => match cb with
                          | (ci, bi) => tag_src (w_elif :: cond_words ci) ++ flat_map print_node bi
                          end) elifs ++
      match els with Some e => tag_src [w_else] ++ flat_map print_node e | None => [] end ++
      tag_src [w_endif]
  | DFor x seq rv so body empty =>
      tag_src (for_words x seq rv so) ++ flat_map print_node body ++
      match empty with Some e => tag_src [w_empty] ++ flat_map print_node e | None => [] end ++
      tag_src [w_endfor]
  end.
Definition print_doc (d : list dnode) : str := flat_map print_node d.

(* ---------- which documents ---------- *)
(* a text: non-empty, opens no delimiter - neither inside nor together with the "{" of the
   construct that may follow it *)
Definition text_ok (s : str) : bool :=
  match s with [] => false | _ => delim_free (s ++ [123]) end.

(* two texts are never adjacent (they would be one text) *)
Fixpoint no_adjacent_text (l : list dnode) : bool :=
  match l with
  | [] => true
  | x :: r => match x, r with DText _, DText _ :: _ => false | _, _ => no_adjacent_text r end
  end.

Definition cond_ok (c : cond) : bool := match c with CName n | CNot n => name_ok n end.

(* names are names in the sense of Spec/SpecDash.v (letters, no reserved word) *)
Fixpoint wf_node (d : dnode) : bool :=
  match d with
  | DText s => text_ok s
  | DVar n => name_ok n
  | DIf c body elifs els =>
      cond_ok c && (forallb wf_node body && no_adjacent_text body) &&
      forallb (fun cb => match cb with
                         | (ci, bi) => cond_ok ci && (forallb wf_node bi && no_adjacent_text bi)
                         end) elifs &&
      match els with Some e => forallb wf_node e && no_adjacent_text e | None => true end
  | DFor x seq _ _ body empty =>
      name_ok x && name_ok seq && (forallb wf_node body && no_adjacent_text body) &&
      match empty with Some e => forallb wf_node e && no_adjacent_text e | None => true end
  end.
Definition wf_doc (d : list dnode) : bool := forallb wf_node d && no_adjacent_text d.

(* a count of the constructs of a document; the fuel of a compilation must exceed it *)
Fixpoint dsize (d : dnode) : nat :=
  match d with
  | DText _ | DVar _ => 1
  | DIf _ body elifs els =>
      5 + list_sum (map (fun x => S (dsize x)) body) +
      list_sum (map (fun cb => match cb with
                               | (_, bi) => 2 + list_sum (map (fun x => S (dsize x)) bi)
                               end) elifs) +
      match els with Some e => 2 + list_sum (map (fun x => S (dsize x)) e) | None => 0 end
  | DFor _ _ _ _ body empty =>
      5 + list_sum (map (fun x => S (dsize x)) body) +
      match empty with Some e => 2 + list_sum (map (fun x => S (dsize x)) e) | None => 0 end
  end%nat.
Definition doc_size (d : list dnode) : nat := S (list_sum (map (fun x => S (dsize x)) d)).

(* ---------- the expected tree ---------- *)
Definition cond_expr (c : cond) : expr :=
  match c with
  | CName n => var_expr n
  | CNot n => ESimple false true (var_expr n) None
  end.

Definition is_tag (d : dnode) : bool :=
  match d with DIf _ _ _ _ | DFor _ _ _ _ _ _ => true | _ => false end.

(* [f after before x] for every element x of a list, where [after] says that a block tag
   ("%}") stands directly before x and [before] that one ("{%") stands directly after it:
   the previous / next sibling is an if or a for, or x is the first / last element of a list
   that itself stands between two tags ([first], [last]) *)
Section MapCtx.
  Variables (A B : Type) (tagged : A -> bool) (f : bool -> bool -> A -> B).
  Fixpoint map_ctx (first : bool) (l : list A) (last : bool) : list B :=
    match l with
    | [] => []
    | x :: r => f first (match r with [] => last | y :: _ => tagged y end) x :: map_ctx (tagged x) r last
    end.
End MapCtx.
Arguments map_ctx {A B} tagged f first l last.

(* text becomes a text node without trimming flags, whose two block flags say whether it
   touches a tag; a variable an NVar; an if an NIf with the conditions in order and one wrapper
   per body in order, the else wrapper last; a for an NFor with the loop variable, no second
   variable, the sequence, the flags as written, the body and the optional empty branch.
   A body stands between two tags. *)
Fixpoint node_of (owner : N) (after before : bool) (d : dnode) : node :=
  match d with
  | DText s => NHtml owner s false false after before
  | DVar n => NVar (var_expr n)
  | DIf c body elifs els =>
      NIf (cond_expr c :: map (fun cb => cond_expr (fst cb)) elifs)
          (map_ctx is_tag (node_of owner) true body true ::
           map (fun cb => match cb with (_, bi) => map_ctx is_tag (node_of owner) true bi true end) elifs ++
           match els with Some e => [map_ctx is_tag (node_of owner) true e true] | None => [] end)
  | DFor x seq rv so body empty =>
      NFor x [] (var_expr seq) rv so
           (map_ctx is_tag (node_of owner) true body true)
           (match empty with Some e => Some (map_ctx is_tag (node_of owner) true e true) | None => None end)
  end.

(* the nodes of a body (between two tags) and of a whole document (between nothing) *)
Definition body_nodes (owner : N) (l : list dnode) : list node := map_ctx is_tag (node_of owner) true l true.
Definition to_nodes (owner : N) (d : list dnode) : list node := map_ctx is_tag (node_of owner) false d false.

(* the conditions and the bodies of an if, in source order (the else body last) *)
Definition if_conds (c : cond) (elifs : list (cond * list dnode)) : list expr :=
  cond_expr c :: map (fun cb => cond_expr (fst cb)) elifs.
Definition if_bodies (body : list dnode) (elifs : list (cond * list dnode)) (els : option (list dnode))
  : list (list dnode) :=
  body :: map snd elifs ++ match els with Some e => [e] | None => [] end.

(* what the parser must know about the template set: if and for are registered and not banned *)
Definition syntax_cfg_ok (cfg : pcfg) : bool :=
  str_in w_if (cfg_tags cfg) && negb (str_in w_if (cfg_banned_tags cfg)) &&
  str_in w_for (cfg_tags cfg) && negb (str_in w_for (cfg_banned_tags cfg)).
