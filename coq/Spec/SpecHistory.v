(* Histories of executions of one compiled template (property C04). *)
From PV Require Import Model.Api.
Open Scope N_scope.

(* executing the compiled template [t] (with the set state [g] its compilation left) once per
   context, in order; in the model a compiled template is an immutable value and every
   execution starts from a fresh execution state - that the real code behaves like this is
   exactly what the tie (effect summary + correspondence on histories) checks *)
Definition run_history (w : world) (t : template) (g : gstate) (ctxs : list (list (str * cval))) : list obs :=
  map (run_template w t g) ctxs.
