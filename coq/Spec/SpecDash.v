(* Specification for property C15, end to end: a small document language made of literal
   text and variables  {{ name }}  whose delimiters may carry the "-" marker, the source text
   of such a document, and the document in which the white space a marker removes has been
   deleted by hand and the markers are gone.  Nothing here mentions the lexer's, the parser's
   or the executor's functions; the token, node and observation types are only used to write
   down what the lexer, the parser and a rendering are expected to produce. *)
From PV Require Import Lib.Bytes Lib.Outcome Model.Lexer Model.Doc Model.Api Spec.SpecLex Spec.SpecTrim.
Open Scope N_scope.

(* ---------- documents ---------- *)
(* an item is literal text or a variable; [A] is what stands between the braces: a name
   (source level) or an arbitrary expression (node level) *)
Inductive item (A : Type) :=
| Text (s : str)
| Var (x : A) (dl dr : bool).      (* dl: written "{{-" ;  dr: written "-}}" *)
Arguments Text {A} s.
Arguments Var {A} x dl dr.

Definition doc := list (item str).

(* the source text:  {{ name }}  with "{{-" when dl and "-}}" when dr *)
Definition var_src (n : str) (dl dr : bool) : str :=
  [123; 123] ++ (if dl then [45] else []) ++ [32] ++ n ++ [32] ++ (if dr then [45] else []) ++ [125; 125].
Definition item_src (i : item str) : str :=
  match i with Text s => s | Var n dl dr => var_src n dl dr end.
Definition doc_src (d : doc) : str := flat_map item_src d.

(* ---------- deleting by hand what the markers delete ---------- *)
(* does the item list start with a variable written "{{-" ? *)
Definition next_dash {A} (d : list (item A)) : bool :=
  match d with Var _ dl _ :: _ => dl | _ => false end.

(* a text between a delimiter that carries a dash on its left ([l]) / on its right ([r]):
   all leading / trailing white space goes, nothing else *)
Definition strip_text (l r : bool) (s : str) : str :=
  let s1 := if l then drop_leading is_tpl_space s else s in
  if r then drop_trailing is_tpl_space s1 else s1.

(* [prev]: the variable before the list was written "-}}" *)
Fixpoint strip_from {A} (prev : bool) (d : list (item A)) : list (item A) :=
  match d with
  | [] => []
  | Text s :: r => Text (strip_text prev (next_dash r) s) :: strip_from false r
  | Var x _ dr :: r => Var x false false :: strip_from dr r
  end.
Definition doc_strip {A} (d : list (item A)) : list (item A) := strip_from false d.

(* ---------- which documents ---------- *)
(* in and or not true false as export *)
Definition reserved_words : list str :=
  [[105; 110]; [97; 110; 100]; [111; 114]; [110; 111; 116]; [116; 114; 117; 101];
   [102; 97; 108; 115; 101]; [97; 115]; [101; 120; 112; 111; 114; 116]].

(* a name: one or more ASCII letters, not a reserved word *)
Definition name_ok (n : str) : bool :=
  match n with [] => false | _ => forallb is_alpha n end &&
  negb (existsb (str_eqb n) reserved_words).

(* A well-formed document: names are names, two texts are never adjacent (they would be one
   text), a text opens no delimiter - neither inside, nor together with the "{" of the
   variable that follows it, nor (last line) after its trailing white space has been deleted
   by hand:  "a{ {{- x }}"  is fine as written, but deleting the blank gives  "a{{{ x }}",
   a different template. *)
Fixpoint doc_ok (d : doc) : bool :=
  match d with
  | [] => true
  | Text s :: r =>
      match r with
      | [] => delim_free s
      | Text _ :: _ => false
      | Var _ dl _ :: _ =>
          delim_free (s ++ [123]) &&
          (if dl then delim_free (drop_trailing is_tpl_space s ++ [123]) else true)
      end && doc_ok r
  | Var n _ _ :: r => name_ok n && doc_ok r
  end.

(* ---------- what the lexer is expected to produce ---------- *)
(* "{{" (flagged when written "{{-"), the name, "}}" (flagged when written "-}}"), at the
   columns where they start *)
Definition var_toks (n : str) (dl dr : bool) (l c : Z) : list token :=
  let c1 := (c + (if dl then 4 else 3))%Z in
  [ mkTok TSymbol [123; 123] l c dl;
    mkTok TIdentifier n l c1 false;
    mkTok TSymbol [125; 125] l (c1 + zlen n + 1)%Z dr ].

Fixpoint doc_toks (d : doc) (p : Z * Z) : list token :=
  match d with
  | [] => []
  | Text s :: r => html_tokens s p ++ doc_toks r (advs p s)
  | Var n dl dr :: r => var_toks n dl dr (fst p) (snd p) ++ doc_toks r (advs p (var_src n dl dr))
  end.

(* ---------- what the parser is expected to produce ---------- *)
Definition var_expr (n : str) : expr := EFilt (EVar [PIdent n None]) [].

(* a non-empty text becomes a text node whose trimL / trimR flags are the markers of its two
   neighbours (never a block flag); an empty text is no token and no node *)
Fixpoint doc_nodes (owner : N) (prev : bool) (d : doc) : list node :=
  match d with
  | [] => []
  | Text s :: r =>
      match s with
      | [] => doc_nodes owner prev r
      | _ => NHtml owner s prev (next_dash r) false false :: doc_nodes owner false r
      end
  | Var n _ dr :: r => NVar (var_expr n) :: doc_nodes owner dr r
  end.

(* node level, arbitrary expressions between the braces, every text a node *)
Fixpoint item_nodes (owner : N) (prev : bool) (d : list (item expr)) : list node :=
  match d with
  | [] => []
  | Text s :: r => NHtml owner s prev (next_dash r) false false :: item_nodes owner false r
  | Var e _ dr :: r => NVar e :: item_nodes owner dr r
  end.

(* ---------- what a document renders to ---------- *)
(* given what each variable writes ([vt]; a variable that fails ends the rendering): the
   texts, stripped on the sides where a marker stands, and the variables' outputs, in order *)
Fixpoint doc_out (vt : str -> res str) (prev : bool) (d : doc) : str * res unit :=
  match d with
  | [] => ([], Ok tt)
  | Text s :: r => let '(o, x) := doc_out vt false r in (strip_text prev (next_dash r) s ++ o, x)
  | Var n _ dr :: r =>
      match vt n with
      | Ok s => let '(o, x) := doc_out vt dr r in (s ++ o, x)
      | Err k => ([], Err k)
      | Unmod => ([], Unmod)
      | Fuel => ([], Fuel)
      | Panic site => ([], Panic site)
      end
  end.

(* the observation that goes with such a rendering *)
Definition obs_of_out (x : str * res unit) : obs :=
  match snd x with
  | Ok _ => OOk (fst x)
  | Err k => OExecErr k (fst x)
  | Unmod => OUnmod
  | Fuel => OFuel
  | Panic site => OPanic site
  end.

(* a context none of whose entries is a macro (every entry is plain data or one of the two
   internal kinds) *)
Definition macro_free (m : list (str * cval)) : bool :=
  forallb (fun kv => match snd kv with CMacro _ _ => false | _ => true end) m.
