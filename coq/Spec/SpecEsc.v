(* Specifications for the escaping filters (property C17): small, independent of the
   tables, readable in minutes. *)
From PV Require Import Lib.Bytes Lib.Utf8 Lib.GoInt.
Open Scope N_scope.

(* ---------- escape ---------- *)
Definition dangerous (b : N) : bool := (b =? 60) || (b =? 62) || (b =? 34) || (b =? 39).
Definition ent_amp : str := [38; 97; 109; 112; 59].        (* &amp;  *)
Definition ent_lt : str := [38; 108; 116; 59].             (* &lt;   *)
Definition ent_gt : str := [38; 103; 116; 59].             (* &gt;   *)
Definition ent_quot : str := [38; 113; 117; 111; 116; 59]. (* &quot; *)
Definition ent_apos : str := [38; 35; 51; 57; 59].         (* &#39;  *)
Definition five_entities : list (str * N) :=
  [(ent_amp, 38); (ent_lt, 60); (ent_gt, 62); (ent_quot, 34); (ent_apos, 39)].

(* every '&' starts one of the five entities *)
Fixpoint amp_ok (s : str) : bool :=
  match s with
  | [] => true
  | c :: s' =>
      (if c =? 38 then existsb (fun e => is_prefix (fst e) s) five_entities else true)
      && amp_ok s'
  end.

Definition ent_at (s : str) : option (N * nat) :=
  match find (fun e => is_prefix (fst e) s) five_entities with
  | Some (e, c) => Some (c, length e)
  | None => None
  end.

(* HTML-unescaping of exactly the five entities *)
Fixpoint unescape5 (skip : nat) (s : str) : str :=
  match s with
  | [] => []
  | c :: s' =>
      match skip with
      | S k => unescape5 k s'
      | O => match ent_at s with
             | Some (ch, len) => ch :: unescape5 (len - 1) s'
             | None => c :: unescape5 0 s'
             end
      end
  end.

(* ---------- escapejs ---------- *)
Definition js_plain (b : N) : bool := is_alpha b || (b =? 32) || (b =? 47).
Definition is_hex_upper (b : N) : bool := is_digit b || ((65 <=? b) && (b <=? 70)).
Definition hex_val (b : N) : N := if is_digit b then b - 48 else b - 55.

(* Parse the escapejs alphabet: plain bytes and \uXXXX (exactly four upper-case hex
   digits), giving UTF-16 code units; None if the string leaves the alphabet. *)
Fixpoint js_units (skip : nat) (s : str) : option (list N) :=
  match s with
  | [] => match skip with O => Some [] | _ => None end
  | c :: s' =>
      match skip with
      | S k => js_units k s'
      | O =>
          if js_plain c then option_map (cons c) (js_units 0 s')
          else match s with
               | 92 :: 117 :: a :: b :: d :: e :: _ =>
                   if is_hex_upper a && is_hex_upper b && is_hex_upper d && is_hex_upper e
                   then option_map
                          (cons (hex_val a * 4096 + hex_val b * 256 + hex_val d * 16 + hex_val e))
                          (js_units 5 s')
                   else None
               | _ => None
               end
      end
  end.

Definition is_hi_surr (u : N) : bool := (55296 <=? u) && (u <? 56320).
Definition is_lo_surr (u : N) : bool := (56320 <=? u) && (u <? 57344).
(* UTF-16 decoding as JavaScript does it *)
Fixpoint utf16_decode (us : list N) : list N :=
  match us with
  | [] => []
  | u :: rest =>
      match rest with
      | v :: rest' =>
          if is_hi_surr u && is_lo_surr v
          then (65536 + (u - 55296) * 1024 + (v - 56320)) :: utf16_decode rest'
          else u :: utf16_decode rest
      | [] => [u]
      end
  end.
Definition js_decode (s : str) : option (list N) := option_map utf16_decode (js_units 0 s).

(* the characters of a Go string: its validly encoded runes (an invalid byte carries none) *)
Fixpoint valid_runes_go (skip : nat) (s : str) : list N :=
  match s with
  | [] => []
  | _ :: s' =>
      match skip with
      | S k => valid_runes_go k s'
      | O => let '(r, w) := decode_rune s in
             if (r =? rune_error) && Nat.leb w 1 then valid_runes_go 0 s'
             else r :: valid_runes_go (w - 1) s'
      end
  end.
Definition valid_runes (s : str) : list N := valid_runes_go 0 s.

(* no backslash directly followed by r or n (the two rewrites escapejs performs) *)
Fixpoint no_bs_rn (s : str) : bool :=
  match s with
  | [] => true
  | c :: s' =>
      negb ((c =? 92) && match s' with d :: _ => (d =? 114) || (d =? 110) | [] => false end)
      && no_bs_rn s'
  end.

(* ---------- urlencode / iriencode ---------- *)
Definition unreserved (b : N) : bool :=
  is_alpha b || is_digit b || (b =? 45) || (b =? 95) || (b =? 46) || (b =? 126).
Definition query_safe (b : N) : bool := unreserved b || (b =? 37) || (b =? 43).

(* net/url.QueryUnescape on well-formed input; None if malformed *)
Fixpoint query_unescape (skip : nat) (s : str) : option str :=
  match s with
  | [] => match skip with O => Some [] | _ => None end
  | c :: s' =>
      match skip with
      | S k => query_unescape k s'
      | O =>
          if c =? 43 then option_map (cons 32) (query_unescape 0 s')
          else if c =? 37 then
            match s' with
            | a :: b :: _ =>
                if is_hex_upper a && is_hex_upper b
                then option_map (cons (hex_val a * 16 + hex_val b)) (query_unescape 2 s')
                else None
            | _ => None
            end
          else option_map (cons c) (query_unescape 0 s')
      end
  end.

Definition iri_reserved : str :=
  [47; 35; 37; 91; 93; 61; 58; 59; 36; 38; 40; 41; 43; 44; 33; 63; 42; 64; 39; 126].
(* only reserved, unreserved, '+' and %XX triples *)
Fixpoint iri_alphabet (skip : nat) (s : str) : bool :=
  match s with
  | [] => match skip with O => true | _ => false end
  | c :: s' =>
      match skip with
      | S k => is_hex_upper c && iri_alphabet k s'
      | O =>
          match s with
          | 37 :: a :: b :: _ =>
              if is_hex_upper a && is_hex_upper b then iri_alphabet 2 s'
              else iri_alphabet 0 s'     (* a bare % is in the reserved set *)
          | _ => (mem_byte c iri_reserved || unreserved c || (c =? 43)) && iri_alphabet 0 s'
          end
      end
  end.

(* ---------- addslashes ---------- *)
Definition slashed (b : N) : bool := (b =? 92) || (b =? 34) || (b =? 39).
(* Removes the backslash in front of every quote/backslash; None if a backslash stands in
   front of anything else, or a quote without one. *)
Fixpoint strip_slashes (s : str) : option str :=
  match s with
  | [] => Some []
  | c :: s' =>
      if c =? 92 then
        match s' with
        | d :: s'' => if slashed d then option_map (cons d) (strip_slashes s'') else None
        | [] => None
        end
      else if slashed c then None
      else option_map (cons c) (strip_slashes s')
  end.

(* ---------- striptags / removetags ---------- *)
(* a complete tag: a '<' with a '>' somewhere after it *)
Fixpoint has_complete_tag (s : str) : bool :=
  match s with
  | [] => false
  | c :: s' => ((c =? 60) && existsb (N.eqb 62) s') || has_complete_tag s'
  end.

(* r is obtained from s by deleting only substrings that belong to [forms] *)
Inductive deletes (forms : list str) : str -> str -> Prop :=
| del_nil : deletes forms [] []
| del_keep c s r : deletes forms s r -> deletes forms (c :: s) (c :: r)
| del_form f s r : In f forms -> deletes forms s r -> deletes forms (f ++ s) r.

Definition tag_forms_of (t : N) : list str :=
  [[60; 47; t; 47; 62]; [60; 47; t; 62]; [60; t; 47; 62]; [60; t; 62]].

(* one deletion pass per tag, in the order the tags are named *)
Inductive deletes_seq : list N -> str -> str -> Prop :=
| ds_nil s : deletes_seq [] s s
| ds_cons t ts s r1 r :
    deletes (tag_forms_of t) s r1 -> deletes_seq ts r1 r -> deletes_seq (t :: ts) s r.

(* r is s without some leading and trailing white space (bytes of white-space runes:
   ASCII white space, or bytes of a multi-byte rune) *)
Definition ws_byte (b : N) : bool := in_rng 9 13 b || (b =? 32) || (128 <=? b).
Definition trimmed_of (s r : str) : Prop :=
  exists a b, s = a ++ r ++ b /\ forallb ws_byte a = true /\ forallb ws_byte b = true.
