(* Specifications for the rendering half of C06 and for C19: what a context must look like
   to be accepted, what literal fragments render to, the documented templatetag table, a
   duplicate check on name tables.  Nothing here mentions the parser or the executor. *)
From PV Require Import Lib.Bytes Model.Doc Spec.SpecLex.
Open Scope N_scope.

(* ---------- the identifier check on context keys ---------- *)
(* a key is accepted when it is non-empty and made of ASCII letters, digits and '_' *)
Definition ident_byte (b : N) : bool := is_alpha b || is_digit b || (b =? 95).
Definition ident_key (k : str) : bool :=
  match k with [] => false | _ => forallb ident_byte k end.
Definition keys_ok (m : list (str * cval)) : bool := forallb (fun kv => ident_key (fst kv)) m.

(* ---------- literal fragments (text, verbatim blocks, comments) ---------- *)
Definition frag_literal (f : frag) : bool :=
  match f with FCode _ _ => false | _ => true end.
(* what a literal fragment renders to: text and verbatim bodies themselves, a comment nothing *)
Definition frag_text (f : frag) : str :=
  match f with
  | FText t => t
  | FVerbatim b => b
  | FComment _ => []
  | FCode _ _ => []
  end.
Definition frags_text (l : list frag) : str := flat_map frag_text l.

(* ---------- templatetag: argument -> the delimiter it names ---------- *)
Definition templatetag_spec : list (str * str) :=
  [ ([99; 108; 111; 115; 101; 98; 108; 111; 99; 107] (* closeblock *),              [37; 125]  (* %} *));
    ([99; 108; 111; 115; 101; 98; 114; 97; 99; 101] (* closebrace *),              [125]      (* } *));
    ([99; 108; 111; 115; 101; 99; 111; 109; 109; 101; 110; 116] (* closecomment *),    [35; 125]  (* #} *));
    ([99; 108; 111; 115; 101; 118; 97; 114; 105; 97; 98; 108; 101] (* closevariable *), [125; 125] (* }} *));
    ([111; 112; 101; 110; 98; 108; 111; 99; 107] (* openblock *),                  [123; 37]  (* {% *));
    ([111; 112; 101; 110; 98; 114; 97; 99; 101] (* openbrace *),                  [123]      (* { *));
    ([111; 112; 101; 110; 99; 111; 109; 109; 101; 110; 116] (* opencomment *),        [123; 35]  (* {# *));
    ([111; 112; 101; 110; 118; 97; 114; 105; 97; 98; 108; 101] (* openvariable *),     [123; 123] (* {{ *)) ].

(* ---------- name tables ---------- *)
Fixpoint str_mem (s : str) (l : list str) : bool :=
  match l with [] => false | x :: r => str_eqb s x || str_mem s r end.
Fixpoint names_distinct (l : list str) : bool :=
  match l with [] => true | x :: r => negb (str_mem x r) && names_distinct r end.

(* prefix of a byte string *)
Definition is_prefix_of (p s : str) : Prop := exists rest, s = p ++ rest.

(* ---------- outcomes ---------- *)
Definition res_is_ok {A} (r : res A) : bool := match r with Ok _ => true | _ => false end.

(* ---------- filter chains (C19) ---------- *)
(* the filter tag stores its chain as (name, parameter) pairs *)
Definition untag (fc : fcall) : str * option expr := match fc with FCall n p => (n, p) end.
Definition retag (np : str * option expr) : fcall := FCall (fst np) (snd np).

(* the value of a chain of filters without parameters: fn(...f2(f1(v))), left to right; the
   first filter that fails ends the chain with its failure *)
Definition fold_filters (step : str -> value -> res value) (names : list str) (v : value) : res value :=
  fold_left (fun acc n => bind acc (step n)) names (Ok v).
