(* Specification for C14: the caller's writer and the four entry points of a template
   (template.go: Execute, ExecuteBytes, ExecuteWriter, ExecuteWriterUnbuffered) over the
   model's two executors.

   exec_template            = Template.ExecuteWriter's core (newBufferAndExecute): run into a
                              private buffer, hand the buffer out only on success;
   exec_template_unbuffered = Template.execute: the output-so-far component of its result is
                              what has been streamed to the writer when it returns.

   In the model the private buffer costs one unit of fuel (exec_template (S f) calls
   exec_template_unbuffered f), so the buffered entry points below run on [S fuel] and the
   unbuffered one on [fuel]: the same amount of work for the template itself. *)
From PV Require Import Model.Exec.
Open Scope N_scope.

(* ---------- the caller's io.Writer ---------- *)
(* [w_buf]: what has reached the writer; [w_fail_after = Some n]: the writer accepts n bytes
   in total and reports an error for a Write that would go beyond (after taking what fits) *)
Record writer := mkW { w_buf : str; w_fail_after : option nat }.

Definition w_write (w : writer) (s : str) : writer * bool :=      (* true = no error *)
  match w_fail_after w with
  | None => (mkW (w_buf w ++ s) None, true)
  | Some n =>
      if Nat.leb (length (w_buf w) + length s) n
      then (mkW (w_buf w ++ s) (Some n), true)
      else (mkW (w_buf w ++ firstn (n - length (w_buf w)) s) (Some n), false)
  end.

(* ---------- results ---------- *)
Inductive failure := FErr (kind : N) | FUnmod | FFuel | FPanic (site : N).
Definition failure_of {A} (r : res A) : option failure :=
  match r with
  | Ok _ => None
  | Err k => Some (FErr k)
  | Unmod => Some FUnmod
  | Fuel => Some FFuel
  | Panic s => Some (FPanic s)
  end.

Inductive wres :=
| WOk                        (* nil error *)
| WExecFail (f : failure)    (* the template's execution failed *)
| WWriteErr.                 (* the caller's writer failed *)

Section Entry.
  Variable se : senv.
  Variable globals : list (str * cval).

  (* newBufferAndExecute: the buffer on success, the error otherwise *)
  Definition buffer_and_execute (fuel : nat) (st : mstate) (t : template) (ctx : list (str * cval))
    : str + failure :=
    match exec_template se globals (S fuel) st t ctx with
    | (o, r) => match failure_of r with None => inl o | Some f => inr f end
    end.

  (* Execute: buffer.String() ; ExecuteBytes: buffer.Bytes() - strings and byte slices are the
     same type in the model *)
  Definition execute := buffer_and_execute.
  Definition execute_bytes := buffer_and_execute.

  (* ExecuteWriter: run buffered, and only then write the whole buffer to the writer *)
  Definition execute_writer (fuel : nat) (st : mstate) (t : template) (ctx : list (str * cval))
                            (w : writer) : writer * wres :=
    match buffer_and_execute fuel st t ctx with
    | inl o => let '(w', ok) := w_write w o in (w', if ok then WOk else WWriteErr)
    | inr f => (w, WExecFail f)
    end.

  (* ExecuteWriterUnbuffered: every node writes to the writer as it goes; what reached the
     writer is the output-so-far of the run (as much of it as the writer takes; pongo2's nodes
     do not look at the writer's error, and neither does the model) *)
  Definition execute_writer_unbuffered (fuel : nat) (st : mstate) (t : template)
                                       (ctx : list (str * cval)) (w : writer) : writer * wres :=
    match exec_template_unbuffered se globals fuel st t ctx with
    | (o, r) => (fst (w_write w o), match failure_of r with None => WOk | Some f => WExecFail f end)
    end.
End Entry.
