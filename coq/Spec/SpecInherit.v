(* What template inheritance means (property C10): the chain of ancestors of a template, the
   definitions of a block along it, and how "block" is bound while a definition runs. *)
From PV Require Import Model.Exec.
Open Scope N_scope.

(* the ancestors of a template, the base (root ancestor) first, the template itself last *)
Fixpoint chain_of (t : template) : list template :=
  match t with
  | Tpl _ _ _ _ _ _ (Some p) _ _ => chain_of p ++ [t]
  | Tpl _ _ _ _ _ _ None _ _ => [t]
  end.
(* the base: the ancestor that extends nothing *)
Fixpoint root_of (t : template) : template :=
  match t with
  | Tpl _ _ _ _ _ _ (Some p) _ _ => root_of p
  | Tpl _ _ _ _ _ _ None _ _ => t
  end.
Definition depth (t : template) : nat := length (chain_of t).

(* the definitions of block [name] along a chain, least derived first *)
Fixpoint defs_of (name : str) (chain : list template) : list (list node) :=
  match chain with
  | [] => []
  | t :: rest =>
      match assoc_get name (tpl_blocks t) with
      | Some body => body :: defs_of name rest
      | None => defs_of name rest
      end
  end.

Definition block_key : str := [98; 108; 111; 99; 107] (* block *).
Definition super_key : str := [83; 117; 112; 101; 114] (* Super *).

(* the current frame with "block" bound to [v] *)
Definition bind_block (st : mstate) (fr : frame) (v : cval) : mstate :=
  set_top st (with_priv fr (ctx_set block_key v (f_priv fr))).
(* ... and with "block" put back to what the enclosing block had ([None]: not in a block) *)
Definition restore_block (outer : option cval) (st : mstate) (fr : frame) : mstate :=
  set_top st (with_priv fr (match outer with
                            | Some v => ctx_set block_key v (f_priv fr)
                            | None => ctx_del block_key (f_priv fr)
                            end)).
(* the frame a Super call runs in: a child of the frame the block was entered in *)
Definition super_frame (bfr : frame) (fidx : nat) (less : list (list node)) : frame :=
  with_priv (child_of bfr) (ctx_set block_key (CBlock fidx less) (f_priv bfr)).

(* the context of an execution is usable: identifier keys, no clash with an exported macro *)
Definition ctx_ok (globals : list (str * cval)) (t : template) (ctx : list (str * cval)) : bool :=
  let merged := ctx_update globals ctx in
  forallb (fun kv : str * cval => negb (Nat.eqb (length (fst kv)) 0) &&
                     forallb (fun b => is_alpha b || is_digit b || (b =? 95)) (fst kv)) merged &&
  negb (existsb (fun kv : str * cval => match assoc_get (fst kv) (tpl_exported t) with Some _ => true | None => false end) merged).

(* the state in which the document of an execution of [t] starts: a fresh root frame on top *)
Definition enter (globals : list (str * cval)) (st : mstate) (t : template) (ctx : list (str * cval)) : mstate :=
  mkM (root_frame globals t ctx (g_nid (ms_g st)) :: ms_frames st) (ms_nodes st)
      (mkG (g_nid (ms_g st) + 1) (g_log (ms_g st))).

(* {{ block.Super }} as the parser builds it, and a block definition "x{{ block.Super }}" *)
Definition super_expr : expr := EFilt (EVar [PIdent block_key None; PIdent super_key None]) [].
Definition lit_super (x : str) : list node := [NTemplatetag x; NVar super_expr].
