(* Vocabulary for property C02 at the level of the SOURCE TEXT (Props/C02c.v): which token lists
   - and so, through the lexer, which sources - contain no opt-out from autoescaping.

   Spec/SpecTaint2.v says which COMPILED templates contain no opt-out ([ok_template], and
   [ok_template_m] for templates whose own text contains markup); here the same is said of what
   the template author writes.  The predicate is a scan of the token list the lexer
   (Model/Lexer.v) produces; it mentions neither the parser nor the executor.  A token list is
   rejected when it contains one of

     1. a text token (the literal text between tags) that is not an accepted text: in Part I a
        text with a byte that would need escaping (the statement is about the WHOLE output being
        in escaped form); in Part II a text outside the given set [lit];
     2. the symbol  |  directly followed by the identifier  safe      (the `safe` filter; a
        variable that happens to be called safe is fine);
     3. after the symbol  {%  :
          autoescape off
          filter ...   with anything but  name | name | ...  over the allowed names
                       ([clean_tag_filters] / [markup_tag_filters]) before the closing  %}
                       (so: no parameter)
          ssi ...      unless it is  ssi "file" parsed   (a plain ssi writes the file raw)
          include ...  whose first argument is not a string literal, when lazy includes are
                       not allowed ([lz] = false; with [lz] = true they are, and every file of
                       the set is then required to be free of opt-outs, see below)
          spaceless    in Part II only (it rewrites the text between tags).

   Everything else is allowed.  The scan is sufficient, not necessary: it looks at every token,
   also at those a {% comment %} skips.  *)
From PV Require Import Lib.Bytes Model.Lexer Model.ParseExpr Model.ParseDoc Model.Api
  Spec.SpecEsc Spec.SpecTaint Spec.SpecTaint2.
From PV Require gen.Tables.
Open Scope N_scope.

(* ---------- names ---------- *)
Definition y_tag_open : str := [123; 37].                                             (* {% *)
Definition y_tag_close : str := [37; 125].                                            (* %} *)
Definition k_autoescape : str := [97; 117; 116; 111; 101; 115; 99; 97; 112; 101].     (* autoescape *)
Definition k_off : str := [111; 102; 102].                                            (* off *)
Definition k_filter : str := [102; 105; 108; 116; 101; 114].                          (* filter *)
Definition k_ssi : str := [115; 115; 105].                                            (* ssi *)
Definition k_parsed : str := [112; 97; 114; 115; 101; 100].                           (* parsed *)
Definition k_include : str := [105; 110; 99; 108; 117; 100; 101].                     (* include *)
Definition k_spaceless : str := [115; 112; 97; 99; 101; 108; 101; 115; 115].          (* spaceless *)

(* the token is the identifier [s] *)
Definition tok_ident (t : token) (s : str) : bool := is_typ t TIdentifier && str_eqb (tval t) s.
(* the first token of [ts] is the identifier [s] *)
Definition head_ident (ts : list token) (s : str) : bool :=
  match ts with t :: _ => tok_ident t s | [] => false end.
Definition head_string (ts : list token) : bool :=
  match ts with t :: _ => is_typ t TString | [] => false end.

(* ---------- 2. the safe filter ---------- *)
(* [t] is the pipe and the next token is the identifier safe *)
Definition pipe_safe (t : token) (rest : list token) : bool :=
  is_sym t y_pipe && head_ident rest n_safe.

(* ---------- 3. tags ---------- *)

(* the tokens before the first closing  %}  *)
Fixpoint upto_close (ts : list token) : list token :=
  match ts with
  | [] => []
  | t :: r => if is_sym t y_tag_close then [] else t :: upto_close r
  end.

(* The scan, with what the two parts of the property vary:
     [lit]     which literal texts are accepted (Part I: texts that need no escaping;
               Part II: any decidable set of texts, see below),
     [fnames]  the filter names a filter tag may use,
     [spl]     is the spaceless tag accepted,
     [lz]      are lazy includes accepted. *)
Section Scan.
  Variable lit : str -> bool.
  Variable fnames : list str.
  Variable spl : bool.
  Variable lz : bool.

  (* what may stand between  filter  and  %}  *)
  Definition filter_arg_ok (t : token) : bool :=
    is_sym t y_pipe || (is_typ t TIdentifier && str_in (tval t) fnames).

  (* [rest]: the tokens after a  {%  *)
  Definition tag_optout (rest : list token) : bool :=
    match rest with
    | nm :: args =>
        is_typ nm TIdentifier &&
        (   (str_eqb (tval nm) k_autoescape && head_ident args k_off)
         || (str_eqb (tval nm) k_filter && negb (forallb filter_arg_ok (upto_close args)))
         || (str_eqb (tval nm) k_ssi &&
             negb (match args with s :: p :: _ => is_typ s TString && tok_ident p k_parsed | _ => false end))
         || (str_eqb (tval nm) k_include && negb lz && negb (head_string args))
         || (str_eqb (tval nm) k_spaceless && negb spl))
    | [] => false
    end.

  (* the token [t], followed by [rest], is (the start of) an opt-out: item 1 for a text token,
     items 2 and 3 for the others *)
  Definition tok_optout (t : token) (rest : list token) : bool :=
    match ttyp t with
    | THTML => negb (lit (tval t))
    | _ => pipe_safe t rest || (is_sym t y_tag_open && tag_optout rest)
    end.

  Fixpoint scan_tokens (ts : list token) : bool :=
    match ts with
    | [] => true
    | t :: r => negb (tok_optout t r) && scan_tokens r
    end.

  (* a source: what the lexer makes of it (a source that does not lex compiles to nothing) *)
  Definition scan_source (src : str) : bool :=
    match lex src with
    | LexOk toks => scan_tokens toks
    | _ => true
    end.

  (* every file any loader of the set holds (what extends / include / import / ssi parsed, and
     lazy includes at run time, can reach) *)
  Definition scan_set (se : senv) : bool :=
    forallb (fun kv => scan_source (snd kv)) (flat_map l_files (se_loaders se)).
End Scan.

(* ---------- Part I: the whole output is in escaped form ---------- *)
(* literal text must need no escaping; a filter tag may use [clean_tag_filters]; spaceless is
   accepted *)
Definition inert_text (v : str) : bool := forallb inert_byte v.
Definition no_optout_tokens (lz : bool) (ts : list token) : bool :=
  scan_tokens inert_text clean_tag_filters true lz ts.
Definition no_optout_source (lz : bool) (src : str) : bool :=
  scan_source inert_text clean_tag_filters true lz src.
Definition no_optout_set (lz : bool) (se : senv) : bool :=
  scan_set inert_text clean_tag_filters true lz se.
Definition no_optout_world (lz : bool) (w : world) : bool := no_optout_set lz (world_senv w).

(* ---------- Part II: templates whose own text contains markup ---------- *)
(* literal text is any text of [lit] (Spec/SpecTaint2.v Part II: the output is then a
   concatenation of pieces of texts of [lit] and of chunks in escaped form); a filter tag may use
   [markup_tag_filters]; spaceless is rejected (it rewrites the text between tags) *)
Definition no_optout_tokens_m (lit : str -> bool) (lz : bool) (ts : list token) : bool :=
  scan_tokens lit markup_tag_filters false lz ts.
Definition no_optout_source_m (lit : str -> bool) (lz : bool) (src : str) : bool :=
  scan_source lit markup_tag_filters false lz src.
Definition no_optout_set_m (lit : str -> bool) (lz : bool) (se : senv) : bool :=
  scan_set lit markup_tag_filters false lz se.
Definition no_optout_world_m (lit : str -> bool) (lz : bool) (w : world) : bool :=
  no_optout_set_m lit lz (world_senv w).

(* the natural [lit] for given sources: the text tokens the lexer finds in them, and the eight
   texts a templatetag tag can write *)
Definition text_tokens (src : str) : list str :=
  match lex src with
  | LexOk toks => flat_map (fun t => match ttyp t with THTML => [tval t] | _ => [] end) toks
  | _ => []
  end.
Definition templatetag_texts : list str := map snd gen.Tables.templatetag_map.
Definition lit_of (srcs : list str) (v : str) : bool :=
  str_in v (flat_map text_tokens srcs ++ templatetag_texts).
(* [lit] accepts what a templatetag tag writes *)
Definition templatetags_in (lit : str -> bool) : bool := forallb lit templatetag_texts.

(* with that [lit] item 1 of the list is vacuous: the scan that does not look at literal text *)
Definition any_text (_ : str) : bool := true.
Definition no_optout_source_t (lz : bool) (src : str) : bool :=
  scan_source any_text markup_tag_filters false lz src.
Definition no_optout_world_t (lz : bool) (w : world) : bool :=
  scan_set any_text markup_tag_filters false lz (world_senv w).
(* the contents of every file the world's loaders hold *)
Definition world_sources (w : world) : list str := map snd (flat_map l_files (w_loaders w)).

(* ---------- a small world for the witnesses of Props/C02c.v ---------- *)
(* three files: base, inc (the sources of Spec/SpecTaint2.v) and child, which extends base,
   defines and calls a macro, prints block.Super, includes inc, uses spaceless, a filter tag
   and cycle *)
Definition s3_base : str := [98; 97; 115; 101].        (* base *)
Definition s3_inc : str := [105; 110; 99].             (* inc *)
Definition s3_child : str := [99; 104; 105; 108; 100]. (* child *)
Definition s3_world : world :=
  mkWorld [mkLoader [(s3_base, e2e_base); (s3_inc, e2e_inc); (s3_child, e2e_child)]]
          false false [] [] [] [] [].
(* a hostile x: the bytes 39 34 62 60 38, then the text script, then 62 *)
Definition s3_hostile : str := [39; 34; 62; 60; 38] ++ [115; 99; 114; 105; 112; 116; 62].
Definition s3_ctx : list (str * cval) := [(w_x, CV (as_value (VStr s3_hostile)))].
(* a string template with a lazy include: {% include n %}{{ x }} *)
Definition s3_lazy : str :=
  [123; 37; 32; 105; 110; 99; 108; 117; 100; 101; 32; 110; 32; 37; 125; 123; 123; 32; 120; 32; 125; 125].
(* n = "inc", y = x = the hostile text *)
Definition s3_lazy_ctx : list (str * cval) :=
  [([110], CV (as_value (VStr s3_inc))); (w_y, CV (as_value (VStr s3_hostile))); (w_x, CV (as_value (VStr s3_hostile)))].

(* the opt-outs, as sources (each is rejected; each but the last two writes x raw) *)
(* {{ x|safe }} *)
Definition s3_src_safe : str := [123; 123; 32; 120; 124; 115; 97; 102; 101; 32; 125; 125].
(* {% autoescape off %}{{ x }}{% endautoescape %} *)
Definition s3_src_off : str :=
  [123; 37; 32; 97; 117; 116; 111; 101; 115; 99; 97; 112; 101; 32; 111; 102; 102; 32; 37; 125; 123; 123; 32; 120; 32; 125; 125;
   123; 37; 32; 101; 110; 100; 97; 117; 116; 111; 101; 115; 99; 97; 112; 101; 32; 37; 125].
(* {% filter add:x %}{% endfilter %} *)
Definition s3_src_filter : str :=
  [123; 37; 32; 102; 105; 108; 116; 101; 114; 32; 97; 100; 100; 58; 120; 32; 37; 125; 123; 37; 32; 101; 110; 100; 102; 105; 108; 116; 101; 114; 32; 37; 125].
(* {% firstof x|safe %} *)
Definition s3_src_firstof : str :=
  [123; 37; 32; 102; 105; 114; 115; 116; 111; 102; 32; 120; 124; 115; 97; 102; 101; 32; 37; 125].
(* {% ssi "raw" %}  over a world whose file raw holds the bytes 60 98 62 *)
Definition s3_src_ssi : str := [123; 37; 32; 115; 115; 105; 32; 34; 114; 97; 119; 34; 32; 37; 125].
Definition s3_raw_world : world :=
  mkWorld [mkLoader [([114; 97; 119], [60; 98; 62])]] false false [] [] [] [] [].
(* literal markup: the bytes 60 98 62, then {{ x }} *)
Definition s3_src_markup : str := [60; 98; 62; 123; 123; 32; 120; 32; 125; 125].
(* allowed: a variable named safe, autoescape on, a filter tag over allowed names, ssi parsed:
   {{ safe }}{% autoescape on %}{{ x }}{% endautoescape %}{% filter lower|escape %}{{ x }}{% endfilter %}{% ssi "inc" parsed %} *)
Definition s3_src_fine : str :=
  [123; 123; 32; 115; 97; 102; 101; 32; 125; 125;
   123; 37; 32; 97; 117; 116; 111; 101; 115; 99; 97; 112; 101; 32; 111; 110; 32; 37; 125; 123; 123; 32; 120; 32; 125; 125;
   123; 37; 32; 101; 110; 100; 97; 117; 116; 111; 101; 115; 99; 97; 112; 101; 32; 37; 125;
   123; 37; 32; 102; 105; 108; 116; 101; 114; 32; 108; 111; 119; 101; 114; 124; 101; 115; 99; 97; 112; 101; 32; 37; 125;
   123; 123; 32; 120; 32; 125; 125; 123; 37; 32; 101; 110; 100; 102; 105; 108; 116; 101; 114; 32; 37; 125;
   123; 37; 32; 115; 115; 105; 32; 34; 105; 110; 99; 34; 32; 112; 97; 114; 115; 101; 100; 32; 37; 125].
