(* Vocabulary for property C02 in full (Props/C02b.v): which templates contain no opt-out, what
   a "clean" value is, and the invariant of an execution state under which every byte that is
   written is in escaped form ([html_clean] of Spec/SpecTaint.v).  Boolean (checkable by
   computation on any compiled template and state) and independent of the evaluator: only the
   constructors of documents, values and frames are mentioned ([lazy_ok] names compile_file).
   Part II: the same for templates whose own text contains markup, with [pieces]. *)
From PV Require Import Lib.Bytes Model.Value Model.Doc Model.Exec Model.Api Spec.SpecEsc Spec.SpecTaint.
Open Scope N_scope.

(* ---------- clean values ---------- *)
(* every string inside the value (at any depth: list items, map and struct fields) is in
   escaped form; numbers, booleans and nil contain nothing to escape *)
Fixpoint val_clean (v : val) : bool :=
  match v with
  | VStr s => html_clean s
  | VList l => forallb val_clean l
  | VMap m => forallb (fun kv => val_clean (snd kv)) m
  | VStruct m => forallb (fun kv => val_clean (snd kv)) m
  | _ => true
  end.

(* a value is harmless at an output site when it is unmarked (then autoescape escapes it), or
   marked safe AND clean *)
Definition mark_ok (v : value) : bool := negb (vsafe v) || val_clean (vv v).

(* ---------- the filter tag ---------- *)
(* {% filter f1|f2... %}body{% endfilter %} writes the result of its chain RAW (tags_filter.go),
   so html_clean output needs filters that keep escaped form.  These do (Tie/C02b.v), when used
   without parameter.  Most others do not, even with a literal or no parameter: see the
   counterexamples in Props/C02b.v (upper, first, truncatechars:4, add:"<"). *)
Definition n_lower : str := [108; 111; 119; 101; 114].                                (* lower *)
Definition n_length : str := [108; 101; 110; 103; 116; 104].                          (* length *)
Definition n_wordcount : str := [119; 111; 114; 100; 99; 111; 117; 110; 116].         (* wordcount *)
Definition n_integer : str := [105; 110; 116; 101; 103; 101; 114].                    (* integer *)
Definition n_float : str := [102; 108; 111; 97; 116].                                 (* float *)
Definition clean_tag_filters : list str :=
  [n_safe; n_escape; n_e; n_lower; n_length; n_wordcount; n_integer; n_float].
Definition tag_call_ok (c : str * option expr) : bool :=
  str_in (fst c) clean_tag_filters && match snd c with None => true | Some _ => false end.

(* ---------- templates without opt-outs ---------- *)
(* [lz]: are lazy includes ({% include expr %} compiled at run time) allowed?  If so the
   theorems assume [lazy_ok] below. *)
Section Ok.
  Variable lz : bool.

  Fixpoint ok_node (n : node) : bool :=
    let ok_opt (o : option (list node)) :=
      match o with Some l => forallb ok_node l | None => true end in
    match n with
    | NHtml _ val _ _ _ _ => forallb inert_byte val           (* literal text needs no escaping *)
    | NVar e => negb (filter_applied n_safe e)                (* no `safe` on the printed expression *)
    | NIf _ wrappers => forallb (forallb ok_node) wrappers
    | NFor _ _ _ _ _ body empty => forallb ok_node body && ok_opt empty
    | NWith _ body => forallb ok_node body
    | NSet _ _ => true
    | NMacro m => ok_macro m
    | NImport ms => forallb (fun am => ok_macro (snd am)) ms
    | NBlock _ => true                                        (* the bodies are in the template *)
    | NExtends => true
    | NInclude tplo _ _ _ _ =>
        match tplo with Some t => ok_template t | None => lz end
    | NIncludeEmpty => true
    | NAutoescape on body => on && forallb ok_node body       (* no autoescape off *)
    | NFilterTag chain body => forallb tag_call_ok chain && forallb ok_node body
    | NFirstof args => none_safe args
    | NCycle _ args _ _ => none_safe args
    | NIfchanged _ _ thenb elseb => forallb ok_node thenb && ok_opt elseb
    | NIfequal _ _ _ thenb elseb => forallb ok_node thenb && ok_opt elseb
    | NSpaceless body => forallb ok_node body
    | NTemplatetag content => forallb inert_byte content
    | NWidthratio _ _ _ _ => true
    | NComment => true
    | NSsi content tplo =>
        match tplo with Some t => ok_template t | None => forallb inert_byte content end
    | NUnmod => true                                          (* never succeeds in the model *)
    end
  with ok_macro (m : macro) : bool :=
    match m with Macro _ _ body _ => forallb ok_node body end
  with ok_template (t : template) : bool :=
    match t with
    | Tpl _ _ _ root blocks _ parent _ _ =>
        forallb ok_node root &&
        forallb (fun b => forallb ok_node (snd b)) blocks &&
        match parent with Some p => ok_template p | None => true end
    end.

  Definition ok_nodes (ns : list node) : bool := forallb ok_node ns.

  (* ---------- the state invariant ---------- *)
  Definition entry_ok (c : cval) : bool :=
    match c with
    | CV v => mark_ok v
    | CMacro m _ => ok_macro m
    | CBlock _ ws => forallb ok_nodes ws
    | CCycle _ args _ v => none_safe args && mark_ok v
    end.
  Definition ctx_ok (m : list (str * cval)) : bool := forallb (fun kv => entry_ok (snd kv)) m.
  Definition frame_ok (fr : frame) : bool :=
    f_auto fr && ctx_ok (f_priv fr) && ctx_ok (f_pub fr) && forallb ok_template (f_chain fr).
  (* every context of the stack: autoescape on, values unmarked or clean, macros / block
     bodies / cycle arguments without opt-outs *)
  Definition tclean (st : mstate) : Prop := forallb frame_ok (ms_frames st) = true.

  (* templates compiled at run time are without opt-outs too (only needed when [lz]) *)
  Definition lazy_ok (se : senv) : Prop :=
    lz = true -> forall f name g t g', compile_file se f name g = Ok (t, g') -> ok_template t = true.
End Ok.

(* what a caller passes: data only, none of it marked safe *)
Definition unmarked_ctx (ctx : list (str * cval)) : bool :=
  forallb (fun kv => match snd kv with CV v => negb (vsafe v) | _ => false end) ctx.

(* ================= Part II: templates whose own text contains markup ================= *)
(* When the template's literal text may contain markup (the bytes 60 62 34 39 38), the output as a whole is not in
   escaped form; what the property says then is that the output is a concatenation of pieces
   of the template's own text and of chunks in escaped form. *)

(* [l] is a contiguous part of [v] (text tokens are written after white-space trimming) *)
Definition infix (l v : str) : Prop := exists a b, v = a ++ l ++ b.

Definition all_prop {A} (P : A -> Prop) (l : list A) : Prop := fold_right (fun x acc => P x /\ acc) True l.

(* the filters a filter tag may use here (no parameter): they return their input, its escaped
   form, or a number *)
Definition markup_tag_filters : list str := [n_safe; n_escape; n_e; n_length; n_wordcount; n_integer; n_float].
Definition tag_call_m (c : str * option expr) : bool :=
  str_in (fst c) markup_tag_filters && match snd c with None => true | Some _ => false end.

Section Markup.
  (* [lit]: the literal texts the template may contain (any decidable set; [ok_template_m]
     checks that every text token, templatetag content and unparsed ssi content is in it) *)
  Variable lit : str -> bool.
  Variable lz : bool.

  Definition piece_of (l : str) : Prop := exists val, lit val = true /\ infix l val.

  (* concatenations of pieces of literal text and chunks in escaped form *)
  Inductive pieces : str -> Prop :=
  | pc_nil : pieces []
  | pc_lit : forall l r, piece_of l -> pieces r -> pieces (l ++ r)
  | pc_esc : forall c r, html_clean c = true -> pieces r -> pieces (c ++ r).

  Fixpoint val_pieces (v : val) : Prop :=
    match v with
    | VStr s => pieces s
    | VList l => all_prop val_pieces l
    | VMap m => all_prop (fun kv => val_pieces (snd kv)) m
    | VStruct m => all_prop (fun kv => val_pieces (snd kv)) m
    | _ => True
    end.
  Definition mark_pieces (v : value) : Prop := vsafe v = false \/ val_pieces (vv v).

  (* as [ok_node], but: literal text is any text of [lit]; no spaceless (it rewrites the text
     between tags); the filter tag over [markup_tag_filters] *)
  Fixpoint ok_node_m (n : node) : bool :=
    let ok_opt (o : option (list node)) :=
      match o with Some l => forallb ok_node_m l | None => true end in
    match n with
    | NHtml _ val _ _ _ _ => lit val
    | NVar e => negb (filter_applied n_safe e)
    | NIf _ wrappers => forallb (forallb ok_node_m) wrappers
    | NFor _ _ _ _ _ body empty => forallb ok_node_m body && ok_opt empty
    | NWith _ body => forallb ok_node_m body
    | NSet _ _ => true
    | NMacro m => ok_macro_m m
    | NImport ms => forallb (fun am => ok_macro_m (snd am)) ms
    | NBlock _ => true
    | NExtends => true
    | NInclude tplo _ _ _ _ =>
        match tplo with Some t => ok_template_m t | None => lz end
    | NIncludeEmpty => true
    | NAutoescape on body => on && forallb ok_node_m body
    | NFilterTag chain body => forallb tag_call_m chain && forallb ok_node_m body
    | NFirstof args => none_safe args
    | NCycle _ args _ _ => none_safe args
    | NIfchanged _ _ thenb elseb => forallb ok_node_m thenb && ok_opt elseb
    | NIfequal _ _ _ thenb elseb => forallb ok_node_m thenb && ok_opt elseb
    | NSpaceless _ => false
    | NTemplatetag content => lit content
    | NWidthratio _ _ _ _ => true
    | NComment => true
    | NSsi content tplo =>
        match tplo with Some t => ok_template_m t | None => lit content end
    | NUnmod => true
    end
  with ok_macro_m (m : macro) : bool :=
    match m with Macro _ _ body _ => forallb ok_node_m body end
  with ok_template_m (t : template) : bool :=
    match t with
    | Tpl _ _ _ root blocks _ parent _ _ =>
        forallb ok_node_m root &&
        forallb (fun b => forallb ok_node_m (snd b)) blocks &&
        match parent with Some p => ok_template_m p | None => true end
    end.
  Definition ok_nodes_m (ns : list node) : bool := forallb ok_node_m ns.

  Definition entry_m (c : cval) : Prop :=
    match c with
    | CV v => mark_pieces v
    | CMacro m _ => ok_macro_m m = true
    | CBlock _ ws => forallb ok_nodes_m ws = true
    | CCycle _ args _ v => none_safe args = true /\ mark_pieces v
    end.
  Definition ctx_m (m : list (str * cval)) : Prop := Forall (fun kv => entry_m (snd kv)) m.
  Definition frame_m (fr : frame) : Prop :=
    f_auto fr = true /\ ctx_m (f_priv fr) /\ ctx_m (f_pub fr) /\ forallb ok_template_m (f_chain fr) = true.
  Definition tclean_m (st : mstate) : Prop := Forall frame_m (ms_frames st).
  Definition lazy_m (se : senv) : Prop :=
    lz = true -> forall f name g t g', compile_file se f name g = Ok (t, g') -> ok_template_m t = true.
End Markup.

(* ---------- a small world for the witnesses of Props/C02b.v ---------- *)
Definition w2_m : str := [109].                                        (* m *)
Definition w2_a : str := [97].                                         (* a *)
Definition w2_b : str := [98].                                         (* b *)
Definition w2_title : str := [116].                                    (* t *)
Definition var_of (nm : str) : expr := EFilt (EVar [PIdent nm None]) [].
(* {% macro m(a, b=x) %}[{{ a }}|{{ b }}]{% endmacro %} *)
Definition w2_macro : macro :=
  Macro w2_m [(w2_a, None); (w2_b, Some w_var)]
        [NHtml 0 [91] false false false false; NVar (var_of w2_a); NHtml 0 [124] false false false false;
         NVar (var_of w2_b); NHtml 0 [93] false false false false] false.
(* a parent with a block t that prints x, a child whose block prints block.Super twice *)
Definition w2_parent : template :=
  Tpl 1 [112] false [NBlock w2_title] [(w2_title, [NVar w_var])] [] None false false.
Definition w2_super : expr :=
  EFilt (EVar [PIdent [98; 108; 111; 99; 107] None; PIdent [83; 117; 112; 101; 114] None]) [].
(* an included template: {{ y }} with y passed by the include *)
Definition w2_inc : template :=
  Tpl 3 [105] false [NVar (var_of w_y)] [] [] None false false.
Definition w2_child : template :=
  Tpl 2 [99] false [NExtends]
      [(w2_title,
        [ NMacro w2_macro;
          (* {{ m(x) }} : the macro's result is marked safe, and clean *)
          NVar (EFilt (EVar [PIdent w2_m (Some [w_var])]) []);
          (* {% set y = m(x) + x %}{{ y }} : combined with raw text, unmarked again, escaped again *)
          NSet w_y (ESimple false false (EFilt (EVar [PIdent w2_m (Some [w_var])]) []) (Some (43, w_var)));
          NVar (var_of w_y);
          NVar w2_super;
          NInclude (Some w2_inc) None [(w_y, w_var)] true false;
          NSpaceless [NVar w_var];
          NFilterTag [(n_lower, None)] [NVar w_var];
          NCycle 9 [w_var; w2_super] [] false ])]
      [] (Some w2_parent) false false.

(* a state that satisfies the invariant: a macro, a marked value whose text is in escaped form,
   the caller's raw x *)
Definition w2_state : mstate :=
  mkM [mkF [(w2_m, CMacro w2_macro 0); (w_y, CV (as_safe_value (VStr w_escaped)))] w_ctx true 0 1 [w2_parent]]
      [] (mkG 1 []).

(* through the lexer and parser: a loader with a base template and an included one, and a child
   given as a string *)
(* [{% block t %}{{ x }}{% endblock %}] *)
Definition e2e_base : str := [91; 123; 37; 32; 98; 108; 111; 99; 107; 32; 116; 32; 37; 125; 123; 123; 32; 120; 32; 125; 125; 123; 37; 32; 101; 110; 100; 98; 108; 111; 99; 107; 32; 37; 125; 93].
(* {{ y }}! *)
Definition e2e_inc : str := [123; 123; 32; 121; 32; 125; 125; 33].
(* {% extends "base" %}{% block t %}{% macro m(a, b=x) %}({{ a }}|{{ b }}){% endmacro %}{{ m(x) }}{% set y = m(x) + x %}{{ y }}{{ block.Super }}{% include "inc" with y=x only %}{% spaceless %}{{ x }}{% endspaceless %}{% filter lower %}{{ x }}{% endfilter %}{% cycle x block.Super %}{% endblock %} *)
Definition e2e_child : str :=
  [123; 37; 32; 101; 120; 116; 101; 110; 100; 115; 32; 34; 98; 97; 115; 101; 34; 32; 37; 125; 123; 37; 32; 98; 108; 111; 99; 107; 32; 116; 32; 37; 125; 123; 37; 32; 109; 97; 99; 114; 111; 32; 109; 40; 97; 44; 32; 98; 61; 120; 41; 32; 37; 125; 40; 123; 123; 32; 97; 32; 125; 125; 124; 123; 123; 32; 98; 32; 125; 125; 41; 123; 37; 32; 101; 110; 100; 109; 97; 99; 114; 111; 32; 37; 125; 123; 123; 32; 109; 40; 120; 41; 32; 125; 125; 123; 37; 32; 115; 101; 116; 32; 121; 32; 61; 32; 109; 40; 120; 41; 32; 43; 32; 120; 32; 37; 125; 123; 123; 32; 121; 32; 125; 125; 123; 123; 32; 98; 108; 111; 99; 107; 46; 83; 117; 112; 101; 114; 32; 125; 125; 123; 37; 32; 105; 110; 99; 108; 117; 100; 101; 32; 34; 105; 110; 99; 34; 32; 119; 105; 116; 104; 32; 121; 61; 120; 32; 111; 110; 108; 121; 32; 37; 125; 123; 37; 32; 115; 112; 97; 99; 101; 108; 101; 115; 115; 32; 37; 125; 123; 123; 32; 120; 32; 125; 125; 123; 37; 32; 101; 110; 100; 115; 112; 97; 99; 101; 108; 101; 115; 115; 32; 37; 125; 123; 37; 32; 102; 105; 108; 116; 101; 114; 32; 108; 111; 119; 101; 114; 32; 37; 125; 123; 123; 32; 120; 32; 125; 125; 123; 37; 32; 101; 110; 100; 102; 105; 108; 116; 101; 114; 32; 37; 125; 123; 37; 32; 99; 121; 99; 108; 101; 32; 120; 32; 98; 108; 111; 99; 107; 46; 83; 117; 112; 101; 114; 32; 37; 125; 123; 37; 32; 101; 110; 100; 98; 108; 111; 99; 107; 32; 37; 125].
Definition e2e_world : world :=
  mkWorld [mkLoader [([98; 97; 115; 101], e2e_base); ([105; 110; 99], e2e_inc)]] false false [] [] [] [] [].

(* Part II: templates with markup.  The base template of a loader and a child given as a string *)
(* <html><body>{% block t %}<i>{{ x }}</i>{% endblock %}</body></html> *)
Definition e2m_base : str := [60; 104; 116; 109; 108; 62; 60; 98; 111; 100; 121; 62; 123; 37; 32; 98; 108; 111; 99; 107; 32; 116; 32; 37; 125; 60; 105; 62; 123; 123; 32; 120; 32; 125; 125; 60; 47; 105; 62; 123; 37; 32; 101; 110; 100; 98; 108; 111; 99; 107; 32; 37; 125; 60; 47; 98; 111; 100; 121; 62; 60; 47; 104; 116; 109; 108; 62].
(* {% extends 'mbase' %}{% block t %}{% macro m(a) %}<b class='k'>{{ a }}</b>{% endmacro %}{{ m(x) }}<p>{{ block.Super }}</p>{% filter escape %}{{ m(x) }}{% endfilter %}{% endblock %}   (with double quotes where this comment shows single ones) *)
Definition e2m_child : str :=
  [123; 37; 32; 101; 120; 116; 101; 110; 100; 115; 32; 34; 109; 98; 97; 115; 101; 34; 32; 37; 125; 123; 37; 32; 98; 108; 111; 99; 107; 32; 116; 32; 37; 125; 123; 37; 32; 109; 97; 99; 114; 111; 32; 109; 40; 97; 41; 32; 37; 125; 60; 98; 32; 99; 108; 97; 115; 115; 61; 34; 107; 34; 62; 123; 123; 32; 97; 32; 125; 125; 60; 47; 98; 62; 123; 37; 32; 101; 110; 100; 109; 97; 99; 114; 111; 32; 37; 125; 123; 123; 32; 109; 40; 120; 41; 32; 125; 125; 60; 112; 62; 123; 123; 32; 98; 108; 111; 99; 107; 46; 83; 117; 112; 101; 114; 32; 125; 125; 60; 47; 112; 62; 123; 37; 32; 102; 105; 108; 116; 101; 114; 32; 101; 115; 99; 97; 112; 101; 32; 37; 125; 123; 123; 32; 109; 40; 120; 41; 32; 125; 125; 123; 37; 32; 101; 110; 100; 102; 105; 108; 116; 101; 114; 32; 37; 125; 123; 37; 32; 101; 110; 100; 98; 108; 111; 99; 107; 32; 37; 125].
Definition e2m_world : world :=
  mkWorld [mkLoader [([109; 98; 97; 115; 101], e2m_base)]] false false [] [] [] [] [].
(* the literal texts of the two templates *)
Definition e2m_lits : list str :=
  [ [60; 104; 116; 109; 108; 62; 60; 98; 111; 100; 121; 62]   (* <html><body> *);
    [60; 47; 98; 111; 100; 121; 62; 60; 47; 104; 116; 109; 108; 62]   (* </body></html> *);
    [60; 105; 62]   (* <i> *);
    [60; 47; 105; 62]   (* </i> *);
    [60; 98; 32; 99; 108; 97; 115; 115; 61; 34; 107; 34; 62]   (* <b class='k'> *);
    [60; 47; 98; 62]   (* </b> *);
    [60; 112; 62]   (* <p> *);
    [60; 47; 112; 62]   (* </p> *) ].
Definition e2m_lit (v : str) : bool := str_in v e2m_lits.
(* a hostile x: the bytes 39 34 62 60 38, then the text script, then 62 *)
Definition e2m_ctx : list (str * cval) := [(w_x, CV (as_value (VStr ([39; 34; 62; 60; 38] ++ [115; 99; 114; 105; 112; 116; 62]))))].
