(* Vocabulary for the template-set properties (C03, C20): histories of operations on the set
   state machine of Model/SetModel.v. *)
From PV Require Import Model.SetModel.
Open Scope N_scope.

(* the final state of a history *)
Definition s_final (s : sstate) (ops : list sop) : sstate :=
  fold_left (fun st o => fst (s_step st o)) ops s.

(* the key under which FromCache stores a name (the first loader's Abs with no base) *)
Definition cache_key (name : str) : str := fsloader_abs [] name.

(* all cached stamps are older than the next fresh one *)
Definition cache_wf (s : sstate) : Prop :=
  forall k st, In (k, st) (s_cache s) -> st < s_stamp s.
