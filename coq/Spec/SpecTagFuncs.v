(* Meaning of the Go fragment of Lib/GoStmt.v, for the Execute methods of the branching tags
   (gen/TagFuncs.v is their translation, regenerated from the Go source on every run):
   tagIfNode.Execute (tags_if.go), tagFirstofNode.Execute (tags_firstof.go),
   tagIfEqualNode.Execute (tags_ifequal.go), tagIfNotEqualNode.Execute (tags_ifnotequal.go).

   The interpretation runs over a world that holds
     - the bytes the TemplateWriter has been handed so far (tw_out),
     - the model's execution state (tw_st: the frames of the *ExecutionContext, the node states),
     - the model's fuel (tw_fuel).
   What the methods call and do not define themselves is primitive, and given by the model
   (Model/Exec.v, Model/Value.v, Model/Ast.v, Model/Filters.v):
     e.Evaluate(ctx)              = [eval] of the expression e in the current state, with the current fuel:
                                    a value and a nil error (the state afterwards is the world's), or
                                    nil and an error
     v.IsTrue()                   = [is_true]
     a.EqualValueTo(b)            = [equal_value_to]
     v.String()                   = [to_string]
     e.FilterApplied(name)        = [filter_applied]
     ApplyFilter(name, v, p)      = [apply_filter_se] (p nil: the nil value)
     ctx.Autoescape               = f_auto of the top frame ([top_frame]; a state without frames is no
                                    execution context: the model's Panic 90, TStop)
     wrapper.Execute(ctx, writer) = [exec_nodes] on the wrapper's nodes, with the current fuel: the output
                                    is appended to what the writer holds, the state afterwards is the
                                    world's; nil, or an error
     writer.WriteString(s)        = s is appended to what the writer holds
   An outcome of the model that is no Go value (Unmod: outside the model; Fuel; Panic: the model's
   name for a run-time panic inside the primitive) ends the run at once: TStop, with the world as it
   is.  An error of the model (Err k) is a non-nil *Error, a Go value.

   FUEL.  The model's executor is a recursive function on a fuel counter, and it spends one unit
   where a Go loop goes round: exec_node (S f) runs the tag's code with f; exec_if and exec_firstof
   take one unit at every test of the loop head (also the last one, which finds the list exhausted).
   The interpretation does the same, so that the tie is an equality for EVERY fuel: the call of a
   translated method takes one unit, every test of a range loop's head takes one unit, and the
   primitives run the model with what is left.  Out of fuel is TStop SFuel.

   Fourth fragment (Lib/GoStmt.v): a + b and a > b on integers.  The range loop is GSRange (second
   fragment): key and value are declared in a scope of their own for every iteration, the key is the
   index; a return in the body leaves the function (continuation-passing style: the body calls the
   function's return continuation).  e[i] on a slice panics when i is out of range: TPanic.

   A method call is looked up in the translated program first (by receiver type and name), then
   among the primitives.  GEUnknown/GSUnknown give TNotUnderstood; what the meaning does not cover
   is TStuck; [d] bounds the call depth (TDepth). *)
From PV Require Import Model.Exec Lib.GoStmt.
From Coq Require Import String Ascii.
Open Scope string_scope.

(* ---------- values, world, results ---------- *)
Inductive tval :=
| TVNil
| TVBool (b : bool)
| TVInt (n : nat)
| TVStr (s : str)
| TVValue (v : value)                      (* a *Value *)
| TVExpr (e : expr)                        (* an IEvaluator *)
| TVExprs (es : list expr)                 (* []IEvaluator *)
| TVWrapper (ns : list node)               (* a *NodeWrapper: its nodes *)
| TVWrappers (ws : list (list node))       (* []*NodeWrapper *)
| TVErr (kind : N)                         (* a non-nil *Error: the model's Err kind *)
| TVCtx                                    (* the *ExecutionContext: its state is the world's *)
| TVWriter                                 (* the TemplateWriter: what it holds is the world's *)
| TVIfNode (conds : list expr) (wrappers : list (list node))                   (* *tagIfNode *)
| TVFirstofNode (args : list expr)                                             (* *tagFirstofNode *)
| TVIfEqualNode (a b : expr) (thenb : list node) (elseb : option (list node))  (* *tagIfEqualNode *)
| TVIfNotEqualNode (a b : expr) (thenb : list node) (elseb : option (list node)). (* *tagIfNotEqualNode *)

Record tworld := mkTW { tw_out : str; tw_st : mstate; tw_fuel : nat }.

(* the outcomes of the model that are not Go values *)
Inductive stop := SUnmod | SFuel | SPanic (site : N).

Inductive tf_res (A : Type) :=
| TOk (a : A)
| TStop (why : stop) (w : tworld)      (* a primitive left the model, ran out of fuel, or panicked *)
| TPanic (why : string) (w : tworld)   (* a run-time panic of the translated code itself *)
| TStuck (why : string)
| TNotUnderstood (src : string)
| TDepth.
Arguments TOk {A} a. Arguments TStop {A} why w. Arguments TPanic {A} why w. Arguments TStuck {A} why.
Arguments TNotUnderstood {A} src. Arguments TDepth {A}.

Definition tans := tf_res (list tval * tworld).
Definition tkont := list tval -> tworld -> tans.

Definition tone (k : tval -> tworld -> tans) : tkont :=
  fun vs w => match vs with [v] => k v w | _ => TStuck "single value expected" end.

Fixpoint tstr_of (s : string) : str :=
  match s with EmptyString => [] | String a r => N_of_ascii a :: tstr_of r end.

Definition t_is_nil (v : tval) : bool := match v with TVNil => true | _ => false end.

Definition set_st (w : tworld) (st : mstate) : tworld := mkTW (tw_out w) st (tw_fuel w).
Definition set_fuel (w : tworld) (f : nat) : tworld := mkTW (tw_out w) (tw_st w) f.
(* what the writer holds, and s *)
Definition out_app (a b : str) : str := (a ++ b)%list.
Definition add_out (w : tworld) (s : str) : tworld := mkTW (out_app (tw_out w) s) (tw_st w) (tw_fuel w).

(* integers and slices (named, so that proof scripts can keep them folded) *)
Definition int_add (a b : nat) : nat := (a + b)%nat.
Definition int_gt (a b : nat) : bool := Nat.ltb b a.
Definition int_eq (a b : nat) : bool := Nat.eqb a b.
Definition seq_len {A} (l : list A) : nat := List.length l.
Definition seq_index {A} (l : list A) (i : nat) : option A := nth_error l i.

(* ---------- variables: a stack of scopes, innermost first (as in Spec/SpecLoaderFuncs.v) ---------- *)
Definition tscope := list (string * tval).
Definition tenv := list tscope.

Fixpoint tscope_get (x : string) (s : tscope) : option tval :=
  match s with
  | [] => None
  | (y, v) :: r => if String.eqb x y then Some v else tscope_get x r
  end.
Fixpoint tenv_get (x : string) (e : tenv) : option tval :=
  match e with
  | [] => None
  | s :: r => match tscope_get x s with Some v => Some v | None => tenv_get x r end
  end.
Fixpoint tscope_set (x : string) (v : tval) (s : tscope) : option tscope :=
  match s with
  | [] => None
  | (y, u) :: r =>
      if String.eqb x y then Some ((y, v) :: r)
      else match tscope_set x v r with Some r' => Some ((y, u) :: r') | None => None end
  end.
Fixpoint tenv_set (x : string) (v : tval) (e : tenv) : option tenv :=
  match e with
  | [] => None
  | s :: r =>
      match tscope_set x v s with
      | Some s' => Some (s' :: r)
      | None => match tenv_set x v r with Some r' => Some (s :: r') | None => None end
      end
  end.
(* x := v : a variable of the innermost scope is assigned, otherwise declared there *)
Definition tenv_define (x : string) (v : tval) (e : tenv) : option tenv :=
  if String.eqb x "_" then Some e else
  match e with
  | [] => None
  | s :: r => match tscope_set x v s with Some s' => Some (s' :: r) | None => Some (((x, v) :: s) :: r) end
  end.
(* x = v : the innermost declaration of x is assigned *)
Definition tenv_assign (x : string) (v : tval) (e : tenv) : option tenv :=
  if String.eqb x "_" then Some e else tenv_set x v e.
Fixpoint tall_lhs (f : string -> tval -> tenv -> option tenv) (xs : list string) (vs : list tval) (e : tenv)
  : option tenv :=
  match xs, vs with
  | [], [] => Some e
  | x :: xs', v :: vs' => match f x v e with Some e' => tall_lhs f xs' vs' e' | None => None end
  | _, _ => None
  end.
Fixpoint tzip_params (xs : list string) (vs : list tval) : option tscope :=
  match xs, vs with
  | [], [] => Some []
  | x :: xs', v :: vs' => match tzip_params xs' vs' with Some s => Some ((x, v) :: s) | None => None end
  | _, _ => None
  end.

(* ---------- comparable values ---------- *)
Definition tval_eqb (a b : tval) : option bool :=
  match a, b with
  | TVBool x, TVBool y => Some (Bool.eqb x y)
  | TVInt x, TVInt y => Some (int_eq x y)
  | _, _ => None
  end.

(* ---------- interpretation ---------- *)
(* the next statement: variables, world *)
Definition tnkont := tenv -> tworld -> tans.

Definition ttype_of (v : tval) : option string :=
  match v with
  | TVIfNode _ _ => Some "tagIfNode"
  | TVFirstofNode _ => Some "tagFirstofNode"
  | TVIfEqualNode _ _ _ _ => Some "tagIfEqualNode"
  | TVIfNotEqualNode _ _ _ _ => Some "tagIfNotEqualNode"
  | _ => None
  end.
Fixpoint tfind_method (ty m : string) (prog : list gfunc) : option gfunc :=
  match prog with
  | [] => None
  | fn :: r =>
      match gf_recv fn with
      | Some (_, ty') => if (String.eqb ty ty' && String.eqb m (gf_name fn))%bool then Some fn else tfind_method ty m r
      | None => tfind_method ty m r
      end
  end.

(* for key, val := range es, over a slice of expressions.  Every test of the loop head takes one
   unit of fuel (see FUEL above).  key and val are declared in a scope of their own, which ends with
   the iteration, as the block's does.  The body gets the continuation of the next iteration; a
   return in it does not call it. *)
Fixpoint exprs_loop (bodyf : tenv -> tworld -> tnkont -> tans) (key val : string)
                    (es : list expr) (i : nat) (env : tenv) (w : tworld) (kn : tnkont) {struct es} : tans :=
  match tw_fuel w with
  | O => TStop SFuel w
  | S f =>
      match es with
      | [] => kn env (set_fuel w f)
      | e :: r =>
          match tall_lhs tenv_define [key; val] [TVInt i; TVExpr e] ([] :: env) with
          | Some env1 =>
              bodyf ([] :: env1) (set_fuel w f)
                    (fun env2 w2 => exprs_loop bodyf key val r (S i) (tl (tl env2)) w2 kn)
          | None => TStuck "range variables"
          end
      end
  end.

(* what a translated function starts with: the one scope that holds the receiver and the parameters *)
Definition tf_call_env (fn : gfunc) (recv : tval) (args : list tval) : option tenv :=
  match tzip_params (gf_params fn) args with
  | None => None
  | Some sc => Some [match gf_recv fn with Some (r, _) => (r, recv) :: sc | None => sc end]
  end.

(* an outcome of the model that is no Go value ends the run *)
Definition stop_of {A} (r : res A) : stop :=
  match r with Unmod => SUnmod | Fuel => SFuel | Panic s => SPanic s | _ => SPanic 91 end.
Definition res_of_stop {A} (s : stop) : res A :=
  match s with SUnmod => Unmod | SFuel => Fuel | SPanic n => Panic n end.

Section Interp.
  Variable se : senv.                             (* the template set, as the model's executor sees it *)
  Variable globals : list (str * cval).           (* the set's global context *)
  Variable prog : list gfunc.                     (* the translated functions *)

  Section Body.
    (* a method call one level down *)
    Variable callr : tval -> string -> list tval -> tworld -> tkont -> tans.

    Definition tfield_of (v : tval) (f : string) (w : tworld) : tf_res tval :=
      match v with
      | TVIfNode conds ws =>
          if String.eqb f "conditions" then TOk (TVExprs conds)
          else if String.eqb f "wrappers" then TOk (TVWrappers ws)
          else TStuck "a field that tagIfNode does not have"
      | TVFirstofNode args =>
          if String.eqb f "args" then TOk (TVExprs args)
          else TStuck "a field of tagFirstofNode that the execution does not read"
      | TVIfEqualNode a b t e | TVIfNotEqualNode a b t e =>
          if String.eqb f "var1" then TOk (TVExpr a)
          else if String.eqb f "var2" then TOk (TVExpr b)
          else if String.eqb f "thenWrapper" then TOk (TVWrapper t)
          else if String.eqb f "elseWrapper" then TOk (match e with Some eb => TVWrapper eb | None => TVNil end)
          else TStuck "a field that the node does not have"
      | TVCtx =>
          if String.eqb f "Autoescape" then
            match top_frame (tw_st w) with
            | Ok fr => TOk (TVBool (f_auto fr))
            | other => TStop (stop_of other) w
            end
          else TStuck "a field of ExecutionContext other than Autoescape"
      | TVNil => TPanic "nil pointer dereference" w
      | _ => TStuck "field of a value without fields"
      end.

    Definition tpkg_call (pkg fn : string) (args : list tval) (w : tworld) (k : tkont) : tans :=
      if (String.eqb pkg "" && String.eqb fn "ApplyFilter")%bool then
        match args with
        | [TVStr name; TVValue v; p] =>
            match match p with TVNil => Some (as_value VNil) | TVValue pv => Some pv | _ => None end with
            | Some pv =>
                match apply_filter_se se name v pv with
                | Ok v' => k [TVValue v'; TVNil] w
                | Err kind => k [TVNil; TVErr kind] w
                | other => TStop (stop_of other) w
                end
            | None => TStuck "ApplyFilter: parameter"
            end
        | _ => TStuck "ApplyFilter: arguments"
        end
      else TStuck "a function that is neither translated nor a primitive".

    (* an expression: its values (a call may give several) and the world afterwards go to k *)
    Fixpoint tf_eval (e : gexpr) (env : tenv) (w : tworld) (k : tkont) {struct e} : tans :=
      match e with
      | GEVar x =>
          match tenv_get x env with
          | Some v => k [v] w
          | None => TStuck "unbound variable"
          end
      | GENil => k [TVNil] w
      | GEStr s => k [TVStr (tstr_of s)] w
      | GEBool b => k [TVBool b] w
      | GEInt n => k [TVInt n] w
      | GEField e1 f =>
          tf_eval e1 env w (tone (fun v w1 =>
            match tfield_of v f w1 with
            | TOk x => k [x] w1 | TStop s w2 => TStop s w2 | TPanic s w2 => TPanic s w2 | TStuck s => TStuck s
            | TNotUnderstood s => TNotUnderstood s | TDepth => TDepth
            end))
      | GEIndex e1 i =>
          tf_eval e1 env w (tone (fun v w1 => tf_eval i env w1 (tone (fun iv w2 =>
            match v, iv with
            | TVWrappers ws, TVInt n =>
                match seq_index ws n with
                | Some x => k [TVWrapper x] w2
                | None => TPanic "index out of range" w2
                end
            | TVExprs es, TVInt n =>
                match seq_index es n with
                | Some x => k [TVExpr x] w2
                | None => TPanic "index out of range" w2
                end
            | _, _ => TStuck "index of something that is not a slice of the node"
            end))))
      | GELen e1 =>
          tf_eval e1 env w (tone (fun v w1 =>
            match v with
            | TVWrappers ws => k [TVInt (seq_len ws)] w1
            | TVExprs es => k [TVInt (seq_len es)] w1
            | _ => TStuck "len of something that is not a slice of the node"
            end))
      | GEAdd a b =>
          tf_eval a env w (tone (fun x w1 => tf_eval b env w1 (tone (fun y w2 =>
            match x, y with
            | TVInt m, TVInt n => k [TVInt (int_add m n)] w2
            | _, _ => TStuck "+ of values that are not integers"
            end))))
      | GEGt a b =>
          tf_eval a env w (tone (fun x w1 => tf_eval b env w1 (tone (fun y w2 =>
            match x, y with
            | TVInt m, TVInt n => k [TVBool (int_gt m n)] w2
            | _, _ => TStuck "> of values that are not integers"
            end))))
      | GEMethod r m args =>
          tf_eval r env w (tone (fun v w1 =>
            (fix evl (l : list gexpr) (w : tworld) (k' : tkont) {struct l} : tans :=
               match l with
               | [] => k' [] w
               | a :: rest => tf_eval a env w (tone (fun x w2 => evl rest w2 (fun xs w3 => k' (x :: xs) w3)))
               end) args w1 (fun vs w2 => callr v m vs w2 k)))
      | GECall pkg fn args =>
          (fix evl (l : list gexpr) (w : tworld) (k' : tkont) {struct l} : tans :=
             match l with
             | [] => k' [] w
             | a :: rest => tf_eval a env w (tone (fun x w2 => evl rest w2 (fun xs w3 => k' (x :: xs) w3)))
             end) args w (fun vs w1 => tpkg_call pkg fn vs w1 k)
      | GENotNil e1 => tf_eval e1 env w (tone (fun v w1 => k [TVBool (negb (t_is_nil v))] w1))
      | GEIsNil e1 => tf_eval e1 env w (tone (fun v w1 => k [TVBool (t_is_nil v)] w1))
      | GENot e1 =>
          tf_eval e1 env w (tone (fun v w1 =>
            match v with TVBool b => k [TVBool (negb b)] w1 | _ => TStuck "! of a value that is not a boolean" end))
      | GEAnd a b =>
          tf_eval a env w (tone (fun v w1 =>
            match v with
            | TVBool true => tf_eval b env w1 (tone (fun u w2 =>
                               match u with TVBool _ => k [u] w2 | _ => TStuck "&& of a value that is not a boolean" end))
            | TVBool false => k [TVBool false] w1
            | _ => TStuck "&& of a value that is not a boolean"
            end))
      | GEOr a b =>
          tf_eval a env w (tone (fun v w1 =>
            match v with
            | TVBool false => tf_eval b env w1 (tone (fun u w2 =>
                                match u with TVBool _ => k [u] w2 | _ => TStuck "|| of a value that is not a boolean" end))
            | TVBool true => k [TVBool true] w1
            | _ => TStuck "|| of a value that is not a boolean"
            end))
      | GEEq a b =>
          tf_eval a env w (tone (fun x w1 => tf_eval b env w1 (tone (fun y w2 =>
            match tval_eqb x y with Some r => k [TVBool r] w2 | None => TStuck "== of values that are not comparable here" end))))
      | GENe a b =>
          tf_eval a env w (tone (fun x w1 => tf_eval b env w1 (tone (fun y w2 =>
            match tval_eqb x y with Some r => k [TVBool (negb r)] w2 | None => TStuck "!= of values that are not comparable here" end))))
      | GEAddrStruct _ _ | GEConv _ _ | GEEmptyBytes | GEIndexOk _ _ | GEMakeMap | GEAddr _
      | GETypeAssertOk _ _ | GEAppend _ _ | GEEmptySlice _ | GERem _ _ =>
          TStuck "an expression that the tags' execution has no meaning for"
      | GEUnknown src => TNotUnderstood src
      end.

    Fixpoint tf_eval_each (es : list gexpr) (env : tenv) (w : tworld) (k : tkont) : tans :=
      match es with
      | [] => k [] w
      | a :: rest => tf_eval a env w (tone (fun x w2 => tf_eval_each rest env w2 (fun xs w3 => k (x :: xs) w3)))
      end.
    (* the right-hand side of an assignment / the operands of return: one expression that gives all
       the values (a call), or one value per expression *)
    Definition tf_eval_rhs (es : list gexpr) (env : tenv) (w : tworld) (k : tkont) : tans :=
      match es with
      | [e] => tf_eval e env w k
      | _ => tf_eval_each es env w k
      end.

    (* a statement: kn continues with the next statement, kr returns from the function *)
    Fixpoint tf_exec (s : gstmt) (env : tenv) (w : tworld) (kn : tnkont) (kr : tkont) {struct s} : tans :=
      let exl := fix exl (l : list gstmt) (env : tenv) (w : tworld) (kn' : tnkont) {struct l} : tans :=
        match l with
        | [] => kn' env w
        | s1 :: r => tf_exec s1 env w (fun env1 w1 => exl r env1 w1 kn') kr
        end in
      match s with
      | GSDefine lhs rhs =>
          tf_eval_rhs rhs env w (fun vs w1 =>
            match tall_lhs tenv_define lhs vs env with
            | Some env1 => kn env1 w1
            | None => TStuck "assignment mismatch"
            end)
      | GSAssign lhs rhs =>
          tf_eval_rhs rhs env w (fun vs w1 =>
            match tall_lhs tenv_assign lhs vs env with
            | Some env1 => kn env1 w1
            | None => TStuck "assignment mismatch or undeclared variable"
            end)
      | GSIf init c thn els =>
          (* one scope for the init statement, one for the chosen block; both end with the if *)
          exl init ([] :: env) w (fun env1 w1 =>
            tf_eval c env1 w1 (tone (fun v w2 =>
              match v with
              | TVBool b =>
                  if b then exl thn ([] :: env1) w2 (fun env2 w3 => kn (tl (tl env2)) w3)
                  else exl els ([] :: env1) w2 (fun env2 w3 => kn (tl (tl env2)) w3)
              | _ => TStuck "condition is not a boolean"
              end)))
      | GSReturn es => tf_eval_rhs es env w (fun vs w1 => kr vs w1)
      | GSExpr e => tf_eval e env w (fun _ w1 => kn env w1)
      | GSRange key val coll body =>
          tf_eval coll env w (tone (fun v w1 =>
            match v with
            | TVExprs es => exprs_loop (fun env' w' kn' => exl body env' w' kn') key val es 0 env w1 kn
            | _ => TStuck "range over a value that is not a slice of expressions"
            end))
      | GSMapStore _ _ _ | GSFieldStore _ _ _ | GSDelete _ _ | GSDefer _ | GSVar _ _ | GSRangeSet _ _ _ _
      | GSResults _ | GSBreak | GSIncField _ _ =>
          TStuck "a statement that the tags' execution has no meaning for"
      | GSUnknown src => TNotUnderstood src
      end.

    Fixpoint tf_exec_list (l : list gstmt) (env : tenv) (w : tworld) (kn : tnkont) (kr : tkont) : tans :=
      match l with
      | [] => kn env w
      | s1 :: r => tf_exec s1 env w (fun env1 w1 => tf_exec_list r env1 w1 kn kr) kr
      end.

    (* a translated function: one unit of fuel, receiver and parameters bound, the body run, the
       result count checked *)
    Definition tf_call_func (fn : gfunc) (recv : tval) (args : list tval) (w : tworld) (k : tkont) : tans :=
      match tf_call_env fn recv args with
      | None => TStuck "argument count mismatch"
      | Some env0 =>
          match tw_fuel w with
          | O => TStop SFuel w
          | S f =>
              tf_exec_list (gf_body fn) env0 (set_fuel w f)
                (fun _ w1 => if Nat.eqb (gf_nres fn) 0 then k [] w1 else TStuck "missing return")
                (fun vs w1 => if Nat.eqb (List.length vs) (gf_nres fn) then k vs w1 else TStuck "result count mismatch")
          end
      end.

    (* the primitives *)
    Definition tbuiltin (recv : tval) (m : string) (args : list tval) (w : tworld) (k : tkont) : tans :=
      match recv with
      | TVExpr e =>
          if String.eqb m "Evaluate" then
            match args with
            | [TVCtx] =>
                match eval se globals (tw_fuel w) (tw_st w) e with
                | Ok (v, st1) => k [TVValue v; TVNil] (set_st w st1)
                | Err kind => k [TVNil; TVErr kind] w
                | other => TStop (stop_of other) w
                end
            | _ => TStuck "Evaluate: argument"
            end
          else if String.eqb m "FilterApplied" then
            match args with
            | [TVStr name] => k [TVBool (filter_applied name e)] w
            | _ => TStuck "FilterApplied: argument"
            end
          else TStuck "unknown method of IEvaluator"
      | TVValue v =>
          if String.eqb m "IsTrue" then
            match args with
            | [] => k [TVBool (is_true (vv v))] w
            | _ => TStuck "IsTrue: arguments"
            end
          else if String.eqb m "String" then
            match args with
            | [] => match to_string (vv v) with
                    | Some s => k [TVStr s] w
                    | None => TStop SUnmod w
                    end
            | _ => TStuck "String: arguments"
            end
          else if String.eqb m "EqualValueTo" then
            match args with
            | [TVValue u] => match equal_value_to (vv v) (vv u) with
                             | Some b => k [TVBool b] w
                             | None => TStop SUnmod w
                             end
            | _ => TStuck "EqualValueTo: argument"
            end
          else TStuck "unknown method of Value"
      | TVWrapper ns =>
          if String.eqb m "Execute" then
            match args with
            | [TVCtx; TVWriter] =>
                let '(o, r) := exec_nodes se globals (tw_fuel w) (tw_st w) ns in
                match r with
                | Ok st1 => k [TVNil] (set_st (add_out w o) st1)
                | Err kind => k [TVErr kind] (add_out w o)
                | other => TStop (stop_of other) (add_out w o)
                end
            | _ => TStuck "NodeWrapper.Execute: arguments"
            end
          else TStuck "unknown method of NodeWrapper"
      | TVWriter =>
          if String.eqb m "WriteString" then
            match args with
            | [TVStr s] => k [TVInt (List.length s); TVNil] (add_out w s)
            | _ => TStuck "WriteString: argument"
            end
          else TStuck "unknown method of TemplateWriter"
      | TVNil => TPanic "method call on nil" w
      | _ => TStuck "a method that is neither translated nor a primitive"
      end.
  End Body.

  (* recv.m(args) in world w; the results and the world afterwards go to k.  [deeper] runs the calls
     that the called function makes. *)
  Definition tcallT := tval -> string -> list tval -> tworld -> tkont -> tans.
  Definition tf_call_step (deeper : tcallT) : tcallT :=
    fun recv m args w k =>
      match match ttype_of recv with Some ty => tfind_method ty m prog | None => None end with
      | Some fn => tf_call_func deeper fn recv args w k
      | None => tbuiltin recv m args w k
      end.
  Fixpoint tf_call (d : nat) : tcallT :=
    match d with
    | O => fun _ _ _ _ _ => TDepth
    | S d' => tf_call_step (tf_call d')
    end.

  (* the whole run of node.Execute(ctx, writer): the writer holds [o0], the state is [st], the fuel [fuel] *)
  Definition tag_execute (d : nat) (node : tval) (o0 : str) (st : mstate) (fuel : nat) : tans :=
    tf_call d node "Execute" [TVCtx; TVWriter] (mkTW o0 st fuel) (fun vs w' => TOk (vs, w')).
End Interp.

(* ---------- reading a run back ---------- *)
(* As an outcome of the model's executor: what the writer holds, and the state afterwards or the
   failure.  A run-time panic of the translated code itself (an index out of range) is read as the
   model's Panic [site] - the model numbers the places where the Go code can panic. *)
Definition read_exec (site : N) (r : tans) : option xres :=
  match r with
  | TOk ([TVNil], w) => Some (tw_out w, Ok (tw_st w))
  | TOk ([TVErr kind], w) => Some (tw_out w, Err kind)
  | TStop s w => Some (tw_out w, res_of_stop s)
  | TPanic _ w => Some (tw_out w, Panic site)
  | _ => None
  end.

(* the translated code itself panicked *)
Definition go_panics (r : tans) : bool := match r with TPanic _ _ => true | _ => false end.

(* the model's outcome, after what the writer held before *)
Definition after (o0 : str) (x : xres) : xres := (out_app o0 (fst x), snd x).

(* ---------- the shapes of an if node ---------- *)
(* what tagIfParser builds: one wrapper per condition, and one more when there is an else block *)
Definition parser_shape (conds : list expr) (ws : list (list node)) : Prop :=
  List.length ws = List.length conds \/ List.length ws = S (List.length conds).
Definition if_node_parser_shape (n : node) : bool :=
  match n with
  | NIf conds ws => (Nat.eqb (List.length ws) (List.length conds) || Nat.eqb (List.length ws) (S (List.length conds)))%bool
  | _ => false
  end.
(* the tag nodes as values of the interpretation *)
Definition tag_value (n : node) : option tval :=
  match n with
  | NIf conds ws => Some (TVIfNode conds ws)
  | NFirstof args => Some (TVFirstofNode args)
  | NIfequal false a b t e => Some (TVIfEqualNode a b t e)
  | NIfequal true a b t e => Some (TVIfNotEqualNode a b t e)
  | _ => None
  end.
