(* The abstract concurrency model the C04/C05/C12/C20 arguments need: not a model of the Go
   runtime, but threads as sequences of atomic actions on abstract locations, schedules as
   interleavings, a sequentially consistent heap, and critical sections of one lock. *)
From Coq Require Export List NArith ZArith Bool Lia.
Export ListNotations.
Open Scope N_scope.

Definition loc := N.
Definition heap := loc -> Z.
Definition upd (h : heap) (l : loc) (v : Z) : heap := fun l' => if l' =? l then v else h l'.

(* a write stores a value computed from what the thread has read so far (its local state is
   the list of values it read, newest first) *)
Inductive action :=
| Rd (l : loc)
| Wr (l : loc) (f : list Z -> Z).

Definition thread := list action.

(* one step of a thread: (heap, values read so far) *)
Definition step (hs : heap * list Z) (a : action) : heap * list Z :=
  match a with
  | Rd l => (fst hs, fst hs l :: snd hs)
  | Wr l f => (upd (fst hs) l (f (snd hs)), snd hs)
  end.
Definition run_thread (h : heap) (t : thread) : heap * list Z := fold_left step t (h, []).

(* a schedule: actions tagged with the thread that performs them *)
Definition sched := list (nat * action).
Definition proj (i : nat) (s : sched) : thread :=
  map snd (filter (fun ta => Nat.eqb (fst ta) i) s).

(* running a schedule: each thread has its own read history *)
Definition locals := nat -> list Z.
Definition updl (ls : locals) (i : nat) (v : list Z) : locals := fun j => if Nat.eqb j i then v else ls j.
Definition sstep (st : heap * locals) (ta : nat * action) : heap * locals :=
  let '(h, ls) := st in
  let '(i, a) := ta in
  let '(h', l') := step (h, ls i) a in
  (h', updl ls i l').
Definition run_sched (h : heap) (s : sched) : heap * locals := fold_left sstep s (h, fun _ => []).

Definition writes_of (t : thread) : list loc :=
  flat_map (fun a => match a with Wr l _ => [l] | Rd _ => [] end) t.
Definition reads_of (t : thread) : list loc :=
  flat_map (fun a => match a with Rd l => [l] | Wr _ _ => [] end) t.
Definition touches (t : thread) : list loc := writes_of t ++ reads_of t.

(* no thread writes a location another thread reads or writes *)
Definition isolated (s : sched) : Prop :=
  forall i j l, i <> j -> In l (writes_of (proj i s)) -> ~ In l (touches (proj j s)).

(* a data race: two adjacent actions of different threads on the same location, one a write *)
Definition conflict (a b : action) : Prop :=
  match a, b with
  | Wr l _, Wr l' _ | Wr l _, Rd l' | Rd l, Wr l' _ => l = l'
  | Rd _, Rd _ => False
  end.
Definition has_race (s : sched) : Prop :=
  exists s1 i a j b s2, s = s1 ++ (i, a) :: (j, b) :: s2 /\ i <> j /\ conflict a b.

(* critical sections: an operation is a state transformer executed atomically under the lock *)
Definition op (S R : Type) := S -> S * R.
Fixpoint run_ops {S R} (ops : list (op S R)) (s : S) : S * list R :=
  match ops with
  | [] => (s, [])
  | o :: rest => let '(s1, r) := o s in let '(s2, rs) := run_ops rest s1 in (s2, r :: rs)
  end.
