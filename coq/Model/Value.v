(* pongo2's Value (value.go) over a small universe of Go values: nil, bool, int, float64,
   string, slices, maps with string keys, structs with exported fields.  A [value] is a
   [val] with the `safe` bit.  Operations on kinds outside the universe, or whose result
   depends on Go type names, are [None]/[Unmod]. *)
From PV Require Export Lib.Bytes Lib.Utf8 Lib.GoInt Lib.GoFloat Lib.Outcome.
Open Scope N_scope.

Inductive val :=
| VNil
| VBool (b : bool)
| VInt (z : Z)
| VFloat (f : float)
| VStr (s : str)
| VList (l : list val)
| VMap (m : list (str * val))       (* map[string]T; entries kept sorted by key *)
| VStruct (m : list (str * val)).   (* exported fields in declaration order *)

Record value := mkV { vv : val; vsafe : bool }.
Definition as_value (v : val) : value := mkV v false.
Definition as_safe_value (v : val) : value := mkV v true.

Definition is_string (v : val) : bool := match v with VStr _ => true | _ => false end.
Definition is_bool (v : val) : bool := match v with VBool _ => true | _ => false end.
Definition is_float (v : val) : bool := match v with VFloat _ => true | _ => false end.
Definition is_integer (v : val) : bool := match v with VInt _ => true | _ => false end.
Definition is_number (v : val) : bool := is_integer v || is_float v.
Definition is_nil (v : val) : bool := match v with VNil => true | _ => false end.

(* strconv.ParseFloat on the strings the model covers.
   None = outside the modelled syntax; Some None = syntax error; Some (Some f) = value *)
Definition is_dig (b : N) : bool := (48 <=? b) && (b <=? 57).
Fixpoint span_b (p : N -> bool) (s : str) : str * str :=
  match s with
  | [] => ([], [])
  | b :: s' => if p b then let '(t, r) := span_b p s' in (b :: t, r) else ([], s)
  end.
Definition parse_float_str (s : str) : option (option float) :=
  let '(neg, body) := match s with
                      | 45 :: r => (true, r)
                      | 43 :: r => (false, r)
                      | _ => (false, s)
                      end in
  let '(ip, r1) := span_b is_dig body in
  let '(fp, r2, dot) := match r1 with
                        | 46 :: r => let '(f, r') := span_b is_dig r in (f, r', true)
                        | _ => ([], r1, false)
                        end in
  match r2 with
  | [] =>
      match ip, fp with
      | [], [] => Some None                       (* "", "-", ".", "+." : syntax error *)
      | _, _ =>
          match parse_decimal ip fp with
          | Some f => Some (Some (if neg then f_neg f else f))
          | None => None
          end
      end
  | c :: _ =>
      (* something else follows: a syntax error unless it could be an exponent, hex, inf,
         nan or underscore form - those are not modelled *)
      let has_digit := existsb is_dig s in
      let lower := if is_upper c then c + 32 else c in
      if has_digit || (lower =? 105) || (lower =? 110) then None else Some None
  end.

(* Value.String(); None for kinds whose rendering contains a Go type name *)
Definition to_string (v : val) : option str :=
  match v with
  | VNil => Some []
  | VBool true => Some [84; 114; 117; 101]
  | VBool false => Some [70; 97; 108; 115; 101]
  | VInt z => Some (itoa z)
  | VFloat f => Some (format6 f)
  | VStr s => Some s
  | _ => None
  end.

(* Value.Integer() *)
Definition to_integer (v : val) : option Z :=
  match v with
  | VInt z => Some z
  | VFloat f => Some (f_to_int f)
  | VStr s => match parse_float_str s with
              | None => None
              | Some None => Some 0%Z
              | Some (Some f) => Some (f_to_int f)
              end
  | _ => Some 0%Z
  end.

(* Value.Float() *)
Definition to_float (v : val) : option float :=
  match v with
  | VInt z => Some (f_of_int z)
  | VFloat f => Some f
  | VStr s => match parse_float_str s with
              | None => None
              | Some None => Some f_zero
              | Some (Some f) => Some f
              end
  | _ => Some f_zero
  end.

Definition to_bool (v : val) : bool := match v with VBool b => b | _ => false end.

(* Value.IsTrue() *)
Definition is_true (v : val) : bool :=
  match v with
  | VInt z => negb (z =? 0)%Z
  | VFloat f => negb (f_is_zero f) 
  | VStr s => negb (Nat.eqb (length s) 0)
  | VList l => negb (Nat.eqb (length l) 0)
  | VMap m => negb (Nat.eqb (length m) 0)
  | VBool b => b
  | VStruct _ => true
  | VNil => false
  end.

(* Value.Negate() *)
Definition f_one_one : float := f_div (f_of_int 11) (f_of_int 10).   (* the literal 1.1 *)
Definition negate (v : val) : val :=
  match v with
  | VInt z => if (z =? 0)%Z then VInt 1 else VInt 0
  | VFloat f => if f_is_zero f then VFloat f_one_one else VFloat f_zero
  | VStr s => VBool (Nat.eqb (length s) 0)
  | VList l => VBool (Nat.eqb (length l) 0)
  | VMap m => VBool (Nat.eqb (length m) 0)
  | VBool b => VBool (negb b)
  | VStruct _ => VBool false
  | VNil => VBool true
  end.

(* Value.Len() *)
Definition val_len (v : val) : Z :=
  match v with
  | VList l => Z.of_nat (length l)
  | VMap m => Z.of_nat (length m)
  | VStr s => Z.of_nat (length (runes s))
  | _ => 0%Z
  end.

Definition can_slice (v : val) : bool :=
  match v with VList _ | VStr _ => true | _ => false end.

(* Value.Index(i): reflect's Index panics on a negative index *)
Definition val_index (v : val) (i : Z) : res val :=
  match v with
  | VList l =>
      if (Z.of_nat (length l) <=? i)%Z then Ok VNil
      else if (i <? 0)%Z then Panic 1
      else Ok (nth (Z.to_nat i) l VNil)
  | VStr s =>
      let rs := runes s in
      if (i <? 0)%Z then Panic 2
      else if (i <? Z.of_nat (length rs))%Z then Ok (VStr (encode_rune (nth (Z.to_nat i) rs 0)))
      else Ok (VStr [])
  | _ => Unmod      (* AsValue([]int{}) *)
  end.

(* Value.Slice(i, j): Go panics unless 0 <= i <= j <= len *)
Definition slice_list {A} (l : list A) (i j : nat) : list A := firstn (j - i) (skipn i l).
Definition val_slice (v : val) (i j : Z) : res val :=
  match v with
  | VList l =>
      if ((0 <=? i) && (i <=? j) && (j <=? Z.of_nat (length l)))%Z
      then Ok (VList (slice_list l (Z.to_nat i) (Z.to_nat j))) else Panic 3
  | VStr s =>
      let rs := runes s in
      if ((0 <=? i) && (i <=? j) && (j <=? Z.of_nat (length rs)))%Z
      then Ok (VStr (of_runes (slice_list rs (Z.to_nat i) (Z.to_nat j)))) else Panic 4
  | _ => Unmod
  end.

(* Value.EqualValueTo: integers by value; otherwise same dynamic type, comparable, equal *)
Definition equal_value_to (a b : val) : option bool :=
  match a, b with
  | VInt x, VInt y => Some (x =? y)%Z
  | VNil, _ | _, VNil => Some false
  | VBool x, VBool y => Some (Bool.eqb x y)
  | VStr x, VStr y => Some (str_eqb x y)
  | VFloat x, VFloat y => Some (f_eqb x y)
  | VList _, _ | _, VList _ | VMap _, _ | _, VMap _ => Some false   (* not comparable / other type *)
  | VStruct _, _ | _, VStruct _ => None
  | _, _ => Some false                                         (* different dynamic types *)
  end.

Fixpoint assoc_get {A} (k : str) (m : list (str * A)) : option A :=
  match m with
  | [] => None
  | (k', v) :: m' => if str_eqb k k' then Some v else assoc_get k m'
  end.

(* Value.Contains: does [v] contain [other] *)
Definition val_contains (v other : val) : option bool :=
  match v with
  | VStruct m =>
      match to_string other with
      | Some k => Some (match assoc_get k m with Some _ => true | None => false end)
      | None => None
      end
  | VMap m =>
      match other with
      | VStr k => Some (match assoc_get k m with Some _ => true | None => false end)
      | _ => Some false          (* invalid, or key type differs from string *)
      end
  | VStr s =>
      match to_string other with
      | Some o => Some (contains o s)
      | None => None
      end
  | VList l =>
      fold_right (fun item acc =>
                    match equal_value_to other item, acc with
                    | Some true, _ => Some true
                    | Some false, r => r
                    | None, _ => None
                    end) (Some false) l
  | _ => Some false
  end.

(* byte-wise string order, as Go's < on strings *)
Fixpoint str_ltb (a b : str) : bool :=
  match a, b with
  | [], [] => false
  | [], _ :: _ => true
  | _ :: _, [] => false
  | x :: a', y :: b' => if x <? y then true else if y <? x then false else str_ltb a' b'
  end.

(* valuesList.Less / sortedKeys.Less; None if String() of an operand is not modelled *)
Definition val_less (a b : val) : option bool :=
  match a, b with
  | VInt x, VInt y => Some (x <? y)%Z
  | VFloat x, VFloat y => Some (f_ltb x y)
  | _, _ => match to_string a, to_string b with
            | Some x, Some y => Some (str_ltb x y)
            | _, _ => None
            end
  end.

(* sort.Sort is not stable and Less is not a total order on mixed kinds: the model sorts
   only lists that are all ints or all strings (insertion sort; equal items are
   indistinguishable there) *)
Definition homogeneous (l : list val) : bool :=
  forallb is_integer l || forallb is_string l.
Fixpoint insert_sorted (x : val) (l : list val) : list val :=
  match l with
  | [] => [x]
  | y :: l' => match val_less y x with
               | Some true => y :: insert_sorted x l'
               | _ => x :: l
               end
  end.
Definition sort_vals (l : list val) : option (list val) :=
  if homogeneous l then Some (fold_right insert_sorted [] l) else None.
