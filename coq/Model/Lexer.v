(* The lexer of lexer.go, suffix-style: [rest] is input[pos:], [pend] the reversed bytes of
   input[start:pos], (sl,sc) = (startline,startcol), (l,c) = (line,col).

   Stepping is byte-wise where Go steps rune-wise: every lexer-significant character is
   ASCII, the bytes of a valid multi-byte rune are all >= 0x80, and an invalid byte is
   consumed with width 1, so both visit the same delimiter positions and add the same
   total to [col] (the correspondence run exercises multi-byte and invalid text).

   Tables (symbols, keywords, character classes) come from gen/Tables.v. *)
From PV Require Export Lib.Bytes Lib.GoInt.
From PV Require Import gen.Tables.
Open Scope N_scope.

Inductive toktyp := TError | TEOF | THTML | TKeyword | TIdentifier | TString | TNumber | TSymbol | TNil.

Record token := mkTok { ttyp : toktyp; tval : str; tline : Z; tcol : Z; ttrim : bool }.

Inductive lexerr := LexErr (line col : Z) (msg : N).
(* msg: 1 comment not closed, 2 newline in comment, 3 newline in tag, 4 unknown escape,
   5 string not closed, 6 newline in string, 7 verbatim not closed *)

Inductive lexres := LexOk (toks : list token) | LexFail (e : lexerr) | LexFuel.

Definition s_verbatim_start : str :=   (* "{% verbatim %}" *)
  [123; 37; 32; 118; 101; 114; 98; 97; 116; 105; 109; 32; 37; 125].
Definition s_verbatim_end : str :=     (* "{% endverbatim %}" *)
  [123; 37; 32; 101; 110; 100; 118; 101; 114; 98; 97; 116; 105; 109; 32; 37; 125].
Definition s_comment_open : str := [123; 35].   (* {# *)
Definition s_comment_close : str := [35; 125].  (* #} *)
Definition s_var_open : str := [123; 123].      (* {{ *)
Definition s_tag_open : str := [123; 37].       (* {% *)

Definition zlen (s : str) : Z := Z.of_nat (length s).

(* emit: the token value is input[start:pos] = rev pend *)
Definition unescape_string (v : str) : str :=
  replace_go [92; 92] [92] 0 (replace_go [92; 34] [34] 0 v).

Definition is_trim_symbol (v : str) : bool :=
  (Nat.eqb (length v) 3) && (has_suffix v [45] || is_prefix [45] v).

Definition mk_token (t : toktyp) (v : str) (sl sc : Z) : token :=
  match t with
  | TString => mkTok t (unescape_string v) sl sc false
  | TSymbol => if is_trim_symbol v
               then mkTok t (replace_go [45] [] 0 v) sl sc true
               else mkTok t v sl sc false
  | _ => mkTok t v sl sc false
  end.

(* if l.pos > l.start { l.emit(TokenHTML) } *)
Definition flush_html (pend : str) (sl sc : Z) (acc : list token) : list token :=
  match pend with
  | [] => acc
  | _ => mk_token THTML (rev pend) sl sc :: acc
  end.

(* the {# ... #} loop, entered just after "{#"; returns the rest after "#}" and the column *)
Inductive comment_res := CDone (rest : str) (c : Z) | CEof | CNewline.
Fixpoint comment_go (rest : str) (c : Z) : comment_res :=
  match rest with
  | [] => CEof
  | b :: rest' =>
      if b =? 10 then CNewline
      else if is_prefix s_comment_close rest then CDone (skipn 2 rest) (c + 2)
      else comment_go rest' (c + 1)
  end.

(* acceptRun *)
Fixpoint span (p : N -> bool) (s : str) : str * str :=
  match s with
  | [] => ([], [])
  | b :: s' => if p b then let '(t, r) := span p s' in (b :: t, r) else ([], s)
  end.

Definition in_set (set : str) (b : N) : bool := mem_byte b set.

(* first symbol of the table that is a prefix of the input, in table order *)
Fixpoint find_symbol (tbl : list str) (s : str) : option str :=
  match tbl with
  | [] => None
  | sym :: tbl' => if is_prefix sym s then Some sym else find_symbol tbl' s
  end.

Definition is_closer (sym : str) : bool :=
  str_eqb sym [37; 125] || str_eqb sym [45; 37; 125] || str_eqb sym [125; 125] || str_eqb sym [45; 125; 125].

(* stateString, after the opening quote [q] has been consumed: scans to the closing quote.
   [body] is the reversed content so far; returns content, rest after the closing quote,
   and the number of bytes consumed including the closing quote. *)
Inductive string_res := SDone (content rest : str) (consumed : Z) | SErr (msg : N).
Fixpoint string_go (q : N) (rest : str) (body : str) (n : Z) (skip : bool) : string_res :=
  match rest with
  | [] => if skip then SErr 4 else SErr 5
  | b :: rest' =>
      if skip then
        (* the byte after a backslash *)
        (if (b =? 34) || (b =? 92) then string_go q rest' (b :: body) (n + 1) false else SErr 4)
      else if b =? q then SDone (rev body) rest' (n + 1)
      else if b =? 92 then string_go q rest' (b :: body) (n + 1) true
      else if b =? 10 then SErr 6
      else string_go q rest' (b :: body) (n + 1) false
  end.

(* stateCode and the states it dispatches to; returns to [run] with the remaining input.
   Line never changes inside a tag (a newline is an error). *)
Inductive code_res := CodeOk (rest : str) (c : Z) (acc : list token) | CodeErr (e : lexerr) (acc : list token) | CodeFuel.

Definition classify_ident (v : str) : toktyp :=
  if existsb (str_eqb v) token_keywords then TKeyword else TIdentifier.

Fixpoint code_go (fuel : nat) (rest : str) (l c : Z) (acc : list token) : code_res :=
  match fuel with
  | O => CodeFuel
  | S f =>
      match rest with
      | [] => CodeOk rest c acc
      | b :: rest' =>
          if in_set token_space_chars b then
            (if b =? 10 then CodeErr (LexErr l c 3) acc else code_go f rest' l (c + 1) acc)
          else if in_set token_ident_chars b then
            let '(t1, r1) := span (in_set token_ident_chars) rest' in
            let '(t2, r2) := span (in_set token_ident_chars_digits) r1 in
            let v := b :: t1 ++ t2 in
            code_go f r2 l (c + zlen v) (mk_token (classify_ident v) v l c :: acc)
          else if in_set token_digits b then
            let '(t1, r1) := span (in_set token_digits) rest' in
            match r1 with
            | d :: r1' =>
                if in_set token_ident_chars_digits d then
                  (* identifier starting with digits: stateIdentifier() *)
                  let '(t2, r2) := span (in_set token_ident_chars) r1' in
                  let '(t3, r3) := span (in_set token_ident_chars_digits) r2 in
                  let v := b :: t1 ++ d :: t2 ++ t3 in
                  code_go f r3 l (c + zlen v) (mk_token (classify_ident v) v l c :: acc)
                else
                  let v := b :: t1 in
                  code_go f r1 l (c + zlen v) (mk_token TNumber v l c :: acc)
            | [] =>
                let v := b :: t1 in
                code_go f r1 l (c + zlen v) (mk_token TNumber v l c :: acc)
            end
          else if (b =? 34) || (b =? 39) then
            match string_go b rest' [] 0 false with
            | SErr m => CodeErr (LexErr l c m) acc
            | SDone content r n => code_go f r l (c + 1 + n) (mk_token TString content l c :: acc)
            end
          else
            match find_symbol token_symbols rest with
            | None => CodeOk rest c acc           (* unmatched byte: tokenisation ends silently *)
            | Some sym =>
                let acc' := mk_token TSymbol sym l c :: acc in
                let r := skipn (length sym) rest in
                if is_closer sym then CodeOk r (c + zlen sym) acc'
                else code_go f r l (c + zlen sym) acc'
            end
      end
  end.

(* the run loop *)
Fixpoint run (fuel : nat) (verb : bool) (rest pend : str) (sl sc l c : Z) (acc : list token) : lexres :=
  match fuel with
  | O => LexFuel
  | S f =>
      let step_char (_ : unit) :=
        match rest with
        | [] =>
            (* l.next() == eofRune: leave the loop *)
            let acc' := flush_html pend sl sc acc in
            if verb then
              (* errorf after the final emit: start = pos *)
              (match pend with
               | [] => LexFail (LexErr sl sc 7)
               | _ => LexFail (LexErr l c 7)
               end)
            else LexOk (rev acc')
        | b :: rest' =>
            if b =? 10 then run f verb rest' (b :: pend) sl sc (l + 1) 1 acc
            else run f verb rest' (b :: pend) sl sc l (c + 1) acc
        end in
      if verb then
        if is_prefix s_verbatim_end rest then
          let acc' := flush_html pend sl sc acc in
          let w := zlen s_verbatim_end in
          run f false (skipn (length s_verbatim_end) rest) [] l (c + w) l (c + w) acc'
        else step_char tt
      else if is_prefix s_verbatim_start rest then
        let acc' := flush_html pend sl sc acc in
        let w := zlen s_verbatim_start in
        run f true (skipn (length s_verbatim_start) rest) [] l (c + w) l (c + w) acc'
      else if is_prefix s_comment_open rest then
        let acc' := flush_html pend sl sc acc in
        (* after the flush (or when nothing was pending) start = pos *)
        let '(el, ec) := match pend with [] => (sl, sc) | _ => (l, c) end in
        match comment_go (skipn 2 rest) (c + 2) with
        | CEof => LexFail (LexErr el ec 1)
        | CNewline => LexFail (LexErr el ec 2)
        | CDone r c' => run f false r [] l c' l c' acc'
        end
      else if is_prefix s_var_open rest || is_prefix s_tag_open rest then
        let acc' := flush_html pend sl sc acc in
        match code_go (length rest + 1) rest l c acc' with
        | CodeFuel => LexFuel
        | CodeErr e _ => LexFail e
        | CodeOk r c' acc'' => run f false r [] l c' l c' acc''
        end
      else step_char tt
  end.

Definition lex_fuel (s : str) : nat := length s + 2.
Definition lex (s : str) : lexres := run (lex_fuel s) false s [] 1 1 1 1 [].
